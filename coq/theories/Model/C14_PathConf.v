(* Model of conf.FindPathConf and conf.IsValidPathName (internal/conf/path.go). Executable; no proofs here.

   A set of path configurations is an association list (key, payload) - the Go map `pathConfs` in some
   iteration order. Path.validate sets, for the entry stored under key k: Name := k and
   Regexp := non-nil iff k = "all" / "all_others" / k begins with '~'  (is_regex_key).
   The regexp engine is an oracle: m k n = Regexp(k).FindStringSubmatch(n). *)
From Coq Require Import List ZArith Bool.
Import ListNotations.
Local Open Scope Z_scope.

Definition str := list Z.   (* byte values *)

Fixpoint str_eqb (a b : str) : bool :=
  match a, b with
  | [], [] => true
  | x :: a', y :: b' => (x =? y) && str_eqb a' b'
  | _, _ => false
  end.

(* Go's `<` on strings: byte-wise lexicographic *)
Fixpoint str_ltb (a b : str) : bool :=
  match a, b with
  | _, [] => false
  | [], _ :: _ => true
  | x :: a', y :: b' => if x <? y then true else if y <? x then false else str_ltb a' b'
  end.

Definition s_all : str := [97; 108; 108].
Definition s_all_others : str := [97; 108; 108; 95; 111; 116; 104; 101; 114; 115].

Definition is_catch_all (k : str) : bool := str_eqb k s_all || str_eqb k s_all_others.

(* Path.validate: which keys get a Regexp *)
Definition is_regex_key (k : str) : bool :=
  is_catch_all k || match k with 126 :: _ => true | _ => false end.

(* the comparator given to sort.Slice in FindPathConf, on the Name fields *)
Definition conf_less (a b : str) : bool :=
  if is_catch_all a then false
  else if is_catch_all b then true
  else str_ltb a b.

(* ---- IsValidPathName ---- *)
Definition name_char (c : Z) : bool :=
  ((48 <=? c) && (c <=? 57)) || ((97 <=? c) && (c <=? 122)) || ((65 <=? c) && (c <=? 90))
  || (c =? 95) || (c =? 45) || (c =? 47) || (c =? 46).

(* strings.Split(name, "/") *)
Fixpoint split_slash (cur : str) (s : str) : list str :=
  match s with
  | [] => [rev cur]
  | c :: r => if c =? 47 then rev cur :: split_slash [] r else split_slash (c :: cur) r
  end.

Definition dot_segment (seg : str) : bool := str_eqb seg [46] || str_eqb seg [46; 46].

Definition valid_name (n : str) : bool :=
  match n with
  | [] => false
  | c :: _ =>
      negb (c =? 47) && negb (last n 0 =? 47) && forallb name_char n
      && negb (existsb dot_segment (split_slash [] n))
  end.

Section Find.
  Context {C : Type}.
  Variable m : str -> str -> option (list str).

  Inductive result :=
  | Found (key : str) (c : C) (groups : list str)   (* groups = [] for a static hit (Go: nil) *)
  | ErrInvalid
  | ErrNotConfigured.

  Fixpoint lookup (cs : list (str * C)) (n : str) : option C :=
    match cs with
    | [] => None
    | (k, c) :: r => if str_eqb k n then Some c else lookup r n
    end.

  (* sort.Slice modelled as insertion sort with the comparator (Proofs: any sorted permutation gives the same answer) *)
  Fixpoint insert (x : str * C) (l : list (str * C)) : list (str * C) :=
    match l with
    | [] => [x]
    | y :: r => if conf_less (fst x) (fst y) then x :: y :: r else y :: insert x r
    end.

  Definition sort_confs (l : list (str * C)) : list (str * C) := fold_right insert [] l.

  Definition regex_confs (cs : list (str * C)) : list (str * C) :=
    filter (fun e => is_regex_key (fst e)) cs.

  Fixpoint first_match (l : list (str * C)) (n : str) : option (str * C * list str) :=
    match l with
    | [] => None
    | (k, c) :: r => match m k n with
                     | Some g => Some (k, c, g)
                     | None => first_match r n
                     end
    end.

  Definition find (cs : list (str * C)) (n : str) : result :=
    match lookup cs n with
    | Some c => Found n c []
    | None =>
        if valid_name n then
          match first_match (sort_confs (regex_confs cs)) n with
          | Some (k, c, g) => Found k c g
          | None => ErrNotConfigured
          end
        else ErrInvalid
    end.
End Find.

Arguments result : clear implicits.
