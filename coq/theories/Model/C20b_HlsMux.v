(* C20b, HLS front end at the level of one path's muxer: WHICH sessions the muxer can still reach.

   Model/C20b_SessionHooks.v (`hl_step`) follows ONE hls session and takes for granted that the muxer / server goroutines
   reach it (HRemove / HDestroy / HKick happen).  That is exactly what a muxer-level edit can break: close2() - the only
   caller of session.onUnreadHook - is invoked on the sessions found in muxer.sessionsBySecret and muxer.cdnSession, so a
   session that leaves these two places without close2() keeps its runOnRead pair open for ever (and stays a reader of
   the path), whatever happens to the muxer and the server afterwards.

   internal/servers/hls/http_server.go (onRequest, multivariant playlist), session.go (initialize), muxer.go:
     MArrive cdn   - a request for <path>/index.m3u8 reaches the handler: request number = m_nxt.  A CDN request
                     (Authorization: Bearer <hlsCDNSecret>) that finds muxer.getCDNSession() != nil is served through the
                     existing session; every other request decides to create a session and calls session.initialize,
                     which blocks in pathManager.AddReader (the path manager answers when it wants to: requests that
                     arrived one after the other may proceed in any order, and several CDN requests may all have seen
                     "no CDN session yet").
     MProceed r ok - AddReader answers request r; ok = the session is accepted (getMuxer + muxer.addSession succeed;
                     oracle: shipped by the driver = the request was answered with 200).  addSession registers the session
                     (CDN: closes the session that occupies muxer.cdnSession, then takes its place; ordinary:
                     sessionsBySecret[secret]), then initialize assigns onUnreadHook = hooks.OnRead(..)  [HStart].
     MExpire ids   - the session cleanup ticker finds these sessions idle: removed + close2 ("inactive").
     MKick id      - Server.APISessionsKick: removed + close2 ("kicked").
     MCloseAll     - every way the muxer drops all sessions: "muxer instance crashed" (always-remux muxer), "muxer
                     destroyed" (muxer.Close by PathNotReady / Server.Close, not used any more, instance failure of a
                     client-requested muxer).  A muxer created afterwards for the same path starts empty.
   `rp` = addSession closes the CDN session it replaces (true: the code; false: the variant refuted in Proofs).
   Events are (request number of the session, HStart | HStop).  Sessions are never reached between addSession and the
   assignment of the hook here (guard of C20b_hls_reader_pairs_partial; the driver does not force that race). *)
From Coq Require Import List Bool Arith.
Require Import MTX.Lib.Trace MTX.Model.C20b_SessionHooks.
Import ListNotations.

Module HX.

Inductive mop :=
| MArrive (cdn : bool)
| MProceed (r : nat) (ok : bool)
| MExpire (ids : list nat)
| MKick (id : nat)
| MCloseAll.

Record mst := mk_mst { m_nxt : nat; m_pend : list (nat * bool); m_cdn : option nat; m_reg : list nat }.
Definition mst0 : mst := mk_mst 0 [] None [].

Definition memb (i : nat) (l : list nat) : bool := existsb (Nat.eqb i) l.

Definition cdn_sel (sel : nat -> bool) (c : option nat) : bool :=
  match c with Some i => sel i | None => false end.

(* close2 on the registered sessions selected by `sel` (sessionsBySecret first, cdnSession last, as in muxer.go; the
   order among sessionsBySecret is Go's map order: the check compares per session) *)
Definition close_sel (sel : nat -> bool) (st : mst) : mst * list (nat * hev) :=
  (mk_mst (m_nxt st) (m_pend st)
          (if cdn_sel sel (m_cdn st) then None else m_cdn st)
          (filter (fun i => negb (sel i)) (m_reg st)),
   map (fun i => (i, HStop))
       (filter sel (m_reg st) ++ match m_cdn st with Some c => if sel c then [c] else [] | None => [] end)).

Definition pend_find (r : nat) (p : list (nat * bool)) : option bool :=
  match find (fun x => Nat.eqb (fst x) r) p with Some x => Some (snd x) | None => None end.
Definition pend_del (r : nat) (p : list (nat * bool)) : list (nat * bool) :=
  filter (fun x => negb (Nat.eqb (fst x) r)) p.

Definition step (rp : bool) (st : mst) (o : mop) : mst * list (nat * hev) :=
  match o with
  | MArrive c =>
      let reuse := c && match m_cdn st with Some _ => true | None => false end in
      (mk_mst (S (m_nxt st)) (if reuse then m_pend st else (m_nxt st, c) :: m_pend st) (m_cdn st) (m_reg st), [])
  | MProceed r ok =>
      match pend_find r (m_pend st) with
      | None => (st, [])
      | Some c =>
          let p' := pend_del r (m_pend st) in
          if ok
          then if c
               then (mk_mst (m_nxt st) p' (Some r) (m_reg st),
                     match m_cdn st with Some o => if rp then [(o, HStop)] else [] | None => [] end ++ [(r, HStart)])
               else (mk_mst (m_nxt st) p' (m_cdn st) (r :: m_reg st), [(r, HStart)])
          else (mk_mst (m_nxt st) p' (m_cdn st) (m_reg st), [])
      end
  | MExpire ids => close_sel (fun i => memb i ids) st
  | MKick id => close_sel (Nat.eqb id) st
  | MCloseAll => close_sel (fun _ => true) st
  end.

Definition mtrace (rp : bool) (ops : list mop) : list (nat * hev) := trace (step rp) mst0 ops.
Definition mfinal (rp : bool) (ops : list mop) : mst := final (step rp) mst0 ops.

(* the calls that concern session s *)
Definition proj (s : nat) (t : list (nat * hev)) : list hev := map snd (filter (fun e => Nat.eqb (fst e) s) t).

(* the muxer can reach session s *)
Definition reach (st : mst) (s : nat) : bool := cdn_sel (Nat.eqb s) (m_cdn st) || memb s (m_reg st).

End HX.
