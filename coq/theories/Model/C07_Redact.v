(* Model of api.redactCredentials (internal/api/api.go) over the heap universe of Lib/Heap.v,
   on top of C11's model of conf.Conf.Clone (deep_clone true = the repaired deepClone).
   Executable; no proofs here.

     func redactCredentials(c *conf.Conf) *conf.Conf {
       c = c.Clone()
       for i := range c.AuthInternalUsers { if c.AuthInternalUsers[i].Pass != "" { ...Pass = "<redacted>" } }
       if c.PathDefaults.PublishPass != nil && *c.PathDefaults.PublishPass != "" { *... = "<redacted>" }   (same for ReadPass)
       for _, pathConf := range c.Paths { the same two tests on pathConf.PublishPass / pathConf.ReadPass }
       return c }

   The configuration is projected on what the function touches:
     root  = VStruct [ users ; pathDefaults ; paths ]
     users = slice header -> cell of  VStruct [ User ; Pass ]            (AuthInternalUsers)
     pathDefaults = VStruct [ PublishPass ; ReadPass ]   each a *Credential: pointer header -> cell [ scalar ]
     paths = map header -> cell of pointer headers -> cell [ VStruct [ PublishPass ; ReadPass ] ]
   Strings are opaque scalar tokens: 0 = "" , 1 = "<redacted>", anything else = some other string. *)
From Coq Require Import List ZArith Bool.
Require Import MTX.Lib.Heap MTX.Model.C11_Clone.
Import ListNotations.
Local Open Scope Z_scope.

Definition tok_empty : Z := 0.
Definition tok_redacted : Z := 1.

(* a password slot: the scalar at element [s_elem] of cell [s_addr], either the element itself
   ([s_fld] = None: the pointee of a *Credential) or field j of a struct element (a user's Pass) *)
Record slot := mkSlot { s_addr : addr; s_elem : nat; s_fld : option nat }.

Definition slot_get (h : heap) (s : slot) : option Z :=
  match nth_error h (s_addr s) with
  | Some c =>
      match nth_error c (s_elem s), s_fld s with
      | Some (VScalar z), None => Some z
      | Some (VStruct fs), Some j => match nth_error fs j with Some (_, VScalar z) => Some z | _ => None end
      | _, _ => None
      end
  | None => None
  end.

Fixpoint set_nth {A} (l : list A) (i : nat) (x : A) : list A :=
  match l, i with
  | [], _ => []
  | _ :: t, O => x :: t
  | y :: t, S k => y :: set_nth t k x
  end.

(* assignment of a string to the slot *)
Definition slot_set (h : heap) (s : slot) (z : Z) : heap :=
  match nth_error h (s_addr s) with
  | Some c =>
      match nth_error c (s_elem s), s_fld s with
      | Some (VScalar _), None => write h (s_addr s) (set_nth c (s_elem s) (VScalar z))
      | Some (VStruct fs), Some j =>
          match nth_error fs j with
          | Some (b, VScalar _) => write h (s_addr s) (set_nth c (s_elem s) (VStruct (set_nth fs j (b, VScalar z))))
          | _ => h
          end
      | _, _ => h
      end
  | None => h
  end.

(* the password slots of a configuration value, in the order the code visits them *)
Definition ptr_slot (v : value) : list slot :=
  match v with VRef KPtr (Some a) => [mkSlot a 0 None] | _ => [] end.

Definition cred_slots (v : value) : list slot :=
  match v with VStruct ((_, p) :: (_, q) :: _) => ptr_slot p ++ ptr_slot q | _ => [] end.

Definition user_slots (h : heap) (v : value) : list slot :=
  match v with
  | VRef KSlice (Some a) =>
      match nth_error h a with
      | Some c => map (fun i => mkSlot a i (Some 1%nat)) (seq 0 (length c))
      | None => []
      end
  | _ => []
  end.

Definition path_slots (h : heap) (v : value) : list slot :=
  match v with
  | VRef KMap (Some a) =>
      match nth_error h a with
      | Some c =>
          flat_map (fun pv => match pv with
                              | VRef KPtr (Some b) =>
                                  match nth_error h b with Some [ps] => cred_slots ps | _ => [] end
                              | _ => []
                              end) c
      | None => []
      end
  | _ => []
  end.

Definition pass_slots (h : heap) (root : value) : list slot :=
  match root with
  | VStruct [(_, us); (_, pd); (_, ps)] => user_slots h us ++ cred_slots pd ++ path_slots h ps
  | _ => []
  end.

(* if x != "" { x = "<redacted>" } *)
Definition redact_step (h : heap) (s : slot) : heap :=
  match slot_get h s with
  | Some z => if z =? tok_empty then h else slot_set h s tok_redacted
  | None => h
  end.

Definition redact_in (h : heap) (c : value) : heap := fold_left redact_step (pass_slots h c) h.

(* redactCredentials: returns the new heap and the view *)
Definition redact (fuel : nat) (h : heap) (v : value) : option (heap * value) :=
  match deep_clone true fuel h v with
  | Some (h1, c) => Some (redact_in h1 c, c)
  | None => None
  end.

(* what redaction would do without the Clone() (for the refutation in Props) *)
Definition redact_no_clone (h : heap) (v : value) : heap * value := (redact_in h v, v).

(* the passwords a reader of the value sees *)
Definition passwords (h : heap) (root : value) : list (option Z) := map (slot_get h) (pass_slots h root).

(* the value with every reference followed (what an encoder of the value sees); fuel bounds the depth *)
Inductive tree := TScalar (z : Z) | TNil | TCell (elems : list tree) | TStruct (fs : list tree) | TIface (d : option tree) | TCut.

Fixpoint tree_of (fuel : nat) (h : heap) (v : value) : tree :=
  match fuel with
  | O => TCut
  | S k =>
      match v with
      | VScalar z => TScalar z
      | VRef _ None => TNil
      | VRef _ (Some a) => match nth_error h a with Some c => TCell (map (tree_of k h) c) | None => TCut end
      | VStruct fs => TStruct (map (fun bf => tree_of k h (snd bf)) fs)
      | VIface None => TIface None
      | VIface (Some d) => TIface (Some (tree_of k h d))
      end
  end.
