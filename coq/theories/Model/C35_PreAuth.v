(* C35 — the logic MediaMTX itself runs on unauthenticated bytes before any library or the
   path manager has vouched for them. Executable; no proofs here.

     internal/protocols/httpp/handler_filter_requests.go   handlerFilterRequests.ServeHTTP
     internal/servers/hls/http_server.go                   onRequest (path dispatch)
     internal/servers/webrtc/http_server.go                onRequest (WHIP/WHEP regexps, pages)
     internal/servers/moq/http_server.go                   onRequestHTTPS2, onAuthMirror, onRequestHTTPS3
     internal/servers/moq/session.go                       processSetupMessage (PATH option, native QUIC)
     internal/servers/rtsp/conn.go, session.go             onDescribe/onAnnounce/onSetup guard, onRecord
     internal/servers/rtmp/conn.go                         runRead/runPublish (TrimLeft)
     internal/servers/srt/streamid.go                      streamID.unmarshal (C34's model, here with its index points)
     internal/api/api.go                                   paramName
     internal/conf/path.go                                 IsValidPathName (first thing the path manager and the
                                                           playback server do with a client-supplied name)

   Every slice expression s[a:b] and every index s[i] of the Go code is written with [slice]/[idx]/[lidx],
   whose result is [Panic] exactly when the Go run time would panic. Strings are byte strings (list Z).
   What is NOT here (third-party or run time, exercised by the crash-oracle runs only): net/http and quic-go request
   parsing, gin routing, gortsplib/gortmplib/gosrt/pion wire decoding, regexp/path/strings internals. *)
From Coq Require Import List ZArith Bool String Ascii.
Require Import MTX.Lib.PathClean MTX.Lib.Base64 MTX.Model.C34_Descriptors.
Import ListNotations.
Local Open Scope Z_scope.

(* ---- Go's partial operations -------------------------------------------------------- *)

Inductive res (A : Type) : Type := Ok (a : A) | Panic.
Arguments Ok {A} a.
Arguments Panic {A}.

Definition bind {A B} (r : res A) (f : A -> res B) : res B :=
  match r with Ok a => f a | Panic => Panic end.
Notation "x <- e ;; k" := (bind e (fun x => k)) (at level 61, e at next level, right associativity).

Definition len (s : list Z) : Z := Z.of_nat (List.length s).

(* s[i] *)
Definition idx (s : list Z) (i : Z) : res Z :=
  if (0 <=? i) && (i <? len s) then Ok (nth (Z.to_nat i) s 0) else Panic.

(* s[lo:hi] *)
Definition slice (s : list Z) (lo hi : Z) : res (list Z) :=
  if (0 <=? lo) && (lo <=? hi) && (hi <=? len s)
  then Ok (firstn (Z.to_nat (hi - lo)) (skipn (Z.to_nat lo) s)) else Panic.

(* s[lo:] *)
Definition slice_from (s : list Z) (lo : Z) : res (list Z) := slice s lo (len s).

(* l[i] on a []string *)
Definition lidx {A} (l : list A) (i : Z) : res A :=
  if 0 <=? i then match nth_error l (Z.to_nat i) with Some x => Ok x | None => Panic end else Panic.

Definition emp (s : list Z) : bool := match s with [] => true | _ => false end.
Definition has_suffix (suf s : list Z) : bool := has_prefix (rev suf) (rev s).
Definition is47 (c : Z) : bool := c =? 47.

Fixpoint drop_while (f : Z -> bool) (s : list Z) : list Z :=
  match s with
  | [] => []
  | c :: r => if f c then drop_while f r else s
  end.
(* strings.TrimLeft(s, "/"), strings.TrimRight(s, "/"), strings.Trim(s, "/") *)
Definition trim_left47 (s : list Z) : list Z := drop_while is47 s.
Definition trim_right47 (s : list Z) : list Z := rev (drop_while is47 (rev s)).
Definition trim47 (s : list Z) : list Z := trim_right47 (trim_left47 s).

(* ---- handlerFilterRequests ---------------------------------------------------------- *)

(* r.URL.Path == "" || r.URL.Path[0] != '/'  ->  400 ; true = the request is passed on *)
Definition http_filter (p : list Z) : res bool :=
  if emp p then Ok false else c <- idx p 0 ;; Ok (c =? 47).

(* the same test without the emptiness check (why the check is there) *)
Definition http_filter_unguarded (p : list Z) : res bool := c <- idx p 0 ;; Ok (c =? 47).

(* ---- path.Dir / path.Base (results of the standard library, used by the HLS dispatch) - *)

(* path.Split: (everything up to and including the last '/', the rest) *)
Fixpoint split_last47 (s : list Z) : list Z * list Z :=
  match s with
  | [] => ([], [])
  | c :: r =>
      let (d, f) := split_last47 r in
      if c =? 47 then (c :: d, f)
      else match d with [] => ([], c :: f) | _ => (c :: d, f) end
  end.

Definition path_dir (p : list Z) : list Z := clean (fst (split_last47 p)).

Definition path_base (p : list Z) : list Z :=
  if emp p then [46] else
  let b := snd (split_last47 (trim_right47 p)) in
  if emp b then [47] else b.

(* ---- HLS: httpServer.onRequest ------------------------------------------------------ *)

Definition s_hls_min_js := Eval compute in B "/hls.min.js".
Definition s_hls_min_js_map := Eval compute in B "/hls.min.js.map".
Definition s_favicon := Eval compute in B "favicon.ico".
Definition s_m3u8 := Eval compute in B ".m3u8".
Definition s_index_m3u8 := Eval compute in B "index.m3u8".
Definition s_ts := Eval compute in B ".ts".
Definition s_mp4 := Eval compute in B ".mp4".
Definition s_mp := Eval compute in B ".mp".
Definition s_slash := [47].

Inductive hls_kind := KMultivariant | KMedia | KSegment.

Inductive hls_out :=
| HNotGet                                     (* method is not GET: the middleware returns at once *)
| HStatic                                     (* hls.min.js *)
| HIgnored                                    (* "", favicon.ico, *.map: nothing is written *)
| HRedirect                                   (* 302 to the path with a trailing slash *)
| HIndex (dir : list Z)                       (* FindPathConf(Name: dir) *)
| HFile (k : hls_kind) (dir fname : list Z).  (* playlists and segments of the muxer of dir *)

(* everything after  pa := ctx.Request.URL.Path[1:] *)
Definition hls_route (pa : list Z) : res hls_out :=
  if has_suffix s_hls_min_js pa then Ok HStatic
  else if emp pa || beqb pa s_favicon || has_suffix s_hls_min_js_map pa then Ok HIgnored
  else if has_suffix s_m3u8 pa then
    let fname := path_base pa in
    Ok (HFile (if beqb fname s_index_m3u8 then KMultivariant else KMedia) (path_dir pa) fname)
  else if has_suffix s_ts pa || has_suffix s_mp4 pa || has_suffix s_mp pa then
    let fname := path_base pa in
    Ok (HFile KSegment (path_dir pa) (if has_suffix s_mp fname then fname ++ [52] else fname))
  else
    if negb (has_suffix s_slash pa) then Ok HRedirect
    else dir <- slice pa 0 (len pa - 1) ;; Ok (HIndex dir).

Definition hls_dispatch (is_get : bool) (path : list Z) : res hls_out :=
  if negb is_get then Ok HNotGet else pa <- slice_from path 1 ;; hls_route pa.

(* filter + dispatch: None = 400 from the filter *)
Definition hls_front (is_get : bool) (path : list Z) : res (option hls_out) :=
  pass <- http_filter path ;;
  if pass then o <- hls_dispatch is_get path ;; Ok (Some o) else Ok None.

(* ---- the page part shared by the WebRTC and MoQ (HTTP/2) front ends ------------------ *)

Definition s_publish_suffix := Eval compute in B "/publish".

Inductive page_out :=
| PPage (name : list Z) (publish : bool)
| PRedirect
| PNone.

(* case len(Path) >= 2: switch { ... } *)
Definition page_dispatch (path : list Z) : res page_out :=
  if 2 <=? len path then
    if (len s_publish_suffix <? len path) && has_suffix s_publish_suffix path then
      n <- slice path 1 (len path - len s_publish_suffix) ;; Ok (PPage n true)
    else
      c <- idx path (len path - 1) ;;
      if negb (c =? 47) then Ok PRedirect
      else n <- slice path 1 (len path - 1) ;; Ok (PPage n false)
  else Ok PNone.

(* without  len(Path) >= 2 *)
Definition page_dispatch_no_len_guard (path : list Z) : res page_out :=
  if (len s_publish_suffix <? len path) && has_suffix s_publish_suffix path then
    n <- slice path 1 (len path - len s_publish_suffix) ;; Ok (PPage n true)
  else
    c <- idx path (len path - 1) ;;
    if negb (c =? 47) then Ok PRedirect
    else n <- slice path 1 (len path - 1) ;; Ok (PPage n false).

(* without  len(Path) > len("/publish") *)
Definition page_dispatch_no_publish_guard (path : list Z) : res page_out :=
  if 2 <=? len path then
    if has_suffix s_publish_suffix path then
      n <- slice path 1 (len path - len s_publish_suffix) ;; Ok (PPage n true)
    else
      c <- idx path (len path - 1) ;;
      if negb (c =? 47) then Ok PRedirect
      else n <- slice path 1 (len path - 1) ;; Ok (PPage n false)
  else Ok PNone.

(* ---- WebRTC: httpServer.onRequest ---------------------------------------------------- *)

Inductive meth := MGet | MHead | MPost | MPut | MPatch | MDelete | MOptions | MConnect | MOther.

Definition s_whip_sfx := Eval compute in B "/whip".
Definition s_whep_sfx := Eval compute in B "/whep".
Definition s_whip_mid := Eval compute in B "/whip/".
Definition s_whep_mid := Eval compute in B "/whep/".
Definition s_whip := Eval compute in B "whip".
Definition s_whep := Eval compute in B "whep".
Definition s_publisher_js := Eval compute in B "/publisher.js".
Definition s_reader_js := Eval compute in B "/reader.js".
Definition s_favicon_abs := Eval compute in B "/favicon.ico".

(* '.' of Go's regexp (no s flag): any character but '\n'; an invalid UTF-8 byte is one character *)
Definition no_nl (s : list Z) : bool := forallb (fun c => negb (c =? 10)) s.

Definition drop_last (n : nat) (s : list Z) : list Z := firstn (List.length s - n) s.

(* reWHIPWHEPNoID = ^/(.+?)/(whip|whep)$ : FindStringSubmatch = [whole; name; kind] *)
Definition re_noid (p : list Z) : option (list (list Z)) :=
  match p with
  | c :: r =>
      if negb (c =? 47) then None else
      let n := drop_last 5 r in
      if has_suffix s_whip_sfx r && negb (emp n) && no_nl n then Some [p; n; s_whip]
      else if has_suffix s_whep_sfx r && negb (emp n) && no_nl n then Some [p; n; s_whep]
      else None
  | [] => None
  end.

(* reWHIPWHEPWithID = ^/(.+?)/(whip|whep)/(.+?)$ : the first group is the shortest non-empty prefix
   that is followed by /whip/ or /whep/ and a non-empty rest; no '\n' anywhere.
   nrev = the first group so far, reversed; r = what follows it *)
Fixpoint re_withid_scan (nrev r : list Z) : option (list Z * list Z * list Z) :=
  match r with
  | [] => None
  | c :: r' =>
      let here :=
        if emp nrev then None else
        match strip_prefix s_whip_mid r with
        | Some rest => if negb (emp rest) && no_nl rest then Some (rev nrev, s_whip, rest) else None
        | None =>
            match strip_prefix s_whep_mid r with
            | Some rest => if negb (emp rest) && no_nl rest then Some (rev nrev, s_whep, rest) else None
            | None => None
            end
        end in
      match here with
      | Some x => Some x
      | None => if c =? 10 then None else re_withid_scan (c :: nrev) r'
      end
  end.

Definition re_withid (p : list Z) : option (list (list Z)) :=
  match p with
  | c :: r =>
      if negb (c =? 47) then None else
      match re_withid_scan [] r with
      | Some (n, k, sec) => Some [p; n; k; sec]
      | None => None
      end
  | [] => None
  end.

Inductive w_out :=
| WOptions (name : list Z) (publish : bool)   (* onWHIPOptions: FindPathConf(Name: name) *)
| WPost (name : list Z) (publish : bool)      (* onWHIPPost *)
| WNotAllowed                                 (* 405 *)
| WNoop                                       (* nothing written *)
| WPatch (secret : list Z)
| WDelete (secret : list Z)
| WStaticPub | WStaticRead
| WPage (name : list Z) (publish : bool)      (* onPage: FindPathConf(Name: name) *)
| WRedirect.

Definition w_of_page (o : page_out) : w_out :=
  match o with PPage n p => WPage n p | PRedirect => WRedirect | PNone => WNoop end.

Definition webrtc_dispatch (m : meth) (path : list Z) : res w_out :=
  match re_noid path with
  | Some sm =>
      name <- lidx sm 1 ;; kind <- lidx sm 2 ;;
      Ok (match m with
          | MOptions => WOptions name (beqb kind s_whip)
          | MPost => WPost name (beqb kind s_whip)
          | MGet | MHead | MPut => WNotAllowed
          | _ => WNoop
          end)
  | None =>
      match re_withid path with
      | Some sm =>
          sec <- lidx sm 3 ;;
          Ok (match m with MPatch => WPatch sec | MDelete => WDelete sec | _ => WNoop end)
      | None =>
          match m with
          | MGet =>
              if has_suffix s_publisher_js path then Ok WStaticPub
              else if has_suffix s_reader_js path then Ok WStaticRead
              else if beqb path s_favicon_abs then Ok WNoop
              else o <- page_dispatch path ;; Ok (w_of_page o)
          | _ => Ok WNoop
          end
      end
  end.

Definition webrtc_front (m : meth) (path : list Z) : res (option w_out) :=
  pass <- http_filter path ;;
  if pass then o <- webrtc_dispatch m path ;; Ok (Some o) else Ok None.

(* ---- MoQ: onAuthMirror, onRequestHTTPS2, onRequestHTTPS3, PATH option ----------------- *)

Inductive am_out := AMBad | AMOk (user pass : list Z).

(* strings.SplitN(s, ":", 2) *)
Definition split_n2 (sep : Z) (s : list Z) : list (list Z) :=
  match cut1 sep s with Some (a, b) => [a; b] | None => [s] end.

(* hdr = ctx.Request.Header.Get("Authorization") *)
Definition auth_mirror (hdr : list Z) : res am_out :=
  if negb (has_prefix s_basic_sp hdr) then Ok AMBad else
  enc <- slice_from hdr (len s_basic_sp) ;;
  match b64_decode enc with
  | None => Ok AMBad
  | Some creds =>
      let parts := split_n2 c_colon creds in
      if negb (Z.of_nat (List.length parts) =? 2) then Ok AMBad
      else u <- lidx parts 0 ;; p <- lidx parts 1 ;; Ok (AMOk u p)
  end.

(* without the HasPrefix test *)
Definition auth_mirror_unguarded (hdr : list Z) : res am_out :=
  enc <- slice_from hdr (len s_basic_sp) ;;
  match b64_decode enc with
  | None => Ok AMBad
  | Some creds =>
      let parts := split_n2 c_colon creds in
      if negb (Z.of_nat (List.length parts) =? 2) then Ok AMBad
      else u <- lidx parts 0 ;; p <- lidx parts 1 ;; Ok (AMOk u p)
  end.

Definition s_authmirror := Eval compute in B "/authmirror".
Definition s_fingerprint := Eval compute in B "/fingerprint".

Inductive m2_out :=
| M2AuthMirror (o : am_out) | M2Fingerprint | M2StaticRead | M2StaticPub | M2Noop
| M2Page (name : list Z) (publish : bool) | M2Redirect.

Definition m2_of_page (o : page_out) : m2_out :=
  match o with PPage n p => M2Page n p | PRedirect => M2Redirect | PNone => M2Noop end.

Definition moq_h2_dispatch (m : meth) (path hdr : list Z) : res m2_out :=
  match m with
  | MGet =>
      if has_suffix s_authmirror path then o <- auth_mirror hdr ;; Ok (M2AuthMirror o)
      else if has_suffix s_fingerprint path then Ok M2Fingerprint
      else if has_suffix s_reader_js path then Ok M2StaticRead
      else if has_suffix s_publisher_js path then Ok M2StaticPub
      else if beqb path s_favicon_abs then Ok M2Noop
      else o <- page_dispatch path ;; Ok (m2_of_page o)
  | _ => Ok M2Noop
  end.

Definition moq_h2_front (m : meth) (path hdr : list Z) : res (option m2_out) :=
  pass <- http_filter path ;;
  if pass then o <- moq_h2_dispatch m path hdr ;; Ok (Some o) else Ok None.

Definition s_moq_sfx := Eval compute in B "/moq".

Inductive h3_out :=
| H3Ignored                    (* not CONNECT, or empty path name: nothing written *)
| H3Bad                        (* 400: the path does not begin with '/' (repaired code only) *)
| H3Session (name : list Z).   (* header checks, WebTransport upgrade, newSession(pathName: name) *)

(* "support legacy /moq suffix" and the emptiness test *)
Definition h3_name (pn : list Z) : h3_out :=
  let pn := if has_suffix s_moq_sfx pn && (len s_moq_sfx <? len pn) then trim_suffix s_moq_sfx pn else pn in
  if emp pn then H3Ignored else H3Session pn.

(* onRequestHTTPS3 as found: no filter in front of it (httpp3.Server wraps nothing around the handler) *)
Definition moq_h3_dispatch_found (m : meth) (path : list Z) : res h3_out :=
  match m with
  | MConnect => pn <- slice_from path 1 ;; Ok (h3_name pn)
  | _ => Ok H3Ignored
  end.

(* onRequestHTTPS3 after the fix: commit: the test of handlerFilterRequests comes first *)
Definition moq_h3_dispatch (m : meth) (path : list Z) : res h3_out :=
  match m with
  | MConnect =>
      pass <- http_filter path ;;
      if pass then pn <- slice_from path 1 ;; Ok (h3_name pn) else Ok H3Bad
  | _ => Ok H3Ignored
  end.

(* native QUIC: pathName := strings.Trim(u.Path, "/") of the PATH setup option; None = error *)
Definition moq_quic_name (upath : list Z) : option (list Z) :=
  let n := trim47 upath in if emp n then None else Some n.

(* ---- RTSP: onDescribe / onAnnounce / onSetup, onRecord ------------------------------- *)

(* len(ctx.Path) == 0 || ctx.Path[0] != '/'  -> 400 ; ctx.Path = ctx.Path[1:] *)
Definition rtsp_name (p : list Z) : res (option (list Z)) :=
  if len p =? 0 then Ok None else
  c <- idx p 0 ;;
  if negb (c =? 47) then Ok None else n <- slice_from p 1 ;; Ok (Some n).

Definition rtsp_name_unguarded (p : list Z) : res (option (list Z)) :=
  n <- slice_from p 1 ;; Ok (Some n).

(* onRecord: s.rsession.Path()[1:], the path of the ANNOUNCE the session accepted *)
Definition rtsp_record_name (announced : list Z) : res (list Z) := slice_from announced 1.

(* ---- RTMP: strings.TrimLeft(c.rconn.URL.Path, "/") ----------------------------------- *)

Definition rtmp_name (upath : list Z) : list Z := trim_left47 upath.

(* ---- API: paramName ------------------------------------------------------------------ *)

Definition param_name (name : list Z) : res (option (list Z)) :=
  if len name <? 2 then Ok None else
  c <- idx name 0 ;;
  if negb (c =? 47) then Ok None else n <- slice_from name 1 ;; Ok (Some n).

(* ---- SRT: streamID.unmarshal with its index expressions ------------------------------- *)

Fixpoint srt_std_items (items : list (list Z)) (s : stream_id) : res sid_result :=
  match items with
  | [] => Ok (SidOk s)
  | kv :: r =>
      let kv2 := split_n2 c_eq kv in
      if negb (Z.of_nat (List.length kv2) =? 2) then Ok (SidErr ErrInvalidValue) else
      k <- lidx kv2 0 ;; v <- lidx kv2 1 ;;
      if beqb k k_u then srt_std_items r (mkSid (sid_mode_of s) (sid_path s) (sid_query s) v (sid_pass s))
      else if beqb k k_r then srt_std_items r (mkSid (sid_mode_of s) v (sid_query s) (sid_user s) (sid_pass s))
      else if beqb k k_s then srt_std_items r (mkSid (sid_mode_of s) (sid_path s) (sid_query s) (sid_user s) v)
      else if beqb k k_m then
        if beqb v s_request then srt_std_items r (mkSid MRead (sid_path s) (sid_query s) (sid_user s) (sid_pass s))
        else if beqb v s_publish then srt_std_items r (mkSid MPublish (sid_path s) (sid_query s) (sid_user s) (sid_pass s))
        else Ok (SidErr ErrUnsupportedMode)
      else srt_std_items r s
  end.

(* the same loop without  len(kv2) != 2 *)
Definition srt_std_item_unguarded (kv : list Z) : res (list Z * list Z) :=
  let kv2 := split_n2 c_eq kv in k <- lidx kv2 0 ;; v <- lidx kv2 1 ;; Ok (k, v).

(* parts[i] = v *)
Definition lset {A} (l : list A) (i : Z) (v : A) : res (list A) :=
  if (0 <=? i) && (i <? Z.of_nat (List.length l))
  then Ok (firstn (Z.to_nat i) l ++ v :: skipn (S (Z.to_nat i)) l) else Panic.

Definition srt_legacy (raw : list Z) : res sid_result :=
  let parts := split_on c_colon raw in
  let n := Z.of_nat (List.length parts) in
  if (n <? 2) || (5 <? n) then Ok (SidErr ErrSyntax) else
  lastp <- lidx parts (n - 1) ;;
  parts <- lset parts (n - 1) (trim_suffix s_feedbackplay lastp) ;;
  a <- lidx parts 0 ;;
  match legacy_action a with
  | None => Ok (SidErr ErrSyntax)
  | Some m =>
      p <- lidx parts 1 ;;
      up <- (if (n =? 4) || (n =? 5) then u <- lidx parts 2 ;; s <- lidx parts 3 ;; Ok (u, s) else Ok ([], [])) ;;
      q <- (if n =? 3 then lidx parts 2 else if n =? 5 then lidx parts 4 else Ok []) ;;
      Ok (SidOk (mkSid m p q (fst up) (snd up)))
  end.

Definition srt_unmarshal (raw : list Z) : res sid_result :=
  if has_prefix s_std_prefix raw then
    r <- slice_from raw (len s_std_prefix) ;; srt_std_items (split_on c_comma r) sid_zero
  else srt_legacy raw.

(* ---- conf.IsValidPathName -------------------------------------------------------------- *)

(* rePathName = ^[0-9a-zA-Z_\-/\.]+$ *)
Definition path_char (c : Z) : bool :=
  ((48 <=? c) && (c <=? 57)) || ((97 <=? c) && (c <=? 122)) || ((65 <=? c) && (c <=? 90))
  || (c =? 95) || (c =? 45) || (c =? 47) || (c =? 46).

Inductive verr := VEmpty | VLead | VTrail | VChars | VDots.

Definition is_valid_path_name (n : list Z) : res (option verr) :=
  if emp n then Ok (Some VEmpty) else
  c0 <- idx n 0 ;;
  if c0 =? 47 then Ok (Some VLead) else
  cl <- idx n (len n - 1) ;;
  if cl =? 47 then Ok (Some VTrail) else
  if negb (forallb path_char n) then Ok (Some VChars) else
  if existsb (fun g => is_dot g || is_dd g) (split47 n) then Ok (Some VDots) else Ok None.

(* without  name == "" *)
Definition is_valid_path_name_unguarded (n : list Z) : res (option verr) :=
  c0 <- idx n 0 ;;
  if c0 =? 47 then Ok (Some VLead) else
  cl <- idx n (len n - 1) ;;
  if cl =? 47 then Ok (Some VTrail) else
  if negb (forallb path_char n) then Ok (Some VChars) else
  if existsb (fun g => is_dot g || is_dd g) (split47 n) then Ok (Some VDots) else Ok None.

(* ---- what each front end hands to the path manager / playback server ------------------- *)

(* pathManager.findPathConf (all four entry points) and playback onGet/onList begin with IsValidPathName *)
Definition gate (name : list Z) : res bool :=
  v <- is_valid_path_name name ;; Ok (match v with None => true | Some _ => false end).

Definition hls_names (o : hls_out) : list (list Z) :=
  match o with HIndex d => [d] | HFile _ d _ => [d] | _ => [] end.
Definition w_names (o : w_out) : list (list Z) :=
  match o with WOptions n _ | WPost n _ | WPage n _ => [n] | _ => [] end.
Definition m2_names (o : m2_out) : list (list Z) := match o with M2Page n _ => [n] | _ => [] end.
Definition h3_names (o : h3_out) : list (list Z) := match o with H3Session n => [n] | _ => [] end.
