(* Model of internal/forward/manager.go (Initialize, ReloadConf, Start, Stop) with the start/stop of dest handlers.
   A destination configuration (conf.ForwardDest, a comparable struct) is a token in Z. *)
From Coq Require Import List ZArith Bool.
Import ListNotations.
Local Open Scope Z_scope.

Record handler := { hid : Z; hconf : Z }.

Record state := {
  handlers : list handler;   (* destHandlers, in configuration order *)
  started : bool;
  next_id : Z;               (* fresh handler identities (uuid.New) *)
  live : list Z;             (* identities of the handlers whose run goroutine is alive *)
}.

Inductive op := Reload (fwd : list Z) | Start | Stop.
Inductive event := EStart (id : Z) | EStop (id : Z).

Fixpoint mk_handlers (next : Z) (fwd : list Z) : list handler :=
  match fwd with
  | [] => []
  | d :: r => {| hid := next; hconf := d |} :: mk_handlers (next + 1) r
  end.

Definition init (fwd : list Z) : state :=
  {| handlers := mk_handlers 0 fwd; started := false; next_id := Z.of_nat (length fwd); live := [] |}.

Definition remove_id (id : Z) (l : list Z) : list Z := filter (fun x => negb (x =? id)) l.

(* the loop of ReloadConf: returns (new handlers, handlers to close, ids started, next id) *)
Fixpoint reload_loop (fwd : list Z) (old : list handler) (next : Z)
  : list handler * list handler * list Z * Z :=
  match fwd with
  | [] => ([], old, [], next)          (* the remaining old handlers are closed *)
  | d :: fr =>
      match old with
      | h :: orest =>
          if hconf h =? d then
            let '(nh, cl, st, nx) := reload_loop fr orest next in (h :: nh, cl, st, nx)
          else
            let '(nh, cl, st, nx) := reload_loop fr orest (next + 1) in
            ({| hid := next; hconf := d |} :: nh, h :: cl, next :: st, nx)
      | [] =>
          let '(nh, cl, st, nx) := reload_loop fr [] (next + 1) in
          ({| hid := next; hconf := d |} :: nh, cl, next :: st, nx)
      end
  end.

Definition step (s : state) (o : op) : state * list event :=
  match o with
  | Reload fwd =>
      let '(nh, cl, st, nx) := reload_loop fwd (handlers s) (next_id s) in
      if started s then
        ({| handlers := nh; started := true; next_id := nx;
            live := fold_left (fun l h => remove_id (hid h) l) cl (live s ++ st) |},
         map EStart st ++ map (fun h => EStop (hid h)) cl)
      else
        ({| handlers := nh; started := false; next_id := nx; live := live s |}, [])
  | Start =>
      ({| handlers := handlers s; started := true; next_id := next_id s;
          live := live s ++ map hid (handlers s) |}, map (fun h => EStart (hid h)) (handlers s))
  | Stop =>
      ({| handlers := handlers s; started := false; next_id := next_id s;
          live := fold_left (fun l h => remove_id (hid h) l) (handlers s) (live s) |},
       map (fun h => EStop (hid h)) (handlers s))
  end.

Fixpoint run (s : state) (ops : list op) : state * list (list event) :=
  match ops with
  | [] => (s, [])
  | o :: r => let '(s1, e) := step s o in let '(s2, es) := run s1 r in (s2, e :: es)
  end.

(* the path calls Start only when the stream becomes available and Stop only when it goes away *)
Fixpoint alternating (st : bool) (ops : list op) : bool :=
  match ops with
  | [] => true
  | Reload _ :: r => alternating st r
  | Start :: r => negb st && alternating true r
  | Stop :: r => st && alternating false r
  end.

(* the configured list after a history *)
Fixpoint configured (fwd : list Z) (ops : list op) : list Z :=
  match ops with
  | [] => fwd
  | Reload f :: r => configured f r
  | _ :: r => configured fwd r
  end.
