(* Model of isOriginAllowed (internal/protocols/httpp/handler_origin.go). Executable; no proofs here.

   url.Parse is an ORACLE: the function `parse` maps a raw string to None (error) or to the
   Scheme and Host fields of the parsed URL. Everything the code does with those fields
   (URL.Port, URL.Hostname = url.splitHostPort, net.JoinHostPort, the default-port completion, the
   exact comparison, the wildcard branch) is modelled.

   Wildcard branch of the repaired code (fix: commits a08e622 and f582f54):
       scheme equal && Port() equal && Hostname() of the allowed entry contains '*':
       pattern := regexp.QuoteMeta(hostname) with  \*\.  replaced by  (.*\.)?  and then  \*  by  .*
       regexp.MatchString(^pattern$, origin hostname)
   MODELLING ASSUMPTION (regexp engine): on such a pattern the engine is a glob matcher over bytes:
   GOpt = "(.*\.)?", GStar = ".*", every other byte literal; a pattern that is not valid UTF-8 does not
   compile (no match). (Known gap, documented in design_notes/C05.md: a literal U+FFFD in the pattern
   also matches an ill-formed byte of the origin.)  The correspondence run exercises the assumption. *)
From Coq Require Import List ZArith Bool.
Require Import MTX.Lib.Utf8.
Import ListNotations.
Local Open Scope Z_scope.

Record purl := { u_scheme : list Z; u_host : list Z }.

(* ---- net/url helpers ---------------------------------------------------------------- *)

Definition is_digit (c : Z) : bool := (48 <=? c) && (c <=? 57).

(* split at the last ':' : (before, after) *)
Fixpoint split_last_colon (s : list Z) : option (list Z * list Z) :=
  match s with
  | [] => None
  | c :: r =>
      match split_last_colon r with
      | Some (a, b) => Some (c :: a, b)
      | None => if c =? 58 then Some ([], r) else None
      end
  end.

Definition strip_brackets (h : list Z) : list Z :=
  match h with
  | 91 :: r => match rev r with
               | 93 :: m => rev m
               | _ => h
               end
  | _ => h
  end.

(* url.splitHostPort: the port is what follows the last colon if that is all digits (maybe empty) *)
Definition split_host_port (hp : list Z) : list Z * list Z :=
  match split_last_colon hp with
  | Some (h, p) => if forallb is_digit p then (strip_brackets h, p) else (strip_brackets hp, [])
  | None => (strip_brackets hp, [])
  end.

Definition port_of (hp : list Z) : list Z := snd (split_host_port hp).       (* URL.Port() *)
Definition hostname_of (hp : list Z) : list Z := fst (split_host_port hp).   (* URL.Hostname() *)

(* net.JoinHostPort *)
Definition join_host_port (h p : list Z) : list Z :=
  if existsb (Z.eqb 58) h then [91] ++ h ++ [93; 58] ++ p else h ++ [58] ++ p.

Definition s_http : list Z := [104; 116; 116; 112].
Definition s_https : list Z := [104; 116; 116; 112; 115].

(* if Port() == "" { switch Scheme { case "http": Host = JoinHostPort(Host, "80") ... } } *)
Definition complete_host (u : purl) : list Z :=
  match port_of (u_host u) with
  | [] => if list_eqb (u_scheme u) s_http then join_host_port (u_host u) [56; 48]
          else if list_eqb (u_scheme u) s_https then join_host_port (u_host u) [52; 52; 51]
          else u_host u
  | _ => u_host u
  end.

Definition eff_port (u : purl) : list Z := port_of (complete_host u).
Definition eff_hostname (u : purl) : list Z := hostname_of (complete_host u).

(* ---- glob patterns ------------------------------------------------------------------ *)

Inductive gtok :=
| GLit (c : Z)
| GAny        (* any single character (only in the pinned code: an unescaped '.') *)
| GStar       (* "*"  -> .*       *)
| GOpt.       (* "*." -> (.*\.)?  : strict reading = any characters then '.', lax = also nothing *)

(* strings.ReplaceAll(p, "*.", ..) then ReplaceAll(p, "*", ..): leftmost, non-overlapping *)
Fixpoint tokenize (dot_any : bool) (s : list Z) : list gtok :=
  match s with
  | [] => []
  | c :: r =>
      if c =? 42 then
        match r with
        | d :: r' => if d =? 46 then GOpt :: tokenize dot_any r' else GStar :: tokenize dot_any r
        | [] => [GStar]
        end
      else if dot_any && (c =? 46) then GAny :: tokenize dot_any r
      else GLit c :: tokenize dot_any r
  end.

(* f holds for some suffix of t *)
Fixpoint some_suffix (f : list Z -> bool) (t : list Z) : bool :=
  f t || match t with [] => false | _ :: t' => some_suffix f t' end.

Definition starts_dot (f : list Z -> bool) (t : list Z) : bool :=
  match t with x :: t' => (x =? 46) && f t' | [] => false end.

(* lax = true: the matcher of the code; lax = false: each '*' stands for any characters and every other
   character (also the '.' after a '*') matches literally *)
Fixpoint gmatch (lax : bool) (p : list gtok) (t : list Z) {struct p} : bool :=
  match p with
  | [] => match t with [] => true | _ => false end
  | GLit c :: p' => match t with x :: t' => (x =? c) && gmatch lax p' t' | [] => false end
  | GAny :: p' => match t with _ :: t' => gmatch lax p' t' | [] => false end
  | GStar :: p' => some_suffix (gmatch lax p') t
  | GOpt :: p' => (lax && gmatch lax p' t) || some_suffix (starts_dot (gmatch lax p')) t
  end.

Definition has_star (s : list Z) : bool := existsb (Z.eqb 42) s.

(* ---- isOriginAllowed ---------------------------------------------------------------- *)

Inductive result := Echo (s : list Z) | Star | Absent.

Definition star_str : list Z := [42].

Definition exact_match (a o : purl) : bool :=
  list_eqb (u_scheme a) (u_scheme o) && list_eqb (complete_host a) (complete_host o)
  && list_eqb (eff_port a) (eff_port o).

(* repaired wildcard branch *)
Definition wild_match (a o : purl) : bool :=
  list_eqb (u_scheme a) (u_scheme o) && list_eqb (eff_port a) (eff_port o)
  && has_star (eff_hostname a) && valid_utf8 (eff_hostname a)
  && gmatch true (tokenize false (eff_hostname a)) (eff_hostname o).

(* pinned wildcard branch: whole host:port string, no scheme, '.' unescaped. Faithful only for hosts made
   of letters, digits, '-', '.', ':', '*' (other characters are regexp syntax); used for the refutation. *)
Definition wild_match_v0 (a o : purl) : bool :=
  has_star (complete_host a) && gmatch true (tokenize true (complete_host a)) (complete_host o).

Section WithParse.
  Variable parse : list Z -> option purl.
  Variable wild : purl -> purl -> bool.

  Definition entry_matches (o : purl) (a_raw : list Z) : bool :=
    match parse a_raw with
    | None => false                                   (* errAllowed != nil: continue *)
    | Some a => exact_match a o || wild a o
    end.

  Definition is_origin_allowed_with (origin : list Z) (allow : list (list Z)) : result :=
    match allow with
    | [] => Absent
    | _ =>
      let fallback := if existsb (list_eqb star_str) allow then Star else Absent in
      match origin with
      | [] => fallback
      | _ =>
        match parse origin with
        | None => Absent
        | Some o =>
            match u_scheme o with
            | [] => Absent
            | _ => if existsb (entry_matches o) allow then Echo origin else fallback
            end
        end
      end
    end.
End WithParse.

Definition is_origin_allowed (parse : list Z -> option purl) := is_origin_allowed_with parse wild_match.
Definition is_origin_allowed_v0 (parse : list Z -> option purl) := is_origin_allowed_with parse wild_match_v0.
