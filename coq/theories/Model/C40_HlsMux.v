(* C40, HLS muxer level (module HM): the muxer's own goroutine - muxer.initialize / run / runInner of
   internal/servers/hls/muxer.go - and the other users of muxer.mutex (sync.RWMutex).

   initialize() takes the write lock and starts run(); runInner() owns the lock until the first instance exists (or
   could not be created), then serves events in a select loop; every handler that touches the guarded fields
   (instance, sessionsBySecret, cdnSession, cumulatedOutboundFramesDiscarded) takes the lock and releases it; when
   runInner returns - on ANY exit path - run() takes the lock once more (instance = nil, sessions closed), releases
   it and tells the server to forget the muxer (closeMuxer).  Users of the same mutex: API items / session lists /
   getCDNSession (RLock), addSession / handleRequest (Lock), and Server.Close() (cancels the context, then waits for the
   muxer's goroutine: wg.Wait()).

   handler v k e = (the lock/touch instructions runInner executes for event e in a muxer of kind k, does runInner
   return after it).  Kinds: Client = created on demand by a HTTP client (remoteAddr != ""), Always = always remux.
   Variants: Code = muxer.go as pinned; Leak* = one exit path leaves with the mutex held.

   pathManager.AddReader is assumed to return here (the first event says how): what happens while it does not is
   the subject of Model/C40_HlsLoop.v (MxInit / MxAtPath). *)
From Coq Require Import List Arith Bool.
Import ListNotations.

Module HM.

Inductive mkind := Client | Always.
Inductive variant := Code | LeakCrash | LeakAddErr | LeakCreateErr | LeakCleanup.

Inductive evt :=
| EAddErr                          (* pathManager.AddReader returned an error *)
| ECreate (ok nocodec : bool)      (* AddReader ok; first createInstance: ok / hls.ErrNoSupportedCodecs / other error *)
| ECrash (stale : bool)            (* chCloseInstance (stale: of an instance that is not the current one) *)
| ERecreate (ok : bool)            (* recreateInstanceTimer *)
| ECleanup                         (* sessionCleanupTicker *)
| EActivity (expired : bool)       (* activityCheckTimer *)
| ECtxDone.                        (* m.ctx.Done() *)

Inductive instr := ILock | IUnlock | IRLock | IRUnlock | ITouch | IRead | IGone | ICloseWait.
Inductive mode := MN | MW | MR.
Inductive op := OpApi | OpSess | OpClose.
Inductive phase := PRun | PExit.

Definition is_init (e : evt) : bool := match e with EAddErr | ECreate _ _ => true | _ => false end.

Definition section : list instr := [ILock; ITouch; IUnlock].

Definition handler (v : variant) (k : mkind) (e : evt) : list instr * bool :=
  match e with
  | EAddErr => (match v with LeakAddErr => [] | _ => [IUnlock] end, true)
  | ECreate true _ => ([ITouch; IUnlock], false)
  | ECreate false nocodec =>
      match k, nocodec with
      | Always, false => ([ITouch; IUnlock], false)            (* logged; instance = nil; retried by the timer *)
      | _, _ => (match v with LeakCreateErr => [] | _ => [IUnlock] end, true)
      end
  | ECrash true => ([], false)
  | ECrash false =>
      match k with
      | Client => (match v with LeakCrash => [ILock; ITouch] | _ => section end, true)
      | Always => (section ++ section, false)
      end
  | ERecreate true => (section, false)
  | ERecreate false => ([], false)
  | ECleanup => (match v with LeakCleanup => [ILock; ITouch] | _ => section end, false)
  | EActivity x => ([], x)
  | ECtxDone => ([], true)
  end.

(* run() after runInner has returned *)
Definition tail : list instr := section ++ [IGone].

Definition load (v : variant) (k : mkind) (e : evt) : list instr * phase :=
  let (c, r) := handler v k e in if r then (c ++ tail, PExit) else (c, PRun).

Definition prog (o : op) : list instr :=
  match o with
  | OpApi => [IRLock; IRead; IRUnlock]
  | OpSess => section
  | OpClose => [ICloseWait]
  end.

Record mux := mkMux { m_kind : mkind; m_mode : mode; m_code : list instr; m_phase : phase }.
Record cl := mkCl { c_mode : mode; c_code : list instr }.
Record state := mkState { mx : option mux; cls : list cl; cancelled : bool }.

Definition init : state := {| mx := None; cls := []; cancelled := false |}.

Definition mode_free (m : mode) : bool := match m with MN => true | _ => false end.
Definition mode_nw (m : mode) : bool := match m with MW => false | _ => true end.
Definition mux_mode (s : state) : mode := match mx s with Some m => m_mode m | None => MN end.
Definition wfree (s : state) : bool := mode_free (mux_mode s) && forallb (fun c => mode_free (c_mode c)) (cls s).
Definition rfree (s : state) : bool := mode_nw (mux_mode s) && forallb (fun c => mode_nw (c_mode c)) (cls s).

Definition waiting (m : mux) : bool := match m_phase m, m_code m with PRun, [] => true | _, _ => false end.
Definition mgone (m : mux) : bool := match m_phase m, m_code m with PExit, [] => true | _, _ => false end.
Definition gone (s : state) : bool := match mx s with Some m => mgone m | None => true end.

Definition apply_mode (m : mode) (i : instr) : mode :=
  match i with ILock => MW | IRLock => MR | IUnlock | IRUnlock => MN | _ => m end.

(* sync.RWMutex: Lock needs nobody inside (the caller itself included: a goroutine that locks again what it holds
   waits for itself), RLock needs no writer inside (writer preference only orders the waiters: not modelled).
   ICloseWait = Server.Close(): cancel the context, then wait for the muxer's goroutine *)
Definition enabled (s : state) (i : instr) : bool :=
  match i with
  | ILock => wfree s
  | IRLock => rfree s
  | ICloseWait => gone s || negb (cancelled s)
  | _ => true
  end.

Fixpoint set_nth (p : nat) (c : cl) (l : list cl) : list cl :=
  match l, p with
  | [], _ => []
  | _ :: t, O => c :: t
  | x :: t, S q => x :: set_nth q c t
  end.

Inductive label :=
| LSpawnMux (k : mkind) (e : evt)    (* createMuxer; e = how AddReader / the first createInstance end *)
| LEvent (e : evt)                   (* environment: an event for the muxer's select *)
| LSpawn (o : op)                    (* environment: a new user of the mutex / Server.Close() *)
| LMux                               (* the muxer's goroutine executes its next instruction *)
| LWake                              (* the muxer's select takes <-m.ctx.Done() *)
| LCl (p : nat).                     (* user p executes its next instruction *)

Definition internal (l : label) : bool := match l with LMux | LWake | LCl _ => true | _ => false end.

Definition step (v : variant) (s : state) (l : label) : option state :=
  match l with
  | LSpawnMux k e =>
      if gone s && is_init e
      then let (c, ph) := load v k e in
           Some (mkState (Some (mkMux k MN (ILock :: c) ph)) (cls s) (cancelled s))
      else None
  | LEvent e =>
      match mx s with
      | Some m =>
          if waiting m && negb (is_init e)
          then let (c, ph) := load v (m_kind m) e in
               Some (mkState (Some (mkMux (m_kind m) (m_mode m) c ph)) (cls s) (cancelled s))
          else None
      | None => None
      end
  | LWake =>
      match mx s with
      | Some m =>
          if waiting m && cancelled s
          then let (c, ph) := load v (m_kind m) ECtxDone in
               Some (mkState (Some (mkMux (m_kind m) (m_mode m) c ph)) (cls s) (cancelled s))
          else None
      | None => None
      end
  | LSpawn o => Some (mkState (mx s) (cls s ++ [mkCl MN (prog o)]) (cancelled s))
  | LMux =>
      match mx s with
      | Some m =>
          match m_code m with
          | i :: r =>
              if match i with ICloseWait => true | _ => enabled s i end
              then Some (mkState (Some (mkMux (m_kind m) (apply_mode (m_mode m) i) r (m_phase m))) (cls s) (cancelled s))
              else None
          | [] => None
          end
      | None => None
      end
  | LCl p =>
      match nth_error (cls s) p with
      | Some c =>
          match c_code c with
          | i :: r =>
              if enabled s i
              then match i with
                   | ICloseWait =>
                       if gone s then Some (mkState (mx s) (set_nth p (mkCl (c_mode c) r) (cls s)) (cancelled s))
                       else Some (mkState (mx s) (cls s) true)
                   | _ => Some (mkState (mx s) (set_nth p (mkCl (apply_mode (c_mode c) i) r) (cls s)) (cancelled s))
                   end
              else None
          | [] => None
          end
      | None => None
      end
  end.

Fixpoint run (v : variant) (s : state) (ls : list label) : option state :=
  match ls with
  | [] => Some s
  | l :: t => match step v s l with Some s' => run v s' t | None => None end
  end.

Inductive reachable (v : variant) : state -> Prop :=
| r_init : reachable v init
| r_step : forall s l s', reachable v s -> step v s l = Some s' -> reachable v s'.

Definition mux_measure (m : mux) : nat := length (m_code m) + match m_phase m with PRun => 5 | PExit => 0 end.
Definition cls_measure (l : list cl) : nat := fold_right (fun c n => length (c_code c) + n) 0 l.
Definition measure (s : state) : nat :=
  match mx s with Some m => mux_measure m | None => 0 end + cls_measure (cls s) + (if cancelled s then 0 else 1).

(* every user has returned; the muxer is gone, or waits in its select with nothing to wake it up *)
Definition quiescentb (s : state) : bool :=
  forallb (fun c => match c_code c with [] => true | _ => false end) (cls s)
  && match mx s with Some m => mgone m || (waiting m && negb (cancelled s)) | None => true end.

Definition candidates (s : state) : list label := LMux :: LWake :: map LCl (seq 0 (length (cls s))).

Definition stuckb (v : variant) (s : state) : bool :=
  forallb (fun l => match step v s l with Some _ => false | None => true end) (candidates s).

(* the lock discipline as a type system: what a goroutine in mode m may execute next *)
Definition next_mode (m : mode) (i : instr) : option mode :=
  match i, m with
  | ILock, MN => Some MW | IUnlock, MW => Some MN | IRLock, MN => Some MR | IRUnlock, MR => Some MN
  | ITouch, MW => Some MW | IRead, MW => Some MW | IRead, MR => Some MR
  | IGone, MN => Some MN | ICloseWait, MN => Some MN
  | _, _ => None
  end.
Fixpoint wfc (m : mode) (c : list instr) : bool :=
  match c with
  | [] => mode_free m
  | i :: r => match next_mode m i with Some m' => wfc m' r | None => false end
  end.

Definition inv (s : state) : bool :=
  match mx s with Some m => wfc (m_mode m) (m_code m) | None => true end
  && forallb (fun c => wfc (c_mode c) (c_code c)) (cls s).

End HM.
