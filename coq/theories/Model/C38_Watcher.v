(* Model of internal/confwatcher/confwatcher.go (run loop) over timed file-system events.
   Times are milliseconds. An event carries what the loop computes when it processes it: `cur` = the resolved path of
   the watched file at that moment (0 = the file does not exist, otherwise a token identifying the real file the
   name resolves to) and `hit` = the event names that file and is a Write or Create. *)
From Coq Require Import List ZArith Bool.
Import ListNotations.
Local Open Scope Z_scope.

Definition min_interval : Z := 1000.
Definition additional_wait : Z := 10.

Record state := {
  last_called : option Z;      (* time of the last signal *)
  prev : Z;                    (* previousWatchedPath *)
  armed : bool;                (* the deferred timer is armed *)
  dirty : option Z;            (* ghost: time of the oldest change of the existing file not yet followed by a signal *)
}.

Inductive op :=
| Event (t cur : Z) (hit : bool)        (* a file-system event processed at time t *)
| Tick (t cur : Z).                     (* the deferred timer fires at time t; cur = resolved path at that moment *)

Definition init (p : Z) : state := {| last_called := None; prev := p; armed := false; dirty := None |}.

Definition changed (s : state) (cur : Z) (hit : bool) : bool :=
  negb (cur =? 0) && (negb (cur =? prev s) || hit).

Definition within (s : state) (t : Z) : bool :=
  match last_called s with Some l => t - l <? min_interval | None => false end.

Definition mark (d : option Z) (t : Z) : option Z := match d with Some x => Some x | None => Some t end.

(* `deferring = true` is the repaired code; `false` the pinned snapshot, which drops events inside the interval *)
Definition step (deferring : bool) (s : state) (o : op) : state * list Z :=
  match o with
  | Event t cur hit =>
      (* repaired code: events queued before the last signal was delivered are drained (covered by that signal) *)
      if deferring && (match last_called s with Some l => t <=? l | None => false end) then (s, []) else
      let ch := changed s cur hit in
      let d := if ch then mark (dirty s) t else if cur =? 0 then None else dirty s in
      if within s t then
        ({| last_called := last_called s; prev := prev s; armed := armed s || (deferring && ch); dirty := d |}, [])
      else if cur =? 0 then
        ({| last_called := last_called s; prev := 0; armed := armed s; dirty := None |}, [])
      else if ch then
        ({| last_called := Some (t + additional_wait); prev := cur; armed := false; dirty := None |}, [t + additional_wait])
      else
        ({| last_called := last_called s; prev := prev s; armed := armed s; dirty := d |}, [])
  | Tick t cur =>
      if armed s then
        if cur =? 0 then ({| last_called := last_called s; prev := 0; armed := false; dirty := None |}, [])
        else ({| last_called := Some (t + additional_wait); prev := cur; armed := false; dirty := None |}, [t + additional_wait])
      else (s, [])
  end.

Fixpoint run (deferring : bool) (s : state) (ops : list op) : state * list Z :=
  match ops with
  | [] => (s, [])
  | o :: r => let '(s1, a) := step deferring s o in let '(s2, b) := run deferring s1 r in (s2, a ++ b)
  end.

(* a deterministic scheduler for the correspondence run: events in time order; the timer fires as soon as it is due
   (the resolved path then is that of the latest event); a final flush *)
Fixpoint run_auto (deferring : bool) (s : state) (lastcur : Z) (evs : list (Z * Z * bool)) : list Z :=
  match evs with
  | [] => match last_called s with
          | Some l => snd (step deferring s (Tick (l + min_interval) lastcur))
          | None => []
          end
  | (t, cur, hit) :: r =>
      let '(s0, a) := match last_called s with
                      | Some l => if armed s && (l + min_interval <=? t) then step deferring s (Tick (l + min_interval) lastcur)
                                  else (s, [])
                      | None => (s, [])
                      end in
      let '(s1, b) := step deferring s0 (Event t cur hit) in
      a ++ b ++ run_auto deferring s1 cur r
  end.
