(* Model of the structured branch of destinationStdout.log / destinationFile.log
   (internal/logger/destination_stdout.go, destination_file.go). Executable; no proofs here.

   (Q stands for the double-quote character in this comment)
   d.buf.WriteString(`{QtimestampQ:Q`); d.buf.WriteString(t.Format(time.RFC3339Nano))
   d.buf.WriteString(`Q,QlevelQ:Q`);    writeLevel(&d.buf, level, false)
   d.buf.WriteString(`Q,QmessageQ:`);   <message>;  d.buf.WriteString(`}`); d.buf.WriteByte(newline)

   <message> is json.Marshal(fmt.Sprintf(format, args...)) since the fix: commit
   "encode structured log messages as JSON strings" (render), and was
   strconv.Quote(fmt.Sprintf(format, args...)) in the pinned tree (render_v0).
   The formatted timestamp `ts` (time.Format) and the formatted message `msg` (fmt.Sprintf) are inputs. *)
From Coq Require Import List ZArith Bool.
Require Import MTX.Lib.Utf8 MTX.Lib.Json.
Import ListNotations.
Local Open Scope Z_scope.

(* writeLevel(buf, level, false): Debug=1 Info=2 Warn=3 Error=4, nothing for any other value *)
Definition level_name (lvl : Z) : list Z :=
  if lvl =? 1 then [68; 69; 66]        (* DEB *)
  else if lvl =? 2 then [73; 78; 70]   (* INF *)
  else if lvl =? 3 then [87; 65; 82]   (* WAR *)
  else if lvl =? 4 then [69; 82; 82]   (* ERR *)
  else [].

Definition key_timestamp : list Z := [116; 105; 109; 101; 115; 116; 97; 109; 112].
Definition key_level : list Z := [108; 101; 118; 101; 108].
Definition key_message : list Z := [109; 101; 115; 115; 97; 103; 101].

Definition pre_ts : list Z := [123; 34] ++ key_timestamp ++ [34; 58; 34].          (* {QtimestampQ:Q *)
Definition pre_level : list Z := [34; 44; 34] ++ key_level ++ [34; 58; 34].        (* Q,QlevelQ:Q *)
Definition pre_message : list Z := [34; 44; 34] ++ key_message ++ [34; 58].        (* Q,QmessageQ: *)

Definition render_with (quote : list Z -> list Z) (ts : list Z) (lvl : Z) (msg : list Z) : list Z :=
  pre_ts ++ ts ++ pre_level ++ level_name lvl ++ pre_message ++ quote msg ++ [125; 10].

(* the repaired code *)
Definition render : list Z -> Z -> list Z -> list Z := render_with json_string.

(* ---- the pinned code: strconv.Quote ---------------------------------------------------
   Go syntax: \a \b \f \n \r \t \v, backslash and quote escaped by a backslash; other bytes below 0x20 and 0x7f as \xNN; bytes that are
   not valid UTF-8 as \xNN; valid multi-byte runes raw when strconv.IsPrint says so, else \uNNNN /
   \UNNNNNNNN. IsPrint (a large table) is a parameter: it plays no role in the refutation. *)
Definition hex2 (b : Z) : list Z := [hexdigit (b / 16); hexdigit (b mod 16)].
Definition hex4_of (c : Z) : list Z := hex2 (c / 256) ++ hex2 (c mod 256).

Definition quote_ascii (b : Z) : list Z :=
  if b =? 7 then [92; 97] else if b =? 8 then [92; 98] else if b =? 12 then [92; 102]
  else if b =? 10 then [92; 110] else if b =? 13 then [92; 114] else if b =? 9 then [92; 116]
  else if b =? 11 then [92; 118]
  else if (b =? 34) || (b =? 92) then [92; b]
  else if (b <? 32) || (b =? 127) then 92 :: 120 :: hex2 b
  else [b].

Definition quote_rune (isprint : list Z -> bool) (r : rune) : list Z :=
  match r with
  | RAscii b => quote_ascii b
  | RBad b => 92 :: 120 :: hex2 b
  | RMulti bs =>
      if isprint bs then bs
      else let c := codepoint r in
           if c <? 65536 then 92 :: 117 :: hex4_of c
           else 92 :: 85 :: hex4_of (c / 65536) ++ hex4_of (c mod 65536)
  end.

Definition go_quote (isprint : list Z -> bool) (s : list Z) : list Z :=
  34 :: flat_map (quote_rune isprint) (runes s) ++ [34].

Definition render_v0 (isprint : list Z -> bool) : list Z -> Z -> list Z -> list Z :=
  render_with (go_quote isprint).

(* ---- what a reader of the log gets back ----------------------------------------------- *)

(* exactly one line: the newline is the last byte and the only one *)
Definition one_line (l : list Z) : bool :=
  match rev l with
  | c :: body => (c =? 10) && negb (existsb (Z.eqb 10) body)
  | [] => false
  end.

(* the members of the JSON object on the line, which must be followed by the newline only *)
Definition parse_line (l : list Z) : option (list (list Z * list Z)) :=
  match parse_object l with
  | Some (ms, rest) => if list_eqb rest [10] then Some ms else None
  | None => None
  end.
