(* Model of resolveSource (internal/staticsources/handler.go) and resolveDest (internal/forward/dest_handler.go):
   chains of strings.ReplaceAll with descending group index; and the specification: one left-to-right pass.
   Executable; no proofs here. Strings are lists of byte values. *)
From Coq Require Import List ZArith Bool.
Import ListNotations.
Local Open Scope Z_scope.

Definition bytes := list Z.

Fixpoint bytes_eqb (a b : bytes) : bool :=
  match a, b with
  | [], [] => true
  | x :: a', y :: b' => (x =? y) && bytes_eqb a' b'
  | _, _ => false
  end.

Fixpoint prefixb (p s : bytes) : bool :=
  match p, s with
  | [], _ => true
  | x :: p', y :: s' => (x =? y) && prefixb p' s'
  | _, _ => false
  end.

(* strings.ReplaceAll(s, old, new) for a non-empty old: leftmost, non-overlapping occurrences.
   skip = bytes of a matched occurrence still to be passed over *)
Fixpoint ra (old new : bytes) (skip : nat) (s : bytes) : bytes :=
  match s with
  | [] => []
  | c :: r =>
      match skip with
      | S k => ra old new k r
      | O => if prefixb old s then new ++ ra old new (length old - 1) r else c :: ra old new 0 r
      end
  end.

Definition replace_all (old new s : bytes) : bytes := ra old new 0 s.

(* strconv.FormatInt(int64(k), 10) for k >= 0 *)
Fixpoint dec_fuel (fuel : nat) (n : Z) (acc : bytes) : bytes :=
  match fuel with
  | O => acc
  | S f => if n <? 10 then (48 + n) :: acc else dec_fuel f (n / 10) ((48 + n mod 10) :: acc)
  end.

Definition dec (k : nat) : bytes := dec_fuel (S k) (Z.of_nat k) [].

(* the byte values of $G<k>, $MTX_PATH, $MTX_QUERY *)
Definition pat_g (k : nat) : bytes := 36 :: 71 :: dec k.
Definition pat_path : bytes := [36; 77; 84; 88; 95; 80; 65; 84; 72].
Definition pat_query : bytes := [36; 77; 84; 88; 95; 81; 85; 69; 82; 89].

(* for i := len(matches) - 1; i >= 1; i-- { s = ReplaceAll(s, "$G"+FormatInt(i), matches[i]) } *)
Fixpoint chain_g (ms : list bytes) (i : nat) (s : bytes) : bytes :=
  match i with
  | O => s
  | S i' => chain_g ms i' (replace_all (pat_g (S i')) (nth (S i') ms []) s)
  end.

(* ms is the Go slice matches: ms[0] is the whole match, ms[1..] the capture groups *)
Definition resolve_source (t : bytes) (ms : list bytes) (q : bytes) : bytes :=
  replace_all pat_query q (chain_g ms (length ms - 1) t).

Definition resolve_dest (t path : bytes) (ms : list bytes) : bytes :=
  chain_g ms (length ms - 1) (replace_all pat_path path t).

(* ------------------------------------------------------------------------------------------
   Specification: the template is cut, left to right, into literal bytes and placeholders (at each
   position the placeholder with the largest group index that matches, i.e. the longest one), and each
   placeholder is replaced by its value. Nothing inside a value is looked at. *)

Inductive tokid := TG (k : nat) | TPath | TQuery.
Inductive item := Lit (c : Z) | Tok (t : tokid) | Val (v : bytes).

Definition pat (t : tokid) : bytes :=
  match t with TG k => pat_g k | TPath => pat_path | TQuery => pat_query end.

(* which placeholders a template kind knows: n capture groups; $MTX_PATH (destinations); $MTX_QUERY (sources) *)
Record cfg := { ngroups : nat; use_path : bool; use_query : bool }.

Fixpoint find_g (i : nat) (s : bytes) : option nat :=
  match i with
  | O => None
  | S i' => if prefixb (pat_g (S i')) s then Some (S i') else find_g i' s
  end.

Definition token_at (c : cfg) (s : bytes) : option tokid :=
  if use_path c && prefixb pat_path s then Some TPath
  else if use_query c && prefixb pat_query s then Some TQuery
  else match find_g (ngroups c) s with Some k => Some (TG k) | None => None end.

Fixpoint tokenise (c : cfg) (skip : nat) (s : bytes) : list item :=
  match s with
  | [] => []
  | x :: r =>
      match skip with
      | S k => tokenise c k r
      | O => match token_at c s with
             | Some t => Tok t :: tokenise c (length (pat t) - 1) r
             | None => Lit x :: tokenise c 0 r
             end
      end
  end.

Definition flatten_with (f : tokid -> bytes) (its : list item) : bytes :=
  concat (map (fun it => match it with Lit c => [c] | Tok t => f t | Val v => v end) its).

Definition value (ms : list bytes) (path q : bytes) (t : tokid) : bytes :=
  match t with TG k => nth k ms [] | TPath => path | TQuery => q end.

Definition single_pass (c : cfg) (vals : tokid -> bytes) (t : bytes) : bytes :=
  flatten_with vals (tokenise c 0 t).

Definition src_cfg (ms : list bytes) : cfg := {| ngroups := length ms - 1; use_path := false; use_query := true |}.
Definition dst_cfg (ms : list bytes) : cfg := {| ngroups := length ms - 1; use_path := true; use_query := false |}.

Definition single_pass_source (t : bytes) (ms : list bytes) (q : bytes) : bytes :=
  single_pass (src_cfg ms) (value ms [] q) t.

Definition single_pass_dest (t path : bytes) (ms : list bytes) : bytes :=
  single_pass (dst_cfg ms) (value ms path []) t.

(* ------------------------------------------------------------------------------------------
   Templates on which the chain provably equals the single pass (boolean guard):
   - a dollar that starts no placeholder is followed by nothing, or by a literal byte other than G and M
     (so no value placed after it can complete a placeholder);
   - a group placeholder is followed by nothing, or by a literal byte that is not a digit
     (so no value placed after it can lengthen its index). *)

Definition is_digit (c : Z) : bool := (48 <=? c) && (c <=? 57).

Definition head_ok (it : item) (rest : list item) : bool :=
  match it with
  | Lit c =>
      if c =? 36
      then match rest with
           | [] => true
           | Lit d :: _ => negb (d =? 71) && negb (d =? 77)
           | _ => false
           end
      else true
  | Tok (TG _) =>
      match rest with
      | [] => true
      | Lit d :: _ => negb (is_digit d)
      | _ => false
      end
  | _ => true
  end.

Fixpoint guard (l : list item) : bool :=
  match l with
  | [] => true
  | it :: rest => head_ok it rest && guard rest
  end.

Definition template_ok (c : cfg) (t : bytes) : bool := guard (tokenise c 0 t).

(* values that come from a validated path name hold no dollar *)
Definition dollar_freeb (s : bytes) : bool := forallb (fun c => negb (c =? 36)) s.
