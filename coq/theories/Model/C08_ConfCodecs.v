(* C08 — the codecs of the configuration types that implement json.Marshaler / json.Unmarshaler,
   as an instance of the schema model's codec table.

   Oracles (Section variables; the driver exercises them on the real code in every run):
     net6_print / net6_parse   text form of IPv6 networks (net.IPNet.String, net.ParseCIDR/ParseIP)
     cred_valid                Credential.validate (two regexps and argon2.Decode)
     track_enc / track_dec     AlwaysAvailableTrack (alias struct + per-codec validation) *)
From Coq Require Import List ZArith Bool.
Require Import MTX.Lib.IntWrap MTX.Lib.Utf8 MTX.Model.C08_Scalars MTX.Model.C08_Schema.
Import ListNotations.
Local Open Scope Z_scope.

Inductive codec :=
| CDur | CSize | CNet | CCred | CEnum (e : enum_id) | CTransports | CTrack
| CUnknown (name : list Z).          (* a type with custom JSON methods that the translator does not know *)

Definition known_codec (c : codec) : bool := match c with CUnknown _ => false | _ => true end.

Section Oracles.
  Variable net6 : Type.
  Variable net6_print : net6 -> list Z.
  Variable net6_parse : list Z -> option net6.
  Variable cred_valid : list Z -> bool.
  Variable track : Type.
  Variable track_enc : track -> json.
  Variable track_dec : json -> option track.

  Inductive cval :=
  | XDur (d : Z) | XSize (n : Z) | XNet4 (ip : list Z) (ones : Z) | XNet6 (x : net6) | XCred (s : list Z)
  | XEnum (v : eval) | XTrans (p : pset) | XTrack (x : track) | XUnknown.

  Definition cenc (c : codec) (x : cval) : json :=
    match c, x with
    | CDur, XDur d => JStr (dur_marshal d)
    | CSize, XSize n => JStr (size_marshal_m n)
    | CNet, XNet4 ip ones => JStr (ipnet4_string ip ones)
    | CNet, XNet6 x => JStr (net6_print x)
    | CCred, XCred s => JStr s
    | CEnum e, XEnum v => JStr (enum_marshal e v)
    | CTransports, XTrans p => JArr (map JStr (transports_marshal p))
    | CTrack, XTrack x => track_enc x
    | _, _ => JNull
    end.

  Definition jstr (j : json) : option (list Z) := match j with JStr s => Some s | _ => None end.

  Definition cdec (c : codec) (j : json) : option cval :=
    match c, j with
    | CDur, JStr s => option_map XDur (dur_unmarshal s)
    | CSize, JStr s => match size_unmarshal_m s with TBVal n => Some (XSize n) | _ => None end
    | CNet, JStr s =>
        match ipnet_unmarshal s with
        | NVal ip n => Some (XNet4 ip n)
        | NV6 => option_map XNet6 (net6_parse s)
        | NErr => None
        end
    | CCred, JStr s => if cred_valid s then Some (XCred s) else None
    | CEnum e, JStr s => option_map XEnum (enum_unmarshal e s)
    | CTransports, JArr l =>
        match mapM jstr l with
        | Some ss => option_map XTrans (transports_unmarshal ss (false, false, false))
        | None => None
        end
    | CTrack, _ => option_map XTrack (track_dec j)
    | _, _ => None
    end.

  Definition cwf (c : codec) (x : cval) : Prop :=
    match c, x with
    | CDur, XDur d => - two63 < d < two63
    | CSize, XSize n => 0 <= n < two64
    | CNet, XNet4 ip ones => ipnet4_wf ip ones = true
    | CNet, XNet6 _ => True
    | CCred, XCred s => cred_valid s = true
    | CEnum e, XEnum v => In v (enum_values e)
    | CTransports, XTrans _ => True
    | CTrack, XTrack _ => True
    | CUnknown _, _ => True
    | _, _ => False
    end.

  Definition czero (c : codec) : cval :=
    match c with
    | CDur => XDur 0 | CSize => XSize 0 | CNet => XNet4 [] 0 | CCred => XCred [] | CEnum _ => XEnum (EInt 0)
    | CTransports => XTrans (false, false, false) | CTrack | CUnknown _ => XUnknown
    end.
End Oracles.
