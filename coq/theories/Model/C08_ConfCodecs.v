(* C08 — the codecs of the configuration types that implement json.Marshaler / json.Unmarshaler,
   as an instance of the schema model's codec table.

   Oracle (Section variable; the driver ships its values per case):
     cred_valid                Credential.validate (two regexps and argon2.Decode)

   Modelled here: IP networks of both families (C08_Scalars / C08_Net6), AlwaysAvailableTrack
   (always_available_track.go: no MarshalJSON, so the plain struct encoding; UnmarshalJSON = jsonwrapper
   on the alias struct followed by validate()). *)
From Coq Require Import List ZArith Bool.
Require Import MTX.Lib.IntWrap MTX.Lib.Utf8 MTX.Model.C08_Scalars MTX.Model.C08_Net6 MTX.Model.C08_Schema.
Import ListNotations.
Local Open Scope Z_scope.

Inductive codec :=
| CDur | CSize | CNet | CCred | CEnum (e : enum_id) | CTransports | CTrack
| CUnknown (name : list Z).          (* a type with custom JSON methods that the translator does not know *)

Definition known_codec (c : codec) : bool := match c with CUnknown _ => false | _ => true end.

Inductive cval :=
| XDur (d : Z) | XSize (n : Z) | XNet4 (ip : list Z) (ones : Z) | XNet6 (ip : list Z) (ones : Z) | XCred (s : list Z)
| XEnum (v : eval) | XTrans (p : pset)
| XTrack (tcodec : list Z) (rate chans : Z) (mulaw : bool)
| XUnknown.

(* Go zero values: int-based enums are 0, string-based ones "", RTSPTransport a nil protocol *)
Definition enum_zero (e : enum_id) : eval :=
  match e with
  | ELogLevel | ELogDestination | EHLSVariant | ERTSPAuthMethod => EInt 0
  | ERTSPTransport => ENone
  | _ => EStr []
  end.

Definition czero (c : codec) : cval :=
  match c with
  | CDur => XDur 0 | CSize => XSize 0 | CNet => XNet4 [] 0 | CCred => XCred [] | CEnum e => XEnum (enum_zero e)
  | CTransports => XTrans (false, false, false) | CTrack => XTrack [] 0 0 false | CUnknown _ => XUnknown
  end.

(* ---- AlwaysAvailableTrack: the struct the alias type exposes to encoding/json and to jsonwrapper.
   The translator reflects the real struct into MTXGen.C08_ConfSchema.track_ty; C08_schema_facts proves
   that it is this term. *)
Definition s_codec := [99;111;100;101;99].
Definition s_sampleRate := [115;97;109;112;108;101;82;97;116;101].
Definition s_channelCount := [99;104;97;110;110;101;108;67;111;117;110;116].
Definition s_muLaw := [109;117;76;97;119].
Definition int64_lo := -9223372036854775808.
Definition int64_hi := 9223372036854775807.

Definition track_ty_model : ty codec :=
  TStruct [(s_codec, false, TString); (s_sampleRate, false, TInt int64_lo int64_hi);
           (s_channelCount, false, TInt int64_lo int64_hi); (s_muLaw, false, TBool)].

Definition s_AV1 := [65;86;49].
Definition s_VP9 := [86;80;57].
Definition s_H265 := [72;50;54;53].
Definition s_H264 := [72;50;54;52].
Definition s_MPEG4Audio := [77;80;69;71;52;65;117;100;105;111].
Definition s_Opus := [79;112;117;115].
Definition s_G711 := [71;55;49;49].
Definition s_LPCM := [76;80;67;77].

(* AlwaysAvailableTrack.validate *)
Definition track_valid (c : list Z) (rate chans : Z) : bool :=
  if one_of c [s_AV1; s_VP9; s_H265; s_H264; s_Opus] then (rate =? 0) && (chans =? 0)
  else if str_eqb c s_MPEG4Audio then negb (rate =? 0) && negb (rate <? 22050) && negb (chans =? 0)
  else if one_of c [s_G711; s_LPCM] then negb (rate =? 0) && negb (rate <? 8000) && negb (chans =? 0)
  else false.

(* the track's fields hold no codec type: any table does *)
Definition track_enc (c : list Z) (rate chans : Z) (mulaw : bool) : json :=
  enc codec cval (fun _ _ => JNull) track_ty_model (VStruct [VStr c; VInt rate; VInt chans; VBool mulaw]).

Definition track_dec (j : json) : option cval :=
  match dec codec cval (fun _ _ => None) czero track_ty_model j with
  | Some (VStruct [VStr c; VInt rate; VInt chans; VBool mulaw]) =>
      if track_valid c rate chans then Some (XTrack c rate chans mulaw) else None
  | _ => None
  end.

Section Oracles.
  Variable cred_valid : list Z -> bool.

  Definition cenc (c : codec) (x : cval) : json :=
    match c, x with
    | CDur, XDur d => JStr (dur_marshal d)
    | CSize, XSize n => JStr (size_marshal_m n)
    | CNet, XNet4 ip ones => JStr (ipnet4_string ip ones)
    | CNet, XNet6 ip ones => JStr (ipnet6_string ip ones)
    | CCred, XCred s => JStr s
    | CEnum e, XEnum v => JStr (enum_marshal e v)
    | CTransports, XTrans p => JArr (map JStr (transports_marshal p))
    | CTrack, XTrack c r n m => track_enc c r n m
    | _, _ => JNull
    end.

  Definition jstr (j : json) : option (list Z) := match j with JStr s => Some s | _ => None end.

  (* the string-based codecs decode through `var in string; jsonwrapper.Unmarshal(b, &in)` (or an alias of
     a fresh string): JSON null leaves the string empty *)
  Definition jtext (j : json) : option (list Z) :=
    match j with JStr s => Some s | JNull => Some [] | _ => None end.

  Definition cdec (c : codec) (j : json) : option cval :=
    match c with
    | CDur => match jtext j with Some s => option_map XDur (dur_unmarshal s) | None => None end
    | CSize => match jtext j with
               | Some s => match size_unmarshal_m s with TBVal n => Some (XSize n) | _ => None end
               | None => None
               end
    | CNet => match jtext j with
              | Some s =>
                  match ipnet_unmarshal_full s with
                  | NF4 ip n => Some (XNet4 ip n)
                  | NF6 ip n => Some (XNet6 ip n)
                  | NFErr => None
                  end
              | None => None
              end
    | CCred => match jtext j with Some s => if cred_valid s then Some (XCred s) else None | None => None end
    | CEnum e => match jtext j with Some s => option_map XEnum (enum_unmarshal e s) | None => None end
    | CTransports =>
        match j with
        | JArr l =>
            match mapM jstr l with
            | Some ss => option_map XTrans (transports_unmarshal ss (false, false, false))
            | None => None
            end
        | _ => None
        end
    | CTrack => track_dec j
    | CUnknown _ => None
    end.

  Definition cwf (c : codec) (x : cval) : Prop :=
    match c, x with
    | CDur, XDur d => - two63 < d < two63
    | CSize, XSize n => 0 <= n < two64
    | CNet, XNet4 ip ones => ipnet4_wf ip ones = true
    | CNet, XNet6 ip ones => net6_wf ip ones = true
    | CCred, XCred s => cred_valid s = true
    | CEnum e, XEnum v => In v (enum_values e)
    | CTransports, XTrans _ => True
    | CTrack, XTrack c r n _ =>
        valid_utf8 c = true /\ int64_lo <= r <= int64_hi /\ int64_lo <= n <= int64_hi /\ track_valid c r n = true
    | CUnknown _, _ => True
    | _, _ => False
    end.
End Oracles.

(* ---- decidable equality of codec values (used by the correspondence check only) *)
Definition cval_eqb (a b : cval) : bool :=
  match a, b with
  | XDur x, XDur y | XSize x, XSize y => x =? y
  | XNet4 i1 o1, XNet4 i2 o2 | XNet6 i1 o1, XNet6 i2 o2 => str_eqb i1 i2 && (o1 =? o2)
  | XCred x, XCred y => str_eqb x y
  | XEnum x, XEnum y => eval_eqb x y
  | XTrans (a1, a2, a3), XTrans (b1, b2, b3) => Bool.eqb a1 b1 && Bool.eqb a2 b2 && Bool.eqb a3 b3
  | XTrack c1 r1 n1 m1, XTrack c2 r2 n2 m2 => str_eqb c1 c2 && (r1 =? r2) && (n1 =? n2) && Bool.eqb m1 m2
  | XUnknown, XUnknown => true
  | _, _ => false
  end.
