(* Model for C06, listing side: recordstore.FindAllPathsWithSegments with its two helpers
   fixedPathHasSegments and regexpPathFindPathsWithSegments (internal/recordstore/segment.go).
   They feed the API's recordings list and the record cleaner with PATH NAMES read back from the
   file names of the recording tree (Path.Decode = C26's decode). Executable; no proofs here.

   The directory tree enters as `tree root` = the regular files filepath.WalkDir visits from
   `root`, in walk order (any function: the theorems quantify over it). The regular expression of
   a configuration enters as a boolean function on names (oracle for Go's regexp engine). *)
From Coq Require Import List ZArith Bool.
Require Import MTX.Lib.PathClean MTX.Model.C26_RecPath MTX.Model.C06_PathName.
Import ListNotations.
Local Open Scope Z_scope.

(* regexpPathFindPathsWithSegments: recordPath = Abs(PathAddExtension(conf.RecordPath)) -- "%path" is
   NOT substituted, it is what Decode reads back -- and the root of its WalkDir *)
Definition list_record_path (cwd f : list Z) (ts : bool) : list Z := abs cwd (f ++ ext ts).
Definition list_walk_root (cwd f : list Z) (ts : bool) : list Z := common_path (list_record_path cwd f ts).

(* pa.Decode(recordPath, fpath); pa.Path *)
Definition decoded_name (loff : Z) (rp v : list Z) : option (list Z) :=
  match decode loff rp v with Some (p, _, _) => Some p | None => None end.

(* the body of the walk callback for ONE regular file: the decoded name is listed only if
   conf.IsValidPathName accepts it and the configuration's regular expression matches it *)
Definition listed_name (re : list Z -> bool) (loff : Z) (cwd f : list Z) (ts : bool) (v : list Z) : option (list Z) :=
  match decoded_name loff (list_record_path cwd f ts) v with
  | Some p => if valid p then (if re p then Some p else None) else None
  | None => None
  end.

(* the names put into the result map, one per accepted file, in walk order (the map is a set) *)
Fixpoint regexp_paths (re : list Z -> bool) (loff : Z) (cwd f : list Z) (ts : bool) (files : list (list Z)) : list (list Z) :=
  match files with
  | [] => []
  | v :: r =>
      match listed_name re loff cwd f ts v with
      | Some p => p :: regexp_paths re loff cwd f ts r
      | None => regexp_paths re loff cwd f ts r
      end
  end.

(* fixedPathHasSegments: "%path" := the configuration's own name; some visited file decodes *)
Definition fixed_walk_root (cwd f : list Z) (ts : bool) (name : list Z) : list Z := find_walk_root cwd f ts name.
Definition fixed_has_segments (loff : Z) (cwd f : list Z) (ts : bool) (name : list Z) (files : list (list Z)) : bool :=
  existsb (fun v => match decode loff (find_record_path cwd f ts name) v with Some _ => true | None => false end) files.

(* a path configuration as FindAllPathsWithSegments looks at it (Regexp == nil or not) *)
Inductive lconf :=
| LFixed (name f : list Z) (ts : bool)
| LRegexp (re : list Z -> bool) (f : list Z) (ts : bool).

Definition conf_paths (tree : list Z -> list (list Z)) (loff : Z) (cwd : list Z) (c : lconf) : list (list Z) :=
  match c with
  | LFixed name f ts =>
      if fixed_has_segments loff cwd f ts name (tree (fixed_walk_root cwd f ts name)) then [name] else []
  | LRegexp re f ts => regexp_paths re loff cwd f ts (tree (list_walk_root cwd f ts))
  end.

(* FindAllPathsWithSegments, as a set of names (the code sorts the keys of a map) *)
Definition find_all (tree : list Z -> list (list Z)) (loff : Z) (cwd : list Z) (confs : list lconf) : list (list Z) :=
  flat_map (conf_paths tree loff cwd) confs.

(* what "p is listed on behalf of configuration c" has to mean *)
Definition conf_admits (tree : list Z -> list (list Z)) (loff : Z) (cwd : list Z) (c : lconf) (p : list Z) : Prop :=
  match c with
  | LFixed name f ts => p = name /\ fixed_has_segments loff cwd f ts name (tree (fixed_walk_root cwd f ts name)) = true
  | LRegexp re f ts =>
      valid p = true /\ re p = true /\
      exists v, In v (tree (list_walk_root cwd f ts)) /\ decoded_name loff (list_record_path cwd f ts) v = Some p
  end.

(* ---- the variant that checks the name once per DIRECTORY (first decodable file of a directory
   decides for all its files): used only to show that the per-file check is necessary ---- *)

(* filepath.Dir of an absolute clean file name: everything before the last '/' *)
Fixpoint dir_rev (r : list Z) : list Z :=
  match r with [] => [] | c :: r' => if c =? 47 then r' else dir_rev r' end.
Definition dir_of (v : list Z) : list Z := rev (dir_rev (rev v)).

Fixpoint cache_get (d : list Z) (cache : list (list Z * bool)) : option bool :=
  match cache with
  | [] => None
  | (k, b) :: r => if bytes_eqb k d then Some b else cache_get d r
  end.

Fixpoint regexp_paths_dircache (re : list Z -> bool) (loff : Z) (cwd f : list Z) (ts : bool)
         (cache : list (list Z * bool)) (files : list (list Z)) : list (list Z) :=
  match files with
  | [] => []
  | v :: r =>
      match decoded_name loff (list_record_path cwd f ts) v with
      | Some p =>
          let d := dir_of v in
          match cache_get d cache with
          | Some ok => (if ok then [p] else []) ++ regexp_paths_dircache re loff cwd f ts cache r
          | None =>
              let ok := valid p && re p in
              (if ok then [p] else []) ++ regexp_paths_dircache re loff cwd f ts ((d, ok) :: cache) r
          end
      | None => regexp_paths_dircache re loff cwd f ts cache r
      end
  end.
