(* Model for C10: the parts of conf.Load written in this repository that decide between
   {configuration, error, panic}: decrypt.Decrypt, the map step of the environment loader, and
   the numeric/structural part of Conf.Validate / Path.validate. Executable; no proofs here.
   Strings are lists of byte values. Third-party behaviour enters as function arguments /
   boolean fields ("oracles") whose values the driver computes with the real library. *)
From Coq Require Import List ZArith Bool.
Import ListNotations.
Local Open Scope Z_scope.

(* ------------------------------------------------------------------------------------- *)
(* decrypt.Decrypt (internal/conf/decrypt/decrypt.go)

     enc, err := base64.StdEncoding.DecodeString(string(byts));  if err != nil { return nil, err }
     [fix:]  if len(enc) < 24 { return nil, error }
     var secretKey [32]byte; copy(secretKey[:], key)
     var decryptNonce [24]byte; copy(decryptNonce[:], enc[:24])          <- panics when len(enc) < 24
     decrypted, ok := secretbox.Open(nil, enc[24:], &decryptNonce, &secretKey);  if !ok { error } *)
Inductive dec_outcome := DErr | DPanic | DOk (plain : list Z).

(* copy(secretKey[:], key): first 32 bytes, zero padded *)
Definition key32 (key : list Z) : list Z := firstn 32 (key ++ repeat 0 32).

Definition decrypt (fixd : bool)
                   (b64 : list Z -> option (list Z))                       (* oracle: StdEncoding.DecodeString *)
                   (sopen : list Z -> list Z -> list Z -> option (list Z)) (* oracle: secretbox.Open key nonce box *)
                   (key byts : list Z) : dec_outcome :=
  match b64 byts with
  | None => DErr
  | Some enc =>
      if fixd && (Z.of_nat (length enc) <? 24) then DErr
      else if Z.of_nat (length enc) <? 24 then DPanic      (* enc[:24]: slice bounds out of range *)
      else match sopen (key32 key) (firstn 24 enc) (skipn 24 enc) with
           | None => DErr
           | Some p => DOk p
           end
  end.

(* loadFromFile: RTSP_CONFKEY (legacy) then MTX_CONFKEY, each optional, applied in sequence *)
Definition decrypt_file (fixd : bool) b64 sopen (legacy_key mtx_key : option (list Z)) (byts : list Z) : dec_outcome :=
  let step k o := match o, k with
                  | DOk b, Some key => decrypt fixd b64 sopen key b
                  | _, _ => o
                  end in
  step mtx_key (step legacy_key (DOk byts)).

(* ------------------------------------------------------------------------------------- *)
(* env loader, map case (internal/conf/env/env.go): for a key MTX_PATHS_<NAME>_...

     nv := prv.Elem().MapIndex(key)
     if nv == zero [fix: || nv.IsNil()] { nv = reflect.New(...); SetMapIndex(key, nv) }
     loadEnvInternal(env, prefix_key, nv.Elem())         <- nv.Elem() of a nil pointer is the zero
                                                            Value; Addr() on it panics
   the map entry is: absent / present but nil (a path written "name:" with no body) / present *)
Inductive map_entry := EAbsent | ENil | EPresent.
Inductive env_outcome := EnvPanic | EnvUsesEntry (fresh : bool).

Definition env_map_step (fixe : bool) (e : map_entry) : env_outcome :=
  match e with
  | EAbsent => EnvUsesEntry true
  | ENil => if fixe then EnvUsesEntry true else EnvPanic
  | EPresent => EnvUsesEntry false
  end.

(* env loader, list parameters: an empty variable means "empty list"

     if ev == "" { prv.Elem().Set(reflect.MakeSlice(prv.Elem().Type(), 0, 0)) }   <- prv.Elem() of a nil
                                                                     pointer is the zero Value: Type() panics
     [fix: if prv.IsNil() { prv.Set(reflect.New(rt)) } first]
   every list parameter of an optional path (and deprecated global ones) sits behind a pointer that is nil
   until the parameter is given *)
Definition env_empty_list_step (fixl : bool) (pointer_is_nil : bool) : env_outcome :=
  if pointer_is_nil then (if fixl then EnvUsesEntry true else EnvPanic) else EnvUsesEntry false.

(* env loader, parameters with their own UnmarshalEnv: a variable that only EXTENDS the parameter's name
   (MTX_PROTOCOLS_X) takes the "has sub-keys" branch

     } else if envHasAtLeastAKeyWithPrefix(env, prefix+"_") {
         [fix: if prv.IsNil() { prv.Set(reflect.New(rt)); i = ... }]
         err := i.UnmarshalEnv(prefix, "")               <- nil receiver when the parameter is optional and unset *)
Definition env_subkey_step (fixu : bool) (pointer_is_nil : bool) : env_outcome :=
  if pointer_is_nil then (if fixu then EnvUsesEntry true else EnvPanic) else EnvUsesEntry false.

(* ------------------------------------------------------------------------------------- *)
(* Conf.Validate / Path.validate: the constraints the property names *)

Fixpoint list_eqb (a b : list Z) : bool :=
  match a, b with
  | [], [] => true
  | x :: r, y :: s => (x =? y) && list_eqb r s
  | _, _ => false
  end.

Fixpoint prefix_b (p s : list Z) : bool :=
  match p, s with
  | [], _ => true
  | x :: r, y :: t => (x =? y) && prefix_b r t
  | _ :: _, [] => false
  end.

(* strings.Contains *)
Fixpoint contains (p s : list Z) : bool :=
  prefix_b p s || match s with [] => false | _ :: t => contains p t end.

(* ------------------------------------------------------------------------------------- *)
(* Conf.Validate / Path.validate (internal/conf/conf.go, path.go).

   Every `if cond { return fmt.Errorf(...) }` whose inputs are plain fields (numbers, durations, enumerations,
   booleans, string emptiness / prefixes / placeholders, list membership, mutual exclusions) is a [chk cond E] below,
   in code order; every deprecated-parameter migration that copies a value is part of the [*_migrate] functions.
   What stays an oracle boolean (computed per case by the real helper) is a genuine library call:
   IsValidPathName (regexp), regexp.Compile, validateURL (url.Parse), net.SplitHostPort, checkRedirect
   (base.ParseURL), Forward.Validate (url.Parse), checkAlwaysAvailableFile (file system, MP4 reader),
   rePlainCredential.MatchString (regexp), reflect.DeepEqual (users = the default users).
   The error constructors [verr] are tied to the Go error sites by Model/C10_Sites.v. *)
From Coq Require Import String Ascii.

Fixpoint bytes (s : string) : list Z :=
  match s with
  | EmptyString => []
  | String a r => Z.of_N (N_of_ascii a) :: bytes r
  end.
Arguments bytes s%string_scope.

Definition nonempty (s : list Z) : bool := match s with [] => false | _ => true end.
Definition empty (s : list Z) : bool := negb (nonempty s).
Definition str_in (s : list Z) (l : list (list Z)) : bool := existsb (list_eqb s) l.
Definition is_none {A} (o : option A) : bool := match o with None => true | Some _ => false end.
(* `if dep != nil { cur = *dep }` *)
Definition opt_or {A} (dep : option A) (cur : A) : A := match dep with Some v => v | None => cur end.

Inductive verr :=
(* Conf.Validate *)
| E_read_timeout | E_write_timeout | E_wqs_pos | E_wqs_pow2 | E_udp_max
| E_users_and_legacy | E_user_empty | E_any_pass
| E_http_addr_empty | E_http_addr_scheme | E_jwks_empty | E_jwks_scheme | E_claim_empty
| E_api_addr | E_metrics_addr | E_pprof_addr | E_playback_addr
| E_rtsp_addr | E_rtp_addr | E_rtcp_addr | E_mc_range_plain | E_mc_rtp | E_mc_rtcp
| E_rtsps_addr | E_srtp_addr | E_srtcp_addr | E_mc_range_secure | E_mc_srtp | E_mc_srtcp
| E_rtsp_auth_methods | E_digest_method | E_digest_hashed
| E_rtmp_addr | E_hls_addr | E_hls_secret
| E_webrtc_addr | E_ice_server | E_webrtc_no_transport | E_webrtc_no_hosts
| E_moq_addr | E_aliases | E_dep_any_pass | E_dep_digest_hashed
(* Path.validate *)
| E_name | E_regexp | E_srt_pub_source | E_redirect_useless | E_srt_pub_len
| E_url | E_rtsp_port_range | E_hostport | E_rtp_sdp | E_redirect_empty | E_redirect
| E_rpi_w | E_rpi_h | E_rpi_w_mjpeg | E_rpi_h_mjpeg | E_rpi_exposure | E_rpi_awb | E_rpi_gains | E_rpi_denoise
| E_rpi_metering | E_rpi_afmode | E_rpi_afrange | E_rpi_afspeed | E_rpi_hw_profile | E_rpi_hw_level
| E_rpi_sw_profile | E_rpi_sw_level | E_rpi_profile | E_rpi_level | E_rpi_codec
| E_rpi_dup | E_rpi_no_primary | E_rpi_multi_secondary | E_source_invalid
| E_on_demand_publisher | E_regex_static_demand | E_srt_read_len | E_forward | E_fallback | E_tracks
| E_aa_regex | E_aa_on_demand | E_aa_run_on_demand | E_aa_file_and_tracks | E_aa_file | E_aa_no_tracks | E_aa_abs_ts
| E_rec_path | E_rec_ts | E_rec_f | E_seg_max | E_del_lt_seg | E_run_on_init_regex | E_run_on_demand_source.

(* sequencing of checks: the first error wins *)
Definition chk (cond : bool) (e : verr) : option verr := if cond then Some e else None.
Definition when (cond : bool) (x : option verr) : option verr := if cond then x else None.
Definition orelse (a b : option verr) : option verr := match a with Some e => Some e | None => b end.
Infix ";;" := orelse (at level 61, right associativity).

Definition s_all : list Z := bytes "all".
Definition s_all_others : list Z := bytes "all_others".
Definition s_re_all : list Z := bytes "~^.*$".
Definition s_any : list Z := bytes "any".
Definition ph_path : list Z := bytes "%path".
Definition ph (c : Z) : list Z := [37; c].                          (* "%Y" ... *)
Definition day_ns : Z := 86400000000000.

(* ---- sources *)
Inductive src :=
| SPublisher | SRedirect | SRpi
| SStatic (ok : bool)      (* rtsp://, rtmp://, http://, udp://, srt://, whep://, ... ; ok = its URL / port / SDP checks passed *)
| SInvalid.

Definition src_eqb (a b : src) : bool :=
  match a, b with
  | SPublisher, SPublisher | SRedirect, SRedirect | SRpi, SRpi | SInvalid, SInvalid => true
  | SStatic x, SStatic y => Bool.eqb x y
  | _, _ => false
  end.

(* what the `case strings.HasPrefix(pconf.Source, ...)` branch of a static source checks *)
Inductive skind :=
| KRtsp          (* validateURL; sourceProtocol / sourceAnyPortEnable migrations; len(rtspUDPSourcePortRange) == 2 *)
| KUrl           (* validateURL *)
| KUrlPort       (* validateURL, net.SplitHostPort *)
| KNothing       (* unix+mpegts:// *)
| KUrlPortSdp    (* udp+rtp://: validateURL, SplitHostPort, rtpSDP != "" *)
| KSdp.          (* unix+rtp://: rtpSDP != "" *)

Definition static_prefixes : list (list Z * skind) :=
  [(bytes "rtsp://", KRtsp); (bytes "rtsps://", KRtsp); (bytes "rtsp+http://", KRtsp); (bytes "rtsps+http://", KRtsp);
   (bytes "rtsp+ws://", KRtsp); (bytes "rtsps+ws://", KRtsp);
   (bytes "rtmp://", KUrl); (bytes "rtmps://", KUrl); (bytes "http://", KUrl); (bytes "https://", KUrl);
   (bytes "udp://", KUrlPort); (bytes "udp+mpegts://", KUrlPort); (bytes "unix+mpegts://", KNothing);
   (bytes "udp+rtp://", KUrlPortSdp); (bytes "unix+rtp://", KSdp);
   (bytes "srt://", KUrl); (bytes "moqt://", KUrl); (bytes "whep://", KUrl); (bytes "wheps://", KUrl)].

Definition find_static (s : list Z) : option skind :=
  match find (fun pk => prefix_b (fst pk) s) static_prefixes with
  | Some pk => Some (snd pk)
  | None => None
  end.

(* first error of a static branch: E_url (validateURL), then E_hostport, then E_rtp_sdp *)
Definition static_err (k : skind) (url_ok hostport_ok sdp : bool) (port_range : Z) : option verr :=
  match k with
  | KRtsp => chk (negb url_ok) E_url ;; chk (negb (port_range =? 2)) E_rtsp_port_range
  | KUrl => chk (negb url_ok) E_url
  | KUrlPort => chk (negb url_ok) E_url ;; chk (negb hostport_ok) E_hostport
  | KNothing => None
  | KUrlPortSdp => chk (negb url_ok) E_url ;; chk (negb hostport_ok) E_hostport ;; chk (negb sdp) E_rtp_sdp
  | KSdp => chk (negb sdp) E_rtp_sdp
  end.

(* ---- users (authInternalUsers) *)
Record userc := U {
  u_user : list Z;
  u_pass : list Z;
  u_nips : Z;                      (* len(IPs) *)
  u_perms : list (Z * list Z)      (* (action, path); action 0 publish 1 read 2 playback 3 api 4 metrics 5 pprof 6 other *)
}.

(* Credential.IsHashed *)
Definition hashed (s : list Z) : bool := prefix_b (bytes "sha256:") s || prefix_b (bytes "argon2:") s.

(* the users installed by the deprecated-credentials mode of Conf.Validate *)
Definition base_users : list userc :=
  [{| u_user := s_any; u_pass := []; u_nips := 0; u_perms := [(2, [])] |};
   {| u_user := s_any; u_pass := []; u_nips := 2; u_perms := [(3, []); (4, []); (5, [])] |}].

Definition user_err (u : userc) : option verr :=
  chk (empty (u_user u)) E_user_empty ;;
  chk (list_eqb (u_user u) s_any && nonempty (u_pass u)) E_any_pass.

Fixpoint users_err (us : list userc) : option verr :=
  match us with
  | [] => None
  | u :: r => user_err u ;; users_err r
  end.

(* ---- per-path plain fields added to the first version of this model *)
Record pext := PX {
  e_url_ok : bool;                   (* oracle: validateURL(source) *)
  e_hostport_ok : bool;              (* oracle: net.SplitHostPort(u.Host) *)
  e_rtp_sdp : bool;                  (* RTPSDP != "" *)
  e_port_range : Z;                  (* len(RTSPUDPSourcePortRange) *)
  e_dis_pub_override : option bool;  (* deprecated, replaced by overridePublisher *)
  e_override_publisher : bool;
  e_source_protocol : option Z;      (* deprecated, replaced by rtspTransport; 0 automatic 1 udp 2 multicast 3 tcp *)
  e_rtsp_transport : Z;
  e_source_any_port : option bool;   (* deprecated, replaced by rtspAnyPort *)
  e_rtsp_any_port : bool;
  e_w : Z;                           (* rpiCameraWidth (uint) *)
  e_h : Z;
  e_codec : list Z;
  e_exposure : list Z;
  e_awb : list Z;
  e_awb_gains : Z;                   (* len(RPICameraAWBGains) *)
  e_denoise : list Z;
  e_metering : list Z;
  e_afmode : list Z;
  e_afrange : list Z;
  e_afspeed : list Z;
  e_profile : option (list Z);       (* deprecated rpiCameraProfile -> rpiCameraHardwareH264Profile *)
  e_level : option (list Z);         (* deprecated rpiCameraLevel -> rpiCameraHardwareH264Level *)
  e_hw_profile : option (list Z);
  e_hw_level : option (list Z);
  e_sw_profile : option (list Z);
  e_sw_level : option (list Z);
  e_h264_profile : list Z;
  e_h264_level : list Z;
  e_jpeg_q : option Z;               (* deprecated rpiCameraJPEGQuality -> rpiCameraMJPEGQuality *)
  e_mjpeg_q : Z;
  e_aa_file : bool;                  (* AlwaysAvailableFile != "" *)
  e_aa_file_ok : bool;               (* oracle: checkAlwaysAvailableFile *)
  e_pub_user : option (list Z);      (* deprecated credentials *)
  e_pub_pass : option (list Z);
  e_pub_ips : option Z;              (* len(PublishIPs) *)
  e_read_user : option (list Z);
  e_read_pass : option (list Z);
  e_read_ips : option Z;
  e_on_ready : option (list Z);      (* deprecated runOnReady -> runOnAvailable *)
  e_on_available : list Z;
  e_ready_restart : option bool;     (* deprecated runOnReadyRestart -> runOnAvailableRestart *)
  e_available_restart : bool;
  e_on_not_ready : option (list Z);  (* deprecated runOnNotReady -> runOnUnavailable *)
  e_on_unavailable : list Z
}.

Record pathc := P {
  p_name : list Z;
  p_name_ok : bool;        (* oracle: IsValidPathName (plain name) / regexp.Compile (name after '~') *)
  p_regex : bool;          (* output: Regexp != nil *)
  p_source_str : list Z;   (* Source *)
  p_on_demand : bool;
  p_srt_pub : Z;           (* len(SRTPublishPassphrase) *)
  p_srt_read : Z;          (* len(SRTReadPassphrase) *)
  p_redirect : bool;       (* SourceRedirect != "" *)
  p_redirect_ok : bool;    (* oracle: checkRedirect(SourceRedirect) *)
  p_cam : Z;
  p_secondary : bool;
  p_forward_ok : bool;     (* oracle: Forward.Validate *)
  p_fallback_ok : bool;    (* oracle: Fallback == nil || checkRedirect(Fallback) == nil *)
  p_aa : bool;             (* AlwaysAvailable *)
  p_abs_ts : bool;
  p_run_init : bool;       (* RunOnInit != "" *)
  p_run_demand : bool;     (* RunOnDemand != "" || RunOnUnDemand != "" *)
  p_record_path : list Z;
  p_seg : Z;               (* RecordSegmentDuration, ns *)
  p_del : Z;               (* RecordDeleteAfter, ns *)
  p_tracks : list (Z * Z * Z);  (* AlwaysAvailableTracks: (codec class, sampleRate, channelCount); class 0 = AV1/VP9/H265/H264/Opus,
                                   1 = MPEG4Audio, 2 = G711/LPCM, 3 = anything else *)
  p_x : pext
}.

(* the `switch` on pconf.Source, as a classification of the string *)
Definition p_source (p : pathc) : src :=
  let s := p_source_str p in
  if list_eqb s (bytes "publisher") then SPublisher else
  match find_static s with
  | Some k => SStatic (is_none (static_err k (e_url_ok (p_x p)) (e_hostport_ok (p_x p)) (e_rtp_sdp (p_x p)) (e_port_range (p_x p))))
  | None =>
      if list_eqb s (bytes "redirect") then SRedirect else
      if list_eqb s (bytes "rpiCamera") then SRpi else SInvalid
  end.

Definition is_rtsp_source (p : pathc) : bool :=
  negb (list_eqb (p_source_str p) (bytes "publisher")) &&
  match find_static (p_source_str p) with Some KRtsp => true | _ => false end.

(* deprecated parameters copied by Path.validate (each inside the branch of the source switch where the code has it) *)
Definition pext_migrate (s : src) (rtsp : bool) (e : pext) : pext :=
  let rpi := src_eqb s SRpi in
  {| e_url_ok := e_url_ok e; e_hostport_ok := e_hostport_ok e; e_rtp_sdp := e_rtp_sdp e; e_port_range := e_port_range e;
     e_dis_pub_override := e_dis_pub_override e;
     e_override_publisher :=
       if src_eqb s SPublisher
       then match e_dis_pub_override e with Some d => negb d | None => e_override_publisher e end
       else e_override_publisher e;
     e_source_protocol := e_source_protocol e;
     e_rtsp_transport := if rtsp then opt_or (e_source_protocol e) (e_rtsp_transport e) else e_rtsp_transport e;
     e_source_any_port := e_source_any_port e;
     e_rtsp_any_port := if rtsp then opt_or (e_source_any_port e) (e_rtsp_any_port e) else e_rtsp_any_port e;
     e_w := e_w e; e_h := e_h e; e_codec := e_codec e; e_exposure := e_exposure e; e_awb := e_awb e;
     e_awb_gains := e_awb_gains e; e_denoise := e_denoise e; e_metering := e_metering e; e_afmode := e_afmode e;
     e_afrange := e_afrange e; e_afspeed := e_afspeed e;
     e_profile := e_profile e; e_level := e_level e;
     e_hw_profile := if rpi then match e_profile e with Some v => Some v | None => e_hw_profile e end else e_hw_profile e;
     e_hw_level := if rpi then match e_level e with Some v => Some v | None => e_hw_level e end else e_hw_level e;
     e_sw_profile := e_sw_profile e; e_sw_level := e_sw_level e;
     e_h264_profile := e_h264_profile e; e_h264_level := e_h264_level e;
     e_jpeg_q := e_jpeg_q e;
     e_mjpeg_q := if rpi then opt_or (e_jpeg_q e) (e_mjpeg_q e) else e_mjpeg_q e;
     e_aa_file := e_aa_file e; e_aa_file_ok := e_aa_file_ok e;
     e_pub_user := e_pub_user e; e_pub_pass := e_pub_pass e; e_pub_ips := e_pub_ips e;
     e_read_user := e_read_user e; e_read_pass := e_read_pass e; e_read_ips := e_read_ips e;
     e_on_ready := e_on_ready e; e_on_available := opt_or (e_on_ready e) (e_on_available e);
     e_ready_restart := e_ready_restart e; e_available_restart := opt_or (e_ready_restart e) (e_available_restart e);
     e_on_not_ready := e_on_not_ready e; e_on_unavailable := opt_or (e_on_not_ready e) (e_on_unavailable e) |}.

(* what Path.validate leaves in the path: Regexp, and the migrated parameters *)
Definition finish_path (p : pathc) (r : bool) : pathc :=
  {| p_name := p_name p; p_name_ok := p_name_ok p; p_regex := r; p_source_str := p_source_str p;
     p_on_demand := p_on_demand p; p_srt_pub := p_srt_pub p; p_srt_read := p_srt_read p;
     p_redirect := p_redirect p; p_redirect_ok := p_redirect_ok p; p_cam := p_cam p;
     p_secondary := p_secondary p; p_forward_ok := p_forward_ok p; p_fallback_ok := p_fallback_ok p; p_aa := p_aa p;
     p_abs_ts := p_abs_ts p; p_run_init := p_run_init p;
     p_run_demand := p_run_demand p; p_record_path := p_record_path p; p_seg := p_seg p; p_del := p_del p;
     p_tracks := p_tracks p; p_x := pext_migrate (p_source p) (is_rtsp_source p) (p_x p) |}.

Inductive result (A : Type) := Ok (x : A) | Err (e : verr).
Arguments Ok {A} _.
Arguments Err {A} _.

Definition is_alias (n : list Z) : bool := list_eqb n s_all || list_eqb n s_all_others || list_eqb n s_re_all.
Definition name_is_regex (n : list Z) : bool :=
  list_eqb n s_all || list_eqb n s_all_others || match n with 126 :: _ => true | _ => false end.
Definition is_static (s : src) : bool := match s with SPublisher | SRedirect => false | _ => true end.
Definition srt_len_ok (n : Z) : bool := (10 <=? n) && (n <=? 79).
(* AlwaysAvailableTrack.validate (codec / sampleRate / channelCount rules) *)
Definition track_ok (t : Z * Z * Z) : bool :=
  let '(c, sr, cc) := t in
  if c =? 0 then (sr =? 0) && (cc =? 0)
  else if c =? 1 then (22050 <=? sr) && negb (cc =? 0)
  else if c =? 2 then (8000 <=? sr) && negb (cc =? 0)
  else false.
Definition is_primary (p : pathc) : bool := src_eqb (p_source p) SRpi && negb (p_secondary p).
Definition primaries_with (c : Z) (ps : list pathc) : nat :=
  List.length (filter (fun q => is_primary q && (p_cam q =? c)) ps).

(* the three record path checks *)
Definition rec_has_path (rp : list Z) : bool := contains ph_path rp.
Definition rec_has_ts (rp : list Z) : bool :=
  contains (ph 115) rp ||                                      (* %s *)
  (contains (ph 89) rp && contains (ph 109) rp && contains (ph 100) rp &&
   contains (ph 72) rp && contains (ph 77) rp && contains (ph 83) rp).      (* %Y %m %d %H %M %S *)
Definition record_path_ok (playback : bool) (rp : list Z) : bool :=
  rec_has_path rp && rec_has_ts rp && (negb playback || contains (ph 102) rp).   (* %f *)

(* name: all / all_others; a plain name (IsValidPathName); "~" + regular expression (regexp.Compile) *)
Definition name_err (p : pathc) : option verr :=
  let n := p_name p in
  if list_eqb n s_all_others || list_eqb n s_all then None
  else match n with
       | 126 :: _ => chk (negb (p_name_ok p)) E_regexp
       | _ => chk (negb (p_name_ok p)) E_name
       end.

(* enumerated rpiCamera parameters *)
Definition l_exposure := [bytes "normal"; bytes "short"; bytes "long"; bytes "custom"].
Definition l_awb := [bytes "auto"; bytes "incandescent"; bytes "tungsten"; bytes "fluorescent"; bytes "indoor";
                     bytes "daylight"; bytes "cloudy"; bytes "custom"].
Definition l_denoise := [bytes "off"; bytes "cdn_off"; bytes "cdn_fast"; bytes "cdn_hq"].
Definition l_metering := [bytes "centre"; bytes "spot"; bytes "matrix"; bytes "custom"].
Definition l_afmode := [bytes "auto"; bytes "manual"; bytes "continuous"].
Definition l_afrange := [bytes "normal"; bytes "macro"; bytes "full"].
Definition l_afspeed := [bytes "normal"; bytes "fast"].
Definition l_profile3 := [bytes "baseline"; bytes "main"; bytes "high"].
Definition l_profile4 := bytes "auto" :: l_profile3.
Definition l_level := [bytes "4.0"; bytes "4.1"; bytes "4.2"].
Definition l_codec := [bytes "auto"; bytes "hardwareH264"; bytes "softwareH264"; bytes "mjpeg"].

Definition opt_in (o : option (list Z)) (l : list (list Z)) : bool :=
  match o with Some v => str_in v l | None => true end.
Definition mjpeg_dims (secondary : bool) (e : pext) : bool :=
  list_eqb (e_codec e) (bytes "mjpeg") || (secondary && list_eqb (e_codec e) (bytes "auto")).
Definition dim_bad (d : Z) : bool := (2048 <=? d) || negb (d mod 8 =? 0).

(* case pconf.Source == "rpiCamera", up to the primary/secondary pairing *)
Definition rpi_params_err (secondary : bool) (e : pext) : option verr :=
  chk (e_w e =? 0) E_rpi_w ;;
  chk (e_h e =? 0) E_rpi_h ;;
  when (mjpeg_dims secondary e) (chk (dim_bad (e_w e)) E_rpi_w_mjpeg ;; chk (dim_bad (e_h e)) E_rpi_h_mjpeg) ;;
  chk (negb (str_in (e_exposure e) l_exposure)) E_rpi_exposure ;;
  chk (negb (str_in (e_awb e) l_awb)) E_rpi_awb ;;
  chk (negb (e_awb_gains e =? 2)) E_rpi_gains ;;
  chk (negb (str_in (e_denoise e) l_denoise)) E_rpi_denoise ;;
  chk (negb (str_in (e_metering e) l_metering)) E_rpi_metering ;;
  chk (negb (str_in (e_afmode e) l_afmode)) E_rpi_afmode ;;
  chk (negb (str_in (e_afrange e) l_afrange)) E_rpi_afrange ;;
  chk (negb (str_in (e_afspeed e) l_afspeed)) E_rpi_afspeed ;;
  (* rpiCameraProfile / rpiCameraLevel have been copied to the hardware parameters at this point *)
  chk (negb (opt_in (match e_profile e with Some v => Some v | None => e_hw_profile e end) l_profile3)) E_rpi_hw_profile ;;
  chk (negb (opt_in (match e_level e with Some v => Some v | None => e_hw_level e end) l_level)) E_rpi_hw_level ;;
  chk (negb (opt_in (e_sw_profile e) l_profile3)) E_rpi_sw_profile ;;
  chk (negb (opt_in (e_sw_level e) l_level)) E_rpi_sw_level ;;
  chk (negb (str_in (e_h264_profile e) l_profile4)) E_rpi_profile ;;
  chk (negb (str_in (e_h264_level e) l_level)) E_rpi_level ;;
  chk (negb (str_in (e_codec e) l_codec)) E_rpi_codec.

(* the switch on pconf.Source of Path.validate. [all] = every merged path (conf.Paths),
   [taken] = camera ids whose primary already got a secondary (primary.RPICameraSecondaryWidth != 0) *)
Definition source_err (all : list pathc) (taken : list Z) (p : pathc) : option verr :=
  match p_source p with
  | SPublisher => chk (negb (p_srt_pub p =? 0) && negb (srt_len_ok (p_srt_pub p))) E_srt_pub_len   (* checkSRTPassphrase *)
  | SStatic _ =>
      match find_static (p_source_str p) with
      | Some k => static_err k (e_url_ok (p_x p)) (e_hostport_ok (p_x p)) (e_rtp_sdp (p_x p)) (e_port_range (p_x p))
      | None => None
      end
  | SRedirect => chk (negb (p_redirect p)) E_redirect_empty ;; chk (negb (p_redirect_ok p)) E_redirect
  | SRpi =>
      rpi_params_err (p_secondary p) (p_x p) ;;
      if p_secondary p
      then chk (Nat.eqb (primaries_with (p_cam p) all) 0) E_rpi_no_primary ;;
           chk (existsb (Z.eqb (p_cam p)) taken) E_rpi_multi_secondary
      else chk (Nat.ltb 1 (primaries_with (p_cam p) all)) E_rpi_dup
  | SInvalid => Some E_source_invalid
  end.

Definition tracks_n (p : pathc) : Z := Z.of_nat (List.length (p_tracks p)).

(* Path.validate: every `if cond { return err }` of the function, in code order *)
Definition path_err (playback : bool) (all : list pathc) (taken : list Z) (p : pathc) : option verr :=
  let s := p_source p in
  let re := name_is_regex (p_name p) in
  name_err p ;;
  chk (negb (p_srt_pub p =? 0) && negb (src_eqb s SPublisher)) E_srt_pub_source ;;
  chk (negb (src_eqb s SRedirect) && p_redirect p) E_redirect_useless ;;
  source_err all taken p ;;
  chk (p_on_demand p && src_eqb s SPublisher) E_on_demand_publisher ;;
  chk (negb (p_on_demand p) && is_static s && re) E_regex_static_demand ;;
  chk (negb (p_srt_read p =? 0) && negb (srt_len_ok (p_srt_read p))) E_srt_read_len ;;
  chk (negb (p_forward_ok p)) E_forward ;;
  chk (negb (p_fallback_ok p)) E_fallback ;;
  chk (negb (forallb track_ok (p_tracks p))) E_tracks ;;       (* every track, also when set through the environment *)
  when (p_aa p) (
    chk re E_aa_regex ;;
    chk (p_on_demand p) E_aa_on_demand ;;
    chk (p_run_demand p) E_aa_run_on_demand ;;
    (if e_aa_file (p_x p)
     then chk (negb (tracks_n p =? 0)) E_aa_file_and_tracks ;; chk (negb (e_aa_file_ok (p_x p))) E_aa_file
     else chk (tracks_n p =? 0) E_aa_no_tracks) ;;
    chk (p_abs_ts p) E_aa_abs_ts) ;;
  chk (negb (rec_has_path (p_record_path p))) E_rec_path ;;
  chk (negb (rec_has_ts (p_record_path p))) E_rec_ts ;;
  chk (playback && negb (contains (ph 102) (p_record_path p))) E_rec_f ;;
  chk (day_ns <? p_seg p) E_seg_max ;;                                   (* maximum segment duration is 1 day *)
  chk (negb (p_del p =? 0) && (p_del p <? p_seg p)) E_del_lt_seg ;;
  chk (p_run_init p && re) E_run_on_init_regex ;;
  chk (p_run_demand p && negb (src_eqb s SPublisher)) E_run_on_demand_source.

Definition validate_path (playback : bool) (all : list pathc) (taken : list Z) (p : pathc)
  : result (pathc * list Z) :=
  match path_err playback all taken p with
  | Some e => Err e
  | None =>
      Ok (finish_path p (name_is_regex (p_name p)),
          if src_eqb (p_source p) SRpi && p_secondary p then p_cam p :: taken else taken)
  end.

Fixpoint validate_paths (playback : bool) (all : list pathc) (taken : list Z) (ps : list pathc)
  : result (list pathc) :=
  match ps with
  | [] => Ok []
  | p :: r =>
      match validate_path playback all taken p with
      | Err e => Err e
      | Ok (p', taken') =>
          match validate_paths playback all taken' r with
          | Err e => Err e
          | Ok r' => Ok (p' :: r')
          end
      end
  end.

(* ---- deprecated credentials: the users appended by Path.validate, publish then read *)
Definition cred_or (o : option (list Z)) (d : list Z) : list Z :=
  match o with Some v => if nonempty v then v else d | None => d end.
Definition ips_or (o : option Z) : Z := match o with Some n => if n =? 0 then 1 else n | None => 1 end.
Definition perm_path (name : list Z) : list Z :=
  if list_eqb name s_all_others || list_eqb name s_all then s_re_all else name.
Definition path_users (p : pathc) : list userc :=
  let e := p_x p in
  [{| u_user := cred_or (e_pub_user e) s_any; u_pass := cred_or (e_pub_pass e) []; u_nips := ips_or (e_pub_ips e);
      u_perms := [(0, perm_path (p_name p))] |};
   {| u_user := cred_or (e_read_user e) s_any; u_pass := cred_or (e_read_pass e) []; u_nips := ips_or (e_read_ips e);
      u_perms := [(1, perm_path (p_name p))] |}].
Definition has_dep_creds (p : pathc) : bool :=
  let e := p_x p in
  negb (is_none (e_pub_user e) && is_none (e_pub_pass e) && is_none (e_pub_ips e) &&
        is_none (e_read_user e) && is_none (e_read_pass e) && is_none (e_read_ips e)).

(* ---- global plain fields added to the first version of this model *)
Record xauth := XA {
  a_ext_url : option (list Z);     (* deprecated externalAuthenticationURL -> authMethod = http, authHTTPAddress *)
  a_method : Z;                    (* 0 internal, 1 http, 2 jwt, 3 anything else *)
  a_http_addr : list Z;
  a_pd_creds : bool;               (* pathDefaults has one of the six deprecated credential parameters *)
  a_users_custom : bool;           (* AuthInternalUsers != nil && !reflect.DeepEqual(AuthInternalUsers, the defaults) *)
  a_users : list userc;
  a_jwks : list Z;
  a_claim : list Z
}.

(* address + deprecated xAllowOrigin -> xAllowOrigins of a HTTP listener *)
Record xsrv := XS {
  s_addr : list Z;
  s_origin : option (list Z);
  s_origins : list (list Z)
}.

Record xrtsp := XR {
  r_disable : option bool;                   (* deprecated rtspDisable -> rtsp *)
  r_on : bool;
  r_protocols : option (bool * bool * bool); (* deprecated protocols -> rtspTransports; (udp, multicast, tcp) in the set *)
  r_transports : bool * bool * bool;
  r_encryption_dep : option Z;               (* deprecated encryption -> rtspEncryption; 0 no 1 optional 2 strict 3 other *)
  r_encryption : Z;
  r_auth_methods_dep : option (list Z);      (* deprecated authMethods -> rtspAuthMethods; 0 basic 1 digest 2 other *)
  r_auth_methods : list Z;
  r_cert_dep : option (list Z);              (* deprecated serverCert -> rtspServerCert *)
  r_cert : list Z;
  r_key_dep : option (list Z);               (* deprecated serverKey -> rtspServerKey *)
  r_key : list Z;
  r_addr : list Z;
  r_rtsps_addr : list Z;
  r_rtp : list Z;
  r_rtcp : list Z;
  r_srtp : list Z;
  r_srtcp : list Z;
  r_mc_range : list Z;
  r_mc_rtp : Z;
  r_mc_rtcp : Z;
  r_mc_srtp : Z;
  r_mc_srtcp : Z
}.

Record xwebrtc := XW {
  w_disable : option bool;                   (* deprecated webrtcDisable -> webrtc *)
  w_on : bool;
  w_srv : xsrv;
  w_udp_mux : option (list Z);               (* deprecated webrtcICEUDPMuxAddress -> webrtcLocalUDPAddress *)
  w_local_udp : list Z;
  w_tcp_mux : option (list Z);               (* deprecated webrtcICETCPMuxAddress -> webrtcLocalTCPAddress *)
  w_local_tcp : list Z;
  w_nat_ips : option (list (list Z));        (* deprecated webrtcICEHostNAT1To1IPs -> webrtcAdditionalHosts *)
  w_hosts : list (list Z);
  w_ice_dep : option (list (list Z));        (* deprecated webrtcICEServers, appended to webrtcICEServers2 *)
  w_ice : list (list Z * list Z * list Z);   (* webrtcICEServers2: (url, username, password) *)
  w_from_ifaces : bool
}.

Record xmoq := XM {
  m_on : bool;
  m_quic : list Z;
  m_https2 : option (list Z);                (* deprecated moqHTTPS2Address -> moqHTTP2Address *)
  m_http2 : list Z;
  m_https3 : option (list Z);
  m_http3 : list Z
}.

(* deprecated top-level record parameters -> pathDefaults *)
Record xrec := XD {
  d_record : option bool;   d_pd_record : bool;
  d_path : option (list Z); d_pd_path : list Z;
  d_format : option Z;      d_pd_format : Z;        (* 0 fmp4 1 mpegts 2 other *)
  d_part : option Z;        d_pd_part : Z;
  d_seg : option Z;         d_pd_seg : Z;
  d_del : option Z;         d_pd_del : Z
}.

Record gext := GX {
  x_auth : xauth;
  x_api : bool;     x_api_srv : xsrv;
  x_metrics : bool; x_metrics_srv : xsrv;
  x_pprof : bool;   x_pprof_srv : xsrv;
  x_playback_srv : xsrv;                     (* enabled = g_playback *)
  x_rtsp : xrtsp;
  x_rtmp_disable : option bool; x_rtmp : bool; x_rtmp_addr : list Z;
  x_hls_disable : option bool;  x_hls : bool;  x_hls_srv : xsrv;
  x_hls_secret : bool;                       (* HLSCDNSecret != "" *)
  x_hls_secret_ok : bool;                    (* oracle: rePlainCredential.MatchString(HLSCDNSecret) *)
  x_webrtc : xwebrtc;
  x_moq : xmoq;
  x_rec : xrec
}.

Record gconf := G {
  g_read_to : Z;                   (* ReadTimeout, ns *)
  g_write_to : Z;
  g_wqs : Z;                       (* WriteQueueSize *)
  g_read_buffer_count : option Z;  (* deprecated: overrides WriteQueueSize *)
  g_udp : Z;                       (* UDPMaxPayloadSize *)
  g_playback : bool;
  g_x : gext;
  g_paths : list pathc             (* merged path configurations, in sortedKeys order *)
}.

(* ---- migrations of the global deprecated parameters *)
Definition dep_mode (g : gconf) : bool := a_pd_creds (x_auth (g_x g)) || existsb has_dep_creds (g_paths g).

Definition auth_migrate (dep : bool) (a : xauth) : xauth :=
  {| a_ext_url := a_ext_url a;
     a_method := match a_ext_url a with Some _ => 1 | None => a_method a end;
     a_http_addr := opt_or (a_ext_url a) (a_http_addr a);
     a_pd_creds := a_pd_creds a; a_users_custom := a_users_custom a;
     a_users := if dep then base_users else a_users a;
     a_jwks := a_jwks a; a_claim := a_claim a |}.

Definition srv_migrate (s : xsrv) : xsrv :=
  {| s_addr := s_addr s; s_origin := s_origin s;
     s_origins := match s_origin s with Some o => [o] | None => s_origins s end |}.

Definition rtsp_migrate (r : xrtsp) : xrtsp :=
  {| r_disable := r_disable r; r_on := match r_disable r with Some d => negb d | None => r_on r end;
     r_protocols := r_protocols r; r_transports := opt_or (r_protocols r) (r_transports r);
     r_encryption_dep := r_encryption_dep r; r_encryption := opt_or (r_encryption_dep r) (r_encryption r);
     r_auth_methods_dep := r_auth_methods_dep r; r_auth_methods := opt_or (r_auth_methods_dep r) (r_auth_methods r);
     r_cert_dep := r_cert_dep r; r_cert := opt_or (r_cert_dep r) (r_cert r);
     r_key_dep := r_key_dep r; r_key := opt_or (r_key_dep r) (r_key r);
     r_addr := r_addr r; r_rtsps_addr := r_rtsps_addr r; r_rtp := r_rtp r; r_rtcp := r_rtcp r; r_srtp := r_srtp r;
     r_srtcp := r_srtcp r; r_mc_range := r_mc_range r; r_mc_rtp := r_mc_rtp r; r_mc_rtcp := r_mc_rtcp r;
     r_mc_srtp := r_mc_srtp r; r_mc_srtcp := r_mc_srtcp r |}.

(* strings.Split(s, ":") *)
Fixpoint split_on (c : Z) (s : list Z) : list (list Z) :=
  match s with
  | [] => [[]]
  | x :: r =>
      if x =? c then [] :: split_on c r
      else match split_on c r with
           | p :: ps => (x :: p) :: ps
           | [] => [[x]]
           end
  end.

(* one entry of the deprecated webrtcICEServers: "proto:user:pass:host:port" or a plain URL *)
Definition ice_convert (s : list Z) : list Z * list Z * list Z :=
  match split_on 58 s with
  | [p0; p1; p2; p3; p4] => (p0 ++ [58] ++ p3 ++ [58] ++ p4, p1, p2)
  | _ => (s, [], [])
  end.

Definition webrtc_migrate (w : xwebrtc) : xwebrtc :=
  {| w_disable := w_disable w; w_on := match w_disable w with Some d => negb d | None => w_on w end;
     w_srv := srv_migrate (w_srv w);
     w_udp_mux := w_udp_mux w; w_local_udp := opt_or (w_udp_mux w) (w_local_udp w);
     w_tcp_mux := w_tcp_mux w; w_local_tcp := opt_or (w_tcp_mux w) (w_local_tcp w);
     w_nat_ips := w_nat_ips w; w_hosts := opt_or (w_nat_ips w) (w_hosts w);
     w_ice_dep := w_ice_dep w;
     w_ice := match w_ice_dep w with Some l => w_ice w ++ map ice_convert l | None => w_ice w end;
     w_from_ifaces := w_from_ifaces w |}.

Definition moq_migrate (m : xmoq) : xmoq :=
  {| m_on := m_on m; m_quic := m_quic m;
     m_https2 := m_https2 m; m_http2 := opt_or (m_https2 m) (m_http2 m);
     m_https3 := m_https3 m; m_http3 := opt_or (m_https3 m) (m_http3 m) |}.

Definition rec_migrate (d : xrec) : xrec :=
  {| d_record := d_record d; d_pd_record := opt_or (d_record d) (d_pd_record d);
     d_path := d_path d; d_pd_path := opt_or (d_path d) (d_pd_path d);
     d_format := d_format d; d_pd_format := opt_or (d_format d) (d_pd_format d);
     d_part := d_part d; d_pd_part := opt_or (d_part d) (d_pd_part d);
     d_seg := d_seg d; d_pd_seg := opt_or (d_seg d) (d_pd_seg d);
     d_del := d_del d; d_pd_del := opt_or (d_del d) (d_pd_del d) |}.

Definition gext_migrate (dep : bool) (x : gext) : gext :=
  {| x_auth := auth_migrate dep (x_auth x);
     x_api := x_api x; x_api_srv := srv_migrate (x_api_srv x);
     x_metrics := x_metrics x; x_metrics_srv := srv_migrate (x_metrics_srv x);
     x_pprof := x_pprof x; x_pprof_srv := srv_migrate (x_pprof_srv x);
     x_playback_srv := srv_migrate (x_playback_srv x);
     x_rtsp := rtsp_migrate (x_rtsp x);
     x_rtmp_disable := x_rtmp_disable x; x_rtmp := match x_rtmp_disable x with Some d => negb d | None => x_rtmp x end;
     x_rtmp_addr := x_rtmp_addr x;
     x_hls_disable := x_hls_disable x; x_hls := match x_hls_disable x with Some d => negb d | None => x_hls x end;
     x_hls_srv := srv_migrate (x_hls_srv x); x_hls_secret := x_hls_secret x; x_hls_secret_ok := x_hls_secret_ok x;
     x_webrtc := webrtc_migrate (x_webrtc x);
     x_moq := moq_migrate (x_moq x);
     x_rec := rec_migrate (x_rec x) |}.

(* ---- the global checks between 'udpMaxPayloadSize' and the alias check, in code order, on the migrated fields *)
Definition http_url (s : list Z) : bool := prefix_b (bytes "http://") s || prefix_b (bytes "https://") s.

Definition auth_err (dep : bool) (a : xauth) : option verr :=
  chk (dep && a_users_custom a) E_users_and_legacy ;;
  if a_method a =? 0 then users_err (a_users a)
  else if a_method a =? 1 then
    chk (empty (a_http_addr a)) E_http_addr_empty ;; chk (negb (http_url (a_http_addr a))) E_http_addr_scheme
  else if a_method a =? 2 then
    chk (empty (a_jwks a)) E_jwks_empty ;; chk (negb (http_url (a_jwks a))) E_jwks_scheme ;;
    chk (empty (a_claim a)) E_claim_empty
  else None.

Definition t_udp (t : bool * bool * bool) : bool := fst (fst t).
Definition t_mc (t : bool * bool * bool) : bool := snd (fst t).
Definition user_hashed (u : userc) : bool := hashed (u_user u) || hashed (u_pass u).

Definition has_digest (r : xrtsp) : bool := existsb (Z.eqb 1) (r_auth_methods r).

Definition rtsp_err (a : xauth) (r : xrtsp) : option verr :=
  let enc := r_encryption r in
  when (r_on r) (
    when ((enc =? 0) || (enc =? 1)) (
      chk (empty (r_addr r)) E_rtsp_addr ;;
      when (t_udp (r_transports r)) (chk (empty (r_rtp r)) E_rtp_addr ;; chk (empty (r_rtcp r)) E_rtcp_addr) ;;
      when (t_mc (r_transports r)) (
        chk (empty (r_mc_range r)) E_mc_range_plain ;; chk (r_mc_rtp r =? 0) E_mc_rtp ;; chk (r_mc_rtcp r =? 0) E_mc_rtcp)) ;;
    when ((enc =? 1) || (enc =? 2)) (
      chk (empty (r_rtsps_addr r)) E_rtsps_addr ;;
      when (t_udp (r_transports r)) (chk (empty (r_srtp r)) E_srtp_addr ;; chk (empty (r_srtcp r)) E_srtcp_addr) ;;
      when (t_mc (r_transports r)) (
        chk (empty (r_mc_range r)) E_mc_range_secure ;; chk (r_mc_srtp r =? 0) E_mc_srtp ;; chk (r_mc_srtcp r =? 0) E_mc_srtcp)) ;;
    chk (match r_auth_methods r with [] => true | _ => false end) E_rtsp_auth_methods ;;
    when (has_digest r) (
      chk (negb (a_method a =? 0)) E_digest_method ;;
      chk (existsb user_hashed (a_users a)) E_digest_hashed)).

Definition ice_url_ok (u : list Z) : bool :=
  prefix_b (bytes "stun:") u || prefix_b (bytes "turn:") u || prefix_b (bytes "turns:") u.

Definition webrtc_err (w : xwebrtc) : option verr :=
  when (w_on w) (
    chk (empty (s_addr (w_srv w))) E_webrtc_addr ;;
    chk (negb (forallb (fun s => ice_url_ok (fst (fst s))) (w_ice w))) E_ice_server ;;
    chk (empty (w_local_udp w) && empty (w_local_tcp w) && match w_ice w with [] => true | _ => false end) E_webrtc_no_transport ;;
    when (nonempty (w_local_udp w) || nonempty (w_local_tcp w)) (
      chk (negb (w_from_ifaces w) && match w_hosts w with [] => true | _ => false end) E_webrtc_no_hosts)).

Definition gext_err (dep playback : bool) (x : gext) : option verr :=
  auth_err dep (x_auth x) ;;
  chk (x_api x && empty (s_addr (x_api_srv x))) E_api_addr ;;
  chk (x_metrics x && empty (s_addr (x_metrics_srv x))) E_metrics_addr ;;
  chk (x_pprof x && empty (s_addr (x_pprof_srv x))) E_pprof_addr ;;
  chk (playback && empty (s_addr (x_playback_srv x))) E_playback_addr ;;
  rtsp_err (x_auth x) (x_rtsp x) ;;
  chk (x_rtmp x && empty (x_rtmp_addr x)) E_rtmp_addr ;;
  chk (x_hls x && empty (s_addr (x_hls_srv x))) E_hls_addr ;;
  chk (x_hls_secret x && negb (x_hls_secret_ok x)) E_hls_secret ;;
  webrtc_err (x_webrtc x) ;;
  chk (m_on (x_moq x) && empty (m_quic (x_moq x))) E_moq_addr.

Definition set_users (x : gext) (us : list userc) : gext :=
  let a := x_auth x in
  {| x_auth := {| a_ext_url := a_ext_url a; a_method := a_method a; a_http_addr := a_http_addr a;
                  a_pd_creds := a_pd_creds a; a_users_custom := a_users_custom a; a_users := us;
                  a_jwks := a_jwks a; a_claim := a_claim a |};
     x_api := x_api x; x_api_srv := x_api_srv x; x_metrics := x_metrics x; x_metrics_srv := x_metrics_srv x;
     x_pprof := x_pprof x; x_pprof_srv := x_pprof_srv x; x_playback_srv := x_playback_srv x; x_rtsp := x_rtsp x;
     x_rtmp_disable := x_rtmp_disable x; x_rtmp := x_rtmp x; x_rtmp_addr := x_rtmp_addr x;
     x_hls_disable := x_hls_disable x; x_hls := x_hls x; x_hls_srv := x_hls_srv x; x_hls_secret := x_hls_secret x;
     x_hls_secret_ok := x_hls_secret_ok x; x_webrtc := x_webrtc x; x_moq := x_moq x; x_rec := x_rec x |}.

(* after the paths: the users generated from deprecated credentials get the checks of authInternalUsers
   (a password without a user name would be ignored; hashed credentials do not work with RTSP digest) *)
Definition any_with_pass (u : userc) : bool := list_eqb (u_user u) s_any && nonempty (u_pass u).
Definition dep_users_err (x : gext) (us : list userc) : option verr :=
  when (a_method (x_auth x) =? 0) (chk (existsb any_with_pass us) E_dep_any_pass) ;;
  when (r_on (x_rtsp x) && has_digest (x_rtsp x)) (chk (existsb user_hashed us) E_dep_digest_hashed).

Definition validate (g : gconf) : result gconf :=
  let wqs := match g_read_buffer_count g with Some x => x | None => g_wqs g end in
  let dep := dep_mode g in
  let x := gext_migrate dep (g_x g) in
  match chk (g_read_to g <=? 0) E_read_timeout ;;
        chk (g_write_to g <=? 0) E_write_timeout ;;
        chk (wqs <=? 0) E_wqs_pos ;;
        chk (negb (Z.land wqs (wqs - 1) =? 0)) E_wqs_pow2 ;;
        chk (1472 <? g_udp g) E_udp_max ;;
        gext_err dep (g_playback g) x ;;
        chk (Nat.ltb 1 (List.length (filter (fun p => is_alias (p_name p)) (g_paths g)))) E_aliases with
  | Some e => Err e
  | None =>
      match validate_paths (g_playback g) (g_paths g) [] (g_paths g) with
      | Err e => Err e
      | Ok ps =>
          (* deprecated credentials: every path appended its publish and its read user *)
          let us := base_users ++ flat_map path_users ps in
          match when dep (dep_users_err x us) with
          | Some e => Err e
          | None =>
              Ok {| g_read_to := g_read_to g; g_write_to := g_write_to g; g_wqs := wqs;
                    g_read_buffer_count := g_read_buffer_count g; g_udp := g_udp g; g_playback := g_playback g;
                    g_x := if dep then set_users x us else x;
                    g_paths := ps |}
          end
      end
  end.

(* ------------------------------------------------------------------------------------- *)
(* the documented constraints, as a boolean on a (real or modelled) validated configuration.
   It never mentions an oracle field other than through p_source (a static source must have passed its checks). *)
Fixpoint is_pow2_fuel (fuel : nat) (x : Z) : bool :=
  match fuel with
  | O => false
  | S k => (x =? 1) || ((0 <? x) && Z.even x && is_pow2_fuel k (x / 2))
  end.
Definition is_pow2 (x : Z) : bool := is_pow2_fuel 70 x.   (* Go int: at most 2^62 *)

Definition imp (a b : bool) : bool := negb a || b.
Definition opt_eqb {A} (eqb : A -> A -> bool) (dep : option A) (cur : A) : bool :=
  match dep with Some v => eqb v cur | None => true end.          (* deprecated parameter given -> its replacement has that value *)
Definition ostr_eqb (a b : option (list Z)) : bool :=
  match a, b with Some x, Some y => list_eqb x y | None, None => true | _, _ => false end.

Definition rpi_documented_params (secondary : bool) (e : pext) : bool :=
  negb (e_w e =? 0) && negb (e_h e =? 0) &&
  imp (mjpeg_dims secondary e) ((e_w e <? 2048) && (e_w e mod 8 =? 0) && (e_h e <? 2048) && (e_h e mod 8 =? 0)) &&
  str_in (e_exposure e) l_exposure && str_in (e_awb e) l_awb && (e_awb_gains e =? 2) &&
  str_in (e_denoise e) l_denoise && str_in (e_metering e) l_metering && str_in (e_afmode e) l_afmode &&
  str_in (e_afrange e) l_afrange && str_in (e_afspeed e) l_afspeed &&
  imp (negb (is_none (e_profile e))) (ostr_eqb (e_hw_profile e) (e_profile e)) &&
  imp (negb (is_none (e_level e))) (ostr_eqb (e_hw_level e) (e_level e)) &&
  opt_in (e_hw_profile e) l_profile3 && opt_in (e_hw_level e) l_level &&
  opt_in (e_sw_profile e) l_profile3 && opt_in (e_sw_level e) l_level &&
  str_in (e_h264_profile e) l_profile4 && str_in (e_h264_level e) l_level &&
  opt_eqb Z.eqb (e_jpeg_q e) (e_mjpeg_q e) &&
  str_in (e_codec e) l_codec.

Definition path_documented_b (playback : bool) (p : pathc) : bool :=
  Bool.eqb (p_regex p) (name_is_regex (p_name p)) &&
  record_path_ok playback (p_record_path p) &&
  (p_seg p <=? day_ns) && ((p_del p =? 0) || (p_seg p <=? p_del p)) &&
  (negb (p_regex p && is_static (p_source p)) || p_on_demand p) &&
  (negb (p_on_demand p) || negb (src_eqb (p_source p) SPublisher)) &&
  ((p_srt_read p =? 0) || srt_len_ok (p_srt_read p)) &&
  ((p_srt_pub p =? 0) || (srt_len_ok (p_srt_pub p) && src_eqb (p_source p) SPublisher)) &&
  (negb (p_regex p) || negb (p_run_init p)) &&
  (negb (p_run_demand p) || src_eqb (p_source p) SPublisher) &&
  (negb (p_aa p) || (negb (p_regex p) && negb (p_on_demand p) && negb (p_run_demand p) && negb (p_abs_ts p))) &&
  negb (src_eqb (p_source p) SInvalid) && negb (src_eqb (p_source p) (SStatic false)) &&
  (negb (p_redirect p) || src_eqb (p_source p) SRedirect) &&
  forallb track_ok (p_tracks p) &&
  (* added with the plain-field checks *)
  imp (src_eqb (p_source p) SRedirect) (p_redirect p) &&
  imp (src_eqb (p_source p) SRpi) (rpi_documented_params (p_secondary p) (p_x p)) &&
  imp (p_aa p) (if e_aa_file (p_x p) then tracks_n p =? 0 else negb (tracks_n p =? 0)) &&
  imp (src_eqb (p_source p) SPublisher)
      (match e_dis_pub_override (p_x p) with Some d => Bool.eqb (e_override_publisher (p_x p)) (negb d) | None => true end) &&
  imp (is_rtsp_source p)
      ((e_port_range (p_x p) =? 2) &&
       opt_eqb Z.eqb (e_source_protocol (p_x p)) (e_rtsp_transport (p_x p)) &&
       opt_eqb Bool.eqb (e_source_any_port (p_x p)) (e_rtsp_any_port (p_x p))) &&
  opt_eqb list_eqb (e_on_ready (p_x p)) (e_on_available (p_x p)) &&
  opt_eqb Bool.eqb (e_ready_restart (p_x p)) (e_available_restart (p_x p)) &&
  opt_eqb list_eqb (e_on_not_ready (p_x p)) (e_on_unavailable (p_x p)).

(* camera ids of the secondary rpiCamera streams *)
Definition is_sec (p : pathc) : bool := src_eqb (p_source p) SRpi && p_secondary p.
Definition sec_cams (ps : list pathc) : list Z := map p_cam (filter is_sec ps).
Fixpoint nodup_b (l : list Z) : bool :=
  match l with
  | [] => true
  | x :: r => negb (existsb (Z.eqb x) r) && nodup_b r
  end.

(* at most one primary per camera id; every secondary has a primary; at most one secondary per camera id *)
Definition rpi_documented_b (ps : list pathc) : bool :=
  forallb (fun p =>
    negb (src_eqb (p_source p) SRpi) ||
    if p_secondary p then Nat.leb 1 (primaries_with (p_cam p) ps)
    else Nat.leb (primaries_with (p_cam p) ps) 1) ps
  && nodup_b (sec_cams ps).

(* ---- the global plain-field constraints *)
Definition perm_eqb (a b : Z * list Z) : bool := (fst a =? fst b) && list_eqb (snd a) (snd b).
Fixpoint list_eqb_with {A} (eqb : A -> A -> bool) (a b : list A) : bool :=
  match a, b with
  | [], [] => true
  | x :: r, y :: s => eqb x y && list_eqb_with eqb r s
  | _, _ => false
  end.
Definition user_eqb (a b : userc) : bool :=
  list_eqb (u_user a) (u_user b) && list_eqb (u_pass a) (u_pass b) && (u_nips a =? u_nips b) &&
  list_eqb_with perm_eqb (u_perms a) (u_perms b).
Definition user_documented (u : userc) : bool :=
  nonempty (u_user u) && imp (list_eqb (u_user u) s_any) (empty (u_pass u)).

Definition auth_plain_b (a : xauth) : bool :=
  match a_ext_url a with Some u => (a_method a =? 1) && list_eqb (a_http_addr a) u | None => true end &&
  imp (a_method a =? 1) (nonempty (a_http_addr a) && http_url (a_http_addr a)) &&
  imp (a_method a =? 2) (nonempty (a_jwks a) && http_url (a_jwks a) && nonempty (a_claim a)).

Definition auth_documented_b (dep : bool) (ps : list pathc) (a : xauth) : bool :=
  auth_plain_b a &&
  imp (a_method a =? 0) (forallb user_documented (a_users a)) &&
  imp dep (list_eqb_with user_eqb (a_users a) (base_users ++ flat_map path_users ps)).

Definition srv_documented_b (on : bool) (s : xsrv) : bool :=
  imp on (nonempty (s_addr s)) &&
  match s_origin s with Some o => list_eqb_with list_eqb (s_origins s) [o] | None => true end.

Definition t_eqb (a b : bool * bool * bool) : bool :=
  Bool.eqb (fst (fst a)) (fst (fst b)) && Bool.eqb (snd (fst a)) (snd (fst b)) && Bool.eqb (snd a) (snd b).

Definition rtsp_plain_b (r : xrtsp) : bool :=
  let enc := r_encryption r in
  match r_disable r with Some d => Bool.eqb (r_on r) (negb d) | None => true end &&
  opt_eqb t_eqb (r_protocols r) (r_transports r) &&
  opt_eqb Z.eqb (r_encryption_dep r) (r_encryption r) &&
  opt_eqb (list_eqb_with Z.eqb) (r_auth_methods_dep r) (r_auth_methods r) &&
  opt_eqb list_eqb (r_cert_dep r) (r_cert r) && opt_eqb list_eqb (r_key_dep r) (r_key r) &&
  imp (r_on r) (
    imp ((enc =? 0) || (enc =? 1)) (
      nonempty (r_addr r) &&
      imp (t_udp (r_transports r)) (nonempty (r_rtp r) && nonempty (r_rtcp r)) &&
      imp (t_mc (r_transports r)) (nonempty (r_mc_range r) && negb (r_mc_rtp r =? 0) && negb (r_mc_rtcp r =? 0))) &&
    imp ((enc =? 1) || (enc =? 2)) (
      nonempty (r_rtsps_addr r) &&
      imp (t_udp (r_transports r)) (nonempty (r_srtp r) && nonempty (r_srtcp r)) &&
      imp (t_mc (r_transports r)) (nonempty (r_mc_range r) && negb (r_mc_srtp r =? 0) && negb (r_mc_srtcp r =? 0))) &&
    match r_auth_methods r with [] => false | _ => true end).

(* RTSP digest needs the internal method and clear-text credentials *)
Definition rtsp_documented_b (a : xauth) (r : xrtsp) : bool :=
  rtsp_plain_b r &&
  imp (r_on r && has_digest r) ((a_method a =? 0) && negb (existsb user_hashed (a_users a))).

Definition ice_eqb (a b : list Z * list Z * list Z) : bool :=
  list_eqb (fst (fst a)) (fst (fst b)) && list_eqb (snd (fst a)) (snd (fst b)) && list_eqb (snd a) (snd b).

Definition webrtc_documented_b (w : xwebrtc) : bool :=
  match w_disable w with Some d => Bool.eqb (w_on w) (negb d) | None => true end &&
  opt_eqb list_eqb (w_udp_mux w) (w_local_udp w) && opt_eqb list_eqb (w_tcp_mux w) (w_local_tcp w) &&
  opt_eqb (list_eqb_with list_eqb) (w_nat_ips w) (w_hosts w) &&
  match w_ice_dep w with
  | Some l => list_eqb_with ice_eqb (skipn (List.length (w_ice w) - List.length l) (w_ice w)) (map ice_convert l)
  | None => true
  end &&
  srv_documented_b (w_on w) (w_srv w) &&
  imp (w_on w) (
    forallb (fun s => ice_url_ok (fst (fst s))) (w_ice w) &&
    (nonempty (w_local_udp w) || nonempty (w_local_tcp w) || match w_ice w with [] => false | _ => true end) &&
    imp (nonempty (w_local_udp w) || nonempty (w_local_tcp w))
        (w_from_ifaces w || match w_hosts w with [] => false | _ => true end)).

Definition moq_documented_b (m : xmoq) : bool :=
  imp (m_on m) (nonempty (m_quic m)) &&
  opt_eqb list_eqb (m_https2 m) (m_http2 m) && opt_eqb list_eqb (m_https3 m) (m_http3 m).

Definition rec_documented_b (d : xrec) : bool :=
  opt_eqb Bool.eqb (d_record d) (d_pd_record d) && opt_eqb list_eqb (d_path d) (d_pd_path d) &&
  opt_eqb Z.eqb (d_format d) (d_pd_format d) && opt_eqb Z.eqb (d_part d) (d_pd_part d) &&
  opt_eqb Z.eqb (d_seg d) (d_pd_seg d) && opt_eqb Z.eqb (d_del d) (d_pd_del d).

Definition gext_documented_b (dep playback : bool) (ps : list pathc) (x : gext) : bool :=
  auth_documented_b dep ps (x_auth x) &&
  srv_documented_b (x_api x) (x_api_srv x) && srv_documented_b (x_metrics x) (x_metrics_srv x) &&
  srv_documented_b (x_pprof x) (x_pprof_srv x) && srv_documented_b playback (x_playback_srv x) &&
  rtsp_documented_b (x_auth x) (x_rtsp x) &&
  match x_rtmp_disable x with Some d => Bool.eqb (x_rtmp x) (negb d) | None => true end &&
  imp (x_rtmp x) (nonempty (x_rtmp_addr x)) &&
  match x_hls_disable x with Some d => Bool.eqb (x_hls x) (negb d) | None => true end &&
  srv_documented_b (x_hls x) (x_hls_srv x) &&
  webrtc_documented_b (x_webrtc x) && moq_documented_b (x_moq x) && rec_documented_b (x_rec x).

Definition documented_b (g : gconf) : bool :=
  (0 <? g_read_to g) && (0 <? g_write_to g) && is_pow2 (g_wqs g) && (g_udp g <=? 1472) &&
  Nat.leb (List.length (filter (fun p => is_alias (p_name p)) (g_paths g))) 1 &&
  forallb (path_documented_b (g_playback g)) (g_paths g) &&
  rpi_documented_b (g_paths g) &&
  gext_documented_b (dep_mode g) (g_playback g) (g_paths g) (g_x g).
