(* Model for C10: the parts of conf.Load written in this repository that decide between
   {configuration, error, panic}: decrypt.Decrypt, the map step of the environment loader, and
   the numeric/structural part of Conf.Validate / Path.validate. Executable; no proofs here.
   Strings are lists of byte values. Third-party behaviour enters as function arguments /
   boolean fields ("oracles") whose values the driver computes with the real library. *)
From Coq Require Import List ZArith Bool.
Import ListNotations.
Local Open Scope Z_scope.

(* ------------------------------------------------------------------------------------- *)
(* decrypt.Decrypt (internal/conf/decrypt/decrypt.go)

     enc, err := base64.StdEncoding.DecodeString(string(byts));  if err != nil { return nil, err }
     [fix:]  if len(enc) < 24 { return nil, error }
     var secretKey [32]byte; copy(secretKey[:], key)
     var decryptNonce [24]byte; copy(decryptNonce[:], enc[:24])          <- panics when len(enc) < 24
     decrypted, ok := secretbox.Open(nil, enc[24:], &decryptNonce, &secretKey);  if !ok { error } *)
Inductive dec_outcome := DErr | DPanic | DOk (plain : list Z).

(* copy(secretKey[:], key): first 32 bytes, zero padded *)
Definition key32 (key : list Z) : list Z := firstn 32 (key ++ repeat 0 32).

Definition decrypt (fixd : bool)
                   (b64 : list Z -> option (list Z))                       (* oracle: StdEncoding.DecodeString *)
                   (sopen : list Z -> list Z -> list Z -> option (list Z)) (* oracle: secretbox.Open key nonce box *)
                   (key byts : list Z) : dec_outcome :=
  match b64 byts with
  | None => DErr
  | Some enc =>
      if fixd && (Z.of_nat (length enc) <? 24) then DErr
      else if Z.of_nat (length enc) <? 24 then DPanic      (* enc[:24]: slice bounds out of range *)
      else match sopen (key32 key) (firstn 24 enc) (skipn 24 enc) with
           | None => DErr
           | Some p => DOk p
           end
  end.

(* loadFromFile: RTSP_CONFKEY (legacy) then MTX_CONFKEY, each optional, applied in sequence *)
Definition decrypt_file (fixd : bool) b64 sopen (legacy_key mtx_key : option (list Z)) (byts : list Z) : dec_outcome :=
  let step k o := match o, k with
                  | DOk b, Some key => decrypt fixd b64 sopen key b
                  | _, _ => o
                  end in
  step mtx_key (step legacy_key (DOk byts)).

(* ------------------------------------------------------------------------------------- *)
(* env loader, map case (internal/conf/env/env.go): for a key MTX_PATHS_<NAME>_...

     nv := prv.Elem().MapIndex(key)
     if nv == zero [fix: || nv.IsNil()] { nv = reflect.New(...); SetMapIndex(key, nv) }
     loadEnvInternal(env, prefix_key, nv.Elem())         <- nv.Elem() of a nil pointer is the zero
                                                            Value; Addr() on it panics
   the map entry is: absent / present but nil (a path written "name:" with no body) / present *)
Inductive map_entry := EAbsent | ENil | EPresent.
Inductive env_outcome := EnvPanic | EnvUsesEntry (fresh : bool).

Definition env_map_step (fixe : bool) (e : map_entry) : env_outcome :=
  match e with
  | EAbsent => EnvUsesEntry true
  | ENil => if fixe then EnvUsesEntry true else EnvPanic
  | EPresent => EnvUsesEntry false
  end.

(* env loader, list parameters: an empty variable means "empty list"

     if ev == "" { prv.Elem().Set(reflect.MakeSlice(prv.Elem().Type(), 0, 0)) }   <- prv.Elem() of a nil
                                                                     pointer is the zero Value: Type() panics
     [fix: if prv.IsNil() { prv.Set(reflect.New(rt)) } first]
   every list parameter of an optional path (and deprecated global ones) sits behind a pointer that is nil
   until the parameter is given *)
Definition env_empty_list_step (fixl : bool) (pointer_is_nil : bool) : env_outcome :=
  if pointer_is_nil then (if fixl then EnvUsesEntry true else EnvPanic) else EnvUsesEntry false.

(* env loader, parameters with their own UnmarshalEnv: a variable that only EXTENDS the parameter's name
   (MTX_PROTOCOLS_X) takes the "has sub-keys" branch

     } else if envHasAtLeastAKeyWithPrefix(env, prefix+"_") {
         [fix: if prv.IsNil() { prv.Set(reflect.New(rt)); i = ... }]
         err := i.UnmarshalEnv(prefix, "")               <- nil receiver when the parameter is optional and unset *)
Definition env_subkey_step (fixu : bool) (pointer_is_nil : bool) : env_outcome :=
  if pointer_is_nil then (if fixu then EnvUsesEntry true else EnvPanic) else EnvUsesEntry false.

(* ------------------------------------------------------------------------------------- *)
(* Conf.Validate / Path.validate: the constraints the property names *)

Fixpoint list_eqb (a b : list Z) : bool :=
  match a, b with
  | [], [] => true
  | x :: r, y :: s => (x =? y) && list_eqb r s
  | _, _ => false
  end.

Fixpoint prefix_b (p s : list Z) : bool :=
  match p, s with
  | [], _ => true
  | x :: r, y :: t => (x =? y) && prefix_b r t
  | _ :: _, [] => false
  end.

(* strings.Contains *)
Fixpoint contains (p s : list Z) : bool :=
  prefix_b p s || match s with [] => false | _ :: t => contains p t end.

Definition s_all : list Z := [97;108;108].
Definition s_all_others : list Z := [97;108;108;95;111;116;104;101;114;115].
Definition s_re_all : list Z := [126;94;46;42;36].                  (* "~^.*$" *)
Definition ph_path : list Z := [37;112;97;116;104].                 (* "%path" *)
Definition ph (c : Z) : list Z := [37; c].                          (* "%Y" ... *)
Definition day_ns : Z := 86400000000000.

Inductive src :=
| SPublisher | SRedirect | SRpi
| SStatic (ok : bool)      (* rtsp://, rtmp://, http://, udp://, srt://, whep://, ... ; ok = oracle: validateURL &c. passed *)
| SInvalid.

Definition src_eqb (a b : src) : bool :=
  match a, b with
  | SPublisher, SPublisher | SRedirect, SRedirect | SRpi, SRpi | SInvalid, SInvalid => true
  | SStatic x, SStatic y => Bool.eqb x y
  | _, _ => false
  end.

Record pathc := {
  p_name : list Z;
  p_name_ok : bool;        (* oracle: IsValidPathName (plain name) / regexp.Compile (name after '~') *)
  p_regex : bool;          (* output: Regexp != nil *)
  p_source : src;
  p_on_demand : bool;
  p_srt_pub : Z;           (* len(SRTPublishPassphrase) *)
  p_srt_read : Z;          (* len(SRTReadPassphrase) *)
  p_redirect : bool;       (* SourceRedirect != "" *)
  p_redirect_ok : bool;    (* oracle: checkRedirect *)
  p_cam : Z;
  p_secondary : bool;
  p_rpi_ok : bool;         (* oracle: width/height/enumerated rpiCamera parameter checks *)
  p_other_ok : bool;       (* oracle: Forward.Validate, fallback *)
  p_aa : bool;             (* AlwaysAvailable *)
  p_aa_src_ok : bool;      (* oracle: the alwaysAvailableFile / alwaysAvailableTracks alternative *)
  p_abs_ts : bool;
  p_run_init : bool;       (* RunOnInit != "" *)
  p_run_demand : bool;     (* RunOnDemand != "" || RunOnUnDemand != "" *)
  p_record_path : list Z;
  p_seg : Z;               (* RecordSegmentDuration, ns *)
  p_del : Z;               (* RecordDeleteAfter, ns *)
  p_tracks : list (Z * Z * Z)  (* AlwaysAvailableTracks: (codec class, sampleRate, channelCount); class 0 = AV1/VP9/H265/H264/Opus,
                                  1 = MPEG4Audio, 2 = G711/LPCM, 3 = anything else *)
}.

Definition set_regex (p : pathc) (r : bool) : pathc :=
  {| p_name := p_name p; p_name_ok := p_name_ok p; p_regex := r; p_source := p_source p;
     p_on_demand := p_on_demand p; p_srt_pub := p_srt_pub p; p_srt_read := p_srt_read p;
     p_redirect := p_redirect p; p_redirect_ok := p_redirect_ok p; p_cam := p_cam p;
     p_secondary := p_secondary p; p_rpi_ok := p_rpi_ok p; p_other_ok := p_other_ok p; p_aa := p_aa p;
     p_aa_src_ok := p_aa_src_ok p; p_abs_ts := p_abs_ts p; p_run_init := p_run_init p;
     p_run_demand := p_run_demand p; p_record_path := p_record_path p; p_seg := p_seg p; p_del := p_del p; p_tracks := p_tracks p |}.

Record gconf := {
  g_read_to : Z;                   (* ReadTimeout, ns *)
  g_write_to : Z;
  g_wqs : Z;                       (* WriteQueueSize *)
  g_read_buffer_count : option Z;  (* deprecated: overrides WriteQueueSize *)
  g_udp : Z;                       (* UDPMaxPayloadSize *)
  g_playback : bool;
  g_other_ok : bool;               (* oracle: every other global check (auth, addresses, RTSP, WebRTC, ...) *)
  g_paths : list pathc             (* merged path configurations, in sortedKeys order *)
}.

Inductive result (A : Type) := Ok (x : A) | Err.
Arguments Ok {A} _.
Arguments Err {A}.

Definition is_alias (n : list Z) : bool := list_eqb n s_all || list_eqb n s_all_others || list_eqb n s_re_all.
Definition name_is_regex (n : list Z) : bool :=
  list_eqb n s_all || list_eqb n s_all_others || match n with 126 :: _ => true | _ => false end.
Definition is_static (s : src) : bool := match s with SPublisher | SRedirect => false | _ => true end.
Definition srt_len_ok (n : Z) : bool := (10 <=? n) && (n <=? 79).
(* AlwaysAvailableTrack.validate (codec / sampleRate / channelCount rules) *)
Definition track_ok (t : Z * Z * Z) : bool :=
  let '(c, sr, cc) := t in
  if c =? 0 then (sr =? 0) && (cc =? 0)
  else if c =? 1 then (22050 <=? sr) && negb (cc =? 0)
  else if c =? 2 then (8000 <=? sr) && negb (cc =? 0)
  else false.
Definition is_primary (p : pathc) : bool := src_eqb (p_source p) SRpi && negb (p_secondary p).
Definition primaries_with (c : Z) (ps : list pathc) : nat :=
  length (filter (fun q => is_primary q && (p_cam q =? c)) ps).

Definition record_path_ok (playback : bool) (rp : list Z) : bool :=
  contains ph_path rp &&
  (contains (ph 115) rp ||                                     (* %s *)
   (contains (ph 89) rp && contains (ph 109) rp && contains (ph 100) rp &&
    contains (ph 72) rp && contains (ph 77) rp && contains (ph 83) rp)) &&   (* %Y %m %d %H %M %S *)
  (negb playback || contains (ph 102) rp).                     (* %f *)

(* the switch on pconf.Source of Path.validate. [all] = every merged path (conf.Paths),
   [taken] = camera ids whose primary already got a secondary (primary.RPICameraSecondaryWidth != 0) *)
Definition source_ok (all : list pathc) (taken : list Z) (p : pathc) : bool :=
  match p_source p with
  | SPublisher => negb (negb (p_srt_pub p =? 0) && negb (srt_len_ok (p_srt_pub p)))   (* checkSRTPassphrase *)
  | SStatic ok => ok                                        (* validateURL, SplitHostPort, rtpSDP *)
  | SRedirect => p_redirect p && p_redirect_ok p            (* "source redirect must be filled", checkRedirect *)
  | SRpi =>
      p_rpi_ok p &&
      if p_secondary p
      then negb (Nat.eqb (primaries_with (p_cam p) all) 0)  (* "cannot find a primary RPI Camera stream" *)
           && negb (existsb (Z.eqb (p_cam p)) taken)        (* "associated with multiple secondary streams" *)
      else negb (Nat.ltb 1 (primaries_with (p_cam p) all))  (* "same camera ID ... used as source in two paths" *)
  | SInvalid => false                                       (* "invalid source" *)
  end.

(* Path.validate: every `if cond { return err }` of the function, in code order, as the
   conjunction of the negated conditions (the function has no other effect on these fields) *)
Definition path_ok (playback : bool) (all : list pathc) (taken : list Z) (p : pathc) : bool :=
  let s := p_source p in
  let re := name_is_regex (p_name p) in
  p_name_ok p                                                             (* name / regexp *)
  && negb (negb (p_srt_pub p =? 0) && negb (src_eqb s SPublisher))        (* srtPublishPassphrase only with publisher *)
  && negb (negb (src_eqb s SRedirect) && p_redirect p)                    (* sourceRedirect useless *)
  && source_ok all taken p
  && negb (p_on_demand p && src_eqb s SPublisher)                         (* sourceOnDemand useless with publisher *)
  && negb (negb (p_on_demand p) && is_static s && re)                     (* regex + static source needs on demand *)
  && negb (negb (p_srt_read p =? 0) && negb (srt_len_ok (p_srt_read p)))
  && p_other_ok p                                                         (* forward, fallback *)
  && negb (p_aa p && (re || p_on_demand p || p_run_demand p || negb (p_aa_src_ok p) || p_abs_ts p))
  && record_path_ok playback (p_record_path p)
  && negb (day_ns <? p_seg p)                                             (* maximum segment duration is 1 day *)
  && negb (negb (p_del p =? 0) && (p_del p <? p_seg p))                   (* deleteAfter < segmentDuration *)
  && negb (p_run_init p && re)
  && negb (p_run_demand p && negb (src_eqb s SPublisher))
  && forallb track_ok (p_tracks p).                                       (* every track, also when set through the environment *)

Definition validate_path (playback : bool) (all : list pathc) (taken : list Z) (p : pathc)
  : result (pathc * list Z) :=
  if path_ok playback all taken p
  then Ok (set_regex p (name_is_regex (p_name p)),
           if src_eqb (p_source p) SRpi && p_secondary p then p_cam p :: taken else taken)
  else Err.

Fixpoint validate_paths (playback : bool) (all : list pathc) (taken : list Z) (ps : list pathc)
  : result (list pathc) :=
  match ps with
  | [] => Ok []
  | p :: r =>
      match validate_path playback all taken p with
      | Err => Err
      | Ok (p', taken') =>
          match validate_paths playback all taken' r with
          | Err => Err
          | Ok r' => Ok (p' :: r')
          end
      end
  end.

Definition validate (g : gconf) : result gconf :=
  let wqs := match g_read_buffer_count g with Some x => x | None => g_wqs g end in
  if g_read_to g <=? 0 then Err else
  if g_write_to g <=? 0 then Err else
  if wqs <=? 0 then Err else
  if negb (Z.land wqs (wqs - 1) =? 0) then Err else
  if 1472 <? g_udp g then Err else
  if negb (g_other_ok g) then Err else
  if Nat.ltb 1 (length (filter (fun p => is_alias (p_name p)) (g_paths g))) then Err else
  match validate_paths (g_playback g) (g_paths g) [] (g_paths g) with
  | Err => Err
  | Ok ps =>
      Ok {| g_read_to := g_read_to g; g_write_to := g_write_to g; g_wqs := wqs;
            g_read_buffer_count := g_read_buffer_count g; g_udp := g_udp g; g_playback := g_playback g;
            g_other_ok := g_other_ok g; g_paths := ps |}
  end.

(* ------------------------------------------------------------------------------------- *)
(* the documented constraints, as a boolean on a (real or modelled) validated configuration *)
Fixpoint is_pow2_fuel (fuel : nat) (x : Z) : bool :=
  match fuel with
  | O => false
  | S k => (x =? 1) || ((0 <? x) && Z.even x && is_pow2_fuel k (x / 2))
  end.
Definition is_pow2 (x : Z) : bool := is_pow2_fuel 70 x.   (* Go int: at most 2^62 *)

Definition path_documented_b (playback : bool) (p : pathc) : bool :=
  Bool.eqb (p_regex p) (name_is_regex (p_name p)) &&
  record_path_ok playback (p_record_path p) &&
  (p_seg p <=? day_ns) && ((p_del p =? 0) || (p_seg p <=? p_del p)) &&
  (negb (p_regex p && is_static (p_source p)) || p_on_demand p) &&
  (negb (p_on_demand p) || negb (src_eqb (p_source p) SPublisher)) &&
  ((p_srt_read p =? 0) || srt_len_ok (p_srt_read p)) &&
  ((p_srt_pub p =? 0) || (srt_len_ok (p_srt_pub p) && src_eqb (p_source p) SPublisher)) &&
  (negb (p_regex p) || negb (p_run_init p)) &&
  (negb (p_run_demand p) || src_eqb (p_source p) SPublisher) &&
  (negb (p_aa p) || (negb (p_regex p) && negb (p_on_demand p) && negb (p_run_demand p) && negb (p_abs_ts p))) &&
  negb (src_eqb (p_source p) SInvalid) && negb (src_eqb (p_source p) (SStatic false)) &&
  (negb (p_redirect p) || src_eqb (p_source p) SRedirect) &&
  forallb track_ok (p_tracks p).

(* camera ids of the secondary rpiCamera streams *)
Definition is_sec (p : pathc) : bool := src_eqb (p_source p) SRpi && p_secondary p.
Definition sec_cams (ps : list pathc) : list Z := map p_cam (filter is_sec ps).
Fixpoint nodup_b (l : list Z) : bool :=
  match l with
  | [] => true
  | x :: r => negb (existsb (Z.eqb x) r) && nodup_b r
  end.

(* at most one primary per camera id; every secondary has a primary; at most one secondary per camera id *)
Definition rpi_documented_b (ps : list pathc) : bool :=
  forallb (fun p =>
    negb (src_eqb (p_source p) SRpi) ||
    if p_secondary p then Nat.leb 1 (primaries_with (p_cam p) ps)
    else Nat.leb (primaries_with (p_cam p) ps) 1) ps
  && nodup_b (sec_cams ps).

Definition documented_b (g : gconf) : bool :=
  (0 <? g_read_to g) && (0 <? g_write_to g) && is_pow2 (g_wqs g) && (g_udp g <=? 1472) &&
  Nat.leb (length (filter (fun p => is_alias (p_name p)) (g_paths g))) 1 &&
  forallb (path_documented_b (g_playback g)) (g_paths g) &&
  rpi_documented_b (g_paths g).
