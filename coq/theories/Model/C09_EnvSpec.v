(* C09: the boolean side conditions of the theorems (no proofs here).
   under        which variables a load at prefix q can read
   wf_ty        schema condition: every kind is one the loader supports without panicking, field names are
                distinct and contain no '_'
   wt           a value has the shape of a type
   has_vars     the canonical spelling of the value has at least one variable
   expressible  the value can be written as variables at all (what is excluded is listed in design_notes/C09.md)
   dom          how the previous value d matters: variables cannot remove list items, map entries or un-set an
                optional parameter, so d must not have more of them than v *)
From Coq Require Import List ZArith Bool.
Require Import MTX.Model.C09_Env.
Import ListNotations.
Local Open Scope Z_scope.

Definition under (q k : str) : bool := str_eqb k q || has_prefix (q ++ [US]) k.

(* the variables a load at prefix p can read *)
Definition below (p : str) (E : env) : env := filter (fun kv => under p (fst kv)) E.

Definition is_nil {A} (l : list A) : bool := match l with [] => true | _ => false end.
Definition no_us (s : str) : bool := forallb (fun c => negb (c =? US)) s.
Definition no_comma (s : str) : bool := forallb (fun c => negb (c =? COMMA)) s.

Fixpoint field_names (fs : fields) : list str :=
  match fs with FNil => [] | FCons tag _ r => fname tag :: field_names r end.
Fixpoint mem_str (s : str) (l : list str) : bool :=
  match l with [] => false | a :: r => str_eqb a s || mem_str s r end.
Fixpoint nodup_str (l : list str) : bool :=
  match l with [] => true | a :: r => negb (mem_str a r) && nodup_str r end.

Definition is_ptr (t : ty) : bool := match t with TPtr _ => true | _ => false end.
(* what may sit behind a pointer: a nil *struct / *map / *OptionalPath makes the loader panic as soon as a
   variable below it exists, **T is unsupported *)
Definition ptr_ok (t : ty) : bool := match t with TPtr _ | TStruct _ | TMap _ | THook _ | TBad => false | _ => true end.

Fixpoint wf_ty (t : ty) : bool :=
  match t with
  | TBad => false
  | TPtr t' => ptr_ok t' && wf_ty t'
  | TStruct fs | TStructs fs | THook fs => wf_fields fs && nodup_str (field_names fs)
  | TMap e => negb (is_ptr e) && wf_ty e
  | _ => true
  end
with wf_fields (fs : fields) : bool :=
  match fs with FNil => true | FCons tag t r => no_us (fname tag) && wf_ty t && wf_fields r end.

(* lists of struct elements / map entries *)
Fixpoint vall (f : vals -> bool) (l : vals) : bool :=
  match l with VNil => true | VCons (VStruct vs) r => f vs && vall f r | VCons _ _ => false end.
Fixpoint mall (f : str -> value -> bool) (m : ments) : bool :=   (* every entry is a non-nil pointer whose target satisfies f *)
  match m with MNil => true | MCons k (VPtr (Some x)) r => f k x && mall f r | MCons _ _ _ => false end.
Fixpoint mall_opt (f : value -> bool) (m : ments) : bool :=      (* entries may be nil pointers *)
  match m with
  | MNil => true
  | MCons _ (VPtr None) r => mall_opt f r
  | MCons _ (VPtr (Some x)) r => f x && mall_opt f r
  | MCons _ _ _ => false
  end.
Fixpoint mkeys (m : ments) : list str := match m with MNil => [] | MCons k _ r => k :: mkeys r end.

Fixpoint wt (t : ty) (v : value) : bool :=
  match t, v with
  | TBool, VBool _ | TInt, VInt _ | TUint, VUint _ | TFloat, VFloat _ | TStr, VStr _ | TCustom _, VCustom _ => true
  | TStrs, VStrs _ | TUints, VUints _ | TFloats, VFloats _ => true
  | TStructs fs, VStructs None => true
  | TStructs fs, VStructs (Some l) => vall (fun vs => wts fs vs) l
  | TStruct fs, VStruct vs => wts fs vs
  | THook fs, VHook None => true
  | THook fs, VHook (Some vs) => wts fs vs
  | TMap e, VMap None => true
  | TMap e, VMap (Some m) => mall_opt (fun x => wt e x) m
  | TPtr t', VPtr None => true
  | TPtr t', VPtr (Some x) => wt t' x
  | _, _ => false
  end
with wts (fs : fields) (vs : vals) : bool :=
  match fs, vs with
  | FNil, VNil => true
  | FCons _ t r, VCons v vs' => wt t v && wts r vs'
  | _, _ => false
  end.

Fixpoint vany (f : vals -> bool) (l : vals) : bool :=
  match l with VNil => false | VCons (VStruct vs) r => f vs || vany f r | VCons _ r => vany f r end.
Fixpoint many (f : value -> bool) (m : ments) : bool :=
  match m with MNil => false | MCons _ (VPtr (Some x)) r => f x || many f r | MCons _ _ r => many f r end.

Fixpoint has_vars (t : ty) (v : value) : bool :=
  match t, v with
  | TBool, VBool _ | TInt, VInt _ | TUint, VUint _ | TFloat, VFloat _ | TStr, VStr _ | TCustom _, VCustom _ => true
  | TStrs, VStrs (Some _) | TUints, VUints (Some _) | TFloats, VFloats (Some _) => true
  | TStructs fs, VStructs (Some VNil) => true
  | TStructs fs, VStructs (Some l) => vany (fun vs => has_vars_fields fs vs) l
  | TStruct fs, VStruct vs => has_vars_fields fs vs
  | THook fs, VHook (Some vs) => has_vars_fields fs vs
  | TMap e, VMap (Some m) => many (fun x => has_vars e x) m
  | TPtr t', VPtr (Some x) => has_vars t' x
  | _, _ => false
  end
with has_vars_fields (fs : fields) (vs : vals) : bool :=
  match fs, vs with
  | FCons _ t r, VCons v vs' => has_vars t v || has_vars_fields r vs'
  | _, _ => false
  end.

Definition int32 (z : Z) : bool := (-2147483648 <=? z) && (z <? 2147483648).
Definition uint32 (z : Z) : bool := (0 <=? z) && (z <? 4294967296).
Definition ostr_eqb (a b : option str) : bool :=
  match a, b with Some x, Some y => str_eqb x y | None, None => true | _, _ => false end.

(* a map key K can be addressed by variables: the variable carries ToUpper(key), which must be non-empty, free
   of '_' and map back to the key *)
Definition key_ok (k : str) : bool :=
  let K := upper k in negb (is_nil K) && no_us K && str_eqb (upper K) K && str_eqb (lower K) k.

Section Spec.
Variable OR : oracles.

Fixpoint expressible (t : ty) (v : value) : bool :=
  match t, v with
  | TBool, VBool _ | TStr, VStr _ => true
  | TInt, VInt z => int32 z
  | TUint, VUint z => uint32 z
  | TFloat, VFloat f => ostr_eqb (fparse OR f) (Some f)
  | TCustom k, VCustom c => ostr_eqb (cparse OR k (ctext OR k c)) (Some c)
  | TStrs, VStrs None | TUints, VUints None | TFloats, VFloats None => true
  | TStrs, VStrs (Some l) =>
      forallb no_comma l && match l with [[]] => false | _ => true end      (* "" alone would read as the empty list *)
  | TUints, VUints (Some l) => forallb uint32 l
  | TFloats, VFloats (Some l) =>
      forallb (fun f => ostr_eqb (fparse OR f) (Some f) && no_comma f && negb (is_nil f)) l
  | TStructs fs, VStructs None => true
  | TStructs fs, VStructs (Some l) => vall (fun vs => expressible_fields fs vs && has_vars_fields fs vs) l
  | TStruct fs, VStruct vs => expressible_fields fs vs
  | THook fs, VHook None => true
  | THook fs, VHook (Some vs) => expressible_fields fs vs && has_vars_fields fs vs
  | TMap e, VMap None => true
  | TMap e, VMap (Some m) =>
      nodup_str (mkeys m) && mall (fun k x => key_ok k && expressible e x && has_vars e x) m
  | TPtr t', VPtr None => true
  | TPtr t', VPtr (Some x) => expressible t' x
  | _, _ => false
  end
with expressible_fields (fs : fields) (vs : vals) : bool :=
  match fs, vs with
  | FNil, VNil => true
  | FCons _ t r, VCons v vs' => expressible t v && expressible_fields r vs'
  | _, _ => false
  end.

(* elements of the previous list against the elements of v: d must not be longer; new elements start from zero *)
Fixpoint dom_list (f : vals -> vals -> bool) (z : vals) (dl l : vals) : bool :=
  match dl, l with
  | VNil, _ => vall (fun e => f z e) l
  | VCons (VStruct de) dr, VCons (VStruct e) r => f de e && dom_list f z dr r
  | _, _ => false
  end.
(* entries of the previous map against the entries of v: the same keys in the same order, possibly fewer *)
Fixpoint dom_ments (f : value -> value -> bool) (z : value) (dm m : ments) : bool :=
  match dm, m with
  | MNil, _ => mall (fun _ x => f z x) m
  | MCons k (VPtr od) dr, MCons k' (VPtr (Some x)) r =>
      str_eqb k k' && f (match od with Some dx => dx | None => z end) x && dom_ments f z dr r
  | _, _ => false
  end.

Definition is_none {A} (o : option A) : bool := match o with None => true | Some _ => false end.

Fixpoint dom (t : ty) (d v : value) : bool :=
  match t, d, v with
  | TBool, _, _ | TInt, _, _ | TUint, _, _ | TFloat, _, _ | TStr, _, _ | TCustom _, _, _ => true
  | TStrs, VStrs dn, VStrs None | TUints, VUints dn, VUints None | TFloats, VFloats dn, VFloats None => is_none dn
  | TStrs, _, VStrs (Some _) | TUints, _, VUints (Some _) | TFloats, _, VFloats (Some _) => true
  | TStructs fs, VStructs dn, VStructs None => is_none dn
  | TStructs fs, _, VStructs (Some VNil) => true
  | TStructs fs, VStructs dn, VStructs (Some l) =>
      dom_list (fun a b => dom_fields fs a b) (zeros OR fs) (match dn with Some dl => dl | None => VNil end) l
  | TStruct fs, VStruct dvs, VStruct vs => dom_fields fs dvs vs
  | THook fs, VHook dn, VHook None => is_none dn
  | THook fs, VHook dn, VHook (Some vs) => dom_fields fs (match dn with Some dvs => dvs | None => zeros OR fs end) vs
  | TMap e, VMap dn, VMap None => is_none dn
  | TMap e, VMap dn, VMap (Some MNil) => match dn with Some MNil => true | _ => false end
  | TMap e, VMap dn, VMap (Some m) =>
      dom_ments (fun a b => dom e a b) (zero OR e) (match dn with Some dm => dm | None => MNil end) m
  | TPtr t', VPtr dn, VPtr None => is_none dn
  | TPtr t', VPtr (Some dx), VPtr (Some x) => dom t' dx x
  | TPtr t', VPtr None, VPtr (Some x) =>       (* a nil pointer is only allocated when a variable is present *)
      has_vars t' x && dom t' (zero OR t') x
  | _, _, _ => false
  end
with dom_fields (fs : fields) (dvs vs : vals) : bool :=
  match fs, dvs, vs with
  | FNil, VNil, VNil => true
  | FCons _ t r, VCons d dr, VCons v vr => dom t d v && dom_fields r dr vr
  | _, _, _ => false
  end.

(* previous value given as prv (None: nil pointer) *)
Definition dominated (t : ty) (o : option value) (v : value) : bool :=
  match o with
  | Some d => dom t d v
  | None => has_vars t v && dom t (zero OR t) v
  end.

(* field by field: either no variable below the field's name and the value is the previous (file) one, or the
   variables below its name are the canonical spelling of an expressible value that the previous one allows *)
Fixpoint field_rel (fs : fields) (E : env) (p : str) (dvs vs : vals) : Prop :=
  match fs, dvs, vs with
  | FNil, VNil, VNil => True
  | FCons tag ft r, VCons d dr, VCons v vr =>
      let q := sub p (fname tag) in
      ((below q E = [] /\ v = d) \/
       (wt ft v = true /\ expressible ft v = true /\ dom ft d v = true /\ below q E = env_of OR ft q v))
      /\ field_rel r E p dr vr
  | _, _, _ => False
  end.

End Spec.
