(* Model of the four administrative HTTP servers (internal/api/api.go, internal/metrics/metrics.go,
   internal/pprof/pprof.go, internal/playback/server.go + on_list.go / on_get.go) at the level the property speaks
   about: a gin engine is an ordered list of registrations (Use / Group / route / third-party bulk registration), a
   request runs the handler chain that gin compiled for its route (the middlewares its group had AT REGISTRATION TIME,
   then the handler), `Abort` stops the chain after the current element, `return` only ends the current element.
   The table of every server (gen/C04_Routes.v) is generated from the Go source on every run. Executable; no proofs. *)
From Coq Require Import List String ZArith Bool.
Import ListNotations.
Local Open Scope string_scope.
Local Open Scope list_scope.

(* where a path name used by a step comes from *)
Inductive psrc :=
| PNone                 (* no path: auth.Request.Path left empty *)
| PQuery                (* the variable bound to ctx.Query("path") *)
| POther.               (* any other expression *)

(* what one statement group of a middleware / handler body does *)
Inductive hstep :=
| HPreflight (ab : bool)
    (* if Method == OPTIONS && Access-Control-Request-Method != "" { 204; [Abort]; return } *)
| HValidate (p : psrc) (ab ret : bool)
    (* if conf.IsValidPathName(p) != nil { 400 error; [Abort]; [return] } *)
| HAuth (act : string) (p : psrc) (ab ret : bool)
    (* AuthManager.Authenticate{Action: act, Path: p, credentials and IP of the request};
       on error { 401 "authentication error"; [Abort]; [return] } *)
| HAccess (p : psrc)
    (* anything that reads endpoint data / the record store or changes state, and writes a response *)
| HOther.
    (* statements that do not touch the gin context (logging, ...) *)

Record elem := { e_name : string; e_body : list hstep }.

Inductive reg :=
| RUse (g : string) (e : elem)                         (* g.Use(e) *)
| RGroup (parent child prefix : string)                (* child := parent.Group(prefix) *)
| RRoute (g method pattern : string) (e : elem)        (* g.METHOD(pattern, e) *)
| RExtern (g name : string)                            (* name(g): third-party bulk registration, e.g. pprof.Register(router) *)
| RUnknown (what : string).                            (* a use of the router the translator does not understand *)

Record table := {
  t_server : string;
  t_action : string;          (* the action the property demands for this server (conf.AuthAction...) *)
  t_withpath : bool;          (* the action is per path (playback) *)
  t_root : string;            (* variable holding gin.New() *)
  t_proxies_set : bool;       (* Initialize calls root.SetTrustedProxies(<recv>.TrustedProxies.ToTrustedProxies()) exactly once and
                                 unconditionally; without that call gin keeps its default and trusts EVERY peer as a proxy *)
  t_regs : list reg
}.

(* ---- gin's route compilation ---------------------------------------------------------- *)

Record route := { r_method : string; r_pattern : string; r_chain : list elem }.

Record compiled := {
  c_groups : list (string * (string * list elem));      (* variable -> (base path, Handlers) *)
  c_routes : list route;
  c_externs : list (string * list elem);                (* bulk registration -> Handlers of its group at that time *)
  c_bad : bool
}.

Fixpoint glookup (g : string) (gs : list (string * (string * list elem))) : option (string * list elem) :=
  match gs with
  | [] => None
  | (k, v) :: r => if String.eqb k g then Some v else glookup g r
  end.

Fixpoint gupdate (g : string) (v : string * list elem) (gs : list (string * (string * list elem))) :=
  match gs with
  | [] => [(g, v)]
  | (k, w) :: r => if String.eqb k g then (k, v) :: r else (k, w) :: gupdate g v r
  end.

Definition set_bad (c : compiled) : compiled :=
  {| c_groups := c_groups c; c_routes := c_routes c; c_externs := c_externs c; c_bad := true |}.

Definition reg_step (c : compiled) (r : reg) : compiled :=
  match r with
  | RUse g e =>
      match glookup g (c_groups c) with
      | Some (base, hs) => {| c_groups := gupdate g (base, hs ++ [e]) (c_groups c); c_routes := c_routes c;
                              c_externs := c_externs c; c_bad := c_bad c |}
      | None => set_bad c
      end
  | RGroup p ch prefix =>
      match glookup p (c_groups c) with
      | Some (base, hs) => {| c_groups := gupdate ch ((base ++ prefix)%string, hs) (c_groups c); c_routes := c_routes c;
                              c_externs := c_externs c; c_bad := c_bad c |}
      | None => set_bad c
      end
  | RRoute g m pat e =>
      match glookup g (c_groups c) with
      | Some (base, hs) => {| c_groups := c_groups c;
                              c_routes := c_routes c ++ [{| r_method := m; r_pattern := (base ++ pat)%string; r_chain := hs ++ [e] |}];
                              c_externs := c_externs c; c_bad := c_bad c |}
      | None => set_bad c
      end
  | RExtern g n =>
      match glookup g (c_groups c) with
      | Some (_, hs) => {| c_groups := c_groups c; c_routes := c_routes c;
                           c_externs := c_externs c ++ [(n, hs)]; c_bad := c_bad c |}
      | None => set_bad c
      end
  | RUnknown _ => set_bad c
  end.

Definition compile (t : table) : compiled :=
  fold_left reg_step (t_regs t)
    {| c_groups := [(t_root t, ("", []))]; c_routes := []; c_externs := []; c_bad := false |}.

(* engine.allNoRoute: every middleware registered on the engine itself (rebuilt by each engine.Use) *)
Definition noroute_chain (t : table) (c : compiled) : list elem :=
  match glookup (t_root t) (c_groups c) with Some (_, hs) => hs | None => [] end.

(* handlers registered by a third-party package run under the chain of the group they were given *)
Definition extern_elem (n : string) : elem := {| e_name := n; e_body := [HAccess PNone] |}.

Fixpoint find_route (rs : list route) (m pat : string) : option (list elem) :=
  match rs with
  | [] => None
  | r :: rest => if String.eqb (r_method r) m && String.eqb (r_pattern r) pat then Some (r_chain r) else find_route rest m pat
  end.

(* ---- requests, responses --------------------------------------------------------------- *)

Record creds := { c_user : list Z; c_pass : list Z; c_token : list Z }.

Record request := {
  q_method : string;
  q_pattern : string;            (* the route pattern the URL instantiates (gin's own matching is not modelled) *)
  q_listed : bool;               (* gin's Routes() lists (method, pattern) *)
  q_acrm : bool;                 (* header Access-Control-Request-Method is non-empty *)
  q_creds : creds;               (* what httpp.Credentials extracts *)
  q_ip : list Z;                 (* ctx.ClientIP() *)
  q_path : list Z;               (* ctx.Query("path") *)
  q_other : list Z               (* value of any other expression a handler may use as a path *)
}.

Inductive event :=
| EvAuth (act : string) (p : option (list Z))       (* Authenticate was asked about (act, p) *)
| EvAccess (p : option (list Z)).                   (* endpoint data / store accessed (for path p) *)

Record st := { s_aborted : bool; s_status : option Z; s_data : bool; s_trace : list event }.

Record response := { status : Z; carries_data : bool; trace : list event }.

Definition is_preflight (q : request) : bool := String.eqb (q_method q) "OPTIONS" && q_acrm q.

Definition eval_p (q : request) (p : psrc) : option (list Z) :=
  match p with PNone => None | PQuery => Some (q_path q) | POther => Some (q_other q) end.

(* first WriteHeader wins *)
Definition write (code : Z) (ab : bool) (s : st) : st :=
  {| s_aborted := s_aborted s || ab;
     s_status := match s_status s with Some x => Some x | None => Some code end;
     s_data := s_data s; s_trace := s_trace s |}.

Definition log_ev (e : event) (s : st) : st :=
  {| s_aborted := s_aborted s; s_status := s_status s; s_data := s_data s; s_trace := s_trace s ++ [e] |}.

Definition access (p : option (list Z)) (s : st) : st :=
  {| s_aborted := s_aborted s;
     s_status := match s_status s with Some x => Some x | None => Some 200%Z end;
     s_data := true; s_trace := s_trace s ++ [EvAccess p] |}.

Section Serve.
(* oracles: the admit decision of auth.Manager.Authenticate (C01/C02) and conf.IsValidPathName (C06) *)
Variable auth : string -> option (list Z) -> creds -> list Z -> bool.
Variable valid_path : list Z -> bool.

Definition valid_opt (p : option (list Z)) : bool := match p with None => true | Some x => valid_path x end.

Fixpoint run_body (q : request) (b : list hstep) (s : st) : st :=
  match b with
  | [] => s
  | h :: r =>
      match h with
      | HPreflight ab => if is_preflight q then write 204 ab s else run_body q r s
      | HValidate p ab ret =>
          if valid_opt (eval_p q p) then run_body q r s
          else if ret then write 400 ab s else run_body q r (write 400 ab s)
      | HAuth act p ab ret =>
          let s1 := log_ev (EvAuth act (eval_p q p)) s in
          if auth act (eval_p q p) (q_creds q) (q_ip q) then run_body q r s1
          else if ret then write 401 ab s1 else run_body q r (write 401 ab s1)
      | HAccess p => run_body q r (access (eval_p q p) s)
      | HOther => run_body q r s
      end
  end.

(* Context.Next: handlers run in order until one of them aborts *)
Fixpoint run_chain (q : request) (ch : list elem) (s : st) : st :=
  match ch with
  | [] => s
  | e :: r => let s' := run_body q (e_body e) s in if s_aborted s' then s' else run_chain q r s'
  end.

Definition init : st := {| s_aborted := false; s_status := None; s_data := false; s_trace := [] |}.

Definition finish (default : Z) (s : st) : response :=
  {| status := match s_status s with Some x => x | None => default end; carries_data := s_data s; trace := s_trace s |}.

(* the chain gin runs for a request and the status it answers with when no handler writes one *)
Definition chain_of (t : table) (q : request) : list elem * Z :=
  let c := compile t in
  match find_route (c_routes c) (q_method q) (q_pattern q) with
  | Some ch => (ch, 200%Z)
  | None =>
      match (if q_listed q then c_externs c else []) with
      | (n, hs) :: _ => (hs ++ [extern_elem n], 200%Z)
      | [] => (noroute_chain t c, 404%Z)
      end
  end.

Definition serve (t : table) (q : request) : response :=
  let '(ch, d) := chain_of t q in finish d (run_chain q ch init).

(* the client is admitted for the server's action (on the requested path where the action is per path) *)
Definition admitted (t : table) (q : request) : bool :=
  auth (t_action t) (if t_withpath t then Some (q_path q) else None) (q_creds q) (q_ip q).

(* whether gin finds a route for the request *)
Definition routed (t : table) (q : request) : bool :=
  match find_route (c_routes (compile t)) (q_method q) (q_pattern q) with
  | Some _ => true
  | None => q_listed q && match c_externs (compile t) with [] => false | _ => true end
  end.

(* the answer to a refused request on a table of today's shape (tbl_strict) *)
Definition denied_status (t : table) (q : request) : Z :=
  if is_preflight q then 204%Z
  else if t_withpath t then
         (if routed t q then (if valid_path (q_path q) then 401%Z else 400%Z) else 404%Z)
       else 401%Z.

End Serve.

(* ---- the client address: gin's Context.ClientIP ------------------------------------------ *)

(* what arrives on the wire: the address of the TCP peer, and the address that the forwarding headers name (the first of
   X-Forwarded-For / X-Real-Ip that holds a valid address; None = no such header). Anybody can send those headers. *)
Record wire := { w_peer : list Z; w_forwarded : option (list Z) }.

Definition forwarded_or_peer (w : wire) : list Z :=
  match w_forwarded w with Some f => f | None => w_peer w end.

(* Context.ClientIP: `trusted := engine.isTrustedProxy(remoteIP)`; the headers are only looked at when the peer is trusted.
   `trusted` = membership in the configured list (conf: apiTrustedProxies, ...), which is what the engine checks once
   SetTrustedProxies was called with it; an engine on which it was never called trusts 0.0.0.0/0 and ::/0. *)
Definition client_ip (t : table) (trusted : list Z -> bool) (w : wire) : list Z :=
  if (if t_proxies_set t then trusted (w_peer w) else true) then forwarded_or_peer w else w_peer w.

(* the address the server is ENTITLED to believe: the forwarded one only if the peer is a configured trusted proxy *)
Definition believed (trusted : list Z -> bool) (w : wire) : list Z :=
  if trusted (w_peer w) then forwarded_or_peer w else w_peer w.

(* the request the handlers see *)
Definition on_wire (t : table) (trusted : list Z -> bool) (w : wire) (q : request) : request :=
  {| q_method := q_method q; q_pattern := q_pattern q; q_listed := q_listed q; q_acrm := q_acrm q; q_creds := q_creds q;
     q_ip := client_ip t trusted w; q_path := q_path q; q_other := q_other q |}.

Definition serve_wire (auth : string -> option (list Z) -> creds -> list Z -> bool) (valid_path : list Z -> bool)
    (t : table) (trusted : list Z -> bool) (w : wire) (q : request) : response :=
  serve auth valid_path t (on_wire t trusted w q).

(* ---- decidable conditions on a table --------------------------------------------------- *)

(* the engine was told the configured proxy list (side condition of the *_wire theorems) *)
Definition proxies_ok (t : table) : bool := t_proxies_set t.

Definition psrc_eqb (a b : psrc) : bool :=
  match a, b with PNone, PNone | PQuery, PQuery | POther, POther => true | _, _ => false end.

Definition want_p (wp : bool) : psrc := if wp then PQuery else PNone.

(* a step that can end its element without aborting the chain: later elements would run unguarded *)
Definition leaky (h : hstep) : bool :=
  match h with
  | HPreflight ab => negb ab
  | HValidate _ ab ret => ret && negb ab
  | HAuth _ _ ab ret => ret && negb ab
  | _ => false
  end.

Definition good_auth (act : string) (wp : bool) (h : hstep) : bool :=
  match h with
  | HAuth a p ab ret => String.eqb a act && psrc_eqb p (want_p wp) && ab && ret
  | _ => false
  end.

Inductive verdict := Clean | Guarded | Dirty.

(* scan of one body: Dirty = data may be produced before a guard; Guarded = a guard is reached first and no
   earlier step can leave the element without aborting *)
Fixpoint body_guard (act : string) (wp : bool) (leak : bool) (b : list hstep) : verdict :=
  match b with
  | [] => Clean
  | h :: r =>
      match h with
      | HAccess _ => Dirty
      | _ => if good_auth act wp h && negb leak then Guarded
             else body_guard act wp (leak || leaky h) r
      end
  end.

Fixpoint chain_ok (act : string) (wp : bool) (ch : list elem) : bool :=
  match ch with
  | [] => true
  | e :: r => match body_guard act wp false (e_body e) with
              | Clean => chain_ok act wp r
              | Guarded => true
              | Dirty => false
              end
  end.

Definition all_chains (t : table) : list (list elem) :=
  let c := compile t in
  map r_chain (c_routes c) ++ map (fun x => snd x ++ [extern_elem (fst x)]) (c_externs c) ++ [noroute_chain t c].

(* the auth middleware is registered before every route / every route is under it / it aborts on failure /
   self-authenticating handlers authenticate before touching anything *)
Definition tbl_ok (t : table) : bool :=
  negb (c_bad (compile t)) && forallb (chain_ok (t_action t) (t_withpath t)) (all_chains t).

(* the chains whose element is not yet known to be guarded: which route breaks tbl_ok (for the search) *)
Definition unguarded (t : table) : list (string * string) :=
  let c := compile t in
  map (fun r => (r_method r, r_pattern r))
      (filter (fun r => negb (chain_ok (t_action t) (t_withpath t) (r_chain r))) (c_routes c)).

(* preflight: every chain starts with the aborting preflight step *)
Definition starts_preflight (ch : list elem) : bool :=
  match ch with
  | e :: _ => match e_body e with HPreflight true :: _ => true | _ => false end
  | [] => false
  end.

Definition pre_ok (t : table) : bool := forallb starts_preflight (all_chains t).

(* per-path servers: the path is validated before it is handed to Authenticate, and nothing is accessed for any
   other path than the authenticated one *)
Fixpoint body_path_ok (act : string) (validated authed : bool) (b : list hstep) : bool :=
  match b with
  | [] => true
  | h :: r =>
      match h with
      | HValidate PQuery true true => body_path_ok act true authed r
      | HAuth a p ab ret =>
          if String.eqb a act && psrc_eqb p PQuery && ab && ret then validated && body_path_ok act validated true r
          else false
      | HAccess p => authed && psrc_eqb p PQuery && body_path_ok act validated authed r
      | HValidate _ _ _ => false
      | HPreflight true => body_path_ok act validated authed r
      | HPreflight false => false
      | HOther => body_path_ok act validated authed r
      end
  end.

(* every element starts from scratch (validated/authenticated facts do not carry over: kept simple) *)
Definition tbl_path_ok (t : table) : bool :=
  t_withpath t && forallb (forallb (fun e => body_path_ok (t_action t) false false (e_body e))) (all_chains t).

(* the exact shape of today's servers, which fixes the status of every refused request *)
Definition strip (b : list hstep) : list hstep :=
  filter (fun h => match h with HOther => false | _ => true end) b.

Definition hstep_eqb (a b : hstep) : bool :=
  match a, b with
  | HPreflight x, HPreflight y => Bool.eqb x y
  | HValidate p a1 r1, HValidate q a2 r2 => psrc_eqb p q && Bool.eqb a1 a2 && Bool.eqb r1 r2
  | HAuth s p a1 r1, HAuth s' q a2 r2 => String.eqb s s' && psrc_eqb p q && Bool.eqb a1 a2 && Bool.eqb r1 r2
  | HAccess p, HAccess q => psrc_eqb p q
  | HOther, HOther => true
  | _, _ => false
  end.

Fixpoint body_eqb (a b : list hstep) : bool :=
  match a, b with
  | [], [] => true
  | x :: a', y :: b' => hstep_eqb x y && body_eqb a' b'
  | _, _ => false
  end.

Fixpoint body_prefix (p b : list hstep) : bool :=
  match p, b with
  | [], _ => true
  | x :: p', y :: b' => hstep_eqb x y && body_prefix p' b'
  | _ :: _, [] => false
  end.

Definition strict_chain (act : string) (wp routed : bool) (ch : list elem) : bool :=
  match ch with
  | e1 :: rest =>
      body_eqb (strip (e_body e1)) [HPreflight true] &&
      (if wp then
         (if routed then
            match rest with
            | [h] => body_prefix [HValidate PQuery true true; HAuth act PQuery true true] (strip (e_body h))
            | _ => false
            end
          else match rest with [] => true | _ => false end)
       else
         match rest with
         | e2 :: _ => body_eqb (strip (e_body e2)) [HAuth act PNone true true]
         | [] => false
         end)
  | [] => false
  end.

Definition tbl_strict (t : table) : bool :=
  let c := compile t in
  negb (c_bad c) &&
  forallb (strict_chain (t_action t) (t_withpath t) true)
          (map r_chain (c_routes c) ++ map (fun x => snd x ++ [extern_elem (fst x)]) (c_externs c)) &&
  strict_chain (t_action t) (t_withpath t) false (noroute_chain t c) &&
  (negb (t_withpath t) || match c_externs c with [] => true | _ => false end).
