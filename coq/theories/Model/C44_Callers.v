(* Model of the CALLERS of paginate: the list endpoints of internal/api (api_paths.go, api_rtsp.go, api_rtmp.go,
   api_hls.go, api_webrtc.go, api_srt.go, api_moq.go, api_forward.go, api_config_paths.go, api_recordings.go).
   Executable; no proofs here.

   Every list handler has one of two shapes (tools: the driver's go/ast inventory classifies each handler):

   ShapeItems   items := source(); data.ItemCount = len(items); pageCount, err := paginate(&items, ...);
                err -> 400; data.PageCount = pageCount; respond {ItemCount, PageCount, items}
   ShapeKeys    keys := source(); data.ItemCount = len(keys); pageCount, err := paginate(&keys, ...); err -> 400;
                data.PageCount = pageCount; data.Items = make(len(keys)); for i, k := range keys { Items[i] = f k }
                (onRecordingsList: keys = recorded path names, f = recordingsOfPath)                              *)
From Coq Require Import String List ZArith Bool.
Require Import MTX.Lib.IntWrap MTX.Model.C44_Paginate.
Import ListNotations.
Local Open Scope Z_scope.

Inductive response (A : Type) :=
| RBad                                              (* 400 + error body *)
| RPanic                                            (* handler panics *)
| ROk (item_count page_count : Z) (items : list A). (* 200 {itemCount, pageCount, items} *)
Arguments RBad {A}. Arguments RPanic {A}. Arguments ROk {A} _ _ _.

(* items[lo:hi] *)
Definition slice {A} (lo hi : Z) (xs : list A) : list A := firstn (Z.to_nat (hi - lo)) (skipn (Z.to_nat lo) xs).

Definition list_response {A} (src : list A) (ipp_s page_s : list Z) : response A :=
  match paginate (Z.of_nat (length src)) ipp_s page_s with
  | Rejected => RBad
  | Panics => RPanic
  | Page pc lo hi => ROk (Z.of_nat (length src)) pc (slice lo hi src)
  end.

(* ShapeKeys: Items = make(len(page)); Items[i] = f page[i] *)
Definition list_response_keys {K A} (f : K -> A) (keys : list K) (ipp_s page_s : list Z) : response A :=
  match paginate (Z.of_nat (length keys)) ipp_s page_s with
  | Rejected => RBad
  | Panics => RPanic
  | Page pc lo hi => ROk (Z.of_nat (length keys)) pc (map f (slice lo hi keys))
  end.

(* ShapeKeys, literally: Items = make([]T, m) (m zero values), then `for i, k := range page { Items[i] = f k }`
   (index out of range -> panic). The code allocates AFTER paginate (m = len(page)); alloc_before = true is the
   variant that allocates while the keys are still the whole list. *)
Fixpoint fill {K A} (f : K -> A) (page : list K) (arr : list A) : option (list A) :=
  match page, arr with
  | [], _ => Some arr
  | k :: page', _ :: arr' => option_map (cons (f k)) (fill f page' arr')
  | _ :: _, [] => None
  end.

Definition list_response_alloc {K A} (zero : A) (f : K -> A) (alloc_before : bool)
    (keys : list K) (ipp_s page_s : list Z) : response A :=
  match paginate (Z.of_nat (length keys)) ipp_s page_s with
  | Rejected => RBad
  | Panics => RPanic
  | Page pc lo hi =>
      let page := slice lo hi keys in
      let m := if alloc_before then length keys else length page in
      match fill f page (repeat zero m) with
      | Some items => ROk (Z.of_nat (length keys)) pc items
      | None => RPanic
      end
  end.

Inductive shape := ShapeItems | ShapeKeys.

(* the list endpoints: (code used by the driver, route under /v3, handler, shape). The driver's go/ast inventory of
   internal/api (every function that calls paginate + the route registered for it in api.go) must equal this table. *)
Definition endpoints : list (Z * (string * (string * shape))) :=
  [ (0,  ("/config/paths/list",   ("onConfigPathsList",    ShapeItems)));
    (1,  ("/paths/list",          ("onPathsList",          ShapeItems)));
    (2,  ("/paths/forward/list",  ("onForwardList",        ShapeItems)));
    (3,  ("/hlsmuxers/list",      ("onHLSMuxersList",      ShapeItems)));
    (4,  ("/hlssessions/list",    ("onHLSSessionsList",    ShapeItems)));
    (5,  ("/rtspconns/list",      ("onRTSPConnsList",      ShapeItems)));
    (6,  ("/rtspsessions/list",   ("onRTSPSessionsList",   ShapeItems)));
    (7,  ("/rtspsconns/list",     ("onRTSPSConnsList",     ShapeItems)));
    (8,  ("/rtspssessions/list",  ("onRTSPSSessionsList",  ShapeItems)));
    (9,  ("/rtmpconns/list",      ("onRTMPConnsList",      ShapeItems)));
    (10, ("/rtmpsconns/list",     ("onRTMPSConnsList",     ShapeItems)));
    (11, ("/webrtcsessions/list", ("onWebRTCSessionsList", ShapeItems)));
    (12, ("/srtconns/list",       ("onSRTConnsList",       ShapeItems)));
    (13, ("/moqsessions/list",    ("onMoQSessionsList",    ShapeItems)));
    (14, ("/recordings/list",     ("onRecordingsList",     ShapeKeys))) ]%string.

Definition shape_of (ep : Z) : option shape :=
  match find (fun e => fst e =? ep) endpoints with
  | Some (_, (_, (_, s))) => Some s
  | None => None
  end.

(* the source list the driver installs: item k of endpoint ep is identified by the number k (the driver encodes
   (ep, k) into the item's id / name / path and decodes it from the JSON answer) *)
Fixpoint iota (start : Z) (n : nat) : list Z :=
  match n with O => [] | S m => start :: iota (start + 1) m end.

Definition endpoint_response (ep n : Z) (ipp_s page_s : list Z) : option (response Z) :=
  match shape_of ep with
  | Some ShapeItems => Some (list_response (iota 0 (Z.to_nat n)) ipp_s page_s)
  | Some ShapeKeys => Some (list_response_alloc (-1) (fun k => k) false (iota 0 (Z.to_nat n)) ipp_s page_s)
  | None => None
  end.
