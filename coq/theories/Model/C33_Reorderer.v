(* Model of internal/protocols/moq/reorderer/reorderer.go (Push, flushUpTo). Executable; no proofs here.
   The Go map `pending` is represented canonically as an association list sorted by group id. *)
From Coq Require Import List ZArith Bool.
Require Import MTX.Lib.IntWrap.
Import ListNotations.
Local Open Scope Z_scope.

(* a pushed subgroup: group id (uint64), total payload size, and a tag identifying the push *)
Record sg := { gid : Z; size : Z; tag : Z }.

Record state := {
  initialized : bool;
  cur : Z;                (* curGroupID *)
  pending : list sg;      (* the map, sorted by gid, one entry per gid *)
  pbytes : Z;             (* pendingBytes *)
}.

Definition init_state : state := {| initialized := false; cur := 0; pending := []; pbytes := 0 |}.

(* r.pending[id] = x *)
Fixpoint ins (x : sg) (l : list sg) : list sg :=
  match l with
  | [] => [x]
  | y :: r => if gid x <? gid y then x :: y :: r
              else if gid x =? gid y then x :: r
              else y :: ins x r
  end.

Fixpoint lookup (id : Z) (l : list sg) : option sg :=
  match l with
  | [] => None
  | y :: r => if gid y =? id then Some y else lookup id r
  end.

Definition sum_sizes (l : list sg) : Z := fold_right (fun e a => size e + a) 0 l.

(* the final loop of flushUpTo: deliver pending[cur+1] while present *)
Fixpoint drain (l : list sg) (c : Z) : list sg * list sg * Z :=
  match l with
  | e :: r => if gid e =? wrapu64 (c + 1)
              then let '(o, rest, c') := drain r (wrapu64 (c + 1)) in (e :: o, rest, c')
              else ([], l, c)
  | [] => ([], [], c)
  end.

Definition in_range (c m : Z) (e : sg) : bool := (c <? gid e) && (gid e <=? m).

Definition flush_up_to (s : state) (m : Z) : state * list sg :=
  let out1 := filter (in_range (cur s) m) (pending s) in      (* ids collected and sorted *)
  let rest := filter (fun e => negb (in_range (cur s) m e)) (pending s) in
  let '(out2, rest', c') := drain rest m in
  ({| initialized := initialized s; cur := c'; pending := rest';
      pbytes := pbytes s - sum_sizes out1 - sum_sizes out2 |}, out1 ++ out2).

Definition push (maxr maxb : Z) (s : state) (x : sg) : state * list sg :=
  if negb (initialized s) then
    ({| initialized := true; cur := gid x; pending := pending s; pbytes := pbytes s |}, [x])
  else if gid x <=? cur s then (s, [])
  else if (gid x =? wrapu64 (cur s + 1)) && (match pending s with [] => true | _ => false end) then
    ({| initialized := true; cur := gid x; pending := pending s; pbytes := pbytes s |}, [x])
  else
    let prev := match lookup (gid x) (pending s) with Some p => size p | None => 0 end in
    let s1 := {| initialized := true; cur := cur s; pending := ins x (pending s);
                 pbytes := pbytes s - prev + size x |} in
    let diff := wrapu64 (gid x - cur s) in
    let count := Z.of_nat (length (filter (fun e => gid e <=? gid x) (pending s1))) in
    if count =? diff then flush_up_to s1 (gid x)
    else if Z.of_nat (length (pending s1)) >? maxr then flush_up_to s1 (gid x)
    else if pbytes s1 >? maxb then flush_up_to s1 (gid x)
    else (s1, []).

(* a whole history: final state and the per-push outputs *)
Fixpoint run (maxr maxb : Z) (s : state) (xs : list sg) : state * list (list sg) :=
  match xs with
  | [] => (s, [])
  | x :: r => let '(s1, o) := push maxr maxb s x in
              let '(s2, os) := run maxr maxb s1 r in (s2, o :: os)
  end.
