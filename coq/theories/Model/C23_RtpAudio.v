(* Models of the two simple audio packetizers mediamtx uses (internal/stream/rtp_encoder.go, rtp_decoder.go):

   (1) Opus: rtpEncoderOpus.encode = one gortsplib rtpsimpleaudio packet per Opus packet of the unit (payload = the
       Opus packet itself, no fragmentation exists in RTP/Opus), Timestamp += uint32(pts) where pts accumulates
       mediacommon opus.PacketDuration2 of the preceding packets; rtpDecoderOpus = rtpsimpleaudio.Decoder.
   (2) G.711 and LPCM: gortsplib rtplpcm.Encoder (Init: sampleSize = BitDepth*ChannelCount/8, maxPayloadSize =
       (PayloadMaxSize/sampleSize)*sampleSize; Encode: split into packets of maxPayloadSize bytes, timestamp advanced by
       payloadSize/sampleSize per packet); G.711 is BitDepth 8. rtplpcm.Decoder returns the payload.

   Executable; no proofs here. packet / enc / bump / packet_count / dout come from Model/C23_RtpH264.v, eres from
   Model/C23_RtpH265.v. Both decoders are stateless. *)
From Coq Require Import List ZArith Bool.
Require Import MTX.Lib.IntWrap MTX.Model.C23_RtpH264 MTX.Model.C23_RtpH265.
Import ListNotations.
Local Open Scope Z_scope.

(* ------------------------------------------------------------------ Opus *)

(* mediacommon opus.frameSizes, indexed by the TOC configuration (pkt[0]>>3) *)
Definition opus_frame_sizes : list Z :=
  [480; 960; 1920; 2880;  480; 960; 1920; 2880;  480; 960; 1920; 2880;  480; 960;  480; 960;
   120; 240; 480; 960;  120; 240; 480; 960;  120; 240; 480; 960;  120; 240; 480; 960].

(* opus.PacketDuration2, in 1/48000 s *)
Definition opus_duration (pkt : bytes) : Z :=
  match pkt with
  | [] => 0
  | b0 :: rest =>
      let fd := nth (Z.to_nat (Z.shiftr b0 3)) opus_frame_sizes 0 in
      let code := Z.land b0 3 in
      if code =? 0 then fd
      else if (code =? 1) || (code =? 2) then fd * 2
      else match rest with
           | [] => 0
           | b1 :: _ => fd * Z.land b1 63
           end
  end.

(* the loop of rtpEncoderOpus.encode; pts is an int64 that only grows by at most 2880*63 per packet *)
Fixpoint opus_loop (e : enc) (pts : Z) (frames : list bytes) : list packet * enc :=
  match frames with
  | [] => ([], e)
  | f :: r =>
      let pkt := mkpkt e.(e_seq) (wrapu32 pts) false e.(e_ssrc) f in
      let '(ps, e') := opus_loop (bump e) (pts + opus_duration f) r in
      (pkt :: ps, e')
  end.

(* rtpsimpleaudio.Encoder.Encode never fails and never looks at PayloadMaxSize *)
Definition opus_encode (e : enc) (frames : list bytes) : eres := inl (Ok (opus_loop e 0 frames)).

(* rtpsimpleaudio.Decoder.Decode / rtplpcm.Decoder.Decode wrapped by rtpDecoderOpus / rtpDecoderG711 / rtpDecoderLPCM:
   the payload, or an error when it is empty *)
Definition simple_decode (p : packet) : dout :=
  match p.(p_payload) with [] => DErr | pl => DOk [pl] end.

(* ------------------------------------------------------------------ G.711 / LPCM *)

(* Init: sampleSize; Go `/` on non-negative ints *)
Definition lpcm_sample_size (bit_depth channels : Z) : Z := Z.quot (bit_depth * channels) 8.
Definition lpcm_max_payload (max ss : Z) : Z := Z.quot max ss * ss.

(* the loop of Encode: k packets left, payloadSize (it only shrinks), timestamp, rest of the samples *)
Fixpoint lpcm_loop (k : nat) (ss : Z) (psize : nat) (ts : Z) (samples : bytes) (e : enc) : list packet * enc :=
  match k with
  | O => ([], e)
  | S k' =>
      let psize' := if (length samples <? psize)%nat then length samples else psize in
      let pkt := mkpkt e.(e_seq) ts false e.(e_ssrc) (firstn psize' samples) in
      let '(r, e') := lpcm_loop k' ss psize' (wrapu32 (ts + wrapu32 (Z.quot (Z.of_nat psize') ss)))
                                (skipn psize' samples) (bump e) in
      (pkt :: r, e')
  end.

(* ss <= 0 (ChannelCount 0: Init divides by zero) or maxPayloadSize = 0 (sample size > PayloadMaxSize: Encode
   divides by zero): Panic *)
Definition lpcm_encode (ss : Z) (e : enc) (samples : bytes) : eres :=
  let mp := lpcm_max_payload e.(e_max) ss in
  if (ss <=? 0) || (mp <=? 0) then inl Panic
  else inl (Ok (lpcm_loop (Z.to_nat (packet_count mp (blen samples))) ss (Z.to_nat mp) 0 samples e)).

(* ------------------------------------------------------------------ running a stateless decoder *)

Definition simple_run (pkts : list packet) : list dout := map simple_decode pkts.
