(* The per-format RTP state of one Stream over its whole life: a Stream owns one streamFormat per format
   (internal/stream/stream_format.go: rtpEncoder, rtpTimeOffset, ptsOffset) and goes through a SEQUENCE of sub
   streams (internal/stream/sub_stream.go): exactly one for an ordinary stream; for an always-available stream
   the offline sub stream, then a publisher, a publisher replacing it, the offline sub stream again, ...
   Every SubStream.Initialize runs subStreamFormat.initialize and initialize2 (sub_stream_format.go) against the
   SAME streamFormat; units are then written through writeUnitInner (Model/C23_RtpGlue.v: glue_write).

   Transliterated here:
     subStreamFormat.initialize   -> ssf_init   (rtpDecoder when useRTPPackets; the shared encoder and the offset are
                                                 created ONCE: `rtpEncoder == nil && (!useRTPPackets || alwaysAvailable
                                                 || forceRemux)`)
     subStreamFormat.initialize2  -> ssf_init2  (ptsOffset of an always-available stream)
     writeUnitInner, first lines  -> life_pts   (u.PTS += ptsOffset when alwaysAvailable; int64 wrap)
   Executable; no proofs here.

   Oracles (event arguments, observed by the driver on the real code):
     dec_ok   : newRTPDecoder(inFormat) succeeded (only asked when useRTPPackets);
     rnd      : (SSRC, initial sequence number) drawn by the gortsplib encoder's Init for nil arguments and the value
                of randUint32() - what they would be if they are drawn;
     computed : multiplyAndDivide(lastPTS + time.Since(lastSystemTime), clockRate, second) - wall clock;
     avail    : newRTPEncoder has an encoder for the format and maximum (as in glue_write). *)
From Coq Require Import List ZArith Bool.
Require Import MTX.Lib.IntWrap MTX.Model.C23_RtpH264 MTX.Model.C23_RtpGlue.
Import ListNotations.
Local Open Scope Z_scope.

(* streamFormat.alwaysAvailable, streamFormat.forceRemux (H.264 packetization-mode 0 -> 1) *)
Record lmode := mkmode { m_aa : bool; m_fr : bool }.

(* streamFormat.{rtpEncoder, rtpTimeOffset} and streamFormat.ptsOffset *)
Record lstate := mkl { l_g : gstate; l_ptsoff : Z }.

Definition needs_encoder (m : lmode) (use_rtp : bool) : bool := negb use_rtp || m.(m_aa) || m.(m_fr).

(* subStreamFormat.initialize; None = it returned an error (SubStream.Initialize fails, the sub stream is not
   installed) *)
Definition ssf_init (max : Z) (avail : bool) (m : lmode) (use_rtp dec_ok : bool) (rnd : Z * Z * Z) (g : gstate)
    : option gstate :=
  if use_rtp && negb dec_ok then None
  else
    match g.(g_enc) with
    | Some _ => Some g                                   (* rtpEncoder != nil: nothing is touched *)
    | None =>
        if needs_encoder m use_rtp then
          if avail then let '(ssrc, seq0, off) := rnd in Some (mkg (Some (enc_init max ssrc seq0)) off)
          else None
        else Some g
    end.

(* subStreamFormat.initialize2: the new ptsOffset *)
Definition ssf_init2 (m : lmode) (first : bool) (computed old : Z) : Z :=
  if m.(m_aa) && first then computed else old.

(* writeUnitInner: if alwaysAvailable { u.PTS += ptsOffset } *)
Definition life_pts (m : lmode) (ptsoff pts : Z) : Z := if m.(m_aa) then wrap64 (pts + ptsoff) else pts.

Inductive lres :=
| RSub (ok : bool)                 (* SubStream.Initialize for this format succeeded / returned an error *)
| RPkts (out : list packet)        (* the unit went out with these RTP packets *)
| RErr                             (* writeUnitInner returned an error *)
| RPanic.

Section Life.
  Variable P : Type.
  Variable encode : enc -> P -> res (list packet * enc) + enc.

  Inductive event :=
  | ESub (use_rtp dec_ok : bool) (rnd : Z * Z * Z) (first : bool) (computed : Z)
  | EUnit (pts : Z) (in_pkts : list packet) (decode_err : bool) (deliv : option P).

  Definition life_step (max : Z) (avail : bool) (m : lmode) (s : lstate) (ev : event) : lstate * lres :=
    match ev with
    | ESub use_rtp dec_ok rnd first computed =>
        match ssf_init max avail m use_rtp dec_ok rnd s.(l_g) with
        | None => (s, RSub false)
        | Some g' => (mkl g' (ssf_init2 m first computed s.(l_ptsoff)), RSub true)
        end
    | EUnit pts in_pkts decode_err deliv =>
        match glue_write P encode max avail s.(l_g) (life_pts m s.(l_ptsoff) pts) in_pkts decode_err deliv with
        | GOk g' out => (mkl g' s.(l_ptsoff), RPkts out)
        | GErr g' => (mkl g' s.(l_ptsoff), RErr)
        | GPanic => (s, RPanic)
        end
    end.

  (* the whole history: (state before, event, result, state after) per event *)
  Fixpoint life_trace (max : Z) (avail : bool) (m : lmode) (s : lstate) (evs : list event)
      : list (lstate * event * lres * lstate) :=
    match evs with
    | [] => []
    | ev :: r => let '(s', res) := life_step max avail m s ev in (s, ev, res, s') :: life_trace max avail m s' r
    end.

  Definition life_final (max : Z) (avail : bool) (m : lmode) (s : lstate) (evs : list event) : lstate :=
    fold_left (fun st ev => fst (life_step max avail m st ev)) evs s.

  (* every RTP packet the Stream sent for this format, in order *)
  Definition trace_pkts (tr : list (lstate * event * lres * lstate)) : list packet :=
    concat (map (fun q => match q with (_, _, RPkts out, _) => out | _ => [] end) tr).
End Life.

Definition l_init : lstate := mkl (mkg None 0) 0.
