(* Model of internal/ntpestimator/estimator.go (Estimator.Estimate). Instants are nanoseconds (Z);
   the PTS difference and the scaling helper use Go's int64 arithmetic (wrap64, muldiv_w of C24). *)
From Coq Require Import List ZArith Bool.
Require Import MTX.Lib.IntWrap MTX.Model.C24_MulDiv.
Import ListNotations.
Local Open Scope Z_scope.

Definition max_diff : Z := 5 * nanos.   (* maxTimeDifference *)

Record est := { inited : bool; ref_ntp : Z; ref_pts : Z }.
Definition est0 : est := {| inited := false; ref_ntp := 0; ref_pts := 0 |}.

Definition computed (rate : Z) (e : est) (pts : Z) : Z :=
  ref_ntp e + muldiv_w (wrap64 (pts - ref_pts e)) nanos rate.

Definition resyncs (rate : Z) (e : est) (pts now : Z) : bool :=
  negb (inited e) || (computed rate e pts >? now) || (computed rate e pts <? now - max_diff).

(* one call of Estimate(pts) with timeNow() = now *)
Definition estimate (rate : Z) (e : est) (pts now : Z) : est * Z :=
  if resyncs rate e pts now
  then ({| inited := true; ref_ntp := now; ref_pts := pts |}, now)
  else (e, computed rate e pts).

Fixpoint run (rate : Z) (e : est) (inp : list (Z * Z)) : list Z :=
  match inp with
  | [] => []
  | (pts, now) :: r => let '(e', o) := estimate rate e pts now in o :: run rate e' r
  end.
