(* C27 — the duration rewrite at close (formatFMP4Segment.close -> writeDuration) at the granularity of Write calls, and
   what /list (parseSegment) makes of the file when the process stops between two calls.

   writeDuration seeks to the payload of the mvhd box (first box of moov: offset = ftyp box + moov header + mvhd
   header), decodes it, sets DurationV0 = uint32(d / ms) and writes the payload back in place.
     pinned code:    amp4.Marshal(f, &mvhd) on the unbuffered *os.File: go-mp4 writes field by field, byte by byte —
                     one Write call (= one write(2)) per byte of the payload (observed: 100 one-byte writes);
     repaired code:  the payload is marshalled into a buffer and written with ONE Write call.
   parseSegment: segmentFMP4ReadHeader reads DurationV0 from the header; if the duration is 0 the parts are scanned
   (segmentFMP4ReadDurationFromParts: `moof_loop`), otherwise the header is trusted. *)
From Coq Require Import List ZArith Bool Lia.
Require Import MTX.Lib.IntWrap MTX.Model.C24_MulDiv MTX.Model.C28_SegRead MTX.Model.C27_Fmp4Rec.
Import ListNotations.
Local Open Scope Z_scope.

(* ---- the file after a sequence of calls: Write appends (the position is the end of the file while parts are
   written), the rewrite replaces len b bytes at off ---- *)
Definition overwrite (f : bytes) (off : Z) (b : bytes) : bytes :=
  firstn (Z.to_nat off) f ++ b ++ skipn (Z.to_nat off + length b) f.
Definition apply_wop (f : bytes) (w : wop) : bytes :=
  match w with
  | WWrite b => f ++ b
  | WRewrite off b => overwrite f off b
  end.
Definition file_after (l : list wop) : bytes := fold_left apply_wop l [].

(* ---- the moov payload: hd = the 8-byte header of the mvhd box, a = the mvhd payload before DurationV0 (version 0:
   version/flags, creation time, modification time, timescale = 16 bytes), the 4 bytes of DurationV0, b = the rest of
   the mvhd payload, rest = the other boxes of moov ---- *)
Definition mvhd_pl (a : bytes) (field : Z) (b : bytes) : bytes := a ++ enc32 field ++ b.
Definition moov_with (hd a : bytes) (field : Z) (b rest : bytes) : bytes := hd ++ mvhd_pl a field b ++ rest.
(* moovPos of writeDuration: ftyp box, moov header, mvhd header *)
Definition rewrite_off (ftyp_pl : bytes) : Z := 8 + len ftyp_pl + 16.

(* repaired code: write_log of Model/C27_Fmp4Rec.v (ONE WRewrite) with the header that writeInit wrote (duration 0) *)
Definition close_log (ft hd a b rest : bytes) (ps : list part) (d : Z) : list wop :=
  write_log ft (moov_with hd a 0 b rest) ps (rewrite_off ft) (mvhd_pl a (duration_field d) b).

(* pinned code: one Write call per byte *)
Fixpoint bytewise (off : Z) (b : bytes) : list wop :=
  match b with
  | [] => []
  | x :: r => WRewrite off [x] :: bytewise (off + 1) r
  end.
Definition close_log_pinned (ft hd a b rest : bytes) (ps : list part) (d : Z) : list wop :=
  WWrite (init_bytes ft (moov_with hd a 0 b rest)) :: map (fun p => WWrite (part_bytes p)) ps
  ++ bytewise (rewrite_off ft) (mvhd_pl a (duration_field d) b).

(* ---- crash point at write granularity: k calls are complete; the call in progress, if it appends, has the first t
   of its bytes on disk followed by z zero bytes (the property's crash model for the tail of the file); a rewrite call
   in progress has not happened. What a single write(2) leaves behind when the machine stops in the middle of it is the
   file system's business (listed assumption) ---- *)
Definition crash_state (l : list wop) (k : nat) (t : Z) (z : nat) : bytes :=
  let f := file_after (firstn k l) in
  match nth_error l k with
  | Some (WWrite b) => f ++ firstn (Z.to_nat t) b ++ repeat 0 z
  | _ => f
  end.

(* ---- /list: parseSegment ---- *)
(* mvhd.DurationV0 as go-mp4 decodes it: the big-endian 32-bit value at its place in the payload *)
Definition field_at (f : bytes) (pos : Z) : Z :=
  match firstn 4 (skipn (Z.to_nat pos) f) with
  | [x0; x1; x2; x3] => x0 * 16777216 + x1 * 65536 + x2 * 256 + x3
  | _ => -1
  end.
Inductive listed := FromHeader (d : Z) | FromParts (last_moof : res Z).
(* fpos = offset of DurationV0, init_len = ftyp box + moov box *)
Definition list_source (f : bytes) (fpos init_len : Z) : listed :=
  let d := duration_read (field_at f fpos) in
  if d =? 0 then FromParts (moof_loop f (fuel_of_file f) init_len (-1)) else FromHeader d.

(* the duration field while the pinned rewrite is under way: i of the 4 bytes new, the others old *)
Definition torn_field (old new : Z) (i : nat) : Z :=
  field_at (firstn i (enc32 new) ++ skipn i (enc32 old)) 0.
