(* Model of the log destinations as a whole (internal/logger/destination_stdout.go, destination_file.go,
   destination_syslog.go, logger.go: writePlainTime, writeLevel, itoa), for EVERY configuration
   destination x structured x useColor x (gookit colour switched on or off). Executable; no proofs here.

   destinationStdout.log / destinationFile.log:
     if d.structured { <structured branch>: writeLevel(&d.buf, level, false)      -- colour forced off
     } else { writePlainTime(&d.buf, t, uc); writeLevel(&d.buf, level, uc); ' '; fmt.Fprintf(format, args...); newline }
   with uc = d.useColor for stdout (term.IsTerminal(os.Stdout.Fd()) at construction) and uc = false for the file.

   Inputs computed by Go (oracles): the RFC3339Nano text ts, the fields of t.Date()/t.Clock(), the formatted
   message msg, and colour_on = color.Enable && color.SupportColor() (process-global state of gookit/color). *)
From Coq Require Import List ZArith Bool.
Require Import MTX.Lib.Utf8 MTX.Lib.Json MTX.Model.C37_LogJson.
Import ListNotations.
Local Open Scope Z_scope.

(* ---- gookit/color v1.6.1 RenderString(code, str) ----------------------------------------
   if len(code) == 0 || str == "" { return str }
   if !Enable || !SupportColor() { return ClearCode(str) }      -- ClearCode is the identity on text without "[0m"
   return StartSet + code + "m" + str + ResetSet                   -- (re-applies the colour after inner resets: none here)
   Every caller in the logger passes a fixed ASCII text without ESC (level names, digits and separators). *)
Definition start_set : list Z := [27; 91].            (* ESC [ *)
Definition reset_set : list Z := [27; 91; 48; 109].   (* ESC [ 0 m *)

Definition render_string (colour_on : bool) (code str : list Z) : list Z :=
  match code, str with
  | [], _ => str
  | _, [] => str
  | _, _ => if colour_on then start_set ++ code ++ [109] ++ str ++ reset_set else str
  end.

Definition code_debug : list Z := [48; 59; 51; 54].       (* color.Debug.Code() = 0;36  (OpReset, FgCyan) *)
Definition code_green : list Z := [51; 50].               (* color.Green.Code() = 32 *)
Definition code_warn : list Z := [49; 59; 51; 51].        (* color.Warn.Code()  = 1;33  (OpBold, FgYellow) *)
Definition code_error : list Z := [57; 55; 59; 52; 49].   (* color.Error.Code() = 97;41 (FgLightWhite, BgRed) *)
Definition code_gray : list Z := [57; 48].                (* color.Gray.Code()  = 90 *)

Definition level_code (lvl : Z) : list Z :=
  if lvl =? 1 then code_debug else if lvl =? 2 then code_green
  else if lvl =? 3 then code_warn else if lvl =? 4 then code_error else [].

(* writeLevel(buf, level, useColor): nothing for a value outside Debug..Error *)
Definition write_level (use_colour colour_on : bool) (lvl : Z) : list Z :=
  if use_colour then render_string colour_on (level_code lvl) (level_name lvl) else level_name lvl.

(* itoa(i, wid) of logger.go (copied from package log), for i >= 0; the buffer has 20 bytes *)
Fixpoint itoa_loop (fuel : nat) (i wid : Z) (acc : list Z) : list Z :=
  match fuel with
  | O => (48 + i) :: acc
  | S f => if (10 <=? i) || (1 <? wid)
           then itoa_loop f (i / 10) (wid - 1) ((48 + i mod 10) :: acc)
           else (48 + i) :: acc
  end.
Definition itoa (i wid : Z) : list Z := itoa_loop 19 i wid [].

(* t.Date() and t.Clock() *)
Record clock := Clock { ck_year : Z; ck_month : Z; ck_day : Z; ck_hour : Z; ck_min : Z; ck_sec : Z }.

Definition plain_time_text (c : clock) : list Z :=
  itoa (ck_year c) 4 ++ [47] ++ itoa (ck_month c) 2 ++ [47] ++ itoa (ck_day c) 2 ++ [32]
  ++ itoa (ck_hour c) 2 ++ [58] ++ itoa (ck_min c) 2 ++ [58] ++ itoa (ck_sec c) 2 ++ [32].

(* writePlainTime(buf, t, useColor) *)
Definition write_plain_time (use_colour colour_on : bool) (c : clock) : list Z :=
  if use_colour then render_string colour_on code_gray (plain_time_text c) else plain_time_text c.

(* ---- the structured branch with the level tag as a parameter ------------------------------ *)
Definition render_tag (quote : list Z -> list Z) (tag : list Z) (ts msg : list Z) : list Z :=
  pre_ts ++ ts ++ pre_level ++ tag ++ pre_message ++ quote msg ++ [125; 10].

(* ---- one record on one destination -------------------------------------------------------- *)
Definition dest_stdout : Z := 0.
Definition dest_file : Z := 1.

Record config := Config {
  cf_dest : Z;             (* 0 stdout, 1 file *)
  cf_structured : bool;    (* Logger.Structured *)
  cf_use_colour : bool;    (* destinationStdout.useColor: stdout is a terminal *)
  cf_colour_on : bool      (* color.Enable && color.SupportColor() *)
}.

Definition dest_line (cf : config) (ts : list Z) (ck : clock) (lvl : Z) (msg : list Z) : list Z :=
  if cf_structured cf then
    render_tag json_string (write_level false (cf_colour_on cf) lvl) ts msg
  else
    let uc := if cf_dest cf =? dest_stdout then cf_use_colour cf else false in
    write_plain_time uc (cf_colour_on cf) ck ++ write_level uc (cf_colour_on cf) lvl ++ [32] ++ msg ++ [10].

(* the structured branch as it would be if it passed d.useColor to writeLevel (the plain branch's call) *)
Definition dest_line_coloured_tag (cf : config) (ts : list Z) (lvl : Z) (msg : list Z) : list Z :=
  render_tag json_string (write_level (cf_use_colour cf) (cf_colour_on cf) lvl) ts msg.

(* ---- a stream of records: what a reader of the file / of stdout splits at newlines ---------- *)
(* the lines of a byte stream, each with its terminating newline (an unterminated tail comes without) *)
Fixpoint lines (s : list Z) : list (list Z) :=
  match s with
  | [] => []
  | c :: r => if c =? 10 then [10] :: lines r
              else match lines r with
                   | l :: ls => (c :: l) :: ls
                   | [] => [[c]]
                   end
  end.

Record logrec := LogRec { lr_ts : list Z; lr_clock : clock; lr_level : Z; lr_msg : list Z }.

Definition rec_line (cf : config) (r : logrec) : list Z :=
  dest_line cf (lr_ts r) (lr_clock r) (lr_level r) (lr_msg r).

(* Logger.Log under its mutex: the destination's output is the concatenation of the records' lines *)
Definition stream (cf : config) (rs : list logrec) : list Z := flat_map (rec_line cf) rs.

(* ---- syslog destination (never structured): severity and text handed to log/syslog ---------- *)
(* d.syslog.Debug / Info / Warning / Err (fmt.Sprintf(format, args...)); nothing for other levels.
   log/syslog appends a newline unless the text ends with one. Severities: LOG_DEBUG 7, LOG_INFO 6, LOG_WARNING 4, LOG_ERR 3 *)
Definition syslog_severity (lvl : Z) : option Z :=
  if lvl =? 1 then Some 7 else if lvl =? 2 then Some 6 else if lvl =? 3 then Some 4 else if lvl =? 4 then Some 3 else None.

Definition ends_with_nl (s : list Z) : bool :=
  match rev s with c :: _ => c =? 10 | [] => false end.

Definition syslog_record (lvl : Z) (msg : list Z) : option (Z * list Z) :=
  match syslog_severity lvl with
  | Some sev => Some (sev, if ends_with_nl msg then msg else msg ++ [10])
  | None => None
  end.
