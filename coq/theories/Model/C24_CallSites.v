(* C24, call-site inventory: every CALL of a timestamp scaling helper in the non-test files of /repo/internal, with the
   converted value expression and the source / destination rate expressions as written in the Go sources (go/printer
   text), and the QUANTITY the call converts. tools/gen/muldiv_calls regenerates the first five columns from the sources
   on every run (gen/C24_Calls.v); Proofs/C24_CallSites.v demands equality, so an added, removed or edited call site
   breaks a proof obligation of Props/C24.v and the plugin names the differing rows.
   Value column: `x := e` means the argument is the local x, assigned once, by the arithmetic expression e. *)
From Coq Require Import String List ZArith.
Require Import MTX.Lib.IntWrap.
Import ListNotations.
Local Open Scope string_scope.

Inductive qty :=
| QVar                       (* one timestamp / duration variable: the unit's, sample's or packet's own *)
| QFrame (spf : string)      (* x + i * spf: the position of frame i of a unit stamped x (spf: samples per frame) *)
| QDiff                      (* x - y: the distance between two timestamps of the same clock *)
| QAccum                     (* x := start; per frame { convert x; x += length of that frame }: start + the lengths of the
                                frames before this one (y) = the position of the frame *)
| QExpr.                     (* another single-assignment expression (offset added to a timestamp); see the row *)

Record call_site := mk_cs {
  cs_where : string;         (* file and enclosing function *)
  cs_callee : string;
  cs_value : string;         (* converted value *)
  cs_from : string;          (* rate of the value *)
  cs_to : string;            (* rate of the result *)
  cs_qty : qty }.

Definition cs_key (s : call_site) : string * string * string * string * string :=
  (cs_where s, cs_callee s, cs_value s, cs_from s, cs_to s).

(* the number a call of class q converts, from the values of its variables: x, y (QDiff), frame index i and samples per
   frame spf (QFrame), y = sum of the lengths of the earlier frames of the unit (QAccum); exact integers *)
Definition qty_value (q : qty) (x y i spf : Z) : Z :=
  match q with
  | QVar | QExpr => x
  | QFrame _ => (x + i * spf)%Z
  | QDiff => (x - y)%Z
  | QAccum => (x + y)%Z
  end.
(* the same as Go computes it (int64 / time.Duration arithmetic) *)
Definition qty_value_w (q : qty) (x y i spf : Z) : Z :=
  match q with
  | QVar | QExpr => x
  | QFrame _ => wrap64 (x + wrap64 (i * spf))
  | QDiff => wrap64 (x - y)
  | QAccum => wrap64 (x + y)
  end.
(* what a call site hands on: helper md applied to the value with destination rate `to` and source rate `from` *)
Definition site_result (md : Z -> Z -> Z -> Z) (q : qty) (x y i spf to from : Z) : Z :=
  md (qty_value_w q x y i spf) to from.

Definition is_frame (q : qty) : bool := match q with QFrame _ | QAccum => true | _ => false end.

Definition call_table : list call_site := [
  mk_cs "internal/ntpestimator/estimator.go (*Estimator).Estimate" "multiplyAndDivide" "time.Duration(pts - e.refPTS)" "time.Duration(e.ClockRate)" "time.Second" QDiff;
  mk_cs "internal/playback/muxer_fmp4.go (*muxerFMP4).writeSample" "durationGoToMp4" "partDuration" "time.Second" "w.curTrack.timeScale" QVar;
  mk_cs "internal/playback/segment_fmp4.go segmentFMP4ReadDurationFromParts" "durationMp4ToGo" "elapsed := int64(tfdt.BaseMediaDecodeTimeV1); elapsed += int64(entry.SampleDuration)" "track.TimeScale" "time.Second" QAccum;
  mk_cs "internal/playback/segment_fmp4.go segmentFMP4MuxParts" "durationGoToMp4" "startDTS" "time.Second" "track.TimeScale" QVar;
  mk_cs "internal/playback/segment_fmp4.go segmentFMP4MuxParts" "durationGoToMp4" "duration" "time.Second" "track.TimeScale" QVar;
  mk_cs "internal/playback/segment_fmp4.go segmentFMP4MuxParts" "durationMp4ToGo" "dts - startDTSMP4" "timeScale" "time.Second" QDiff;
  mk_cs "internal/protocols/hls/to_stream.go ToStream" "multiplyAndDivide" "pts" "int64(ctrack.ClockRate)" "int64(newClockRate)" QVar;
  mk_cs "internal/protocols/hls/to_stream.go ToStream" "multiplyAndDivide" "pts" "int64(ctrack.ClockRate)" "int64(newClockRate)" QVar;
  mk_cs "internal/protocols/hls/to_stream.go ToStream" "multiplyAndDivide" "pts" "int64(ctrack.ClockRate)" "int64(newClockRate)" QVar;
  mk_cs "internal/protocols/hls/to_stream.go ToStream" "multiplyAndDivide" "pts" "int64(ctrack.ClockRate)" "int64(newClockRate)" QVar;
  mk_cs "internal/protocols/hls/to_stream.go ToStream" "multiplyAndDivide" "pts" "int64(ctrack.ClockRate)" "int64(newClockRate)" QVar;
  mk_cs "internal/protocols/hls/to_stream.go ToStream" "multiplyAndDivide" "pts" "int64(ctrack.ClockRate)" "int64(sampleRate)" QVar;
  mk_cs "internal/protocols/hls/to_stream.go ToStream" "multiplyAndDivide" "pts" "int64(ctrack.ClockRate)" "int64(newClockRate)" QVar;
  mk_cs "internal/protocols/hls/to_stream.go ToStream" "multiplyAndDivide" "pts" "int64(ctrack.ClockRate)" "int64(newClockRate)" QVar;
  mk_cs "internal/protocols/mpegts/from_stream.go FromStream" "multiplyAndDivide" "u.PTS" "int64(clockRate)" "90000" QVar;
  mk_cs "internal/protocols/mpegts/from_stream.go FromStream" "multiplyAndDivide" "u.PTS" "90000" "90000" QVar;
  mk_cs "internal/protocols/mpegts/from_stream.go FromStream" "multiplyAndDivide" "u.PTS" "int64(clockRate)" "90000" QVar;
  mk_cs "internal/protocols/mpegts/from_stream.go FromStream" "multiplyAndDivide" "u.PTS" "int64(clockRate)" "90000" QVar;
  mk_cs "internal/protocols/mpegts/from_stream.go FromStream" "multiplyAndDivide" "u.PTS" "int64(clockRate)" "90000" QVar;
  mk_cs "internal/protocols/mpegts/from_stream.go FromStream" "multiplyAndDivide" "framePTS := u.PTS + int64(i)*ac3.SamplesPerFrame" "int64(clockRate)" "90000" (QFrame "ac3.SamplesPerFrame");
  mk_cs "internal/protocols/mpegts/to_stream.go ToStream" "multiplyAndDivide" "pts" "90000" "int64(medi.Formats[0].ClockRate())" QVar;
  mk_cs "internal/protocols/mpegts/to_stream.go ToStream" "multiplyAndDivide" "pts" "90000" "int64(medi.Formats[0].ClockRate())" QVar;
  mk_cs "internal/protocols/mpegts/to_stream.go ToStream" "multiplyAndDivide" "pts" "90000" "int64(clockRate)" QVar;
  mk_cs "internal/protocols/mpegts/to_stream.go ToStream" "multiplyAndDivide" "pts" "90000" "int64(medi.Formats[0].ClockRate())" QVar;
  mk_cs "internal/protocols/rtmp/from_stream.go timestampToDuration" "multiplyAndDivide2" "time.Duration(t)" "time.Duration(clockRate)" "time.Second" QVar;
  mk_cs "internal/protocols/rtmp/from_stream.go FromStream" "timestampToDuration" "u.PTS" "origFormat.ClockRate()" "time.Second" QVar;
  mk_cs "internal/protocols/rtmp/from_stream.go FromStream" "timestampToDuration" "u.PTS" "origFormat.ClockRate()" "time.Second" QVar;
  mk_cs "internal/protocols/rtmp/from_stream.go FromStream" "timestampToDuration" "u.PTS" "origFormat.ClockRate()" "time.Second" QVar;
  mk_cs "internal/protocols/rtmp/from_stream.go FromStream" "timestampToDuration" "dts" "origFormat.ClockRate()" "time.Second" QVar;
  mk_cs "internal/protocols/rtmp/from_stream.go FromStream" "timestampToDuration" "u.PTS" "origFormat.ClockRate()" "time.Second" QVar;
  mk_cs "internal/protocols/rtmp/from_stream.go FromStream" "timestampToDuration" "dts" "origFormat.ClockRate()" "time.Second" QVar;
  mk_cs "internal/protocols/rtmp/from_stream.go FromStream" "timestampToDuration" "pts := u.PTS; pts += opus.PacketDuration2(pkt)" "origFormat.ClockRate()" "time.Second" QAccum;
  mk_cs "internal/protocols/rtmp/from_stream.go FromStream" "timestampToDuration" "pts := u.PTS + int64(i)*mpeg4audio.SamplesPerAccessUnit" "origFormat.ClockRate()" "time.Second" (QFrame "mpeg4audio.SamplesPerAccessUnit");
  mk_cs "internal/protocols/rtmp/from_stream.go FromStream" "timestampToDuration" "u.PTS" "origFormat.ClockRate()" "time.Second" QVar;
  mk_cs "internal/protocols/rtmp/from_stream.go FromStream" "timestampToDuration" "pts := u.PTS; pts += int64(h.SampleCount()) * int64(origFormat.ClockRate()) / int64(h.SampleRate)" "origFormat.ClockRate()" "time.Second" QAccum;
  mk_cs "internal/protocols/rtmp/from_stream.go FromStream" "timestampToDuration" "pts := u.PTS + int64(i)*ac3.SamplesPerFrame" "origFormat.ClockRate()" "time.Second" (QFrame "ac3.SamplesPerFrame");
  mk_cs "internal/protocols/rtmp/from_stream.go FromStream" "timestampToDuration" "u.PTS" "origFormat.ClockRate()" "time.Second" QVar;
  mk_cs "internal/protocols/rtmp/from_stream.go FromStream" "timestampToDuration" "u.PTS" "origFormat.ClockRate()" "time.Second" QVar;
  mk_cs "internal/protocols/rtmp/from_stream.go FromStream" "timestampToDuration" "u.PTS" "origFormat.ClockRate()" "time.Second" QVar;
  mk_cs "internal/protocols/rtmp/to_stream.go durationToTimestamp" "multiplyAndDivide" "int64(d)" "int64(time.Second)" "int64(clockRate)" QVar;
  mk_cs "internal/protocols/rtmp/to_stream.go ToStream" "durationToTimestamp" "pts" "time.Second" "forma.ClockRate()" QVar;
  mk_cs "internal/protocols/rtmp/to_stream.go ToStream" "durationToTimestamp" "pts" "time.Second" "forma.ClockRate()" QVar;
  mk_cs "internal/protocols/rtmp/to_stream.go ToStream" "durationToTimestamp" "pts" "time.Second" "forma.ClockRate()" QVar;
  mk_cs "internal/protocols/rtmp/to_stream.go ToStream" "durationToTimestamp" "pts" "time.Second" "forma.ClockRate()" QVar;
  mk_cs "internal/protocols/rtmp/to_stream.go ToStream" "durationToTimestamp" "pts" "time.Second" "forma.ClockRate()" QVar;
  mk_cs "internal/protocols/rtmp/to_stream.go ToStream" "durationToTimestamp" "pts" "time.Second" "sampleRate" QVar;
  mk_cs "internal/protocols/rtmp/to_stream.go ToStream" "durationToTimestamp" "pts" "time.Second" "forma.ClockRate()" QVar;
  mk_cs "internal/protocols/rtmp/to_stream.go ToStream" "durationToTimestamp" "pts" "time.Second" "forma.ClockRate()" QVar;
  mk_cs "internal/protocols/rtmp/to_stream.go ToStream" "durationToTimestamp" "pts" "time.Second" "forma.ClockRate()" QVar;
  mk_cs "internal/protocols/rtmp/to_stream.go ToStream" "durationToTimestamp" "pts" "time.Second" "forma.ClockRate()" QVar;
  mk_cs "internal/protocols/rtmp/to_stream.go ToStream" "durationToTimestamp" "pts" "time.Second" "forma.ClockRate()" QVar;
  mk_cs "internal/protocols/webrtc/from_stream.go timestampToDuration" "multiplyAndDivide2" "time.Duration(t)" "time.Duration(clockRate)" "time.Second" QVar;
  mk_cs "internal/protocols/webrtc/from_stream.go setupVideoTrack" "timestampToDuration" "int64(pkt.Timestamp)" "90000" "time.Second" QVar;
  mk_cs "internal/protocols/webrtc/from_stream.go setupVideoTrack" "timestampToDuration" "int64(pkt.Timestamp)" "90000" "time.Second" QVar;
  mk_cs "internal/protocols/webrtc/from_stream.go setupVideoTrack" "timestampToDuration" "int64(pkt.Timestamp)" "90000" "time.Second" QVar;
  mk_cs "internal/protocols/webrtc/from_stream.go setupVideoTrack" "timestampToDuration" "int64(pkt.Timestamp)" "90000" "time.Second" QVar;
  mk_cs "internal/protocols/webrtc/from_stream.go setupVideoTrack" "timestampToDuration" "int64(pkt.Timestamp)" "90000" "time.Second" QVar;
  mk_cs "internal/protocols/webrtc/from_stream.go setupAudioTrack" "multiplyAndDivide2" "audioPTSDriftTolerance" "time.Second" "time.Duration(opusFormat.ClockRate())" QVar;
  mk_cs "internal/protocols/webrtc/from_stream.go setupAudioTrack" "timestampToDuration" "int64(pkt.Timestamp - baseTimestamp)" "48000" "time.Second" QDiff;
  mk_cs "internal/protocols/webrtc/from_stream.go setupAudioTrack" "timestampToDuration" "int64(pkt.Timestamp - u.RTPPackets[0].Timestamp)" "8000" "time.Second" QDiff;
  mk_cs "internal/protocols/webrtc/from_stream.go setupAudioTrack" "multiplyAndDivide2" "audioPTSDriftTolerance" "time.Second" "time.Duration(g711Format.ClockRate())" QVar;
  mk_cs "internal/protocols/webrtc/from_stream.go setupAudioTrack" "timestampToDuration" "int64(pkt.Timestamp - baseTimestamp)" "8000" "time.Second" QDiff;
  mk_cs "internal/protocols/webrtc/from_stream.go setupAudioTrack" "multiplyAndDivide2" "audioPTSDriftTolerance" "time.Second" "time.Duration(g711Format.ClockRate())" QVar;
  mk_cs "internal/protocols/webrtc/from_stream.go setupAudioTrack" "timestampToDuration" "int64(pkt.Timestamp - baseTimestamp)" "g711Format.ClockRate()" "time.Second" QDiff;
  mk_cs "internal/protocols/webrtc/from_stream.go setupAudioTrack" "multiplyAndDivide2" "audioPTSDriftTolerance" "time.Second" "time.Duration(lpcmFormat.ClockRate())" QVar;
  mk_cs "internal/protocols/webrtc/from_stream.go setupAudioTrack" "timestampToDuration" "int64(pkt.Timestamp - baseTimestamp)" "lpcmFormat.ClockRate()" "time.Second" QDiff;
  mk_cs "internal/recorder/format_fmp4.go (*formatFMP4).initialize" "timestampToDuration" "pts - u.PTS" "clockRate" "time.Second" QDiff;
  mk_cs "internal/recorder/format_fmp4.go (*formatFMP4).initialize" "timestampToDuration" "pts - u.PTS" "clockRate" "time.Second" QDiff;
  mk_cs "internal/recorder/format_fmp4.go (*formatFMP4).initialize" "timestampToDuration" "pts - u.PTS" "clockRate" "time.Second" QDiff;
  mk_cs "internal/recorder/format_fmp4_part.go (*formatFMP4Part).write" "multiplyAndDivide" "int64(dts - p.segmentStartDTS)" "int64(time.Second)" "int64(track.initTrack.TimeScale)" QDiff;
  mk_cs "internal/recorder/format_fmp4_part.go (*formatFMP4Part).write" "timestampToDuration" "int64(sample.Duration)" "int(track.initTrack.TimeScale)" "time.Second" QVar;
  mk_cs "internal/recorder/format_fmp4_segment.go (*formatFMP4Segment).write" "timestampToDuration" "int64(sample.Duration)" "int(track.initTrack.TimeScale)" "time.Second" QVar;
  mk_cs "internal/recorder/format_fmp4_track.go nextSegmentStartingPos" "timestampToDuration" "track.nextSample.dts" "int(track.initTrack.TimeScale)" "time.Second" QVar;
  mk_cs "internal/recorder/format_fmp4_track.go nextSegmentStartingPos" "timestampToDuration" "track.nextSample.dts" "int(track.initTrack.TimeScale)" "time.Second" QVar;
  mk_cs "internal/recorder/format_fmp4_track.go (*formatFMP4Track).write" "timestampToDuration" "sample.dts" "int(t.initTrack.TimeScale)" "time.Second" QVar;
  mk_cs "internal/recorder/format_fmp4_track.go (*formatFMP4Track).write" "timestampToDuration" "t.nextSample.dts" "int(t.initTrack.TimeScale)" "time.Second" QVar;
  mk_cs "internal/recorder/format_mpegts.go timestampToDuration" "multiplyAndDivide2" "time.Duration(t)" "time.Duration(clockRate)" "time.Second" QVar;
  mk_cs "internal/recorder/format_mpegts.go (*formatMPEGTS).initialize" "timestampToDuration" "dts" "clockRate" "time.Second" QVar;
  mk_cs "internal/recorder/format_mpegts.go (*formatMPEGTS).initialize" "timestampToDuration" "dts" "clockRate" "time.Second" QVar;
  mk_cs "internal/recorder/format_mpegts.go (*formatMPEGTS).initialize" "timestampToDuration" "u.PTS" "clockRate" "time.Second" QVar;
  mk_cs "internal/recorder/format_mpegts.go (*formatMPEGTS).initialize" "timestampToDuration" "u.PTS" "clockRate" "time.Second" QVar;
  mk_cs "internal/recorder/format_mpegts.go (*formatMPEGTS).initialize" "timestampToDuration" "u.PTS" "clockRate" "time.Second" QVar;
  mk_cs "internal/recorder/format_mpegts.go (*formatMPEGTS).initialize" "multiplyAndDivide" "u.PTS" "int64(clockRate)" "90000" QVar;
  mk_cs "internal/recorder/format_mpegts.go (*formatMPEGTS).initialize" "timestampToDuration" "u.PTS" "90000" "time.Second" QVar;
  mk_cs "internal/recorder/format_mpegts.go (*formatMPEGTS).initialize" "multiplyAndDivide" "u.PTS" "90000" "90000" QVar;
  mk_cs "internal/recorder/format_mpegts.go (*formatMPEGTS).initialize" "timestampToDuration" "u.PTS" "clockRate" "time.Second" QVar;
  mk_cs "internal/recorder/format_mpegts.go (*formatMPEGTS).initialize" "multiplyAndDivide" "u.PTS" "int64(clockRate)" "90000" QVar;
  mk_cs "internal/recorder/format_mpegts.go (*formatMPEGTS).initialize" "timestampToDuration" "u.PTS" "clockRate" "time.Second" QVar;
  mk_cs "internal/recorder/format_mpegts.go (*formatMPEGTS).initialize" "multiplyAndDivide" "u.PTS" "int64(clockRate)" "90000" QVar;
  mk_cs "internal/recorder/format_mpegts.go (*formatMPEGTS).initialize" "timestampToDuration" "u.PTS" "clockRate" "time.Second" QVar;
  mk_cs "internal/recorder/format_mpegts.go (*formatMPEGTS).initialize" "timestampToDuration" "u.PTS" "clockRate" "time.Second" QVar;
  mk_cs "internal/recorder/format_mpegts.go (*formatMPEGTS).initialize" "multiplyAndDivide" "framePTS := u.PTS + int64(i)*ac3.SamplesPerFrame" "int64(clockRate)" "90000" (QFrame "ac3.SamplesPerFrame");
  mk_cs "internal/staticsources/rpicamera/camera_arm_.go (*camera).runReader" "multiplyAndDivide" "dts" "1e6" "90000" QVar;
  mk_cs "internal/staticsources/rpicamera/camera_arm_.go (*camera).runReader" "multiplyAndDivide" "dts" "1e6" "90000" QVar;
  mk_cs "internal/stream/offline_sub_stream_track.go (*offlineSubStreamTrack).run" "multiplyAndDivide2" "time.Duration(pts)" "48000" "time.Second" QVar;
  mk_cs "internal/stream/offline_sub_stream_track.go (*offlineSubStreamTrack).run" "multiplyAndDivide2" "time.Duration(pts)" "time.Duration(forma.ClockRate())" "time.Second" QVar;
  mk_cs "internal/stream/offline_sub_stream_track.go (*offlineSubStreamTrack).run" "multiplyAndDivide2" "time.Duration(pts)" "time.Duration(forma.ClockRate())" "time.Second" QVar;
  mk_cs "internal/stream/offline_sub_stream_track.go (*offlineSubStreamTrack).run" "multiplyAndDivide2" "time.Duration(pts)" "time.Duration(forma.ClockRate())" "time.Second" QVar;
  mk_cs "internal/stream/offline_sub_stream_track.go (*offlineSubStreamTrack).runFile" "multiplyAndDivide" "pts := dts + int64(sample.PTSOffset)" "int64(track.TimeScale)" "int64(t.format.ClockRate())" QExpr;
  mk_cs "internal/stream/offline_sub_stream_track.go (*offlineSubStreamTrack).runFile" "multiplyAndDivide2" "time.Duration(dts)" "time.Duration(track.TimeScale)" "time.Second" QVar;
  mk_cs "internal/stream/sub_stream_format.go (*subStreamFormat).initialize2" "multiplyAndDivide" "ptsOffsetGo := lastPTS + time.Since(lastSystemTime)" "int64(time.Second)" "int64(ssf.streamFormat.outFormat.ClockRate())" QExpr;
  mk_cs "internal/stream/sub_stream_format.go (*subStreamFormat).writeUnitInner" "multiplyAndDivide2" "time.Duration(u.PTS)" "time.Duration(ssf.streamFormat.outFormat.ClockRate())" "time.Second" QVar
].
