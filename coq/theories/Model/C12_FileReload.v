(* C12, extension: reloads of the configuration file interleaved with API edits.

   internal/core/core.go, Core.run:
     case <-confChanged:   newConf, _, err := conf.Load(p.confPath, nil, p.logger)     -- read, decode, env, Validate
                           if err != nil { log; break outer }                          -- the loop is LEFT: p.ctxCancel(),
                           err = p.reloadConf(newConf)                                 -- closeResources(nil): shutdown
                           if err != nil { log; break outer }
     case req := <-p.chAPIConfig...:   newConf, err := p.doAPIConfig...(req...)  ;  req.res <- err
                           if err == nil { err = p.reloadConf(newConf); if err != nil { log; break outer } }
   reloadConf stores newConf in p.conf AND p.apiConf.  doAPIConfig* starts from p.conf.Load().Clone().  Nothing ever
   writes an API edit to the file, and nothing merges the file into the running configuration: after a file reload the
   live configuration is the file's, whatever the API did before; an edit after it starts from the file's.

   The file's content enters the model as what conf.Load made of it ([FLoaded v ...]: the loaded configuration as the
   API reads it, in fresh memory) or [FBroken] (conf.Load failed: syntax, unknown parameter, Validate).  [started] =
   reloadConf's createResources succeeded (false: a port that cannot be bound, a log file that cannot be opened ...).
   State [None] = Core.run has left its loop: the server shuts down; requests are not served any more.

   Executable; no proofs here. *)
From Coq Require Import List ZArith Bool.
Require Import MTX.Model.C12_ApiEdit.
Import ListNotations.
Local Open Scope Z_scope.

Inductive fileres :=
| FLoaded (v : view) (started : bool)
| FBroken.

Inductive hop :=
| HApi (o : op) (started : bool)   (* an API edit; [started] is only looked at when the edit is accepted *)
| HFile (f : fileres).             (* the watcher's signal *)

Inductive hout :=
| HAnswer (out : outcome)   (* the answer to an API edit *)
| HReloaded                 (* file loaded, resources re-created *)
| HExit                     (* Core.run logs the error and leaves its loop *)
| HDead.                    (* the server has already terminated *)

(* conf.Load: a new conf.Conf, one new cell per path *)
Definition fload (h : heap) (v : view) : heap * croot :=
  (h ++ map snd (vp v),
   {| cg := vg v; cd := vd v; cp := combine (map fst (vp v)) (seq (length h) (length (vp v))) |}).

Section Hist.
  Variable valid : view -> bool.

  Definition hstep (st : option world) (o : hop) : option world * hout :=
    match st with
    | None => (None, HDead)
    | Some w =>
        match o with
        | HApi e started =>
            let '(w', out) := edit valid Deep w e in
            (match out with OOk => if started then Some w' else None | _ => Some w' end, HAnswer out)
        | HFile (FLoaded v started) =>
            let '(h, c) := fload (mem w) v in
            if started then (Some {| mem := h; live := c |}, HReloaded) else (None, HExit)
        | HFile FBroken => (None, HExit)
        end
    end.

  Fixpoint hrun (st : option world) (ops : list hop) : option world * list hout :=
    match ops with
    | [] => (st, [])
    | o :: r => let '(st1, out) := hstep st o in
                let '(st2, outs) := hrun st1 r in (st2, out :: outs)
    end.

  (* the specification: the live configuration is a plain value *)
  Definition hspec_step (sv : option view) (o : hop) : option view * hout :=
    match sv with
    | None => (None, HDead)
    | Some v =>
        match o with
        | HApi e started =>
            let '(v', out) := spec_step valid v e in
            (match out with OOk => if started then Some v' else None | _ => Some v' end, HAnswer out)
        | HFile (FLoaded fv started) => if started then (Some fv, HReloaded) else (None, HExit)
        | HFile FBroken => (None, HExit)
        end
    end.

  Fixpoint hspec_run (sv : option view) (ops : list hop) : option view * list hout :=
    match ops with
    | [] => (sv, [])
    | o :: r => let '(sv1, out) := hspec_step sv o in
                let '(sv2, outs) := hspec_run sv1 r in (sv2, out :: outs)
    end.

  (* ---- the request loop with reads (C12_ApiEdit.cstep) and file reloads ------------------------------------------
     <-confChanged is a branch of the same select as the request channels: it is taken only when no reload is
     outstanding. A successful reloadConf stores the file's configuration in p.conf and p.apiConf. *)
  Inductive flabel := FL (l : label) | FLFile (v : view).

  Definition fcstep (s : core) (l : flabel) : option (core * list event) :=
    match l with
    | FL l' => cstep valid Deep FromPublished s l'
    | FLFile v =>
        match pending s with
        | Some _ => None
        | None => let '(h, c) := fload (mem (cw s)) v in
                  Some ({| cw := {| mem := h; live := c |}; published := c; pending := None |}, [])
        end
    end.

  Fixpoint fcrun (s : core) (ls : list flabel) : option (core * list event) :=
    match ls with
    | [] => Some (s, [])
    | l :: r => match fcstep s l with
                | None => None
                | Some (s1, e1) => match fcrun s1 r with
                                   | None => None
                                   | Some (s2, e2) => Some (s2, e1 ++ e2)
                                   end
                end
    end.

  (* what a sequential client must see: a file reload replaces the configuration *)
  Fixpoint fspec_events (v : view) (ls : list flabel) : list event :=
    match ls with
    | [] => []
    | FL (LEdit o) :: r => let '(v1, out) := spec_step valid v o in EReply out :: fspec_events v1 r
    | FL LReload :: r => fspec_events v r
    | FL LRead :: r => ERead v :: fspec_events v r
    | FLFile fv :: r => fspec_events fv r
    end.
End Hist.

Definition wf_opt (st : option world) : Prop := match st with Some w => wf w | None => True end.
Definition abs_opt (st : option world) : option view := option_map abs st.
