(* C28 — panic-explicit model of the in-tree fMP4 segment parsing code of internal/playback/segment_fmp4.go:
     segmentFMP4ReadHeader, segmentFMP4ReadDurationFromParts, the handler of segmentFMP4MuxParts,
     parseSegment (on_list.go) and the segment loop of seekAndMux (on_get.go).

   A file is a list of byte values (`data : list Z`); a reader is the file plus a position `p : Z`.
   Every function returns an outcome  Ok v | Err | Panic why  together with the list of sizes passed to
   make([]byte, n) (most recent first). Each slice expression, index expression, integer division and nil
   dereference of the Go code is written with a helper that can return Panic; the loops are run with fuel and
   running out of fuel is the outcome Panic Hang.

   The decoders of third-party packages are ORACLES (Section variables / function arguments): abema/go-mp4
   Unmarshal of mvhd, tfhd, tfdt, trun, the box walk of go-mp4 ReadBoxStructure (delivered as a list of events) and
   mediacommon fmp4.Init.Unmarshal. The model is parametrised by `guards`: which of the checks added by the fix:
   commits are present (`pinned` = none = the tree as it was found, `repaired` = all = the current tree). *)
From Coq Require Import List ZArith Bool Lia.
Require Import MTX.Lib.IntWrap MTX.Model.C24_MulDiv.
Import ListNotations.
Local Open Scope Z_scope.

Definition bytes := list Z.
Definition len {A} (l : list A) : Z := Z.of_nat (length l).

Inductive why := DivZero | OutOfRange | NilDeref | Hang.
Inductive res (A : Type) := Ok (a : A) | Err | Panic (w : why).
Arguments Ok {A} a. Arguments Err {A}. Arguments Panic {A} w.

Definition is_panic {A} (r : res A) : bool := match r with Panic _ => true | _ => false end.

Record guards := {
  g_mvhd_ts : bool;     (* b4fd5fc  mvhd.Timescale == 0 -> error *)
  g_box_size : bool;    (* 81dbff1  tfhd/tfdt/trun size < 8 or > file size -> error *)
  g_hdr_size : bool;    (* ef89fd6  ftypSize+moovSize > file size -> error *)
  g_nil : bool;         (* f110d20  tfdt without tfhd, trun without tfdt -> error *)
  g_sample : bool       (* 12761b4  sample size > file size -> error *)
}.
Definition pinned := {| g_mvhd_ts := false; g_box_size := false; g_hdr_size := false; g_nil := false; g_sample := false |}.
Definition repaired := {| g_mvhd_ts := true; g_box_size := true; g_hdr_size := true; g_nil := true; g_sample := true |}.

(* ---- Go primitives ---- *)
Fixpoint bytes_eqb (a b : bytes) : bool :=
  match a, b with
  | [], [] => true
  | x :: a', y :: b' => (x =? y) && bytes_eqb a' b'
  | _, _ => false
  end.

(* b[i] *)
Definition index (b : bytes) (i : Z) : res Z :=
  if (0 <=? i) && (i <? len b) then Ok (nth (Z.to_nat i) b 0) else Panic OutOfRange.
(* b[lo:] *)
Definition slice_from (b : bytes) (lo : Z) : res bytes :=
  if (0 <=? lo) && (lo <=? len b) then Ok (skipn (Z.to_nat lo) b) else Panic OutOfRange.
(* a / b on int64 (b = -1 wraps, it does not trap) *)
Definition go_div (a b : Z) : res Z :=
  if b =? 0 then Panic DivZero else Ok (wrap64 (Z.quot a b)).

(* uint32(buf[0])<<24 | uint32(buf[1])<<16 | uint32(buf[2])<<8 | uint32(buf[3]) *)
Definition be32 (buf : bytes) : res Z :=
  match index buf 0, index buf 1, index buf 2, index buf 3 with
  | Ok a, Ok b, Ok c, Ok d => Ok (a * 16777216 + b * 65536 + c * 256 + d)
  | _, _, _, _ => Panic OutOfRange
  end.
(* bytes.Equal(buf[4:], tag) *)
Definition tag_is (buf tag : bytes) : res bool :=
  match slice_from buf 4 with
  | Ok t => Ok (bytes_eqb t tag)
  | Err => Err
  | Panic w => Panic w
  end.

Definition t_ftyp := [102; 116; 121; 112].
Definition t_moov := [109; 111; 111; 118].
Definition t_moof := [109; 111; 111; 102].
Definition t_mdat := [109; 100; 97; 116].
Definition t_mfhd := [109; 102; 104; 100].
Definition t_traf := [116; 114; 97; 102].
Definition t_tfhd := [116; 102; 104; 100].
Definition t_tfdt := [116; 102; 100; 116].
Definition t_trun := [116; 114; 117; 110].

(* durationMp4ToGo(v, timeScale): the first statement that divides is  secs := v / timeScale64 *)
Definition mp4_to_go (v ts : Z) : res Z :=
  if ts =? 0 then Panic DivZero else Ok (muldiv_w v nanos ts).
(* durationGoToMp4(v, timeScale) divides by the constant time.Second only *)
Definition go_to_mp4 (v ts : Z) : Z := muldiv_w v ts nanos.

Definition track := (Z * Z)%type.     (* ID, TimeScale *)
Fixpoint find_track (tracks : list track) (id : Z) : option track :=
  match tracks with
  | [] => None
  | t :: r => if fst t =? id then Some t else find_track r id
  end.

(* oracle answers *)
Inductive mvhd_res := MvhdErr | MvhdOk (duration_v0 timescale : Z).
Inductive init_res := InitErr | InitOk (tracks : list track).

Section File.
  Variable g : guards.
  Variable data : bytes.

  Definition flen : Z := len data.

  (* io.ReadFull(r, buf) with len(buf) = n at position p: the bytes, or an error when fewer than n are left
     (a zero-length buffer is filled without touching the reader) *)
  Definition read_full (p n : Z) : option bytes :=
    if n =? 0 then Some []
    else if (0 <=? p) && (p + n <=? flen) then Some (firstn (Z.to_nat n) (skipn (Z.to_nat p) data))
    else None.
  (* Seek: a negative resulting position is an error, a position past the end is not *)
  Definition seek (q : Z) : option Z := if q <? 0 then None else Some q.

  (* ReadFull into the 8-byte buf, then the tag test and the size expression, in the order of the Go code:
     Ok (Some size) = tag matched, Ok None = tag did not match *)
  Definition hdr_at (p : Z) (tag : bytes) : res (option Z) :=
    match read_full p 8 with
    | None => Err
    | Some buf =>
        match tag_is buf tag with
        | Ok true => match be32 buf with Ok s => Ok (Some s) | Err => Err | Panic w => Panic w end
        | Ok false => Ok None
        | Err => Err
        | Panic w => Panic w
        end
    end.

  (* ---------------- segmentFMP4ReadHeader ---------------- *)
  Variable o_mvhd : Z -> Z -> mvhd_res.   (* amp4.Unmarshal(r at offset, payload size, &mvhd) *)
  Variable o_init : Z -> init_res.        (* fmp4.Init.Unmarshal(data[0:n]) *)

  Inductive header := Header (tracks : list track) (d : Z).

  Definition read_header : res header * list Z :=
    let al := [8] in                                         (* buf := make([]byte, 8) *)
    match hdr_at 0 t_ftyp with
    | Panic w => (Panic w, al) | Err => (Err, al) | Ok None => (Err, al)
    | Ok (Some ftyp_size) =>
      match seek ftyp_size with
      | None => (Err, al)
      | Some p =>
        match hdr_at p t_moov with
        | Panic w => (Panic w, al) | Err => (Err, al) | Ok None => (Err, al)
        | Ok (Some moov_size) =>
          match seek (p + 8 + 8) with
          | None => (Err, al)
          | Some pm =>
            match o_mvhd pm (wrapu32 (moov_size - 8)) with
            | MvhdErr => (Err, al)
            | MvhdOk dur ts =>
              if g.(g_mvhd_ts) && (ts =? 0) then (Err, al) else
              (* d := time.Duration(mvhd.DurationV0) * time.Second / time.Duration(mvhd.Timescale) *)
              match go_div (wrap64 (dur * nanos)) ts with
              | Panic w => (Panic w, al) | Err => (Err, al)
              | Ok d =>
                if g.(g_hdr_size) && (flen <? ftyp_size + moov_size) then (Err, al) else
                let n := wrapu32 (ftyp_size + moov_size) in  (* make([]byte, uint64(ftypSize+moovSize)) *)
                let al := n :: al in
                match read_full 0 n with
                | None => (Err, al)
                | Some _ =>
                  match o_init n with
                  | InitErr => (Err, al)
                  | InitOk tracks => (Ok (Header tracks d), al)
                  end
                end
              end
            end
          end
        end
      end
    end.

  (* ---------------- segmentFMP4ReadDurationFromParts ---------------- *)
  Variable o_tfhd : Z -> Z -> option Z.          (* payload offset, length -> TrackID *)
  Variable o_tfdt : Z -> Z -> option Z.          (* -> BaseMediaDecodeTimeV1 (uint64) *)
  Variable o_trun : Z -> Z -> option (list Z).   (* -> SampleDuration of every entry (uint32) *)

  (* "find last valid moof and mdat": p = position at the top of the loop, last = lastMoofPos *)
  Fixpoint moof_loop (fuel : nat) (p last : Z) : res Z :=
    match fuel with
    | O => Panic Hang
    | S fuel' =>
      match hdr_at p t_moof with
      | Panic w => Panic w
      | Err | Ok None => Ok last                                  (* break *)
      | Ok (Some moof_size) =>
        match seek (p + 8 + (moof_size - 8)) with
        | None => Ok last
        | Some q =>
          match hdr_at q t_mdat with
          | Panic w => Panic w
          | Err | Ok None => Ok last
          | Ok (Some mdat_size) =>
            match seek (q + 8 + (mdat_size - 8)) with
            | None => Ok last
            | Some p' => moof_loop fuel' p' p
            end
          end
        end
      end
    end.

  (* header of one of tfhd/tfdt/trun at p, then  buf2 := make([]byte, size-8); io.ReadFull(r, buf2):
     Ok (payload offset, payload length) *)
  Definition sized_box (p : Z) (tag : bytes) (al : list Z) : res (Z * Z) * list Z :=
    match hdr_at p tag with
    | Panic w => (Panic w, al) | Err => (Err, al) | Ok None => (Err, al)
    | Ok (Some size) =>
      if g.(g_box_size) && ((size <? 8) || (flen <? size)) then (Err, al) else
      let n := wrapu32 (size - 8) in
      let al := n :: al in
      match read_full (p + 8) n with
      | None => (Err, al)
      | Some _ => (Ok (p + 8, n), al)
      end
    end.

  (* elapsed += int64(entry.SampleDuration) *)
  Definition sum_durations (base : Z) (ds : list Z) : Z :=
    fold_left (fun acc d => wrap64 (acc + d)) ds (wrap64 base).

  Section Parts.
    Variable tracks : list track.

    (* "foreach traf" *)
    Fixpoint traf_loop (fuel : nat) (p max_elapsed : Z) (al : list Z) : res Z * list Z :=
      match fuel with
      | O => (Panic Hang, al)
      | S fuel' =>
        match read_full p 8 with
        | None => (Err, al)
        | Some buf =>
          match tag_is buf t_traf, tag_is buf t_mdat with
          | Panic w, _ => (Panic w, al)
          | Ok false, Panic w => (Panic w, al)
          | Ok false, Ok true => (Ok max_elapsed, al)                (* break outer *)
          | Ok false, _ => (Err, al)                                 (* unexpected box *)
          | Err, _ => (Err, al)
          | Ok true, _ =>
            match sized_box (p + 8) t_tfhd al with
            | (Panic w, al) => (Panic w, al) | (Err, al) => (Err, al)
            | (Ok (o1, n1), al) =>
              match o_tfhd o1 n1 with
              | None => (Err, al)
              | Some track_id =>
                match find_track tracks track_id with
                | None => (Err, al)
                | Some trk =>
                  match sized_box (o1 + n1) t_tfdt al with
                  | (Panic w, al) => (Panic w, al) | (Err, al) => (Err, al)
                  | (Ok (o2, n2), al) =>
                    match o_tfdt o2 n2 with
                    | None => (Err, al)
                    | Some base =>
                      match sized_box (o2 + n2) t_trun al with
                      | (Panic w, al) => (Panic w, al) | (Err, al) => (Err, al)
                      | (Ok (o3, n3), al) =>
                        match o_trun o3 n3 with
                        | None => (Err, al)
                        | Some durs =>
                          match mp4_to_go (sum_durations base durs) (snd trk) with
                          | Panic w => (Panic w, al) | Err => (Err, al)
                          | Ok elapsed_go =>
                            traf_loop fuel' (o3 + n3) (if max_elapsed <? elapsed_go then elapsed_go else max_elapsed) al
                          end
                        end
                      end
                    end
                  end
                end
              end
            end
          end
        end
      end.

    Definition fuel_of_file : nat := S (length data).

    Definition read_duration_from_parts : res Z * list Z :=
      let al := [8] in
      match hdr_at 0 t_ftyp with
      | Panic w => (Panic w, al) | Err => (Err, al) | Ok None => (Err, al)
      | Ok (Some ftyp_size) =>
        match seek ftyp_size with
        | None => (Err, al)
        | Some p =>
          match hdr_at p t_moov with
          | Panic w => (Panic w, al) | Err => (Err, al) | Ok None => (Err, al)
          | Ok (Some moov_size) =>
            match seek (p + 8 + (moov_size - 8)) with
            | None => (Err, al)
            | Some p1 =>
              match moof_loop fuel_of_file p1 (-1) with
              | Panic w => (Panic w, al) | Err => (Err, al)
              | Ok last =>
                if last <? 0 then (Err, al) else
                match seek (last + 8) with
                | None => (Err, al)
                | Some pm =>
                  match hdr_at pm t_mfhd with
                  | Panic w => (Panic w, al) | Err => (Err, al) | Ok None => (Err, al)
                  | Ok (Some _) =>
                    match seek (pm + 8 + 8) with
                    | None => (Err, al)
                    | Some pt => traf_loop fuel_of_file pt 0 al
                    end
                  end
                end
              end
            end
          end
        end
      end.
  End Parts.

  (* ---------------- parseSegment (on_list.go) ---------------- *)
  Definition parse_segment : res (list track * Z) * list Z :=
    match read_header with
    | (Panic w, al) => (Panic w, al)
    | (Err, al) => (Err, al)
    | (Ok (Header tracks d), al) =>
      if d =? 0 then
        match read_duration_from_parts tracks with
        | (Panic w, al2) => (Panic w, al2 ++ al)
        | (Err, al2) => (Err, al2 ++ al)
        | (Ok d2, al2) => (Ok (tracks, d2), al2 ++ al)
        end
      else (Ok (tracks, d), al)
    end.
End File.

(* ---------------- segmentFMP4MuxParts: the handler passed to amp4.ReadBoxStructure ---------------- *)
Record entry := { e_dur : Z; e_size : Z; e_nonsync : bool; e_cto : Z }.

(* what go-mp4 delivers to the handler, flattened in traversal order (Expand on moof and traf, ReadPayload on
   tfhd/tfdt/trun with its decoded fields or an error); EWalkErr = the walk itself returned an error *)
Inductive ev :=
| EMoof (offset : Z) | ETraf
| ETfhd (r : option Z)                          (* TrackID *)
| ETfdt (r : option Z)                          (* BaseMediaDecodeTimeV1 *)
| ETrun (r : option (Z * list entry))           (* DataOffset (int32), Entries *)
| EMdat | EOther | EWalkErr.

(* calls made on the muxer *)
Inductive mcall :=
| SetTrack (id : Z)
| WriteSample (dts cto : Z) (nonsync : bool) (size offset : Z)
| FinalDTS (dts : Z).

Record mux_state := {
  m_moof_offset : Z;
  m_tfhd : option Z;
  m_tfdt : option Z;
  m_time_scale : Z;
  m_start_mp4 : Z;
  m_dur_mp4 : Z;
  m_seg_dur : Z;
  m_break : bool;
  m_calls : list mcall      (* most recent first *)
}.

Definition set_moof (s : mux_state) (off : Z) : mux_state :=
  {| m_moof_offset := off; m_tfhd := s.(m_tfhd); m_tfdt := s.(m_tfdt); m_time_scale := s.(m_time_scale);
     m_start_mp4 := s.(m_start_mp4); m_dur_mp4 := s.(m_dur_mp4); m_seg_dur := s.(m_seg_dur);
     m_break := s.(m_break); m_calls := s.(m_calls) |}.
Definition set_tfhd (s : mux_state) (id : Z) : mux_state :=
  {| m_moof_offset := s.(m_moof_offset); m_tfhd := Some id; m_tfdt := s.(m_tfdt); m_time_scale := s.(m_time_scale);
     m_start_mp4 := s.(m_start_mp4); m_dur_mp4 := s.(m_dur_mp4); m_seg_dur := s.(m_seg_dur);
     m_break := s.(m_break); m_calls := s.(m_calls) |}.
Definition set_tfdt (s : mux_state) (base ts start dur : Z) (c : mcall) : mux_state :=
  {| m_moof_offset := s.(m_moof_offset); m_tfhd := s.(m_tfhd); m_tfdt := Some base; m_time_scale := ts;
     m_start_mp4 := start; m_dur_mp4 := dur; m_seg_dur := s.(m_seg_dur);
     m_break := s.(m_break); m_calls := c :: s.(m_calls) |}.
Definition set_break (s : mux_state) : mux_state :=
  {| m_moof_offset := s.(m_moof_offset); m_tfhd := s.(m_tfhd); m_tfdt := s.(m_tfdt); m_time_scale := s.(m_time_scale);
     m_start_mp4 := s.(m_start_mp4); m_dur_mp4 := s.(m_dur_mp4); m_seg_dur := s.(m_seg_dur);
     m_break := true; m_calls := s.(m_calls) |}.
Definition add_call (s : mux_state) (c : mcall) : mux_state :=
  {| m_moof_offset := s.(m_moof_offset); m_tfhd := s.(m_tfhd); m_tfdt := s.(m_tfdt); m_time_scale := s.(m_time_scale);
     m_start_mp4 := s.(m_start_mp4); m_dur_mp4 := s.(m_dur_mp4); m_seg_dur := s.(m_seg_dur);
     m_break := s.(m_break); m_calls := c :: s.(m_calls) |}.
Definition set_seg_dur (s : mux_state) (d : Z) : mux_state :=
  {| m_moof_offset := s.(m_moof_offset); m_tfhd := s.(m_tfhd); m_tfdt := s.(m_tfdt); m_time_scale := s.(m_time_scale);
     m_start_mp4 := s.(m_start_mp4); m_dur_mp4 := s.(m_dur_mp4); m_seg_dur := d;
     m_break := s.(m_break); m_calls := s.(m_calls) |}.

Section Mux.
  Variable g : guards.
  Variable file_len : Z.
  Variable tracks : list track.
  Variable start_dts duration : Z.     (* time.Duration *)

  (* getPayload: payload := make([]byte, sampleSize); r.ReadAt(payload, int64(sampleOffset)) on an *os.File;
     true = the muxer gets the payload, false = it gets an error and writeSample returns it *)
  Definition read_at_ok (off size : Z) : bool :=
    (0 <=? off) && ((size =? 0) || (off + size <=? file_len)).

  Definition mux_init : mux_state :=
    {| m_moof_offset := 0; m_tfhd := None; m_tfdt := None; m_time_scale := 0; m_start_mp4 := 0; m_dur_mp4 := 0;
       m_seg_dur := 0; m_break := false; m_calls := [] |}.

  (* the loop over trun.Entries; data_off is a uint64, dts an int64; al = sizes passed to make (most recent first).
     The muxer of the model asks for every payload at once and returns the error of getPayload. *)
  Fixpoint entries_loop (es : list entry) (data_off dts : Z) (s : mux_state) (al : list Z)
    : res (Z * mux_state) * list Z :=
    match es with
    | [] => (Ok (dts, s), al)
    | e :: es' =>
      if s.(m_dur_mp4) <=? dts then (Ok (dts, set_break s), al)
      else if g.(g_sample) && (file_len <? e.(e_size)) then (Err, al)
      else
        let off := wrap64 data_off in       (* int64(sampleOffset) *)
        let s' := add_call s (WriteSample dts e.(e_cto) e.(e_nonsync) e.(e_size) off) in
        let al' := e.(e_size) :: al in      (* payload := make([]byte, sampleSize) *)
        if read_at_ok off e.(e_size)
        then entries_loop es' (wrapu64 (data_off + e.(e_size))) (wrap64 (dts + e.(e_dur))) s' al'
        else (Err, al')
    end.

  (* one call of the handler; Ok s' = it returned a nil error *)
  Definition mux_step (s : mux_state) (al : list Z) (e : ev) : res mux_state * list Z :=
    match e with
    | EWalkErr => (Err, al)
    | EMoof off => (Ok (set_moof s off), al)
    | ETraf | EOther => (Ok s, al)
    | ETfhd None | ETfdt None | ETrun None => (Err, al)
    | ETfhd (Some id) => (Ok (set_tfhd s id), al)
    | ETfdt (Some base) =>
        match s.(m_tfhd) with
        | None => if g.(g_nil) then (Err, al) else (Panic NilDeref, al)        (* tfhd.TrackID *)
        | Some id =>
          match find_track tracks id with
          | None => (Err, al)
          | Some trk =>
            (Ok (set_tfdt s base (snd trk) (go_to_mp4 start_dts (snd trk)) (go_to_mp4 duration (snd trk))
                   (SetTrack id)), al)
          end
        end
    | ETrun (Some (data_offset, es)) =>
        match s.(m_tfdt) with
        | None => if g.(g_nil) then (Err, al) else (Panic NilDeref, al)        (* tfdt.BaseMediaDecodeTimeV1 *)
        | Some base =>
          let data_off := wrapu64 (s.(m_moof_offset) + wrapu64 data_offset) in
          let dts := wrap64 (wrap64 base + s.(m_start_mp4)) in
          match entries_loop es data_off dts s al with
          | (Panic w, al) => (Panic w, al) | (Err, al) => (Err, al)
          | (Ok (dts', s1), al) =>
            match mp4_to_go (wrap64 (dts' - s1.(m_start_mp4))) s1.(m_time_scale) with
            | Panic w => (Panic w, al) | Err => (Err, al)
            | Ok el =>
              (Ok (set_seg_dur (add_call s1 (FinalDTS dts')) (if s1.(m_seg_dur) <? el then el else s1.(m_seg_dur))), al)
            end
          end
        end
    | EMdat => if s.(m_break) then (Err, al) else (Ok s, al)     (* errTerminated: see mux_run *)
    end.

  (* the whole walk: Ok final state (segmentDuration = m_seg_dur) | Err *)
  Fixpoint mux_run (es : list ev) (s : mux_state) (al : list Z) : res mux_state * list Z :=
    match es with
    | [] => (Ok s, al)
    | e :: es' =>
      match e, s.(m_break) with
      | EMdat, true => (Ok s, al)                           (* errTerminated is not an error *)
      | _, _ =>
        match mux_step s al e with
        | (Ok s', al') => mux_run es' s' al'
        | (Err, al') => (Err, al')
        | (Panic w, al') => (Panic w, al')
        end
      end
    end.

  Definition mux_parts (es : list ev) : res mux_state * list Z := mux_run es mux_init [].
End Mux.

(* ---------------- seekAndMux (on_get.go): the nil dereference `mtxi.DTS` of later segments ---------------- *)
(* a segment header as far as the loop looks at it: Some (stream id, segment number) = it has a mtxi box *)
Definition seg_mtxi := option (Z * Z).
(* segmentFMP4CanBeConcatenated, with the legacy (no mtxi) decision as a parameter *)
Definition can_concat (legacy : bool) (prev cur : seg_mtxi) : bool :=
  match prev, cur with
  | None, Some _ | Some _, None => false
  | None, None => legacy
  | Some (s1, n1), Some (s2, n2) => (s1 =? s2) && (wrapu64 (n1 + 1) =? n2)
  end.
(* the loop over segments[1:]: Panic NilDeref = `mtxi.DTS` with mtxi == nil; the number of segments muxed *)
Fixpoint seek_loop (first prev : seg_mtxi) (segs : list (seg_mtxi * bool)) (n : Z) : res Z :=
  match segs with
  | [] => Ok n
  | (cur, legacy) :: rest =>
    if can_concat legacy prev cur then
      match first with
      | Some _ => match cur with None => Panic NilDeref | Some _ => seek_loop first cur rest (n + 1) end
      | None => seek_loop first cur rest (n + 1)
      end
    else Ok n
  end.
