(* C42, life cycle of substituted values. The consumers of substituted strings of one live path:
   - the forward destinations (internal/forward/manager.go Initialize / ReloadConf / createDestHandler; each
     DestHandler resolves its template with the PathName / Matches it was created with, dest_handler.go runOnce),
   - the static source (internal/staticsources/handler.go Start / run / ReloadMatches / Stop: resolveSource with
     Handler.Matches whenever an instance is (re)created),
   - the hook environment (internal/core/path.go ExternalCmdEnv: G<i> from pa.matches at every launch),
   and the wiring between them (path.doReloadConf: a reload may carry new capture groups, when the path moved to
   another regexp configuration; the source template cannot change in a hot reload, the forward list can).
   Executable; no proofs here. *)
From Coq Require Import List ZArith Bool.
Require Import MTX.Model.C42_Template.
Import ListNotations.
Local Open Scope Z_scope.

Fixpoint ms_eqb (a b : list bytes) : bool :=      (* slices.Equal on []string *)
  match a, b with
  | [], [] => true
  | x :: a', y :: b' => bytes_eqb x y && ms_eqb a' b'
  | _, _ => false
  end.

(* conf.ForwardDest (a comparable struct of three strings) *)
Record dconf := { d_dest : bytes; d_fp : bytes; d_tok : bytes }.

Definition dconf_eqb (a b : dconf) : bool :=
  bytes_eqb (d_dest a) (d_dest b) && bytes_eqb (d_fp a) (d_fp b) && bytes_eqb (d_tok a) (d_tok b).

(* DestHandler: identity (uuid.New, numbered in creation order), Conf, Matches as given at creation *)
Record fh := { fh_id : Z; fh_conf : dconf; fh_ms : list bytes }.

(* what runOnce connects to: resolveDest(h.Conf.Dest, h.PathName, h.Matches); the path name never changes *)
Definition held (path : bytes) (h : fh) : bytes := resolve_dest (d_dest (fh_conf h)) path (fh_ms h).

(* Manager.Initialize / createDestHandler *)
Fixpoint f_create (ms : list bytes) (fwd : list dconf) (next : Z) : list fh :=
  match fwd with
  | [] => []
  | d :: r => {| fh_id := next; fh_conf := d; fh_ms := ms |} :: f_create ms r (next + 1)
  end.

(* The loop of Manager.ReloadConf, with the test that decides whether a handler is kept as a parameter.
   ms = Manager.Matches at the time of the call. Returns the new handlers and the next fresh identity. *)
Fixpoint f_reload_with (keep : fh -> dconf -> list bytes -> bool)
         (ms : list bytes) (fwd : list dconf) (old : list fh) (next : Z) : list fh * Z :=
  match fwd with
  | [] => ([], next)
  | d :: fr =>
      match old with
      | h :: orest =>
          if keep h d ms
          then let '(nh, nx) := f_reload_with keep ms fr orest next in (h :: nh, nx)
          else let '(nh, nx) := f_reload_with keep ms fr orest (next + 1) in
               ({| fh_id := next; fh_conf := d; fh_ms := ms |} :: nh, nx)
      | [] =>
          let '(nh, nx) := f_reload_with keep ms fr [] (next + 1) in
          ({| fh_id := next; fh_conf := d; fh_ms := ms |} :: nh, nx)
      end
  end.

(* the code: m.destHandlers[i].Conf == dest && slices.Equal(m.destHandlers[i].Matches, m.Matches) *)
Definition keep_code (h : fh) (d : dconf) (ms : list bytes) : bool :=
  dconf_eqb (fh_conf h) d && ms_eqb (fh_ms h) ms.

(* A weaker test, for the refutation in Props: restart only when a group that the template names changed,
   looking at the indices of the OLD groups only (strings.Contains(dest, "$G"+i) for i = len(old)-1 .. 1). *)
Fixpoint containsb (sub s : bytes) : bool :=
  prefixb sub s || match s with [] => false | _ :: r => containsb sub r end.

Fixpoint old_index_changed (t : bytes) (old new : list bytes) (i : nat) : bool :=
  match i with
  | O => false
  | S i' =>
      (containsb (pat_g (S i')) t &&
       ((length new <=? S i')%nat || negb (bytes_eqb (nth (S i') old []) (nth (S i') new []))))
      || old_index_changed t old new i'
  end.

Definition keep_old_index (h : fh) (d : dconf) (ms : list bytes) : bool :=
  dconf_eqb (fh_conf h) d && negb (old_index_changed (d_dest d) (fh_ms h) ms (length (fh_ms h) - 1)).

(* ---- the static source handler ------------------------------------------------------------------
   s_ms = Handler.Matches; s_running = Handler.running (between Start and Stop); s_alive: an instance runs
   (false while the handler waits for retryPause after an instance error); s_cur: the ResolvedSource given to
   the instance created last. *)
Record src := { s_tmpl : bytes; s_ms : list bytes; s_running : bool; s_alive : bool; s_query : bytes; s_cur : bytes }.

(* ---- one live path ------------------------------------------------------------------------------ *)
Record pstate := {
  p_name : bytes;            (* pa.name = Manager.PathName = DestHandler.PathName *)
  p_ms : list bytes;         (* pa.matches *)
  p_fm_ms : list bytes;      (* forwardManager.Matches *)
  p_hs : list fh;            (* forwardManager.destHandlers *)
  p_next : Z;
  p_src : option src;
}.

Inductive op :=
| OReload (oms : option (list bytes)) (fwd : list dconf)
    (* path.doReloadConf: req.matchesChanged / req.matches, newConf.Forward (newConf.Source = the old one) *)
| OFwdStart | OFwdStop        (* forward manager Start / Stop: the stream became available / went away *)
| OSrcStart (q : bytes)       (* Handler.Start(onDemand, query) *)
| OSrcStop                    (* Handler.Stop *)
| OSrcFail                    (* the instance returned an error: retryPause begins *)
| OSrcRetry.                  (* retryPause over: recreate() *)

Definition src_resolve (s : src) (ms : list bytes) (q : bytes) : bytes := resolve_source (s_tmpl s) ms q.

(* Handler.ReloadMatches followed by the run loop's reaction; returns the new state and the ResolvedSource of
   every instance created *)
Definition src_reload_matches (s : src) (ms : list bytes) : src * list bytes :=
  let v := src_resolve s ms (s_query s) in
  if s_running s && s_alive s && negb (bytes_eqb v (s_cur s))
  then ({| s_tmpl := s_tmpl s; s_ms := ms; s_running := true; s_alive := true; s_query := s_query s; s_cur := v |}, [v])
  else ({| s_tmpl := s_tmpl s; s_ms := ms; s_running := s_running s; s_alive := s_alive s; s_query := s_query s;
           s_cur := s_cur s |}, []).

Definition src_step (s : src) (o : op) : src * list bytes :=
  match o with
  | OReload (Some ms) _ => src_reload_matches s ms
  | OSrcStart q =>
      if s_running s then (s, [])      (* the code panics; the path never does it *)
      else let v := src_resolve s (s_ms s) q in
           ({| s_tmpl := s_tmpl s; s_ms := s_ms s; s_running := true; s_alive := true; s_query := q; s_cur := v |}, [v])
  | OSrcStop =>
      ({| s_tmpl := s_tmpl s; s_ms := s_ms s; s_running := false; s_alive := false; s_query := s_query s;
          s_cur := s_cur s |}, [])
  | OSrcFail =>
      ({| s_tmpl := s_tmpl s; s_ms := s_ms s; s_running := s_running s; s_alive := false; s_query := s_query s;
          s_cur := s_cur s |}, [])
  | OSrcRetry =>
      if s_running s && negb (s_alive s)
      then let v := src_resolve s (s_ms s) (s_query s) in
           ({| s_tmpl := s_tmpl s; s_ms := s_ms s; s_running := true; s_alive := true; s_query := s_query s; s_cur := v |}, [v])
      else (s, [])
  | _ => (s, [])
  end.

Section WithKeep.
Variable keep : fh -> dconf -> list bytes -> bool.

Definition step_with (s : pstate) (o : op) : pstate * list bytes :=
  let '(src', evs) :=
    match p_src s with
    | Some x => let '(x', e) := src_step x o in (Some x', e)
    | None => (None, [])
    end in
  match o with
  | OReload oms fwd =>
      let ms := match oms with Some m => m | None => p_ms s end in
      let fms := match oms with Some m => m | None => p_fm_ms s end in
      let '(nh, nx) := f_reload_with keep fms fwd (p_hs s) (p_next s) in
      ({| p_name := p_name s; p_ms := ms; p_fm_ms := fms; p_hs := nh; p_next := nx; p_src := src' |}, evs)
  | _ =>
      ({| p_name := p_name s; p_ms := p_ms s; p_fm_ms := p_fm_ms s; p_hs := p_hs s; p_next := p_next s;
          p_src := src' |}, evs)
  end.

Fixpoint run_with (s : pstate) (ops : list op) : pstate :=
  match ops with
  | [] => s
  | o :: r => run_with (fst (step_with s o)) r
  end.
End WithKeep.

Definition step := step_with keep_code.
Definition run := run_with keep_code.

(* newPath: the path is created under the configuration that FindPathConf selected, with its groups *)
Definition init (name : bytes) (ms : list bytes) (fwd : list dconf) (tmpl : option bytes) : pstate :=
  {| p_name := name; p_ms := ms; p_fm_ms := ms; p_hs := f_create ms fwd 0; p_next := Z.of_nat (length fwd);
     p_src := match tmpl with
              | Some t => Some {| s_tmpl := t; s_ms := ms; s_running := false; s_alive := false; s_query := []; s_cur := [] |}
              | None => None
              end |}.

(* ---- what the history itself says is current (no model involved) -------------------------------- *)
Fixpoint cur_ms (ms : list bytes) (ops : list op) : list bytes :=
  match ops with
  | [] => ms
  | OReload (Some m) _ :: r => cur_ms m r
  | _ :: r => cur_ms ms r
  end.

Fixpoint cur_fwd (fwd : list dconf) (ops : list op) : list dconf :=
  match ops with
  | [] => fwd
  | OReload _ f :: r => cur_fwd f r
  | _ :: r => cur_fwd fwd r
  end.

(* ExternalCmdEnv: for i, ma := range matches[1:] { env["G"+FormatInt(i+1)] = ma }, as (index, value) pairs *)
Fixpoint env_from (i : Z) (l : list bytes) : list (Z * bytes) :=
  match l with
  | [] => []
  | v :: r => (i, v) :: env_from (i + 1) r
  end.

Definition hook_env (ms : list bytes) : list (Z * bytes) := env_from 1 (tl ms).

(* ---- the query of the request that triggered the current start, read off the history ------------
   Handler.Start(onDemand, query) is what path.onDemandStaticSourceStart(req.AccessRequest.Query) calls for the
   describe / add-reader request that found the source stopped; every instance created until the next Stop (the
   first one, the one after retryPause, the one after a ReloadMatches restart) must be given that query.
   trig run q ops: (is the handler between Start and Stop, the query of the Start that opened this period);
   a Start while running is not a start (the code panics; the path never does it). No model state involved. *)
Fixpoint trig (run : bool) (q : bytes) (ops : list op) : bool * bytes :=
  match ops with
  | [] => (run, q)
  | OSrcStart q' :: r => trig true (if run then q else q') r
  | OSrcStop :: r => trig false q r
  | _ :: r => trig run q r
  end.

Definition trig_running (ops : list op) : bool := fst (trig false [] ops).
Definition trig_query (ops : list op) : bytes := snd (trig false [] ops).

(* Handler.Start with the rule that decides what is stored in Handler.query as a parameter
   (store old new); the code stores the query of the request: s.query = query. *)
Definition src_step_store (store : bytes -> bytes -> bytes) (s : src) (o : op) : src * list bytes :=
  match o with
  | OSrcStart q =>
      if s_running s then (s, [])
      else let q' := store (s_query s) q in
           let v := src_resolve s (s_ms s) q' in
           ({| s_tmpl := s_tmpl s; s_ms := s_ms s; s_running := true; s_alive := true; s_query := q'; s_cur := v |}, [v])
  | _ => src_step s o
  end.

Definition store_code (old new : bytes) : bytes := new.
(* two rules for the refutations in Props: an empty query does not overwrite; the first query is kept *)
Definition store_nonempty (old new : bytes) : bytes := match new with [] => old | _ => new end.
Definition store_first (old new : bytes) : bytes := match old with [] => new | _ => old end.

(* the ResolvedSource of every instance created, step by step *)
Fixpoint src_events_with (stp : src -> op -> src * list bytes) (s : src) (ops : list op) : list (list bytes) :=
  match ops with
  | [] => []
  | o :: r => let '(s', e) := stp s o in e :: src_events_with stp s' r
  end.

Definition src_init (t : bytes) (ms : list bytes) : src :=
  {| s_tmpl := t; s_ms := ms; s_running := false; s_alive := false; s_query := []; s_cur := [] |}.
