(* Model of conf.deepClone (internal/conf/conf.go) over the heap universe of Lib/Heap.v.
   Executable; no proofs here.

   func deepClone(rv reflect.Value) reflect.Value {
     switch rv.Kind() {
     case Pointer:   nil -> rv ; else reflect.New + Set(deepClone(rv.Elem()))
     case Struct:    new zero struct; for each field: if newField.CanSet() { Set(deepClone(field)) }
     case Slice:     nil -> Zero ; else MakeSlice + per element Set(deepClone(elem))
     case Map:       nil -> Zero ; else MakeMap + per key SetMapIndex(key, deepClone(value))
     case Interface: (added by the fix: commit) nil -> rv ; else New(iface type) + Set(deepClone(rv.Elem()))
     default:        return rv
   }}

   [fixi = false] is the code as pinned (no Interface case: falls into default, the interface
   value is returned unchanged, so whatever it refers to is shared);
   [fixi = true] is the code after the fix.
   Pointer, slice and map are the same in the model: a nil header is returned as it is, a
   non-nil header gets a new cell whose contents are the clones of the old cell's contents
   (map keys are not cloned in the code either). Fuel bounds the nesting depth: the Go
   function does not terminate on cyclic values, the model returns None. *)
From Coq Require Import List ZArith Bool.
Require Import MTX.Lib.Heap.
Import ListNotations.

(* reflect.New(T).Elem(): the zero value of the same shape *)
Fixpoint zero_of (v : value) : value :=
  match v with
  | VScalar _ => VScalar 0
  | VRef k _ => VRef k None
  | VStruct fs => VStruct (map (fun bf => (fst bf, zero_of (snd bf))) fs)
  | VIface _ => VIface None
  end.

Definition cloner := heap -> value -> option (heap * value).

(* elements of a cell, left to right, threading the heap *)
Fixpoint clone_list (f : cloner) (h : heap) (vs : list value) : option (heap * list value) :=
  match vs with
  | [] => Some (h, [])
  | v :: r =>
      match f h v with
      | Some (h1, v1) =>
          match clone_list f h1 r with
          | Some (h2, r1) => Some (h2, v1 :: r1)
          | None => None
          end
      | None => None
      end
  end.

(* struct fields: a field reflect cannot set (unexported) keeps the zero value *)
Fixpoint clone_fields (f : cloner) (h : heap) (fs : list (bool * value)) : option (heap * list (bool * value)) :=
  match fs with
  | [] => Some (h, [])
  | (b, v) :: r =>
      if b then
        match f h v with
        | Some (h1, v1) =>
            match clone_fields f h1 r with
            | Some (h2, r1) => Some (h2, (b, v1) :: r1)
            | None => None
            end
        | None => None
        end
      else
        match clone_fields f h r with
        | Some (h2, r1) => Some (h2, (b, zero_of v) :: r1)
        | None => None
        end
  end.

Fixpoint deep_clone (fixi : bool) (fuel : nat) (h : heap) (v : value) {struct fuel} : option (heap * value) :=
  match fuel with
  | O => None
  | S k =>
      match v with
      | VScalar _ => Some (h, v)                      (* default: return rv *)
      | VRef _ None => Some (h, v)                    (* nil pointer / slice / map *)
      | VRef kd (Some a) =>
          match nth_error h a with
          | None => None
          | Some c =>
              match clone_list (deep_clone fixi k) h c with
              | Some (h1, c1) => Some (h1 ++ [c1], VRef kd (Some (length h1)))
              | None => None
              end
          end
      | VStruct fs =>
          match clone_fields (deep_clone fixi k) h fs with
          | Some (h1, fs1) => Some (h1, VStruct fs1)
          | None => None
          end
      | VIface None => Some (h, v)
      | VIface (Some d) =>
          if fixi then
            match deep_clone fixi k h d with
            | Some (h1, d1) => Some (h1, VIface (Some d1))
            | None => None
            end
          else Some (h, v)                            (* default: return rv (shared!) *)
      end
  end.

(* Conf.Clone / Path.Clone: deepClone(reflect.ValueOf(conf)) on the struct value *)
Definition clone_fixed := deep_clone true.
Definition clone_pinned := deep_clone false.

(* "the copy has the same shape": equal scalars, same nil-ness, similar cells, similar
   fields — except that fields reflect cannot set hold the zero value in the copy.
   [csim n] is a derivation of depth at most n (False at depth 0, so it is never vacuous). *)
Fixpoint csim (n : nat) (h : heap) (v v' : value) {struct n} : Prop :=
  match n with
  | O => False
  | S k =>
      match v, v' with
      | VScalar z, VScalar z' => z = z'
      | VRef kd None, VRef kd' None => kd = kd'
      | VRef kd (Some a), VRef kd' (Some a') =>
          kd = kd' /\ exists c c', nth_error h a = Some c /\ nth_error h a' = Some c' /\ Forall2 (csim k h) c c'
      | VStruct fs, VStruct fs' =>
          Forall2 (fun bf bf' : bool * value => fst bf = fst bf' /\
                                 if fst bf then csim k h (snd bf) (snd bf') else snd bf' = zero_of (snd bf)) fs fs'
      | VIface None, VIface None => True
      | VIface (Some d), VIface (Some d') => csim k h d d'
      | _, _ => False
      end
  end.

(* every struct field below v (through the heap, to depth n) can be set by reflect *)
Fixpoint all_settable (n : nat) (h : heap) (v : value) {struct n} : Prop :=
  match n with
  | O => True
  | S k =>
      match v with
      | VScalar _ | VRef _ None | VIface None => True
      | VRef _ (Some a) => match nth_error h a with Some c => Forall (all_settable k h) c | None => False end
      | VStruct fs => Forall (fun bf : bool * value => fst bf = true /\ all_settable k h (snd bf)) fs
      | VIface (Some d) => all_settable k h d
      end
  end.

(* plain structural equality through the heap (no exception for unsettable fields) *)
Fixpoint ssim (n : nat) (h : heap) (v v' : value) {struct n} : Prop :=
  match n with
  | O => False
  | S k =>
      match v, v' with
      | VScalar z, VScalar z' => z = z'
      | VRef kd None, VRef kd' None => kd = kd'
      | VRef kd (Some a), VRef kd' (Some a') =>
          kd = kd' /\ exists c c', nth_error h a = Some c /\ nth_error h a' = Some c' /\ Forall2 (ssim k h) c c'
      | VStruct fs, VStruct fs' =>
          Forall2 (fun bf bf' : bool * value => fst bf = fst bf' /\ ssim k h (snd bf) (snd bf')) fs fs'
      | VIface None, VIface None => True
      | VIface (Some d), VIface (Some d') => ssim k h d d'
      | _, _ => False
      end
  end.

(* edits performed *through the copy*: each step writes a cell the copy reaches (or
   allocates one, or replaces the root), and never stores a reference to a cell below [n]
   (= the original's part of the heap) into the copy. *)
Definition refs_above (n : nat) (h : heap) (v : value) : Prop := forall b, reach h v b -> n <= b.

Inductive edits (n : nat) : heap -> value -> heap -> value -> Prop :=
| ed_done h v : edits n h v h v
| ed_cell h v a c h2 v2 :
    reach h v a -> (forall x, In x c -> refs_above n (write h a c) x) ->
    edits n (write h a c) v h2 v2 -> edits n h v h2 v2
| ed_alloc h v c h2 v2 :
    (forall x, In x c -> refs_above n (h ++ [c]) x) ->
    edits n (h ++ [c]) v h2 v2 -> edits n h v h2 v2
| ed_root h v v1 h2 v2 :
    refs_above n h v1 -> edits n h v1 h2 v2 -> edits n h v h2 v2.
