(* Model of the road a configuration returned by MakeConfig travels before the TLS handshake.

   Every user of MakeConfig hands the returned *tls.Config to a "consumer" that works on a private copy of it
   (nil -> &tls.Config{}, else Clone()) and writes some fields before calling crypto/tls:
     - internal/packetdumper/dial_tls_context.go   DialTLSContext.Do   (sources with dumpPackets: true)
     - gortsplib.Client / gortmplib.Client / net/http.Transport        (sources without dumpPackets, forwarders, auth)
     - internal/staticsources/moq/source.go        dialQUIC / dialWebTransport
   A consumer is a list of field writes (`op`); the handshake decision of crypto/tls reads three fields only. *)
From Coq Require Import List ZArith Bool.
Require Import MTX.Model.C41_Tls.
Import ListNotations.
Local Open Scope Z_scope.

(* the fields of crypto/tls.Config that a call site reads or writes *)
Record cfg := mkcfg {
  server_name : list Z;            (* ServerName *)
  skip_verify : bool;              (* InsecureSkipVerify *)
  vconn : option (list Z);         (* VerifyConnection: None = nil, Some fp = the closure MakeConfig builds over fingerprint fp *)
  key_log : bool;                  (* KeyLogWriter != nil *)
  alpn : bool                      (* NextProtos written by the call site *)
}.

Definition empty_cfg : cfg := mkcfg [] false None false false.      (* &tls.Config{} *)

(* internal/protocols/tls/make_config.go: nil without a fingerprint, else InsecureSkipVerify + VerifyConnection *)
Definition make_config (fp : list Z) : option cfg :=
  match fp with
  | [] => None
  | _ => Some (mkcfg [] true (Some fp) false false)
  end.

(* one field write on the private copy *)
Inductive op :=
| WNameIfEmpty (host : list Z)     (* if c.ServerName == "" { c.ServerName = host } *)
| WName (host : list Z)            (* c.ServerName = host *)
| WKeyLog (b : bool)               (* c.KeyLogWriter = ... *)
| WAlpn (b : bool)                 (* c.NextProtos = ... *)
| WSkip (b : bool)                 (* c.InsecureSkipVerify = b *)
| WVConn (v : option (list Z))     (* c.VerifyConnection = ... *)
| Fresh (c0 : cfg)                 (* c = &tls.Config{...}: the copy is thrown away *)
| FreshIfNoName (c0 : cfg).        (* if c.ServerName == "" { c = &tls.Config{...} } *)

Definition is_nil {A} (l : list A) : bool := match l with [] => true | _ => false end.

Definition apply_op (c : cfg) (o : op) : cfg :=
  match o with
  | WNameIfEmpty h => if is_nil (server_name c)
                      then mkcfg h (skip_verify c) (vconn c) (key_log c) (alpn c) else c
  | WName h => mkcfg h (skip_verify c) (vconn c) (key_log c) (alpn c)
  | WKeyLog b => mkcfg (server_name c) (skip_verify c) (vconn c) b (alpn c)
  | WAlpn b => mkcfg (server_name c) (skip_verify c) (vconn c) (key_log c) b
  | WSkip b => mkcfg (server_name c) b (vconn c) (key_log c) (alpn c)
  | WVConn v => mkcfg (server_name c) (skip_verify c) v (key_log c) (alpn c)
  | Fresh c0 => c0
  | FreshIfNoName c0 => if is_nil (server_name c) then c0 else c
  end.

(* writes that cannot touch the two fields the pin lives in *)
Definition neutral (o : op) : bool :=
  match o with
  | WNameIfEmpty _ | WName _ | WKeyLog _ | WAlpn _ => true
  | WSkip _ | WVConn _ | Fresh _ | FreshIfNoName _ => false
  end.

(* `if conf == nil { c = &tls.Config{} } else { c = conf.Clone() }` *)
Definition start (conf : option cfg) : cfg := match conf with None => empty_cfg | Some c => c end.

Definition run (ops : list op) (c : cfg) : cfg := fold_left apply_op ops c.

(* ---- the call sites ---------------------------------------------------------------------------------------- *)

Inductive proto := RTSP | RTSPHttp | RTSPWs | RTMP | HLS | WHEP.

Inductive site :=
| PdDo                               (* packetdumper.DialTLSContext{TLSConfig: MakeConfig(fp)}.Do called directly *)
| Src (p : proto) (dump : bool)      (* static source of protocol p, started by staticsources.Handler, dumpPackets = dump *)
| MoqQuic | MoqWT                    (* moqt:// source, moqTransport quic / webtransport *)
| AuthHTTP | AuthJWKS                (* auth.Manager: authHTTPFingerprint / authJWTJWKSFingerprint *)
| FwdRTMP | FwdRTSP | FwdWHIP.       (* forwarders: destFingerprint *)

(* gortsplib (client.go, client_tunnel_http.go), gortmplib (client.go) and net/http (transport.go) all do the same
   with a configured TLSConfig / TLSClientConfig: copy, fill ServerName if empty *)
Definition lib_ops (host : list Z) : list op := [WNameIfEmpty host].

(* packetdumper.DialTLSContext.Do *)
Definition pd_do_ops (host : list Z) : list op := [WNameIfEmpty host; WKeyLog true].

(* staticsources/moq: dialQUIC writes NextProtos, dialWebTransport does not; both fill ServerName only when MakeConfig
   returned nil (`hostname != "" && tlsConfig == nil`) *)
Definition moq_ops (quic was_nil : bool) (host : list Z) : list op :=
  (if quic then [WAlpn true] else []) ++ (if was_nil && negb (is_nil host) then [WNameIfEmpty host] else []).

Definition site_ops (s : site) (was_nil : bool) (host : list Z) : list op :=
  match s with
  | PdDo => pd_do_ops host
  | Src _ true => pd_do_ops host
  | Src _ false => lib_ops host
  | MoqQuic => moq_ops true was_nil host
  | MoqWT => moq_ops false was_nil host
  | AuthHTTP | AuthJWKS | FwdRTMP | FwdRTSP | FwdWHIP => lib_ops host
  end.

Definition is_none {A} (o : option A) : bool := match o with None => true | Some _ => false end.

(* the configuration crypto/tls finally gets at site s for fingerprint fp and URL host `host` *)
Definition site_cfg (s : site) (fp host : list Z) : cfg :=
  let conf := make_config fp in run (site_ops s (is_none conf) host) (start conf).

(* ---- crypto/tls client side (handshake_client*.go, verifyServerCertificate) ---------------------------------
   ordinary verification of the chain for ServerName unless InsecureSkipVerify, then VerifyConnection if set.
   `ca_ok name` = x509 verification of the presented chain against the system roots for `name` (oracle);
   `digest` = SHA-256 of the presented leaf (oracle). *)
Definition tls_accepts (c : cfg) (digest : list Z) (ca_ok : list Z -> bool) : bool :=
  (skip_verify c || ca_ok (server_name c)) &&
  match vconn c with None => true | Some fp => verify fp digest end.

Definition connect (s : site) (fp host digest : list Z) (ca_ok : list Z -> bool) : bool :=
  tls_accepts (site_cfg s fp host) digest ca_ok.

(* ---- a consumer that is NOT pin-neutral (kept as the counter-example of the theorems' hypothesis):
   `if tlsConfig == nil || tlsConfig.ServerName == "" { tlsConfig = &tls.Config{ServerName: host} }` *)
Definition pd_do_merged_ops (host : list Z) : list op :=
  [FreshIfNoName (mkcfg host false None false false); WKeyLog true].
