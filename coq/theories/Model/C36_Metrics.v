(* Model of the rendering layer of internal/metrics/metrics.go (tags, metric, comment and blank lines) and a parser of
   the Prometheus text exposition format. Strings are byte lists. Sample values are kept as the token the code
   prints (strconv.FormatInt / FormatFloat output); format_int models FormatInt(v, 10). *)
From Coq Require Import List ZArith Bool DecimalZ.
Import ListNotations.
Local Open Scope Z_scope.

Definition bytes := list Z.

(* ---------- rendering (what the code writes) ---------- *)

(* labelValueEscaper: \ -> \\ , newline -> \n , " -> \" ; `raw` models the code before the fix (no escaping) *)
Definition escape_byte (c : Z) : bytes :=
  if c =? 92 then [92; 92] else if c =? 10 then [92; 110] else if c =? 34 then [92; 34] else [c].
Definition escape_label (v : bytes) : bytes := flat_map escape_byte v.

Definition label := (bytes * bytes)%type.           (* key, value — keys already sorted by the caller *)

Fixpoint render_labels (esc : bytes -> bytes) (ls : list label) : bytes :=
  match ls with
  | [] => []
  | [(k, v)] => k ++ [61; 34] ++ esc v ++ [34]
  | (k, v) :: r => k ++ [61; 34] ++ esc v ++ [34; 44] ++ render_labels esc r
  end.

(* tags(m): None is the literal "" the code passes for the all-zero lines *)
Definition render_tags (esc : bytes -> bytes) (t : option (list label)) : bytes :=
  match t with None => [] | Some ls => [123] ++ render_labels esc ls ++ [125] end.

Record sample := { s_name : bytes; s_tags : option (list label); s_value : bytes }.

Inductive item := Comment (text : bytes) | Blank | Sample (s : sample).

Definition render_item (esc : bytes -> bytes) (i : item) : bytes :=
  match i with
  | Comment c => [35; 32] ++ c ++ [10]
  | Blank => [10]
  | Sample s => s_name s ++ render_tags esc (s_tags s) ++ [32] ++ s_value s ++ [10]
  end.

Definition render (esc : bytes -> bytes) (items : list item) : bytes := flat_map (render_item esc) items.

(* strconv.FormatInt(v, 10) *)
Fixpoint digits (u : Decimal.uint) : bytes :=
  match u with
  | Decimal.Nil => []
  | Decimal.D0 r => 48 :: digits r | Decimal.D1 r => 49 :: digits r | Decimal.D2 r => 50 :: digits r
  | Decimal.D3 r => 51 :: digits r | Decimal.D4 r => 52 :: digits r | Decimal.D5 r => 53 :: digits r
  | Decimal.D6 r => 54 :: digits r | Decimal.D7 r => 55 :: digits r | Decimal.D8 r => 56 :: digits r
  | Decimal.D9 r => 57 :: digits r
  end.
Definition format_int (z : Z) : bytes :=
  match Z.to_int z with Decimal.Pos u => digits u | Decimal.Neg u => 45 :: digits u end.

(* ---------- parsing (a consumer of the exposition format) ---------- *)

Definition is_ident (c : Z) : bool :=
  ((97 <=? c) && (c <=? 122)) || ((65 <=? c) && (c <=? 90)) || ((48 <=? c) && (c <=? 57)) || (c =? 95) || (c =? 58).

Fixpoint take_ident (s : bytes) : bytes * bytes :=
  match s with
  | c :: r => if is_ident c then let '(a, b) := take_ident r in (c :: a, b) else ([], s)
  | [] => ([], [])
  end.

(* label value up to the closing quote, undoing the three escapes; anything else after a backslash is an error *)
Fixpoint read_value (s : bytes) : option (bytes * bytes) :=
  match s with
  | [] => None
  | c :: r =>
      if c =? 34 then Some ([], r)
      else if c =? 10 then None
      else if c =? 92 then
        match r with
        | d :: r' =>
            let u := if d =? 92 then Some 92 else if d =? 110 then Some 10 else if d =? 34 then Some 34 else None in
            match u with
            | Some x => match read_value r' with Some (v, t) => Some (x :: v, t) | None => None end
            | None => None
            end
        | [] => None
        end
      else match read_value r with Some (v, t) => Some (c :: v, t) | None => None end
  end.

Definition starts_with (c : Z) (s : bytes) : bool := match s with d :: _ => d =? c | [] => false end.

(* after '{' : labels up to and including '}' *)
Fixpoint parse_labels (fuel : nat) (s : bytes) : option (list label * bytes) :=
  match fuel with
  | O => None
  | S f =>
      if starts_with 125 s then Some ([], tl s) else
      let '(k, r1) := take_ident s in
      match k, r1 with
      | _ :: _, e :: q :: r2 =>
          if (e =? 61) && (q =? 34) then
            match read_value r2 with
            | Some (v, d :: r3) =>
                if d =? 125 then Some ([(k, v)], r3)
                else if (d =? 44) && negb (starts_with 125 r3) then
                  match parse_labels f r3 with Some (ls, t) => Some ((k, v) :: ls, t) | None => None end
                else None
            | _ => None
            end
          else None
      | _, _ => None
      end
  end.

Definition parse_sample (line : bytes) : option sample :=
  let '(n, r) := take_ident line in
  match n, r with
  | _ :: _, c :: r1 =>
      if c =? 123 then
        match parse_labels (S (length r1)) r1 with
        | Some (ls, d :: v) => if (d =? 32) && negb (match v with [] => true | _ => false end)
                               then Some {| s_name := n; s_tags := Some ls; s_value := v |} else None
        | _ => None
        end
      else if (c =? 32) && negb (match r1 with [] => true | _ => false end)
      then Some {| s_name := n; s_tags := None; s_value := r1 |} else None
  | _, _ => None
  end.

(* split at newlines; every line of a well-formed exposition is newline-terminated *)
Fixpoint split_lines (cur : bytes) (s : bytes) : option (list bytes) :=
  match s with
  | [] => match cur with [] => Some [] | _ => None end       (* unterminated last line *)
  | c :: r => if c =? 10 then match split_lines [] r with Some ls => Some (rev cur :: ls) | None => None end
              else split_lines (c :: cur) r
  end.

Fixpoint parse_lines (ls : list bytes) : option (list sample) :=
  match ls with
  | [] => Some []
  | l :: r =>
      if (match l with [] => true | _ => false end) || starts_with 35 l then parse_lines r    (* blank / comment *)
      else match parse_sample l, parse_lines r with Some s, Some ss => Some (s :: ss) | _, _ => None end
  end.

Definition parse (text : bytes) : option (list sample) :=
  match split_lines [] text with Some ls => parse_lines ls | None => None end.

Fixpoint samples_of (items : list item) : list sample :=
  match items with
  | [] => []
  | Sample s :: r => s :: samples_of r
  | _ :: r => samples_of r
  end.
