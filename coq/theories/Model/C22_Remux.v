(* Model of internal/stream/format_updater.go, unit_remuxer.go and of the order in which
   subStreamFormat.writeUnitInner composes them (updater first, then remuxer on the updated
   format). Executable; no proofs here.

   Bytes are Z (0..255), a NAL unit / OBU / frame is a list of bytes, a nil slice is None where
   nil-ness is observable (parameter sets of the format) and [] elsewhere.
   Indexing the first byte of an empty NAL unit (`nalu[0]`) panics: explicit Panic outcome. *)
From Coq Require Import List ZArith Bool.
Import ListNotations.
Local Open Scope Z_scope.

Definition bytes := list Z.

Inductive res (A : Type) := Ok (a : A) | Panic.
Arguments Ok {A} _.
Arguments Panic {A}.

Fixpoint bytes_eqb (a b : bytes) : bool :=
  match a, b with
  | [], [] => true
  | x :: a', y :: b' => (x =? y) && bytes_eqb a' b'
  | _, _ => false
  end.

(* bytes.Equal(x, y) where y is a possibly-nil slice: nil and empty compare equal *)
Definition slice_of (o : option bytes) : bytes := match o with Some s => s | None => [] end.
Definition go_equal (x : bytes) (y : option bytes) : bool := bytes_eqb x (slice_of y).
(* len(y) != 0 *)
Definition nonempty (o : option bytes) : bool := match slice_of o with [] => false | _ => true end.

(* make([][]byte, n) followed by writes at indices 0,1,2,...: a write past n is an index panic,
   fewer writes than n leave nil holes at the end *)
Definition place (n : Z) (out : list bytes) : res (list bytes) :=
  let l := Z.of_nat (length out) in
  if l <=? n then Ok (out ++ repeat [] (Z.to_nat (n - l))) else Panic.

(* ------------------------------------------------------------------ H.264 *)

Definition h264_typ (b : Z) : Z := Z.land b 31.                 (* nalu[0] & 0x1F *)

Record h264_params := { h4_sps : option bytes; h4_pps : option bytes }.

(* formatUpdaterH264: the loop over the access unit with the running sps, pps, update *)
Fixpoint h264_upd_loop (au : list bytes) (s p : option bytes) (u : bool)
  : res (option bytes * option bytes * bool) :=
  match au with
  | [] => Ok (s, p, u)
  | [] :: _ => Panic
  | ((b :: _) as nalu) :: r =>
      let t := h264_typ b in
      if t =? 7 then
        if negb (go_equal nalu s) then h264_upd_loop r (Some nalu) p true else h264_upd_loop r s p u
      else if t =? 8 then
        if negb (go_equal nalu p) then h264_upd_loop r s (Some nalu) true else h264_upd_loop r s p u
      else h264_upd_loop r s p u
  end.

(* result: the format's parameters afterwards, and whether updateOutDesc was called *)
Definition h264_update (st : h264_params) (au : list bytes) : res (h264_params * bool) :=
  match h264_upd_loop au st.(h4_sps) st.(h4_pps) false with
  | Panic => Panic
  | Ok (s, p, u) => Ok (if u then {| h4_sps := s; h4_pps := p |} else st, u)
  end.

Definition h264_known (st : h264_params) : bool := nonempty st.(h4_sps) && nonempty st.(h4_pps).

(* unitRemuxerH264, first pass: isKeyFrame and n *)
Fixpoint h264_count (known : bool) (au : list bytes) (key : bool) (n : Z) : res (bool * Z) :=
  match au with
  | [] => Ok (key, n)
  | [] :: _ => Panic
  | (b :: _) :: r =>
      let t := h264_typ b in
      if (t =? 7) || (t =? 8) then h264_count known r key n
      else if t =? 9 then h264_count known r key n
      else if t =? 5 then
        if negb key then h264_count known r true ((if known then n + 2 else n) + 1)
        else h264_count known r key (n + 1)
      else h264_count known r key (n + 1)
  end.

(* second pass: which NAL units are copied (an empty one cannot reach it: the first pass panicked) *)
Definition h264_keep (nalu : bytes) : bool :=
  match nalu with
  | [] => true
  | b :: _ => let t := h264_typ b in negb ((t =? 7) || (t =? 8) || (t =? 9))
  end.

Definition h264_remux (st : h264_params) (au : list bytes) : res (list bytes) :=
  match h264_count (h264_known st) au false 0 with
  | Panic => Panic
  | Ok (key, n) =>
      if n =? 0 then Ok []
      else place n ((if key && h264_known st then [slice_of st.(h4_sps); slice_of st.(h4_pps)] else [])
                    ++ filter h264_keep au)
  end.

(* ------------------------------------------------------------------ H.265 *)

Definition h265_typ (b : Z) : Z := Z.land (Z.shiftr b 1) 63.    (* (nalu[0] >> 1) & 0b111111 *)

Record h265_params := { h5_vps : option bytes; h5_sps : option bytes; h5_pps : option bytes }.

Fixpoint h265_upd_loop (au : list bytes) (v s p : option bytes) (u : bool)
  : res (option bytes * option bytes * option bytes * bool) :=
  match au with
  | [] => Ok (v, s, p, u)
  | [] :: _ => Panic
  | ((b :: _) as nalu) :: r =>
      let t := h265_typ b in
      if t =? 32 then
        if negb (go_equal nalu v) then h265_upd_loop r (Some nalu) s p true else h265_upd_loop r v s p u
      else if t =? 33 then
        if negb (go_equal nalu s) then h265_upd_loop r v (Some nalu) p true else h265_upd_loop r v s p u
      else if t =? 34 then
        if negb (go_equal nalu p) then h265_upd_loop r v s (Some nalu) true else h265_upd_loop r v s p u
      else h265_upd_loop r v s p u
  end.

Definition h265_update (st : h265_params) (au : list bytes) : res (h265_params * bool) :=
  match h265_upd_loop au st.(h5_vps) st.(h5_sps) st.(h5_pps) false with
  | Panic => Panic
  | Ok (v, s, p, u) => Ok (if u then {| h5_vps := v; h5_sps := s; h5_pps := p |} else st, u)
  end.

Definition h265_known (st : h265_params) : bool :=
  nonempty st.(h5_vps) && nonempty st.(h5_sps) && nonempty st.(h5_pps).

Fixpoint h265_count (known : bool) (au : list bytes) (key : bool) (n : Z) : res (bool * Z) :=
  match au with
  | [] => Ok (key, n)
  | [] :: _ => Panic
  | (b :: _) :: r =>
      let t := h265_typ b in
      if (t =? 32) || (t =? 33) || (t =? 34) then h265_count known r key n
      else if t =? 35 then h265_count known r key n
      else if (t =? 19) || (t =? 20) || (t =? 21) then
        if negb key then h265_count known r true ((if known then n + 3 else n) + 1)
        else h265_count known r key (n + 1)
      else h265_count known r key (n + 1)
  end.

Definition h265_keep (nalu : bytes) : bool :=
  match nalu with
  | [] => true
  | b :: _ => let t := h265_typ b in negb ((t =? 32) || (t =? 33) || (t =? 34) || (t =? 35))
  end.

Definition h265_remux (st : h265_params) (au : list bytes) : res (list bytes) :=
  match h265_count (h265_known st) au false 0 with
  | Panic => Panic
  | Ok (key, n) =>
      if n =? 0 then Ok []
      else place n ((if key && h265_known st
                     then [slice_of st.(h5_vps); slice_of st.(h5_sps); slice_of st.(h5_pps)] else [])
                    ++ filter h265_keep au)
  end.

(* ------------------------------------------------------------------ AV1 *)

Definition av1_typ (b : Z) : Z := Z.land (Z.shiftr b 3) 15.     (* (obu[0] >> 3) & 0b1111 *)

Fixpoint av1_count (tu : list bytes) (n : Z) : res Z :=
  match tu with
  | [] => Ok n
  | [] :: _ => Panic
  | (b :: _) :: r => if av1_typ b =? 2 then av1_count r n else av1_count r (n + 1)
  end.

Definition av1_keep (obu : bytes) : bool :=
  match obu with [] => true | b :: _ => negb (av1_typ b =? 2) end.

Definition av1_remux (tu : list bytes) : res (list bytes) :=
  match av1_count tu 0 with
  | Panic => Panic
  | Ok n => if n =? 0 then Ok [] else place n (filter av1_keep tu)
  end.

(* ------------------------------------------------------------------ MPEG-4 Video *)

Definition vos_code : bytes := [0; 0; 1; 176].                  (* VisualObjectSequenceStartCode 0xB0 *)
Definition gov_code : bytes := [0; 0; 1; 179].                  (* GroupOfVOPStartCode 0xB3 *)

Fixpoint has_prefix (p s : bytes) : bool :=
  match p, s with
  | [], _ => true
  | x :: p', y :: s' => (x =? y) && has_prefix p' s'
  | _ :: _, [] => false
  end.

(* bytes.Index(s, pat) *)
Fixpoint index (pat s : bytes) : option nat :=
  if has_prefix pat s then Some O
  else match s with
       | [] => None
       | _ :: r => match index pat r with Some i => Some (S i) | None => None end
       end.

Definition contains (pat s : bytes) : bool := match index pat s with Some _ => true | None => false end.

(* formatUpdaterMPEG4Video: new Config and whether updateOutDesc was called.
   Config nil and empty are not distinguished by the code (bytes.Equal, copy). *)
Definition mpeg4_update (cfg frame : bytes) : bytes * bool :=
  if has_prefix vos_code frame then
    match index gov_code (skipn 4 frame) with
    | None => (cfg, false)
    | Some e =>
        let conf := firstn (e + 4) frame in
        if negb (bytes_eqb conf cfg) then (conf, true) else (cfg, false)
    end
  else (cfg, false).

(* unitRemuxerMPEG4Video (the empty result is the nil payload) *)
Definition mpeg4_remux (cfg frame : bytes) : bytes :=
  let frame1 :=
    if has_prefix vos_code frame then
      match index gov_code (skipn 4 frame) with
      | Some e => skipn (e + 4) frame
      | None => frame
      end
    else frame in
  if contains gov_code frame1 then cfg ++ frame1 else frame1.

(* ------------------------------------------------------------------ writeUnitInner *)

(* formatUpdater(outFormat, payload, updateOutDesc) ; payload = unitRemuxer(outFormat, payload) *)
Definition h264_write (st : h264_params) (au : list bytes) : res (list bytes * h264_params * bool) :=
  match h264_update st au with
  | Panic => Panic
  | Ok (st', u) => match h264_remux st' au with Panic => Panic | Ok out => Ok (out, st', u) end
  end.

Definition h265_write (st : h265_params) (au : list bytes) : res (list bytes * h265_params * bool) :=
  match h265_update st au with
  | Panic => Panic
  | Ok (st', u) => match h265_remux st' au with Panic => Panic | Ok out => Ok (out, st', u) end
  end.

Definition mpeg4_write (cfg frame : bytes) : bytes * bytes * bool :=
  let '(cfg', u) := mpeg4_update cfg frame in (mpeg4_remux cfg' frame, cfg', u).

(* every other format: no updater, identity remuxer *)
Definition other_write {A : Type} (payload : A) : A := payload.

(* a whole history of units through one stream format; stops at the first panic *)
Fixpoint h264_run (st : h264_params) (aus : list (list bytes)) : res (list (list bytes * h264_params)) :=
  match aus with
  | [] => Ok []
  | au :: r =>
      match h264_write st au with
      | Panic => Panic
      | Ok (out, st', _) =>
          match h264_run st' r with Panic => Panic | Ok l => Ok ((out, st') :: l) end
      end
  end.

Fixpoint h265_run (st : h265_params) (aus : list (list bytes)) : res (list (list bytes * h265_params)) :=
  match aus with
  | [] => Ok []
  | au :: r =>
      match h265_write st au with
      | Panic => Panic
      | Ok (out, st', _) =>
          match h265_run st' r with Panic => Panic | Ok l => Ok ((out, st') :: l) end
      end
  end.

Fixpoint mpeg4_run (cfg : bytes) (frames : list bytes) : list (bytes * bytes) :=
  match frames with
  | [] => []
  | f :: r => let '(out, cfg', _) := mpeg4_write cfg f in (out, cfg') :: mpeg4_run cfg' r
  end.
