(* Model of one pass of the record cleaner (C30):
     internal/recordcleaner/cleaner.go   doRun, processPath, deleteExpiredSegments
     internal/recordstore/segment.go     FindAllPathsWithSegments, fixedPathHasSegments,
                                         regexpPathFindPathsWithSegments, FindSegments (start = nil)
     internal/recordstore/path.go        CommonPath
   on top of Path.Decode (Model/C26_RecPath.v) and the substituted path format (Model/C31_DeleteSeg.v).
   Executable; no proofs here.

   The directory tree is a list of (absolute path, kind); filepath.WalkDir(common) visits the entries at or
   below `common` (symbolic links are not followed and count as non-directories). Record paths are absolute
   and clean, so filepath.Abs is the identity. Oracles (Section variables, shipped by the driver as tables):
     rematch i p  = confs[i].Regexp.FindStringSubmatch(p) != nil
     resolve p    = index of the configuration conf.FindPathConf(confs, p) returns (None = error)
     L            = the local zone as Decode sees it (C26: lzone - the offset time.Date applies to a wall-clock
                    reading and the offset in force at an instant); a fixed zone is fixed_lz loff, a
                    zone-database zone is lz_of_zone z (Model/C26_Zone.v).
   Instants are compared in nanoseconds since the Unix epoch. *)
From Coq Require Import List ZArith Bool.
Require Import MTX.Lib.Civil MTX.Model.C26_RecPath MTX.Model.C31_DeleteSeg.
Import ListNotations.
Local Open Scope Z_scope.

Inductive kind := KDir | KOther.           (* fs.DirEntry.IsDir() / anything else *)
Definition entry : Type := list Z * kind.

Record pconf := mkPC {
  pc_name : list Z;      (* Name (the key) *)
  pc_regex : bool;       (* Regexp != nil *)
  pc_rp : list Z;        (* RecordPath *)
  pc_ext : list Z;       (* ".mp4" or ".ts" (PathAddExtension) *)
  pc_da : Z              (* RecordDeleteAfter in nanoseconds *)
}.

Fixpoint bytes_eqb (a b : list Z) : bool :=
  match a, b with
  | [], [] => true
  | x :: a', y :: b' => (x =? y) && bytes_eqb a' b'
  | _, _ => false
  end.

(* ------------------------------------------------------------------ CommonPath *)

(* the loop of CommonPath: `acc` = common so far, `part` = bytes of the current part *)
Fixpoint common_aux (acc part s : list Z) : list Z :=
  match s with
  | [] => acc
  | c :: r =>
      if (c =? 47) || (c =? 92)
      then let part' := part ++ [c] in
           if existsb (Z.eqb 37) part' then acc else common_aux (acc ++ part') [] r
      else common_aux acc (part ++ [c]) r
  end.
Definition common_path (v : list Z) : list Z := removelast (common_aux [] [] v).

(* p is the root of the walk or lies below it *)
Definition under (root p : list Z) : bool := bytes_eqb root p || prefixb (root ++ [47]) p.

(* ------------------------------------------------------------------ conf.IsValidPathName *)

Definition path_char (c : Z) : bool :=
  ((48 <=? c) && (c <=? 57)) || ((65 <=? c) && (c <=? 90)) || ((97 <=? c) && (c <=? 122))
  || (c =? 95) || (c =? 45) || (c =? 47) || (c =? 46).

(* segments between slashes, current segment accumulated in reverse *)
Fixpoint segments (cur : list Z) (s : list Z) : list (list Z) :=
  match s with
  | [] => [rev cur]
  | c :: r => if c =? 47 then rev cur :: segments [] r else segments (c :: cur) r
  end.

Definition valid_path_name (n : list Z) : bool :=
  match n with
  | [] => false
  | c :: _ =>
      negb (c =? 47) && negb (last n 0 =? 47) && forallb path_char n
      && negb (existsb (fun sg => bytes_eqb sg [46] || bytes_eqb sg [46; 46]) (segments [] n))
  end.

(* ------------------------------------------------------------------ one pass *)

Section Cleaner.
Variable L : lzone.
Variable rematch : nat -> list Z -> bool.
Variable resolve : list Z -> option nat.

Definition is_file (e : entry) : bool := match snd e with KOther => true | KDir => false end.

(* the body of the three WalkDir callbacks: a non-directory at or below CommonPath(g) whose name Decode accepts *)
Definition recognises (g : list Z) (e : entry) : option (list Z * Z * Z) :=
  if is_file e && under (common_path g) (fst e) then decode_lz L g (fst e) else None.

Definition seg_format (c : pconf) (pn : list Z) : list Z := path_format (pc_rp c) (pc_ext c) pn.

(* fixedPathHasSegments *)
Definition fixed_has_segments (c : pconf) (tree : list entry) : bool :=
  existsb (fun e => match recognises (seg_format c (pc_name c)) e with Some _ => true | None => false end) tree.

(* regexpPathFindPathsWithSegments: the format keeps %path; the captured name must be valid and match *)
Definition regex_names (i : nat) (c : pconf) (tree : list entry) : list (list Z) :=
  flat_map (fun e => match recognises (pc_rp c ++ pc_ext c) e with
                     | Some (p, _, _) => if valid_path_name p && rematch i p then [p] else []
                     | None => []
                     end) tree.

(* FindAllPathsWithSegments (as a list with repetitions; the code sorts a set — only membership matters) *)
Definition path_names (confs : list pconf) (tree : list entry) : list (list Z) :=
  flat_map (fun ic => let '(i, c) := ic in
                      if pc_regex c then regex_names i c tree
                      else if fixed_has_segments c tree then [pc_name c] else [])
           (combine (seq 0 (length confs)) confs).

Definition start_ns (u n : Z) : Z := u * 1000000000 + n.

(* processPath -> deleteExpiredSegments -> FindSegments(pathConf, pathName, nil, &end): is e removed for path pn? *)
Definition claimed (confs : list pconf) (now : Z) (pn : list Z) (e : entry) : bool :=
  match resolve pn with
  | Some j =>
      match nth_error confs j with
      | Some c =>
          negb (pc_da c =? 0) && valid_path_name pn &&
          match recognises (seg_format c pn) e with
          | Some (_, u, n) => start_ns u n <=? now - pc_da c
          | None => false
          end
      | None => false
      end
  | None => false
  end.

(* the set of entries removed by doRun *)
Definition deleted (confs : list pconf) (now : Z) (tree : list entry) : list entry :=
  filter (fun e => existsb (fun pn => claimed confs now pn e) (path_names confs tree)) tree.

(* doRun as the code runs it: the path names are computed once, then each path is processed against the
   tree left by the previous ones *)
Definition step (confs : list pconf) (now : Z) (tr : list entry) (pn : list Z) : list entry :=
  filter (fun e => negb (claimed confs now pn e)) tr.
Definition run_seq (confs : list pconf) (now : Z) (tree : list entry) : list entry :=
  fold_left (step confs now) (path_names confs tree) tree.

End Cleaner.
