(* Model of the unit fan-out of internal/stream (stream.go AddReader/RemoveReader, reader.go start/stop/run/push,
   sub_stream.go WriteUnit, sub_stream_format.go writeUnitInner fan-out) together with the ring buffer that backs the
   per-reader queue (gortsplib/v5 pkg/ringbuffer: New/Push/Pull/Close).  Executable; no proofs here.

   The model is a labelled transition system.  A label is one atomic step of the real code, i.e. a piece of code
   executed while holding Stream.mutex and/or the ring-buffer mutex:

     Write ss f u      SubStream.WriteUnit on sub-stream ss, format f, unit u (whole call, under Stream.mutex.RLock):
                       stale guard, then for every reader in streamFormat.onDatas: Reader.push (ring Push, and
                       outboundFramesDiscarded.Increase() when Push answers false)
     ReaderPull r      one completed call of r.buffer.Pull() in Reader.runInner (under the ring mutex): either an item
                       comes out (its callback starts) or Pull answers false (buffer closed) and the goroutine exits
     ReaderDone r ok   the callback of the item in flight returns (nil / an error: runInner returns the error)
     OnData r m f      Reader.OnData(media m, format f, cb) on a reader that was not added yet: r.onDatas[m][f] = cb
                       (the inner map is made when r.onDatas[m] is nil); touches the Reader object only
     AddReader r       Stream.AddReader: Reader.start (new ring, goroutine), then under Stream.mutex.Lock: for every
                       media m and format f in r.onDatas: Stream.medias[m].formats[f].onDatas[r] = cb
     RemoveBegin r     first half of Stream.RemoveReader, under Stream.mutex.Lock: delete from every onDatas
     RemoveClose r     Reader.stop: r.buffer.Close() (under the ring mutex): pending items are discarded
     RemoveJoin r      Reader.stop: <-r.err returns (only possible once the reader goroutine has left runInner)
     NewSub ss         SubStream.Initialize under Stream.mutex.Lock: Stream.subStream = ss

   A stream format is identified the way the code identifies it: by the pair (media, format) that indexes
   Stream.medias[m].formats[f] (one media may carry several formats).  Items are pairs ((media, format), unit tag);
   medias, formats, readers, sub-streams and units are identified by integers. *)
From Coq Require Import List ZArith Bool Arith.
Import ListNotations.

Definition fkey := (Z * Z)%type.          (* (media, format): the key of Stream.medias[m].formats[f] *)
Definition item := (fkey * Z)%type.       (* ((media, format), unit tag) *)

(* ---- gortsplib ringbuffer ------------------------------------------------------------------- *)
Record ring := {
  rb_size : nat;
  rb_slots : list (option item);   (* buffer []any, nil = None *)
  rb_ri : nat;                     (* readIndex *)
  rb_wi : nat;                     (* writeIndex *)
  rb_closed : bool;
}.

Definition rb_new (n : nat) : ring :=
  {| rb_size := n; rb_slots := repeat None n; rb_ri := 0; rb_wi := 0; rb_closed := false |}.

Fixpoint upd {A} (i : nat) (v : A) (l : list A) : list A :=
  match l, i with
  | [], _ => []
  | _ :: t, O => v :: t
  | h :: t, S k => h :: upd k v t
  end.

Definition slot (rb : ring) (i : nat) : option item := nth i (rb_slots rb) None.

(* Push: fails iff the slot at the write index is occupied (it does not look at `closed`) *)
Definition rb_push (rb : ring) (x : item) : ring * bool :=
  match slot rb (rb_wi rb) with
  | Some _ => (rb, false)
  | None => ({| rb_size := rb_size rb; rb_slots := upd (rb_wi rb) (Some x) (rb_slots rb); rb_ri := rb_ri rb;
                rb_wi := (rb_wi rb + 1) mod rb_size rb; rb_closed := rb_closed rb |}, true)
  end.

Inductive pull_res := PullItem (rb : ring) (x : item) | PullClosed | PullBlock.

(* Pull: data first, then the closed flag, else wait on the condition variable *)
Definition rb_pull (rb : ring) : pull_res :=
  match slot rb (rb_ri rb) with
  | Some x => PullItem {| rb_size := rb_size rb; rb_slots := upd (rb_ri rb) None (rb_slots rb);
                          rb_ri := (rb_ri rb + 1) mod rb_size rb; rb_wi := rb_wi rb; rb_closed := rb_closed rb |} x
  | None => if rb_closed rb then PullClosed else PullBlock
  end.

(* Close: closed = true and every slot cleared; the indexes are left alone *)
Definition rb_close (rb : ring) : ring :=
  {| rb_size := rb_size rb; rb_slots := repeat None (rb_size rb); rb_ri := rb_ri rb; rb_wi := rb_wi rb;
     rb_closed := true |}.

Definition occupancy (rb : ring) : nat := length (filter (fun o => match o with Some _ => true | None => false end) (rb_slots rb)).

(* ---- readers ---------------------------------------------------------------------------------- *)
Inductive phase := Attached | Unsubscribed | Closed | Joined.
Inductive gstate := Idle | Busy (x : item) | Exited.

Record reader := {
  r_subs : list fkey;       (* the (media, format) pairs of r.onDatas, as the nested loops of AddReader/RemoveReader visit them *)
  r_phase : phase;          (* progress of RemoveReader for this reader *)
  r_buf : ring;
  r_go : gstate;            (* the goroutine of Reader.run *)
  r_discarded : nat;        (* outboundFramesDiscarded (absolute counter) *)
  r_delivered : list item;  (* callbacks that have returned *)
}.

Definition inflight (rd : reader) : list item := match r_go rd with Busy x => [x] | _ => [] end.

Definition with_buf (rd : reader) (b : ring) : reader :=
  {| r_subs := r_subs rd; r_phase := r_phase rd; r_buf := b; r_go := r_go rd; r_discarded := r_discarded rd;
     r_delivered := r_delivered rd |}.
Definition with_phase (rd : reader) (p : phase) : reader :=
  {| r_subs := r_subs rd; r_phase := p; r_buf := r_buf rd; r_go := r_go rd; r_discarded := r_discarded rd;
     r_delivered := r_delivered rd |}.
Definition with_go (rd : reader) (g : gstate) : reader :=
  {| r_subs := r_subs rd; r_phase := r_phase rd; r_buf := r_buf rd; r_go := g; r_discarded := r_discarded rd;
     r_delivered := r_delivered rd |}.

(* Reader.push *)
Definition push_rd (x : item) (rd : reader) : reader :=
  let (b, ok) := rb_push (r_buf rd) x in
  if ok then with_buf rd b
  else {| r_subs := r_subs rd; r_phase := r_phase rd; r_buf := r_buf rd; r_go := r_go rd;
          r_discarded := S (r_discarded rd); r_delivered := r_delivered rd |}.

(* ---- the stream --------------------------------------------------------------------------------- *)
Definition memZ (x : Z) (l : list Z) : bool := existsb (Z.eqb x) l.

Definition keyb (a b : fkey) : bool := Z.eqb (fst a) (fst b) && Z.eqb (snd a) (snd b).
Definition memK (k : fkey) (l : list fkey) : bool := existsb (keyb k) l.

(* Reader.onDatas: map[*Media]map[Format]OnDataFunc, as an association list media -> formats *)
Definition rmap := list (Z * list Z).

(* Reader.OnData(m, f, cb):  if r.onDatas[m] == nil { r.onDatas[m] = make(...) };  r.onDatas[m][f] = cb *)
Fixpoint on_data (od : rmap) (m f : Z) : rmap :=
  match od with
  | [] => [(m, [f])]
  | (m', fs) :: t => if Z.eqb m' m then (m', if memZ f fs then fs else fs ++ [f]) :: t
                     else (m', fs) :: on_data t m f
  end.

(* for media, formats := range r.onDatas { for format := range formats { ... } } *)
Definition keys_of (od : rmap) : list fkey := flat_map (fun e => map (fun f => (fst e, f)) (snd e)) od.

Record state := {
  s_formats : list fkey;            (* the (media, format) pairs of the stream *)
  s_qsize : nat;                    (* WriteQueueSize *)
  s_cur : option Z;                 (* Stream.subStream *)
  s_onDatas : fkey -> list Z;       (* Stream.medias[m].formats[f].onDatas: the readers subscribed to (m, f) *)
  s_prep : Z -> rmap;               (* r.onDatas of the Reader objects (filled by OnData before AddReader) *)
  s_readers : Z -> option reader;
}.

Definition init (fmts : list fkey) (n : nat) : state :=
  {| s_formats := fmts; s_qsize := n; s_cur := None; s_onDatas := fun _ => []; s_prep := fun _ => [];
     s_readers := fun _ => None |}.

Definition set_reader (rs : Z -> option reader) (r : Z) (rd : reader) : Z -> option reader :=
  fun k => if Z.eqb k r then Some rd else rs k.

Definition push_to (x : item) (rs : Z -> option reader) (r : Z) : Z -> option reader :=
  match rs r with
  | Some rd => set_reader rs r (push_rd x rd)
  | None => rs
  end.

Definition with_readers (s : state) (rs : Z -> option reader) : state :=
  {| s_formats := s_formats s; s_qsize := s_qsize s; s_cur := s_cur s; s_onDatas := s_onDatas s; s_prep := s_prep s;
     s_readers := rs |}.

(* the fan-out of writeUnitInner for format k *)
Definition deliver (s : state) (k : fkey) (u : Z) : state :=
  with_readers s (fold_left (push_to (k, u)) (s_onDatas s k) (s_readers s)).

Definition opt_eqb (a : option Z) (b : Z) : bool := match a with Some x => Z.eqb x b | None => false end.

Inductive label :=
| Write (ss : Z) (k : fkey) (u : Z)
| ReaderPull (r : Z)
| ReaderDone (r : Z) (ok : bool)
| OnData (r m f : Z)
| AddReader (r : Z)
| RemoveBegin (r : Z)
| RemoveClose (r : Z)
| RemoveJoin (r : Z)
| NewSub (ss : Z).

(* None = the step is not enabled in this state (the goroutine that would perform it is blocked, or the call
   violates a precondition of the API: unknown format, reader added twice, OnData after AddReader) *)
Definition step (s : state) (l : label) : option state :=
  match l with
  | Write ss f u =>
      if negb (memK f (s_formats s)) then None
      else if opt_eqb (s_cur s) ss
           then Some (deliver s f u)
           else Some s                                 (* if ss.Stream.subStream != ss { return } *)
  | ReaderPull r =>
      match s_readers s r with
      | Some rd =>
          match r_go rd with
          | Idle =>
              match rb_pull (r_buf rd) with
              | PullItem b x => Some (with_readers s (set_reader (s_readers s) r (with_go (with_buf rd b) (Busy x))))
              | PullClosed => Some (with_readers s (set_reader (s_readers s) r (with_go rd Exited)))
              | PullBlock => None
              end
          | _ => None
          end
      | None => None
      end
  | ReaderDone r ok =>
      match s_readers s r with
      | Some rd =>
          match r_go rd with
          | Busy x =>
              Some (with_readers s (set_reader (s_readers s) r
                      {| r_subs := r_subs rd; r_phase := r_phase rd; r_buf := r_buf rd;
                         r_go := if ok then Idle else Exited;
                         r_discarded := r_discarded rd; r_delivered := r_delivered rd ++ [x] |}))
          | _ => None
          end
      | None => None
      end
  | OnData r m f =>
      match s_readers s r with
      | Some _ => None
      | None =>
          Some {| s_formats := s_formats s; s_qsize := s_qsize s; s_cur := s_cur s; s_onDatas := s_onDatas s;
                  s_prep := fun x => if Z.eqb x r then on_data (s_prep s r) m f else s_prep s x;
                  s_readers := s_readers s |}
      end
  | AddReader r =>
      match s_readers s r with
      | Some _ => None
      | None =>
          let fmts := keys_of (s_prep s r) in
          if forallb (fun f => memK f (s_formats s)) fmts then
            Some {| s_formats := s_formats s; s_qsize := s_qsize s; s_cur := s_cur s;
                    s_onDatas := fun f => if memK f fmts then r :: s_onDatas s f else s_onDatas s f;
                    s_prep := s_prep s;
                    s_readers := set_reader (s_readers s) r
                      {| r_subs := fmts; r_phase := Attached; r_buf := rb_new (s_qsize s); r_go := Idle;
                         r_discarded := 0; r_delivered := [] |} |}
          else None
      end
  | RemoveBegin r =>
      match s_readers s r with
      | Some rd =>
          match r_phase rd with
          | Attached =>
              Some {| s_formats := s_formats s; s_qsize := s_qsize s; s_cur := s_cur s;
                      s_onDatas := fun f => if memK f (r_subs rd) then remove Z.eq_dec r (s_onDatas s f)
                                            else s_onDatas s f;
                      s_prep := s_prep s;
                      s_readers := set_reader (s_readers s) r (with_phase rd Unsubscribed) |}
          | _ => None
          end
      | None => None
      end
  | RemoveClose r =>
      match s_readers s r with
      | Some rd =>
          match r_phase rd with
          | Unsubscribed =>
              Some (with_readers s (set_reader (s_readers s) r (with_phase (with_buf rd (rb_close (r_buf rd))) Closed)))
          | _ => None
          end
      | None => None
      end
  | RemoveJoin r =>
      match s_readers s r with
      | Some rd =>
          match r_phase rd, r_go rd with
          | Closed, Exited => Some (with_readers s (set_reader (s_readers s) r (with_phase rd Joined)))
          | _, _ => None
          end
      | None => None
      end
  | NewSub ss =>
      Some {| s_formats := s_formats s; s_qsize := s_qsize s; s_cur := Some ss; s_onDatas := s_onDatas s;
              s_prep := s_prep s; s_readers := s_readers s |}
  end.

Fixpoint run (s : state) (ls : list label) : option state :=
  match ls with
  | [] => Some s
  | l :: t => match step s l with Some s1 => run s1 t | None => None end
  end.

(* ---- specification vocabulary (definitions only) ------------------------------------------------ *)

(* l1 is a subsequence of l2: same relative order, every position of l2 used at most once *)
Inductive subseq {A} : list A -> list A -> Prop :=
| subseq_nil : subseq [] []
| subseq_skip l1 l2 x : subseq l1 l2 -> subseq l1 (x :: l2)
| subseq_take l1 l2 x : subseq l1 l2 -> subseq (x :: l1) (x :: l2).

(* What the statement of the property calls "the units written by the current publisher to the formats reader r
   subscribed to": read off the labels alone.  The monitor remembers which sub-stream is the current one (last
   NewSub), which (media, format) pairs r asked for (its OnData labels, in call order), and whether r is attached
   (between AddReader r and RemoveBegin r). *)
Record mon := { m_cur : option Z; m_pre : list fkey; m_att : option (list fkey); m_off : list item }.

Definition mon_init : mon := {| m_cur := None; m_pre := []; m_att := None; m_off := [] |}.

Definition mon_step (r : Z) (m : mon) (l : label) : mon :=
  match l with
  | NewSub ss => {| m_cur := Some ss; m_pre := m_pre m; m_att := m_att m; m_off := m_off m |}
  | OnData r' md f =>
      if Z.eqb r' r then {| m_cur := m_cur m; m_pre := m_pre m ++ [(md, f)]; m_att := m_att m; m_off := m_off m |} else m
  | AddReader r' =>
      if Z.eqb r' r then {| m_cur := m_cur m; m_pre := m_pre m; m_att := Some (m_pre m); m_off := m_off m |} else m
  | RemoveBegin r' =>
      if Z.eqb r' r then {| m_cur := m_cur m; m_pre := m_pre m; m_att := None; m_off := m_off m |} else m
  | Write ss f u =>
      match m_att m with
      | Some fmts => if opt_eqb (m_cur m) ss && memK f fmts
                     then {| m_cur := m_cur m; m_pre := m_pre m; m_att := m_att m; m_off := m_off m ++ [(f, u)] |} else m
      | None => m
      end
  | _ => m
  end.

Definition offered (r : Z) (ls : list label) : list item := m_off (fold_left (mon_step r) ls mon_init).

(* the (media, format) pairs reader r asked for: its OnData labels *)
Definition asked (r : Z) (ls : list label) : list fkey := m_pre (fold_left (mon_step r) ls mon_init).

(* all ((media, format), unit) triples written by anybody, in write order *)
Fixpoint all_writes (ls : list label) : list item :=
  match ls with
  | [] => []
  | Write _ f u :: t => (f, u) :: all_writes t
  | _ :: t => all_writes t
  end.

(* the ring holds exactly q, oldest first (read side) ... *)
Definition ring_holds (rb : ring) (q : list item) : Prop :=
  length (rb_slots rb) = rb_size rb /\ rb_ri rb < rb_size rb /\ length q <= rb_size rb /\
  forall j, j < rb_size rb -> slot rb j = nth_error q ((j + rb_size rb - rb_ri rb) mod rb_size rb).

(* ... and the write index is where the next item belongs *)
Definition ring_ok (rb : ring) (q : list item) : Prop :=
  ring_holds rb q /\ rb_wi rb = (rb_ri rb + length q) mod rb_size rb.
