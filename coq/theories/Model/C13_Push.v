(* The in-place reload statements of Core.closeResources, each with ITS OWN guard:
     if !close<G> && [p.<T> != nil &&] changed(F) { p.<T>.Reload…(newConf.F) }          as (G, T, F)
   (generated from core.go on every run: gen/C13_CoreDeps.v, core_pushes).  Model/C13_Reload.v's close_pass assumes G = T
   (row T lists F in `reloads`); here the statement list is modelled as written, the decidable conditions under which
   both agree are given (misguarded / unpushed), and a guard taken from another component is refuted (Proofs/C13_Push.v). *)
From Coq Require Import List String ZArith Bool.
Require Import MTX.Model.C13_Reload.
Import ListNotations.
Local Open Scope string_scope.
Local Open Scope list_scope.

Definition pushstmt := (string * string * string)%type.
Definition pg (p : pushstmt) : string := fst (fst p).   (* component whose close variable guards the statement *)
Definition pt (p : pushstmt) : string := snd (fst p).   (* component pushed into *)
Definition pf (p : pushstmt) : string := snd p.         (* configuration field compared and handed over *)

(* some statement hands field f to component c, and its guard variable is false *)
Definition due (env : list (string * bool)) (pushes : list pushstmt) (c f : string) : bool :=
  existsb (fun p => String.eqb (pt p) c && String.eqb (pf p) f && negb (lookupb (pg p) env)) pushes.

Definition push_g (env : list (string * bool)) (pushes : list pushstmt) (old new : conf) (c : string) (i : inst) : inst :=
  {| gen := gen i;
     hval := fun f => if due env pushes c f && negb (Z.eqb (val (old f)) (val (new f))) then val (new f) else hval i f;
     href := href i |}.

(* closeResources: the close variables are computed, the in-place statements run on the components still standing
   (`p.<T> != nil`), then the closed components are torn down *)
Definition close_pass_g (tbl : list row) (pushes : list pushstmt) (ptrs : list string) (old new : conf) (s : state) : state :=
  let env := eval_rows ptrs old new tbl [] in
  fun c => match find (fun r => String.eqb (comp r) c) tbl with
           | None => s c
           | Some r => match s c with
                       | None => None
                       | Some i => if lookupb c env then None else Some (push_g env pushes old new c i)
                       end
           end.

Section Live.
Variable atomv : string -> string -> Z -> bool.
Definition reload_g (n : Z) (tbl : list row) (pushes : list pushstmt) (ptrs : list string) (old new : conf) (s : state) : state :=
  create atomv n new tbl (close_pass_g tbl pushes ptrs old new s).
End Live.

(* ---- decidable checks ---- *)

(* statements whose guard is another component's close variable, or that hand over a field the target's row does not list *)
Definition bad_push (tbl : list row) (p : pushstmt) : bool :=
  negb (String.eqb (pg p) (pt p))
  || negb (match find (fun r => String.eqb (comp r) (pt p)) tbl with Some r => mem (pf p) (reloads r) | None => false end).
Definition misguarded (tbl : list row) (pushes : list pushstmt) : list pushstmt := filter (bad_push tbl) pushes.

(* (component, field): listed in `reloads` but no statement `if !close<comp> … { p.<comp>.Reload(newConf.field) }` *)
Definition unpushed (tbl : list row) (pushes : list pushstmt) : list (string * string) :=
  flat_map (fun r => map (fun f => (comp r, f))
              (filter (fun f => negb (existsb (fun p => String.eqb (pg p) (comp r) && String.eqb (pt p) (comp r) && String.eqb (pf p) f) pushes))
                      (reloads r))) tbl.

(* observational equality of running components / states (instances hold functions) *)
Definition inst_eq (i j : inst) : Prop :=
  gen i = gen j /\ (forall f, hval i f = hval j f) /\ (forall d, href i d = href j d).
Definition st_eq (s s' : state) : Prop :=
  forall c, match s c, s' c with
            | Some i, Some j => inst_eq i j
            | None, None => True
            | _, _ => False
            end.
