(* C40 — model of the Core-level rendezvous protocol (internal/core/core.go, internal/api, internal/protocols/httpp):

     Core.run            the select loop: the six chAPIConfig* request channels (request / response rendezvous),
                         confChanged (the configuration watcher's signal), the interrupt signal, p.ctx.Done()
     reloadConf          closeResources(newConf) ; store ; createResources(false)
     closeResources      ... confWatcher.Close() (only when shutting down) ; API server ; the other resources
     closeAPI            (fix 90f555e) `go api.Close()`, and until it has returned: receive configuration requests and
                         answer "terminated"
     api.Close           httpp.Server.Close: ln.Close() ; http.Server.Shutdown(2 s) ; handlerTracker.close() =
                         { closed = true ; wg.Wait() }  -- waits, WITHOUT timeout, for every running handler
     API handler         handlerTracker.ServeHTTP (refused when closed, else wg.Add) ; gin handler: read and decode the
                         body ; Core.APIConfig*: select { p.ch* <- req ; <-p.ctx.Done() } ; <-req.res ; write the
                         response ; return (wg.Done)
     confwatcher.run     blocked at select { w.signal <- ; <-w.terminate } when the file has changed

   Executable; no proofs here.  All channels are unbuffered: a send and the matching receive branch are ONE step.

   [refuse] = closeAPI refuses requests while the API server is being closed (true = the code after 90f555e;
   false = the code before it: closeResources called p.api.Close() itself, and nobody received from the channels
   meanwhile).  In both variants the automaton of api.Close is [ac]; with refuse=false it is Core.run's own goroutine
   that executes it, so the core simply has no other step while [ac] is not AcDone.

   Core.run  (co)
     CoIdle              the main select
     CoAnswer h ok ca    a request of handler h was received, doAPIConfig* has run (ok = accepted; ca = the accepted
                         configuration needs a new API server: apiAddress, readTimeout, logLevel... differ), at
                         `req.res <- err`
     CoCloseRes ca fin   in closeResources, before the API server (fin = newConf == nil = shutting down)
     CoApiClosing fin    in closeAPI's select (refuse) / inside p.api.Close() (not refuse)
     CoRefuse h fin      in closeAPI, at `req.res <- terminated`
     CoRest fin          API server dealt with: the other resources; then createResources (not fin) or close(p.done)
     CoExit              after `break outer`: p.ctxCancel(), then closeResources(nil)
     CoWClose            closeResources(nil): confWatcher.Close() = close(terminate) ; <-w.done
     CoDone              close(p.done)

   api.Close (ac):  AcNone | AcShutdown (listener closed; in http.Server.Shutdown, which returns when every connection
                    is idle or after 2 s) | AcTracker (tracker closed: new requests are refused; in wg.Wait()) | AcDone
   watcher (wt):    WtIdle | WtSending | WtDone
   handler h:       HdNone | HdBody (reading / decoding the request body: returns when the client has sent it, or with
                    an error after readTimeout) | HdSend | HdWait | HdWrite r | HdDone r *)
From Coq Require Import List Arith Bool.
Import ListNotations.

Definition hid := nat.

(* what the client gets: accepted, rejected by doAPIConfig*, "terminated" from closeAPI, "terminated" from
   <-p.ctx.Done(), body not readable / not decodable, a request that does not talk to Core.run (GET ...) *)
Inductive hres := RsOk | RsRej | RsRefused | RsCtx | RsBad | RsRead.

Inductive hd_pc := HdNone | HdBody | HdSend | HdWait | HdWrite (r : hres) | HdDone (r : hres).

Inductive co_pc :=
| CoIdle
| CoAnswer (h : hid) (ok ca : bool)
| CoCloseRes (ca fin : bool)
| CoApiClosing (fin : bool)
| CoRefuse (h : hid) (fin : bool)
| CoRest (fin : bool)
| CoExit
| CoWClose
| CoDone.

Inductive ac_pc := AcNone | AcShutdown | AcTracker | AcDone.
Inductive wt_pc := WtIdle | WtSending | WtDone.

Record kstate := mkK {
  co : co_pc;
  ac : ac_pc;
  wt : wt_pc;
  hd : hid -> hd_pc;
  nh : nat;              (* handlers 0 .. nh-1 have been started *)
  kctx : bool;           (* p.ctx cancelled *)
  intr : bool;           (* a signal is waiting in the (buffered) interrupt channel *)
  wterm : bool;          (* close(w.terminate) done *)
  api_up : bool;         (* p.api != nil *)
  tr_open : bool;        (* the tracker of that API server accepts requests *)
}.

Inductive hkind := KdEdit | KdRead.

Inductive klabel :=
(* environment *)
| QSpawn (k : hkind)            (* a request passes the tracker of the current API server *)
| QFileChanged                  (* the watcher has seen a change and goes to `w.signal <-` *)
| QInterrupt                    (* SIGINT / SIGTERM *)
| QCancel                       (* Core.Close(): p.ctxCancel() *)
(* handlers *)
| QHBody (h : hid) (ok : bool)  (* body read and decoded (ok) or not *)
| QHEsc (h : hid)               (* <-p.ctx.Done() in Core.APIConfig* *)
| QHRet (h : hid)               (* response written, handler returns: wg.Done *)
(* Core.run *)
| QCoRecv (h : hid) (ok ca : bool)
| QCoAns
| QCoConf (loaded ca : bool)    (* <-confChanged ; conf.Load: ok or not *)
| QCoIntr
| QCoCtx
| QCoExit
| QCoWClosed
| QCoCloseApi
| QCoRefRecv (h : hid)
| QCoRefAns
| QCoApiClosed
| QCoRest (created api : bool)  (* createResources: succeeded or not; the new configuration has api: yes *)
(* api.Close *)
| QAcShutdown
| QAcDone
(* watcher *)
| QWtTerm.

Definition kinternal (l : klabel) : bool :=
  match l with QSpawn _ | QFileChanged | QInterrupt | QCancel => false | _ => true end.

Definition hset (f : hid -> hd_pc) (h : hid) (v : hd_pc) : hid -> hd_pc :=
  fun x => if Nat.eqb x h then v else f x.

Definition hd_live (x : hd_pc) : bool := match x with HdNone | HdDone _ => false | _ => true end.

(* no handler is running: the condition of wg.Wait() *)
Definition none_live (s : kstate) : bool := forallb (fun h => negb (hd_live (hd s h))) (seq 0 (nh s)).

Definition with_co (s : kstate) (c : co_pc) : kstate :=
  mkK c (ac s) (wt s) (hd s) (nh s) (kctx s) (intr s) (wterm s) (api_up s) (tr_open s).
Definition with_hd (s : kstate) (h : hid) (v : hd_pc) : kstate :=
  mkK (co s) (ac s) (wt s) (hset (hd s) h v) (nh s) (kctx s) (intr s) (wterm s) (api_up s) (tr_open s).
Definition with_ac (s : kstate) (a : ac_pc) : kstate :=
  mkK (co s) a (wt s) (hd s) (nh s) (kctx s) (intr s) (wterm s) (api_up s) (tr_open s).
Definition with_wt (s : kstate) (w : wt_pc) : kstate :=
  mkK (co s) (ac s) w (hd s) (nh s) (kctx s) (intr s) (wterm s) (api_up s) (tr_open s).

Definition is_send (x : hd_pc) : bool := match x with HdSend => true | _ => false end.
Definition is_wait (x : hd_pc) : bool := match x with HdWait => true | _ => false end.

Definition kstep (refuse : bool) (s : kstate) (l : klabel) : option kstate :=
  match l with
  | QSpawn k =>
      if api_up s && tr_open s then
        Some (mkK (co s) (ac s) (wt s)
                  (hset (hd s) (nh s) match k with KdEdit => HdBody | KdRead => HdWrite RsRead end)
                  (S (nh s)) (kctx s) (intr s) (wterm s) (api_up s) (tr_open s))
      else None
  | QFileChanged => match wt s with WtIdle => Some (with_wt s WtSending) | _ => None end
  | QInterrupt => Some (mkK (co s) (ac s) (wt s) (hd s) (nh s) (kctx s) true (wterm s) (api_up s) (tr_open s))
  | QCancel => Some (mkK (co s) (ac s) (wt s) (hd s) (nh s) true (intr s) (wterm s) (api_up s) (tr_open s))

  | QHBody h ok =>
      match hd s h with
      | HdBody => Some (with_hd s h (if ok then HdSend else HdWrite RsBad))
      | _ => None
      end
  | QHEsc h =>
      match hd s h with
      | HdSend => if kctx s then Some (with_hd s h (HdWrite RsCtx)) else None
      | _ => None
      end
  | QHRet h =>
      match hd s h with
      | HdWrite r => Some (with_hd s h (HdDone r))
      | _ => None
      end

  | QCoRecv h ok ca =>
      match co s with
      | CoIdle => if is_send (hd s h) then Some (with_co (with_hd s h HdWait) (CoAnswer h ok ca)) else None
      | _ => None
      end
  | QCoAns =>
      match co s with
      | CoAnswer h ok ca =>
          if is_wait (hd s h)
          then Some (with_co (with_hd s h (HdWrite (if ok then RsOk else RsRej)))
                             (if ok then CoCloseRes ca false else CoIdle))
          else None
      | _ => None
      end
  | QCoConf loaded ca =>
      match co s, wt s with
      | CoIdle, WtSending => Some (with_co (with_wt s WtIdle) (if loaded then CoCloseRes ca false else CoExit))
      | _, _ => None
      end
  | QCoIntr =>
      match co s with
      | CoIdle => if intr s
                  then Some (mkK CoExit (ac s) (wt s) (hd s) (nh s) (kctx s) false (wterm s) (api_up s) (tr_open s))
                  else None
      | _ => None
      end
  | QCoCtx =>
      match co s with
      | CoIdle => if kctx s then Some (with_co s CoExit) else None
      | _ => None
      end
  | QCoExit =>
      match co s with
      | CoExit => Some (mkK CoWClose (ac s) (wt s) (hd s) (nh s) true (intr s) true (api_up s) (tr_open s))
      | _ => None
      end
  | QCoWClosed =>
      match co s, wt s with
      | CoWClose, WtDone => Some (with_co s (CoCloseRes true true))
      | _, _ => None
      end
  | QCoCloseApi =>
      match co s with
      | CoCloseRes ca fin =>
          if api_up s && ca
          then Some (with_ac (with_co s (CoApiClosing fin)) AcShutdown)
          else Some (with_co s (CoRest fin))
      | _ => None
      end
  | QCoRefRecv h =>
      match co s with
      | CoApiClosing fin =>
          if refuse && is_send (hd s h) then Some (with_co (with_hd s h HdWait) (CoRefuse h fin)) else None
      | _ => None
      end
  | QCoRefAns =>
      match co s with
      | CoRefuse h fin =>
          if is_wait (hd s h) then Some (with_co (with_hd s h (HdWrite RsRefused)) (CoApiClosing fin)) else None
      | _ => None
      end
  | QCoApiClosed =>
      match co s, ac s with
      | CoApiClosing fin, AcDone =>
          Some (mkK (CoRest fin) AcNone (wt s) (hd s) (nh s) (kctx s) (intr s) (wterm s) false false)
      | _, _ => None
      end
  | QCoRest created api =>
      match co s with
      | CoRest true => Some (with_co s CoDone)
      | CoRest false =>
          if created
          then if api_up s then Some (with_co s CoIdle)
               else Some (mkK CoIdle (ac s) (wt s) (hd s) (nh s) (kctx s) (intr s) (wterm s) api api)
          else Some (with_co s CoExit)
      | _ => None
      end

  | QAcShutdown =>
      match ac s with
      | AcShutdown => Some (mkK (co s) AcTracker (wt s) (hd s) (nh s) (kctx s) (intr s) (wterm s) (api_up s) false)
      | _ => None
      end
  | QAcDone =>
      match ac s with
      | AcTracker => if none_live s then Some (with_ac s AcDone) else None
      | _ => None
      end

  | QWtTerm =>
      match wt s with
      | WtDone => None
      | _ => if wterm s then Some (with_wt s WtDone) else None
      end
  end.

Fixpoint krun (refuse : bool) (s : kstate) (ls : list klabel) : option kstate :=
  match ls with
  | [] => Some s
  | l :: r => match kstep refuse s l with Some s' => krun refuse s' r | None => None end
  end.

(* a Core started with api: yes (with api: no nothing of this can happen: no handler ever exists) *)
Definition kinit : kstate :=
  mkK CoIdle AcNone WtIdle (fun _ => HdNone) 0 false false false true true.

Inductive kreachable (refuse : bool) : kstate -> Prop :=
| kreach_init : kreachable refuse kinit
| kreach_step : forall s l s', kreachable refuse s -> kstep refuse s l = Some s' -> kreachable refuse s'.

(* every started request has been answered (accepted, rejected, refused, ...) and its handler has returned *)
Definition all_answered (s : kstate) : Prop := forall h, h < nh s -> exists r, hd s h = HdDone r.

(* nobody is inside an operation: Core.run is in its main select with nothing to receive (or has terminated), api.Close
   is not running, every handler has returned *)
Definition kquiescent (s : kstate) : Prop :=
  all_answered s /\ ac s = AcNone /\
  (co s = CoDone \/ (co s = CoIdle /\ kctx s = false /\ intr s = false /\ wt s <> WtSending)).

Definition kterminated (s : kstate) : Prop := co s = CoDone /\ all_answered s /\ wt s = WtDone /\ api_up s = false.

(* ---- termination measure ---------------------------------------------------------------------------------------- *)
Definition w_co (c : co_pc) : nat :=
  match c with
  | CoDone => 0
  | CoRest true => 1
  | CoApiClosing true => 2
  | CoRefuse _ true => 3
  | CoCloseRes _ true => 5
  | CoWClose => 6
  | CoExit => 8
  | CoIdle => 9
  | CoRest false => 10
  | CoApiClosing false => 11
  | CoRefuse _ false => 12
  | CoCloseRes _ false => 14
  | CoAnswer _ _ _ => 15
  end.
Definition w_ac (a : ac_pc) : nat := match a with AcShutdown => 2 | AcTracker => 1 | _ => 0 end.
Definition w_wt (w : wt_pc) : nat := match w with WtIdle => 1 | WtSending => 8 | WtDone => 0 end.
Definition w_hd (x : hd_pc) : nat :=
  match x with HdBody => 21 | HdSend => 20 | HdWait => 2 | HdWrite _ => 1 | _ => 0 end.

Fixpoint ksum (n : nat) (f : nat -> nat) : nat := match n with O => 0 | S k => ksum k f + f k end.

Definition kmeasure (s : kstate) : nat :=
  w_co (co s) + w_ac (ac s) + w_wt (wt s) + ksum (nh s) (fun h => w_hd (hd s h)).
