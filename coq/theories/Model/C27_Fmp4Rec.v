(* C27 — byte layout of a recorded fMP4 segment, the crash model, and what the reader recovers.

   Writer (internal/recorder/format_fmp4_segment.go, format_fmp4_part.go): a segment file is created by the first
   closeCurPart; the writes are, in order,
       Write(init)                       writeInit:  ftyp box ++ moov box, one Write call
       Write(moof_i ++ mdat_i)  i = 1..n  writePart:  one Write call per part
       rewrite of the mvhd payload       writeDuration at close: same length, only DurationV0 changes
   Crash model (the property's hook text): the file is any prefix of the concatenated writes, optionally followed
   by zero bytes; the rewrite may be absent, complete or torn.
   Reader: the moof/mdat walk of segmentFMP4ReadDurationFromParts = `moof_loop` of Model/C28_SegRead.v (the model
   that the C28 correspondence run ties to the code). *)
From Coq Require Import List ZArith Bool Lia.
Require Import MTX.Lib.IntWrap MTX.Model.C24_MulDiv MTX.Model.C28_SegRead.
Import ListNotations.
Local Open Scope Z_scope.

(* big-endian 32-bit size and a box with its 8-byte header *)
Definition enc32 (n : Z) : bytes := [n / 16777216 mod 256; n / 65536 mod 256; n / 256 mod 256; n mod 256].
Definition box (tag payload : bytes) : bytes := enc32 (8 + len payload) ++ tag ++ payload.

Record part := { moof_pl : bytes; mdat_pl : bytes }.     (* payloads of the moof and of the mdat box *)
Definition moof_len (p : part) : Z := 8 + len p.(moof_pl).
Definition part_len (p : part) : Z := 16 + len p.(moof_pl) + len p.(mdat_pl).
Definition part_bytes (p : part) : bytes := box t_moof p.(moof_pl) ++ box t_mdat p.(mdat_pl).
Definition parts_bytes (ps : list part) : bytes := concat (map part_bytes ps).

(* ftyp box ++ moov box; the moov payload is arbitrary: it covers every state of the duration rewrite *)
Definition init_bytes (ftyp_pl moov_pl : bytes) : bytes := box t_ftyp ftyp_pl ++ box t_moov moov_pl.

(* the write log of a segment *)
Inductive wop := WWrite (b : bytes) | WRewrite (off : Z) (b : bytes).
Definition write_log (ftyp_pl moov_pl : bytes) (ps : list part) (dur_off : Z) (dur : bytes) : list wop :=
  WWrite (init_bytes ftyp_pl moov_pl) :: map (fun p => WWrite (part_bytes p)) ps ++ [WRewrite dur_off dur].
(* the appending writes, concatenated *)
Definition appended (l : list wop) : bytes :=
  concat (map (fun w => match w with WWrite b => b | WRewrite _ _ => [] end) l).

(* crash image: the first j bytes of the part region are on disk, followed by z zero bytes *)
Definition crash_image (ftyp_pl moov_pl : bytes) (ps : list part) (j : Z) (z : nat) : bytes :=
  init_bytes ftyp_pl moov_pl ++ firstn (Z.to_nat j) (parts_bytes ps) ++ repeat 0 z.

(* what the walk is expected to find: off = offset of the first part of ps, j = bytes of the part region on disk
   from there, last = lastMoofPos so far *)
Fixpoint expect_last (ps : list part) (off j last : Z) : Z :=
  match ps with
  | [] => last
  | p :: r =>
      if part_len p <=? j then expect_last r (off + part_len p) (j - part_len p) off   (* complete part *)
      else if moof_len p + 8 <=? j then off      (* moof and mdat header on disk, payload incomplete *)
      else last
  end.

(* number of complete parts and the offset of part number i *)
Fixpoint complete (ps : list part) (j : Z) : nat :=
  match ps with
  | [] => O
  | p :: r => if part_len p <=? j then S (complete r (j - part_len p)) else O
  end.
Fixpoint offset_of (ps : list part) (off : Z) (i : nat) {struct i} : Z :=
  match i, ps with
  | O, _ => off
  | S i', p :: r => offset_of r (off + part_len p) i'
  | S _, [] => off
  end.

(* ---- close: formatFMP4Segment.close / writeDuration / segmentFMP4ReadHeader ---- *)
(* mvhd.DurationV0 = uint32(d / time.Millisecond) *)
Definition duration_field (d : Z) : Z := wrapu32 (Z.quot d 1000000).
(* d := time.Duration(mvhd.DurationV0) * time.Second / time.Duration(mvhd.Timescale), Timescale = 1000 *)
Definition duration_read (field : Z) : Z := wrap64 (Z.quot (wrap64 (field * nanos)) 1000).
