(* Model of the session gate of internal/servers/hls (http_server.go initialize / onRequest, muxer.go findSession /
   addSession / apiSessionsKick / session cleanup / run, server.go getMuxer / PathReady / PathNotReady, session.go
   initialize) and of the way the gin engine set up by httpServer.initialize derives "the IP of the request"
   (gin v1.12.0 Context.ClientIP, Engine.validateHeader, Engine.isTrustedProxy).
   Executable; no proofs here.

   Paths and credentials are tokens in Z (the driver maps them to path names and user:pass pairs). Strings that the
   code inspects byte-wise (the Authorization header, the raw secret taken from the cookie or the query, the
   forwarding headers, the textual client IP kept in session.ip) are lists of byte values. A session secret is the
   16 bytes of a google/uuid UUID. *)
From Coq Require Import List ZArith Bool.
Import ListNotations.
Local Open Scope Z_scope.

(* ---------------------------------------------------------------- google/uuid v1.6.0 Parse ---------------------- *)

Definition uuid := list Z.

(* util.go xvalues: value of a hexadecimal digit *)
Definition xval (c : Z) : option Z :=
  if (48 <=? c) && (c <=? 57) then Some (c - 48)
  else if (65 <=? c) && (c <=? 70) then Some (c - 55)
  else if (97 <=? c) && (c <=? 102) then Some (c - 87)
  else None.

Definition xtob (a b : Z) : option Z :=
  match xval a, xval b with
  | Some x, Some y => Some (x * 16 + y)
  | _, _ => None
  end.

Definition byte_at (s : list Z) (k : nat) : Z := nth k s (-1).

(* the bytes at the given offsets, each from two hexadecimal digits *)
Fixpoint hex_at (s : list Z) (offs : list nat) : option uuid :=
  match offs with
  | [] => Some []
  | k :: r =>
      match xtob (byte_at s k) (byte_at s (S k)) with
      | Some b => match hex_at s r with Some t => Some (b :: t) | None => None end
      | None => None
      end
  end.

Definition offs36 : list nat := [0; 2; 4; 6; 9; 11; 14; 16; 19; 21; 24; 26; 28; 30; 32; 34]%nat.
Definition offs32 : list nat := [0; 2; 4; 6; 8; 10; 12; 14; 16; 18; 20; 22; 24; 26; 28; 30]%nat.

(* "s is now at least 36 bytes long; it must be of the form xxxxxxxx-xxxx-xxxx-xxxx-xxxxxxxxxxxx" *)
Definition parse36 (s : list Z) : option uuid :=
  if (byte_at s 8 =? 45) && (byte_at s 13 =? 45) && (byte_at s 18 =? 45) && (byte_at s 23 =? 45)
  then hex_at s offs36 else None.

Definition lower (c : Z) : Z := if (65 <=? c) && (c <=? 90) then c + 32 else c.

Fixpoint bytes_eqb (a b : list Z) : bool :=
  match a, b with
  | [], [] => true
  | x :: a', y :: b' => (x =? y) && bytes_eqb a' b'
  | _, _ => false
  end.

Definition urn_prefix : list Z := [117; 114; 110; 58; 117; 117; 105; 100; 58].   (* "urn:uuid:" *)

(* uuid.Parse: the four accepted lengths. Length 38 drops the first byte WITHOUT checking that it is '{' and never
   looks at the last one; length 45 compares the first 9 bytes with "urn:uuid:" case-insensitively
   (strings.EqualFold; the prefix has no letter with a non-ASCII case-fold partner). *)
Definition uuid_parse (s : list Z) : option uuid :=
  let n := Z.of_nat (length s) in
  if n =? 36 then parse36 s
  else if n =? 45 then (if bytes_eqb (map lower (firstn 9 s)) urn_prefix then parse36 (skipn 9 s) else None)
  else if n =? 38 then parse36 (skipn 1 s)
  else if n =? 32 then hex_at s offs32
  else None.

(* ---------------------------------------------------------------- the IP of a request (gin) ------------------- *)

(* net.IP as IPNet.Contains looks at it: (has a 4-byte form (To4() != nil), the 4 or 16 bytes as a big-endian number) *)
Definition addr := (bool * Z)%type.

(* one entry of hlsTrustedProxies (conf.IPNetwork), i.e. after ToTrustedProxies / gin prepareTrustedCIDRs one *net.IPNet *)
Record cidr := { c_v4 : bool; c_base : Z; c_ones : Z }.

(* net.IPNet.Contains: same address family, equal under the mask *)
Definition cidr_contains (n : cidr) (a : addr) : bool :=
  let w := if c_v4 n then 32 else 128 in
  Bool.eqb (c_v4 n) (fst a) && (Z.shiftr (snd a) (w - c_ones n) =? Z.shiftr (c_base n) (w - c_ones n)).

(* the fields of gin.Engine that Context.ClientIP reads *)
Record engine := {
  e_trusted : list cidr;            (* trustedCIDRs *)
  e_forwarded : bool;               (* ForwardedByClientIP *)
  e_headers : list Z;               (* RemoteIPHeaders (header identities, below) *)
  e_platform : option Z;            (* TrustedPlatform (a header identity), None = "" *)
}.

(* header identities: 0 X-Forwarded-For, 1 X-Real-Ip, 2 CF-Connecting-IP, 3 X-Appengine-Remote-Addr, 4 Fly-Client-IP,
   5 True-Client-IP, 6 X-Client-IP, 7 Forwarded *)
Definition h_xff : Z := 0.
Definition h_xreal : Z := 1.

(* Engine.isTrustedProxy *)
Definition is_trusted (l : list cidr) (a : addr) : bool := existsb (fun n => cidr_contains n a) l.

(* what a request looks like to ClientIP:
   n_peer  ORACLE net.SplitHostPort(TrimSpace(Request.RemoteAddr)) + net.ParseIP: the IP of the TCP peer as
           (IP.String(), address), None if RemoteAddr does not hold an IP
   n_hdrs  for every header identity the request carries: strings.Join(Header.Values(name), ",") *)
Record netreq := { n_peer : option (list Z * addr); n_hdrs : list (Z * list Z) }.

Definition hdr_val (n : netreq) (h : Z) : list Z :=
  match find (fun e => fst e =? h) (n_hdrs n) with Some e => snd e | None => [] end.

(* strings.Split(s, ",") *)
Fixpoint split_comma (s : list Z) : list (list Z) :=
  match s with
  | [] => [[]]
  | c :: r =>
      if c =? 44 then [] :: split_comma r
      else match split_comma r with h :: t => (c :: h) :: t | [] => [[c]] end
  end.

(* strings.TrimSpace on ASCII input (space, \t \n \v \f \r) *)
Definition is_space (c : Z) : bool := (c =? 32) || ((9 <=? c) && (c <=? 13)).
Fixpoint trim_left (s : list Z) : list Z :=
  match s with c :: r => if is_space c then trim_left r else s | [] => [] end.
Definition trim (s : list Z) : list Z := rev (trim_left (rev (trim_left s))).

Definition items (v : list Z) : list (list Z) := map trim (split_comma v).

(* Engine.validateHeader, the loop `for i := len(items)-1; i >= 0; i--` over the items in reverse order: an item that is
   not an IP ends the search; the first item (from the right) that is not a trusted proxy, or the leftmost item
   whatever it is, is the client *)
Fixpoint validate_rev (parse : list Z -> option addr) (tr : list cidr) (its : list (list Z)) : option (list Z) :=
  match its with
  | [] => None
  | it :: rest =>
      match parse it with
      | None => None
      | Some a =>
          if (match rest with [] => true | _ :: _ => false end) || negb (is_trusted tr a) then Some it
          else validate_rev parse tr rest
      end
  end.

Definition validate_header (parse : list Z -> option addr) (tr : list cidr) (v : list Z) : option (list Z) :=
  match v with [] => None | _ :: _ => validate_rev parse tr (rev (items v)) end.

Fixpoint first_valid (parse : list Z -> option addr) (tr : list cidr) (n : netreq) (hs : list Z) : option (list Z) :=
  match hs with
  | [] => None
  | h :: r =>
      match validate_header parse tr (hdr_val n h) with
      | Some ip => Some ip
      | None => first_valid parse tr n r
      end
  end.

(* Context.ClientIP (AppEngine flag off, not listening on a unix socket). parse = net.ParseIP (ORACLE) *)
Definition client_ip (e : engine) (parse : list Z -> option addr) (n : netreq) : list Z :=
  match (match e_platform e with Some h => hdr_val n h | None => [] end) with
  | (_ :: _) as v => v
  | [] =>
      match n_peer n with
      | None => []
      | Some (txt, a) =>
          if is_trusted (e_trusted e) a && e_forwarded e then
            match first_valid parse (e_trusted e) n (e_headers e) with Some ip => ip | None => txt end
          else txt
      end
  end.

Definition peer_text (n : netreq) : list Z := match n_peer n with Some (txt, _) => txt | None => [] end.

(* ---------------------------------------------------------------- server state --------------------------------- *)

Record config := {
  always : bool;                    (* Server.AlwaysRemux *)
  cdn_secret : list Z;              (* Server.CDNSecret *)
  auth : Z -> Z -> list Z -> bool;  (* oracle: the path manager admits (path, credentials, net.ParseIP(ctx.ClientIP()))
                                       as a reader *)
  nostream : Z -> bool;             (* oracle: the path manager answers PathNoStreamAvailableError for this path *)
  trusted : list cidr;              (* Server.TrustedProxies (hlsTrustedProxies) *)
  parse_ip : list Z -> option addr; (* oracle: net.ParseIP *)
}.

(* httpServer.initialize: gin.New() (ForwardedByClientIP = true, RemoteIPHeaders = X-Forwarded-For, X-Real-IP, no
   TrustedPlatform) followed by router.SetTrustedProxies(trustedProxies.ToTrustedProxies()) UNCONDITIONALLY: an empty
   list replaces gin's built-in default (trust 0.0.0.0/0 and ::/0) by "trust nobody" *)
Definition hls_engine (c : config) : engine :=
  {| e_trusted := trusted c; e_forwarded := true; e_headers := [h_xff; h_xreal]; e_platform := None |}.

(* ctx.ClientIP() of a request served by that engine *)
Definition cip (c : config) (n : netreq) : list Z := client_ip (hls_engine c) (parse_ip c) n.

Record session := { s_id : Z; s_secret : uuid; s_ip : list Z (* session.ip: ClientIP() of the creating request *) }.

Record muxer := {
  m_auto : bool;                    (* created by "always remux" (remoteAddr == "") *)
  m_inst : bool;                    (* instance != nil *)
  m_sess : list session;            (* sessionsBySecret: at most one entry per secret *)
  m_cdn : option Z;                 (* cdnSession (its identity) *)
}.

Record state := { muxers : list (Z * muxer); next_id : Z }.

Definition init : state := {| muxers := []; next_id := 0 |}.

Fixpoint lookup (p : Z) (l : list (Z * muxer)) : option muxer :=
  match l with
  | [] => None
  | (q, m) :: r => if q =? p then Some m else lookup p r
  end.

Definition mremove (p : Z) (l : list (Z * muxer)) : list (Z * muxer) := filter (fun e => negb (fst e =? p)) l.
Definition mset (p : Z) (m : muxer) (l : list (Z * muxer)) : list (Z * muxer) := (p, m) :: mremove p l.
Definition map_vals (f : muxer -> muxer) (l : list (Z * muxer)) : list (Z * muxer) :=
  map (fun e => (fst e, f (snd e))) l.

(* ---------------------------------------------------------------- requests ------------------------------------- *)

Inductive op :=
| Multi (p cred : Z) (n : netreq) (hdr : list Z) (ccq ccc : bool) (sec : uuid)
    (* GET <p>/index.m3u8 ; n = TCP peer and forwarding headers ; hdr = first Authorization header ; ccq: the query has
       cookieCheck=1 ; ccc: the request has the cookie cookieCheck=1 ; sec: the value uuid.New() returns for the secret
       if a session is created *)
| Media (p : Z) (n : netreq) (hdr : list Z) (cookie : option (list Z)) (query : list Z)
    (* GET <p>/<media playlist or segment> ; cookie = Request.Cookie("hlsSession") if present ;
       query = URL.Query().Get("session") *)
| Kick (id : Z)                    (* APISessionsKick of the session with that identity *)
| Expire (ids : list Z)            (* the cleanup ticker fires while exactly these sessions have been idle >= 30 s *)
| MuxClose (p : Z)                 (* the muxer of p terminates (Close, "not used anymore", reader error) *)
| PathReady (p : Z)
| PathNotReady (p : Z)
| InstCrash (p : Z)                (* the muxer instance of p reports an error *)
| InstRecreate (p : Z).            (* recreateInstanceTimer fires *)

Inductive out :=
| ORedirect                        (* 302: cookie check round *)
| OUnauth                          (* 401 *)
| ONotFound                        (* 404 written by the HTTP server (no stream) *)
| OErr                             (* 500 *)
| OCreated (via_cookie : bool) (id : Z)   (* session created, request handed to the muxer; secret sent by cookie / query *)
| OCdnCreated (id : Z)             (* CDN session created, request handed to the muxer *)
| OCdn                             (* existing CDN session, request handed to the muxer *)
| OPass                            (* media request handed to the muxer *)
| OKicked (ok : bool)
| OClosed (ok : bool)
| ONone.

Definition bearer : list Z := [66; 101; 97; 114; 101; 114; 32].   (* "Bearer " *)

Definition is_cdn (c : config) (hdr : list Z) : bool :=
  negb (match cdn_secret c with [] => true | _ => false end) && bytes_eqb hdr (bearer ++ cdn_secret c).

Definition add_session (m : muxer) (s : session) : muxer :=
  {| m_auto := m_auto m; m_inst := m_inst m;
     m_sess := s :: filter (fun x => negb (bytes_eqb (s_secret x) (s_secret s))) (m_sess m); m_cdn := m_cdn m |}.

Definition fresh_muxer (auto : bool) : muxer := {| m_auto := auto; m_inst := true; m_sess := []; m_cdn := None |}.

(* session.initialize after the path manager admitted the reader: getMuxer(create) + addSession *)
Definition attach (c : config) (st : state) (p : Z) (f : muxer -> muxer) (o : out) : state * out :=
  match lookup p (muxers st) with
  | Some m =>
      if m_inst m then ({| muxers := mset p (f m) (muxers st); next_id := next_id st + 1 |}, o)
      else (st, OErr)                                   (* "muxer instance not available" *)
  | None =>
      if always c then (st, OErr)                       (* "muxer is waiting to be created" (sourceOnDemand = false) *)
      else ({| muxers := mset p (f (fresh_muxer false)) (muxers st); next_id := next_id st + 1 |}, o)
  end.

Definition find_session (u : uuid) (l : list session) : option session :=
  find (fun s => bytes_eqb (s_secret s) u) l.

(* muxer.findSession + the surrounding branch of onRequest *)
Definition media_out (c : config) (st : state) (p : Z) (ip : list Z) (hdr : list Z) (cookie : option (list Z)) (query : list Z) : out :=
  match lookup p (muxers st) with
  | None => OUnauth
  | Some m =>
      if is_cdn c hdr then
        match m_cdn m with
        | Some _ => if m_inst m then OPass else OErr
        | None => OUnauth
        end
      else
        let raw := match cookie with Some v => v | None => query end in
        match uuid_parse raw with
        | None => OUnauth
        | Some u =>
            match find_session u (m_sess m) with
            | None => OUnauth
            | Some s => if bytes_eqb (s_ip s) ip then (if m_inst m then OPass else OErr) else OUnauth
            end
        end
  end.

Definition drop_id (id : Z) (m : muxer) : muxer :=
  {| m_auto := m_auto m; m_inst := m_inst m;
     m_sess := filter (fun s => negb (s_id s =? id)) (m_sess m);
     m_cdn := match m_cdn m with Some i => if i =? id then None else Some i | None => None end |}.

Definition has_id (id : Z) (m : muxer) : bool :=
  match m_cdn m with Some i => i =? id | None => false end || existsb (fun s => s_id s =? id) (m_sess m).

Definition memz (x : Z) (l : list Z) : bool := existsb (Z.eqb x) l.

Definition drop_ids (ids : list Z) (m : muxer) : muxer :=
  {| m_auto := m_auto m; m_inst := m_inst m;
     m_sess := filter (fun s => negb (memz (s_id s) ids)) (m_sess m);
     m_cdn := match m_cdn m with Some i => if memz i ids then None else Some i | None => None end |}.

Definition step (c : config) (st : state) (o : op) : state * out :=
  match o with
  | Multi p cred n hdr ccq ccc sec =>
      let ip := cip c n in
      if is_cdn c hdr then
        let create :=
          if nostream c p then (st, ONotFound)
          else attach c st p (fun m => {| m_auto := m_auto m; m_inst := m_inst m; m_sess := m_sess m;
                                          m_cdn := Some (next_id st) |}) (OCdnCreated (next_id st)) in
        match lookup p (muxers st) with
        | Some m => match m_cdn m with
                    | Some _ => (st, if m_inst m then OCdn else OErr)
                    | None => create
                    end
        | None => create
        end
      else if negb ccq then (st, ORedirect)
      else if negb (auth c p cred ip) then (st, OUnauth)
      else if nostream c p then (st, ONotFound)
      else attach c st p (fun m => add_session m {| s_id := next_id st; s_secret := sec; s_ip := ip |})
                  (OCreated ccc (next_id st))
  | Media p n hdr cookie query => (st, media_out c st p (cip c n) hdr cookie query)
  | Kick id =>
      ({| muxers := map_vals (drop_id id) (muxers st); next_id := next_id st |},
       OKicked (existsb (fun e => has_id id (snd e)) (muxers st)))
  | Expire ids => ({| muxers := map_vals (drop_ids ids) (muxers st); next_id := next_id st |}, ONone)
  | MuxClose p =>
      ({| muxers := mremove p (muxers st); next_id := next_id st |},
       OClosed (match lookup p (muxers st) with Some _ => true | None => false end))
  | PathReady p =>
      if always c && negb (nostream c p) && (match lookup p (muxers st) with None => true | Some _ => false end)
      then ({| muxers := mset p (fresh_muxer true) (muxers st); next_id := next_id st |}, ONone)
      else (st, ONone)
  | PathNotReady p =>
      match lookup p (muxers st) with
      | Some m => if m_auto m then ({| muxers := mremove p (muxers st); next_id := next_id st |}, OClosed true)
                  else (st, OClosed false)
      | None => (st, OClosed false)
      end
  | InstCrash p =>
      match lookup p (muxers st) with
      | Some m =>
          if m_auto m
          then ({| muxers := mset p {| m_auto := true; m_inst := false; m_sess := []; m_cdn := None |} (muxers st);
                   next_id := next_id st |}, ONone)
          else ({| muxers := mremove p (muxers st); next_id := next_id st |}, ONone)
      | None => (st, ONone)
      end
  | InstRecreate p =>
      match lookup p (muxers st) with
      | Some m =>
          if m_auto m && negb (m_inst m)
          then ({| muxers := mset p {| m_auto := true; m_inst := true; m_sess := m_sess m; m_cdn := m_cdn m |} (muxers st);
                   next_id := next_id st |}, ONone)
          else (st, ONone)
      | None => (st, ONone)
      end
  end.

(* the trace of a history: every operation with its outcome *)
Fixpoint exec (c : config) (st : state) (ops : list op) : list (op * out) :=
  match ops with
  | [] => []
  | o :: r => let '(st1, x) := step c st o in (o, x) :: exec c st1 r
  end.

Fixpoint final (c : config) (st : state) (ops : list op) : state :=
  match ops with
  | [] => st
  | o :: r => final c (fst (step c st o)) r
  end.

(* does this trace event end the regular or CDN session `id` of path p ? *)
Definition kills (p id : Z) (e : op * out) : bool :=
  match e with
  | (Kick i, OKicked true) => i =? id
  | (Expire ids, _) => memz id ids
  | (MuxClose q, _) => q =? p
  | (PathNotReady q, OClosed true) => q =? p
  | (InstCrash q, _) => q =? p
  | _ => false
  end.

(* the raw secret findSession looks at: the cookie when the request has one (whatever it holds), else the query *)
Definition effective (cookie : option (list Z)) (query : list Z) : list Z :=
  match cookie with Some v => v | None => query end.

(* ---------------------------------------------------------------- specification vocabulary --------------------- *)

(* In the trace tr there is an admitted, non-CDN multivariant request on path p whose client IP (cip: the TCP peer,
   or what a TRUSTED proxy reported) is ip, that went through the cookie check and created the session `id` with
   secret u, and nothing after it in tr ended that session. *)
Definition backed (c : config) (tr : list (op * out)) (p id : Z) (u : uuid) (ip : list Z) : Prop :=
  exists pre mid cred n hdr ccc vc,
    tr = pre ++ (Multi p cred n hdr true ccc u, OCreated vc id) :: mid /\
    cip c n = ip /\
    is_cdn c hdr = false /\ auth c p cred ip = true /\
    Forall (fun e => kills p id e = false) mid.

(* In the trace tr a multivariant request on path p carrying the CDN secret created the CDN session `id`, and nothing
   after it in tr ended that session. *)
Definition cdn_backed (c : config) (tr : list (op * out)) (p id : Z) : Prop :=
  exists pre mid cred n hdr ccq ccc sec,
    tr = pre ++ (Multi p cred n hdr ccq ccc sec, OCdnCreated id) :: mid /\
    is_cdn c hdr = true /\
    Forall (fun e => kills p id e = false) mid.

(* ---------------------------------------------------------------- honest proxies (specification vocabulary) ----- *)

(* the TCP peer of the request is outside every trusted network (always the case with the default empty list) *)
Definition untrusted_peer (c : config) (n : netreq) : Prop :=
  match n_peer n with Some (_, a) => is_trusted (trusted c) a = false | None => True end.

(* what a forwarding proxy does to X-Forwarded-For (nginx $proxy_add_x_forwarded_for, haproxy forwardfor, ...): append
   the IP of ITS peer to whatever it received *)
Definition proxy_append (x t : list Z) : list Z := match x with [] => t | _ :: _ => x ++ [44; 32] ++ t end.

(* X-Forwarded-For as it arrives after the client sent x0 (anything, also nothing) and the request went through
   proxies that saw the peers ts (the first of them is the client itself) *)
Definition chain_xff (x0 : list Z) (ts : list (list Z)) : list Z := fold_left proxy_append ts x0.

(* a textual IP as proxies write it: not empty, no comma, no white space *)
Definition clean (t : list Z) : bool :=
  negb (match t with [] => true | _ :: _ => false end) && forallb (fun c => negb (c =? 44) && negb (is_space c)) t.
