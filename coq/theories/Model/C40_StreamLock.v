(* Third model of C40: the public operations of stream.Stream (internal/stream/stream.go, sub_stream.go) as
   straight-line programs over the shared state that Stream.mutex (a sync.RWMutex) guards, cut into the instructions
   between which other goroutines can get in.  What is inside a critical section is decided by where the code puts
   Lock / Unlock, so "the code" is a table of programs (`prog Code`); the other variants are edits of that table.

     AddReader(r)            r.start(); mutex.Lock(); s.readers[r] = ..., sf.onDatas[r] = ...;
                             select { case <-s.hasReaders: default: close(s.hasReaders) }; (deferred) mutex.Unlock()
     RemoveReader(r)         mutex.Lock(); delete(sf.onDatas, r) ..., delete(s.readers, r); mutex.Unlock(); r.stop()
     SubStream.WriteUnit     mutex.RLock(); if s.subStream != ss { return }; fan-out; (deferred) mutex.RUnlock()
     SubStream.Initialize    (its locked part) mutex.Lock(); s.subStream = ss; initialize2...; mutex.Unlock()
     WaitForReaders          <-s.hasReaders
     OutboundBytes           mutex.RLock(); read rtspStream / rtspsStream; mutex.RUnlock()
     RTSPStream/RTSPSStream  mutex.Lock(); if s.rtspStream == nil { create }; mutex.Unlock()
     Close                   offline sub-stream, error dumper (no lock); mutex.RLock(); read rtspStream / rtspsStream;
                             mutex.RUnlock(); close them   (the RLock is fix b0c271a; before it: no lock at all)
     OpHold w                any other well-behaved user of the mutex (the driver's observers): Lock;Unlock / RLock;RUnlock

   sync.RWMutex as it is: Lock() = take rw.w and announce the writer (ILockReq: from now on new RLock calls wait),
   then wait until the active readers have left (ILockAcq); RLock() is granted while no writer has announced itself.

   Panic states: close of a closed channel (hasReaders); an access to a guarded field (readers, onDatas, subStream,
   rtspStream) by a goroutine that does not hold the mutex in the required mode (PRace: for the maps this is Go's fatal
   "concurrent map writes" once two such goroutines meet); Unlock / RUnlock of a mutex that is not held (fatal).
   hasReaders itself is a channel: checking and closing it needs no lock as far as the memory model is concerned -
   which is why the race detector says nothing when the pair is moved out of the critical section.

   Executable; no proofs here. *)
From Coq Require Import List Arith Bool.
Import ListNotations.

(* a module of its own: the names (state, label, step, run, ...) are those of the other two C40 models *)
Module SL.

Inductive instr :=
| ILockReq | ILockAcq | IUnlock | IRLock | IRUnlock
| IStart (r : nat)       (* r.start(): ring buffer, the reader's goroutine *)
| IReg (r : nat)         (* s.readers[r] = struct{}{}; sf.onDatas[r] = onData for every registered format *)
| ICheckHas              (* select { case <-s.hasReaders: ... default: ... }: which branch *)
| ICloseHas              (* default branch: close(s.hasReaders) *)
| IUnreg (r : nat)       (* delete(sf.onDatas, r) ...; delete(s.readers, r) *)
| IStop (r : nat)        (* r.stop(): close the ring, <-r.err *)
| ISetCur (ss : nat)     (* s.subStream = ss (+ initialize2 of its formats) *)
| ICheckCur (ss : nat)   (* s.subStream != ss ? *)
| IFanout                (* ssf.writeUnit(u): push to every registered callback, unless the comparison said return *)
| IWaitHas               (* <-s.hasReaders *)
| IStats                 (* s.rtspStream.Stats() / s.rtspsStream.Stats() if present *)
| IRtspInit              (* if s.rtspStream == nil { s.rtspStream = new ServerStream } *)
| ICloseRes.             (* Stream.Close(): reads s.rtspStream / s.rtspsStream, closes what it has read *)

Inductive op :=
| OpAdd (r : nat) | OpRemove (r : nat) | OpWrite (ss : nat) | OpSwitch (ss : nat) | OpWait | OpClose | OpStats | OpRtsp
| OpHold (w : bool).

(* Code = stream.go as it is.  The others are edits that compile and pass the package's tests:
   UnlockBeforeCheck  AddReader unlocks explicitly after the registration, the check-then-close comes after it
   UnregAfterUnlock   RemoveReader unlocks before the deletes
   AddUnderRLock      AddReader takes the read lock
   WriteNoLock        WriteUnit without RLock/RUnlock
   CloseNoLock        Close() reads the RTSP streams without the mutex: the code before fix b0c271a *)
Inductive variant := Code | UnlockBeforeCheck | UnregAfterUnlock | AddUnderRLock | WriteNoLock | CloseNoLock.

Definition prog (v : variant) (o : op) : list instr :=
  match o with
  | OpAdd r =>
      match v with
      | UnlockBeforeCheck => [IStart r; ILockReq; ILockAcq; IReg r; IUnlock; ICheckHas; ICloseHas]
      | AddUnderRLock => [IStart r; IRLock; IReg r; ICheckHas; ICloseHas; IRUnlock]
      | _ => [IStart r; ILockReq; ILockAcq; IReg r; ICheckHas; ICloseHas; IUnlock]
      end
  | OpRemove r =>
      match v with
      | UnregAfterUnlock => [ILockReq; ILockAcq; IUnlock; IUnreg r; IStop r]
      | _ => [ILockReq; ILockAcq; IUnreg r; IUnlock; IStop r]
      end
  | OpWrite ss =>
      match v with
      | WriteNoLock => [ICheckCur ss; IFanout]
      | _ => [IRLock; ICheckCur ss; IFanout; IRUnlock]
      end
  | OpSwitch ss => [ILockReq; ILockAcq; ISetCur ss; IUnlock]
  | OpWait => [IWaitHas]
  | OpClose => match v with CloseNoLock => [ICloseRes] | _ => [IRLock; ICloseRes; IRUnlock] end
  | OpStats => [IRLock; IStats; IRUnlock]
  | OpRtsp => [ILockReq; ILockAcq; IRtspInit; IUnlock]
  | OpHold true => [ILockReq; ILockAcq; IUnlock]
  | OpHold false => [IRLock; IRUnlock]
  end.

(* one goroutine inside an operation: what it still has to execute, and its local boolean (the branch the select took /
   the outcome of the currency comparison) *)
Record proc := mkProc { p_op : op; p_code : list instr; p_flag : bool }.

Inductive pkind := PDoubleClose | PRace | PBadUnlock.

(* the shared part *)
Record glob := mkGlob {
  wown : option nat;      (* the goroutine that has rw.w and has announced itself as the writer *)
  wheld : bool;           (* ... and has got past the readers: it holds the write lock *)
  rdh : list nat;         (* goroutines holding the read lock *)
  readers : list nat;     (* s.readers, and the owners of the callbacks in sf.onDatas *)
  has_closed : bool;      (* hasReaders is closed *)
  cur : nat;              (* s.subStream *)
  live : list nat;        (* readers whose goroutine runs *)
  rtsp : bool;            (* s.rtspStream != nil *)
  res_closed : bool;      (* Close() was called *)
}.

Record state := mkState { procs : list proc; g : glob; panic : option pkind }.

Definition g0 : glob :=
  {| wown := None; wheld := false; rdh := []; readers := []; has_closed := false; cur := 0; live := []; rtsp := false;
     res_closed := false |}.
Definition init : state := {| procs := []; g := g0; panic := None |}.

Definition memn (x : nat) (l : list nat) : bool := existsb (Nat.eqb x) l.
Definition deln (x : nat) (l : list nat) : list nat := filter (fun y => negb (Nat.eqb x y)) l.
Definition owns (x : glob) (p : nat) : bool := match wown x with Some q => Nat.eqb q p | None => false end.
Definition holds_w (x : glob) (p : nat) : bool := owns x p && wheld x.
Definition holds_r (x : glob) (p : nat) : bool := memn p (rdh x).
Definition holds_any (x : glob) (p : nat) : bool := holds_w x p || holds_r x p.

Inductive result := Blocked | Next (x : glob) (flag : bool) | Crash (k : pkind).

Definition set_lock (x : glob) (o : option nat) (h : bool) (r : list nat) : glob :=
  {| wown := o; wheld := h; rdh := r; readers := readers x; has_closed := has_closed x; cur := cur x; live := live x;
     rtsp := rtsp x; res_closed := res_closed x |}.
Definition set_readers (x : glob) (l : list nat) : glob :=
  {| wown := wown x; wheld := wheld x; rdh := rdh x; readers := l; has_closed := has_closed x; cur := cur x;
     live := live x; rtsp := rtsp x; res_closed := res_closed x |}.
Definition set_closed (x : glob) : glob :=
  {| wown := wown x; wheld := wheld x; rdh := rdh x; readers := readers x; has_closed := true; cur := cur x;
     live := live x; rtsp := rtsp x; res_closed := res_closed x |}.
Definition set_cur (x : glob) (ss : nat) : glob :=
  {| wown := wown x; wheld := wheld x; rdh := rdh x; readers := readers x; has_closed := has_closed x; cur := ss;
     live := live x; rtsp := rtsp x; res_closed := res_closed x |}.
Definition set_live (x : glob) (l : list nat) : glob :=
  {| wown := wown x; wheld := wheld x; rdh := rdh x; readers := readers x; has_closed := has_closed x; cur := cur x;
     live := l; rtsp := rtsp x; res_closed := res_closed x |}.
Definition set_rtsp (x : glob) : glob :=
  {| wown := wown x; wheld := wheld x; rdh := rdh x; readers := readers x; has_closed := has_closed x; cur := cur x;
     live := live x; rtsp := true; res_closed := res_closed x |}.
Definition set_res_closed (x : glob) : glob :=
  {| wown := wown x; wheld := wheld x; rdh := rdh x; readers := readers x; has_closed := has_closed x; cur := cur x;
     live := live x; rtsp := rtsp x; res_closed := true |}.

(* goroutine p, whose local boolean is fl, executes instruction i *)
Definition exec (p : nat) (fl : bool) (i : instr) (x : glob) : result :=
  match i with
  | ILockReq => match wown x with None => Next (set_lock x (Some p) false (rdh x)) fl | Some _ => Blocked end
  | ILockAcq =>
      if owns x p then match rdh x with [] => Next (set_lock x (Some p) true []) fl | _ => Blocked end
      else Crash PBadUnlock
  | IUnlock => if holds_w x p then Next (set_lock x None false (rdh x)) fl else Crash PBadUnlock
  | IRLock => match wown x with None => Next (set_lock x None false (p :: rdh x)) fl | Some _ => Blocked end
  | IRUnlock => if holds_r x p then Next (set_lock x (wown x) (wheld x) (deln p (rdh x))) fl else Crash PBadUnlock
  | IStart r => Next (set_live x (r :: live x)) fl
  | IReg r => if holds_w x p then Next (set_readers x (r :: readers x)) fl else Crash PRace
  | ICheckHas => Next x (negb (has_closed x))
  | ICloseHas => if fl then (if has_closed x then Crash PDoubleClose else Next (set_closed x) fl) else Next x fl
  | IUnreg r => if holds_w x p then Next (set_readers x (deln r (readers x))) fl else Crash PRace
  | IStop r => Next (set_live x (deln r (live x))) fl
  | ISetCur ss => if holds_w x p then Next (set_cur x ss) fl else Crash PRace
  | ICheckCur ss => if holds_any x p then Next x (Nat.eqb (cur x) ss) else Crash PRace
  | IFanout => if holds_any x p then Next x fl else Crash PRace
  | IWaitHas => if has_closed x then Next x fl else Blocked
  | IStats => if holds_any x p then Next x fl else Crash PRace
  | IRtspInit => if holds_w x p then Next (set_rtsp x) fl else Crash PRace
  | ICloseRes => if holds_any x p then Next (set_res_closed x) fl else Crash PRace
  end.

Fixpoint set_nth (p : nat) (pr : proc) (l : list proc) : list proc :=
  match l, p with
  | [], _ => []
  | _ :: t, 0 => pr :: t
  | h :: t, S p' => h :: set_nth p' pr t
  end.

(* LSpawn: a goroutine enters an operation (the environment); LStep p: goroutine p executes its next instruction *)
Inductive label := LSpawn (o : op) | LStep (p : nat).

Definition internal (l : label) : bool := match l with LSpawn _ => false | LStep _ => true end.

Definition step (v : variant) (s : state) (l : label) : option state :=
  match panic s with
  | Some _ => None      (* the process is gone *)
  | None =>
      match l with
      | LSpawn o => Some {| procs := procs s ++ [mkProc o (prog v o) false]; g := g s; panic := None |}
      | LStep p =>
          match nth_error (procs s) p with
          | Some pr =>
              match p_code pr with
              | [] => None
              | i :: rest =>
                  match exec p (p_flag pr) i (g s) with
                  | Blocked => None
                  | Next x fl => Some {| procs := set_nth p (mkProc (p_op pr) rest fl) (procs s); g := x; panic := None |}
                  | Crash k => Some {| procs := procs s; g := g s; panic := Some k |}
                  end
              end
          | None => None
          end
      end
  end.

Fixpoint run (v : variant) (s : state) (ls : list label) : option state :=
  match ls with
  | [] => Some s
  | l :: t => match step v s l with Some s' => run v s' t | None => None end
  end.

Inductive reachable (v : variant) : state -> Prop :=
| r_init : reachable v init
| r_step s l s' : reachable v s -> step v s l = Some s' -> reachable v s'.

(* what is left to execute: every internal step takes one instruction away *)
Definition measure (s : state) : nat := fold_right (fun pr n => length (p_code pr) + n) 0 (procs s).

Definition finished (pr : proc) : bool := match p_code pr with [] => true | _ => false end.
Definition is_add (o : op) : bool := match o with OpAdd _ => true | _ => false end.

(* a goroutine that is not inside an operation any more, or sits in WaitForReaders on a stream that no reader has
   joined yet *)
Definition at_rest (s : state) (pr : proc) : Prop :=
  p_code pr = [] \/ (p_op pr = OpWait /\ has_closed (g s) = false /\ forall q, In q (procs s) -> is_add (p_op q) = false).

Definition quiescent (s : state) : Prop := forall pr, In pr (procs s) -> at_rest s pr.

(* the write lock is free, or held by a goroutine that is not inside AddReader / RemoveReader (an observer) *)
Definition no_mutator (s : state) : Prop :=
  forall p pr, nth_error (procs s) p = Some pr -> holds_w (g s) p = true ->
    match p_op pr with OpAdd _ | OpRemove _ => False | _ => True end.

End SL.
