(* Model of the playback endpoints (C29):
     internal/recordstore/segment.go     FindSegments (the filtering after the directory walk)
     internal/playback/on_list.go        concatenateSegments, the clipping in onList
     internal/playback/segment_fmp4.go   segmentFMP4CanBeConcatenated, segmentFMP4TracksAreEqual,
                                         durationGoToMp4, durationMp4ToGo, segmentFMP4MuxParts
     internal/playback/on_get.go         seekAndMux
     internal/playback/muxer_fmp4.go     muxerFMP4 (writeInit, setTrack, writeSample, writeFinalDTS, innerFlush)
   Executable; no proofs here.

   Instants are nanoseconds since the Unix epoch, durations are nanoseconds (time.Duration), both as
   unbounded integers (the 64-bit range of time.Duration is an assumption of the check, not modelled).
   A recorded segment enters as data shipped by the driver (oracle: Path.Decode for the start instant - C26 -,
   segmentFMP4ReadHeader / segmentFMP4ReadDurationFromParts for the duration and the init - C28 -, the
   mediacommon part reader for the sample tables):
     start instant, duration, the mtxi box (stream id, segment number, DTS) if present, the track table
     (id, time scale, codec type) and, for /get, the parts: per moof the trafs in file order, each with its
     track id, tfdt base time and trun entries (duration, sync flag, PTS offset, an identifier standing for
     the payload). *)
From Coq Require Import List ZArith Bool.
Import ListNotations.
Local Open Scope Z_scope.

Definition second : Z := 1000000000.
Definition tolerance : Z := second.        (* concatenationTolerance *)
Definition part_duration : Z := second.    (* partDuration of muxer_fmp4.go *)

(* ------------------------------------------------------------------ segments *)

Definition trackdesc : Type := (Z * Z * Z)%type.    (* ID, TimeScale, codec type tag *)
Record mtxi := mkMtxi { mx_sid : Z; mx_num : Z; mx_dts : Z }.
Record seg := mkSeg { s_start : Z; s_dur : Z; s_mtxi : option mtxi; s_tracks : list trackdesc }.

Definition seg_end (s : seg) : Z := s_start s + s_dur s.

Definition trackdesc_eqb (a b : trackdesc) : bool :=
  let '(i1, t1, c1) := a in let '(i2, t2, c2) := b in (i1 =? i2) && (t1 =? t2) && (c1 =? c2).

(* segmentFMP4TracksAreEqual *)
Fixpoint tracks_eqb (a b : list trackdesc) : bool :=
  match a, b with
  | [], [] => true
  | x :: a', y :: b' => trackdesc_eqb x y && tracks_eqb a' b'
  | _, _ => false
  end.

(* segmentFMP4CanBeConcatenated(prevInit, prevEnd, curInit, curStart); SegmentNumber is a uint64 *)
Definition can_concat (prev : seg) (prev_end : Z) (cur : seg) : bool :=
  match s_mtxi prev, s_mtxi cur with
  | None, Some _ => false
  | Some _, None => false
  | None, None =>
      tracks_eqb (s_tracks prev) (s_tracks cur)
      && negb (s_start cur <? prev_end - tolerance)
      && negb (s_start cur >? prev_end + tolerance)
  | Some m1, Some m2 =>
      (mx_sid m1 =? mx_sid m2) && ((mx_num m1 + 1) mod 18446744073709551616 =? mx_num m2)
  end.

(* ------------------------------------------------------------------ FindSegments *)

(* sort.Slice by Start (the order of equal starts is unspecified in Go; here: stable) *)
Fixpoint insert_by {A} (key : A -> Z) (x : A) (l : list A) : list A :=
  match l with
  | [] => [x]
  | y :: r => if key x <=? key y then x :: l else y :: insert_by key x r
  end.
Definition sort_by {A} (key : A -> Z) (l : list A) : list A := fold_right (insert_by key) [] l.

(* the loop `for i := 0; i < len(segments)-1; i++`: first i with seg[i].Start <= start < seg[i+1].Start *)
Fixpoint seek_start {A} (key : A -> Z) (start : Z) (l : list A) : option (list A) :=
  match l with
  | a :: ((b :: _) as r) =>
      if negb (start <? key a) && (start <? key b) then Some l else seek_start key start r
  | _ => None
  end.

(* None = ErrNoSegmentsFound. `all` = the decodable files in walk order *)
Definition find_segments {A} (key : A -> Z) (all : list A) (start end_ : option Z) : option (list A) :=
  let l := filter (fun s => match end_ with None => true | Some e => negb (e <? key s) end) all in
  match sort_by key l with
  | [] => None
  | (s0 :: _) as l' =>
      match start with
      | None => Some l'
      | Some st =>
          if st <? key s0 then Some l'
          else match seek_start key st l' with
               | Some r => Some r
               | None => let la := last l' s0 in if key la >? st then None else Some [la]
               end
      end
  end.

(* ------------------------------------------------------------------ /list *)

Record entry := mkEntry { e_start : Z; e_dur : Z }.
Definition e_end (e : entry) : Z := e_start e + e_dur e.

(* concatenateSegments: `cur` = out[len(out)-1], `prev` = the segment whose init is prevInit *)
Fixpoint concat_from (cur : entry) (prev : seg) (l : list seg) : list entry :=
  match l with
  | [] => [cur]
  | s :: r =>
      if can_concat prev (e_end cur) s
      then concat_from (mkEntry (e_start cur) (seg_end s - e_start cur)) s r
      else cur :: concat_from (mkEntry (s_start s) (s_dur s)) s r
  end.
Definition concatenate (l : list seg) : list entry :=
  match l with
  | [] => []
  | s :: r => concat_from (mkEntry (s_start s) (s_dur s)) s r
  end.

(* `if start != nil { ... }`; None = 404 *)
Definition clip_first (st : Z) (es : list entry) : option (list entry) :=
  match es with
  | [] => Some []
  | e :: r =>
      if e_end e <? st then match r with [] => None | _ => Some r end
      else if e_start e <? st then Some (mkEntry st (e_dur e - (st - e_start e)) :: r)
      else Some es
  end.

(* `if end != nil { ... }` *)
Fixpoint clip_last (en : Z) (es : list entry) : list entry :=
  match es with
  | [] => []
  | [e] => [if e_end e >? en then mkEntry (e_start e) (en - e_start e) else e]
  | e :: r => e :: clip_last en r
  end.

(* the handler after the parameters have been parsed, as it was before fix ed2cfb0; None = 404 *)
Definition on_list_core (all : list seg) (start end_ : option Z) : option (list entry) :=
  match find_segments s_start all start end_ with
  | None => None
  | Some segs =>
      let es := concatenate segs in
      match (match start with None => Some es | Some st => clip_first st es end) with
      | None => None
      | Some es' => Some (match end_ with None => es' | Some en => clip_last en es' end)
      end
  end.

Inductive lres := LBadRequest | LNotFound | LEntries (es : list entry).

(* onList: an end earlier than the start is rejected (fix ed2cfb0) *)
Definition on_list (all : list seg) (start end_ : option Z) : lres :=
  if match start, end_ with Some st, Some en => en <? st | _, _ => false end then LBadRequest
  else match on_list_core all start end_ with
       | None => LNotFound
       | Some es => LEntries es
       end.

(* ------------------------------------------------------------------ time scale conversions *)

(* Go's / and % truncate towards zero *)
Definition go_to_mp4 (v ts : Z) : Z :=
  Z.quot v second * ts + Z.quot (Z.rem v second * ts) second.
Definition mp4_to_go (v ts : Z) : Z :=
  Z.quot v ts * second + Z.quot (Z.rem v ts * second) ts.

(* ------------------------------------------------------------------ muxerFMP4 *)

Record sample := mkSample { sm_id : Z; sm_dur : Z; sm_sync : bool; sm_pts : Z }.
Record traf := mkTraf { tf_track : Z; tf_base : Z; tf_samples : list sample }.
Definition part : Type := list traf.
Record gseg := mkGseg { g_seg : seg; g_parts : list part }.
Definition g_start (g : gseg) : Z := s_start (g_seg g).

(* a muxer track; the sample buffer is kept newest first *)
Record tstate := mkT { t_id : Z; t_ts : Z; t_first : Z; t_last : Z; t_rsamples : list sample }.
(* one PartTrack of the output *)
Record otrack := mkO { o_track : Z; o_base : Z; o_samples : list sample }.
Definition opart : Type := list otrack.
(* m_init = `w.init != nil` (nothing written yet); m_out newest first *)
Record mstate := mkM { m_tracks : list tstate; m_cur : Z; m_init : bool; m_out : list opart }.

Inductive res (A : Type) := Ok (a : A) | ErrNotFound | ErrOther.
Arguments Ok {A} a.
Arguments ErrNotFound {A}.
Arguments ErrOther {A}.
Definition bind {A B} (r : res A) (f : A -> res B) : res B :=
  match r with Ok a => f a | ErrNotFound => ErrNotFound | ErrOther => ErrOther end.

(* writeInit *)
Definition mux_init (tracks : list trackdesc) : mstate :=
  mkM (map (fun '(i, ts, _) => mkT i ts (-1) 0 []) tracks) 0 true [].

Definition set_last_dur (d : Z) (rs : list sample) : list sample :=
  match rs with
  | [] => []
  | s :: r => mkSample (sm_id s) (d mod 4294967296) (sm_sync s) (sm_pts s) :: r
  end.

(* innerFlush: the PartTrack a track contributes, and the track afterwards *)
Definition flush_track (final : bool) (t : tstate) : option otrack * tstate :=
  let n := length (t_rsamples t) in
  if (0 <=? t_first t) && ((1 <? Z.of_nat n) || (final && negb (Z.of_nat n =? 0)))
  then if final
       then (Some (mkO (t_id t) (t_first t) (rev (t_rsamples t))), t)
       else (Some (mkO (t_id t) (t_first t) (rev (tl (t_rsamples t)))),
             mkT (t_id t) (t_ts t) (t_last t) (t_last t) (firstn 1 (t_rsamples t)))
  else (None, t).

Fixpoint flush_tracks (final : bool) (ts : list tstate) : list otrack * list tstate :=
  match ts with
  | [] => ([], [])
  | t :: r =>
      let '(o, t') := flush_track final t in
      let '(os, r') := flush_tracks final r in
      (match o with Some x => x :: os | None => os end, t' :: r')
  end.

Definition inner_flush (final : bool) (m : mstate) : res mstate :=
  let '(os, ts') := flush_tracks final (m_tracks m) in
  match os with
  | [] => if m_init m then ErrNotFound else Ok (mkM ts' (m_cur m) (m_init m) (m_out m))
  | _ => Ok (mkM ts' (m_cur m) false (os :: m_out m))
  end.

(* writeSample on one track: new track state and whether a (non-final) flush is requested *)
Definition write_track (dts : Z) (s : sample) (t : tstate) : tstate * bool :=
  let s0 := mkSample (sm_id s) 0 (sm_sync s) (sm_pts s) in
  if 0 <=? dts then
    let rs :=
      if t_first t <? 0 then (if sm_sync s then [] else t_rsamples t)
      else set_last_dur (Z.max (dts - t_last t) 0) (t_rsamples t) in
    let first := if t_first t <? 0 then dts else t_first t in
    (mkT (t_id t) (t_ts t) first dts (s0 :: rs), dts - first >=? go_to_mp4 part_duration (t_ts t))
  else
    (mkT (t_id t) (t_ts t) (t_first t) (t_last t) (if sm_sync s then [s0] else s0 :: t_rsamples t), false).

(* writeFinalDTS on one track *)
Definition final_track (dts : Z) (t : tstate) : tstate :=
  match t_rsamples t with
  | [] => t
  | _ => if 0 <=? t_first t
         then mkT (t_id t) (t_ts t) (t_first t) (t_last t) (set_last_dur (Z.max (dts - t_last t) 0) (t_rsamples t))
         else t
  end.

(* apply f to the first track with the given id (findTrack) *)
Fixpoint upd_track (id : Z) (f : tstate -> tstate) (ts : list tstate) : list tstate :=
  match ts with
  | [] => []
  | t :: r => if t_id t =? id then f t :: r else t :: upd_track id f r
  end.
Fixpoint get_track (id : Z) (ts : list tstate) : option tstate :=
  match ts with
  | [] => None
  | t :: r => if t_id t =? id then Some t else get_track id r
  end.

Definition write_sample (m : mstate) (dts : Z) (s : sample) : res mstate :=
  match get_track (m_cur m) (m_tracks m) with
  | None => ErrOther                       (* nil curTrack: not reachable, the reader checks the id first *)
  | Some t =>
      let '(t', fl) := write_track dts s t in
      let m' := mkM (upd_track (m_cur m) (fun _ => t') (m_tracks m)) (m_cur m) (m_init m) (m_out m) in
      if fl then inner_flush false m' else Ok m'
  end.

Definition write_final (m : mstate) (dts : Z) : mstate :=
  mkM (upd_track (m_cur m) (final_track dts) (m_tracks m)) (m_cur m) (m_init m) (m_out m).

(* ------------------------------------------------------------------ segmentFMP4MuxParts *)

Fixpoint find_ts (id : Z) (tracks : list trackdesc) : option Z :=
  match tracks with
  | [] => None
  | (i, ts, _) :: r => if i =? id then Some ts else find_ts id r
  end.

(* the loop over trun.Entries: final state, dts after the loop, whether it broke at the end of the window *)
Fixpoint mux_entries (m : mstate) (dts dur_mp4 : Z) (l : list sample) : res (mstate * Z * bool) :=
  match l with
  | [] => Ok (m, dts, false)
  | e :: r =>
      if dts >=? dur_mp4 then Ok (m, dts, true)
      else bind (write_sample m dts e) (fun m' => mux_entries m' (dts + sm_dur e) dur_mp4 r)
  end.

(* tfhd + tfdt + trun of one traf: state, elapsed (Go duration), break flag *)
Definition mux_traf (m : mstate) (start_dts duration : Z) (tracks : list trackdesc) (tf : traf)
  : res (mstate * Z * bool) :=
  match find_ts (tf_track tf) tracks with
  | None => ErrOther
  | Some ts =>
      let m1 := mkM (m_tracks m) (tf_track tf) (m_init m) (m_out m) in
      let start_mp4 := go_to_mp4 start_dts ts in
      let dur_mp4 := go_to_mp4 duration ts in
      bind (mux_entries m1 (tf_base tf + start_mp4) dur_mp4 (tf_samples tf)) (fun '(m2, dts, brk) =>
        Ok (write_final m2 dts, mp4_to_go (dts - start_mp4) ts, brk))
  end.

Fixpoint mux_part (m : mstate) (start_dts duration : Z) (tracks : list trackdesc) (p : part) (sd : Z) (brk : bool)
  : res (mstate * Z * bool) :=
  match p with
  | [] => Ok (m, sd, brk)
  | tf :: r =>
      bind (mux_traf m start_dts duration tracks tf) (fun '(m', el, b) =>
        mux_part m' start_dts duration tracks r (if el >? sd then el else sd) (brk || b))
  end.

(* moof, mdat, moof, mdat ...: stop at the mdat after a moof in which a trun reached the end of the window *)
Fixpoint mux_parts (m : mstate) (start_dts duration : Z) (tracks : list trackdesc) (ps : list part) (sd : Z)
  : res (mstate * Z) :=
  match ps with
  | [] => Ok (m, sd)
  | p :: r =>
      bind (mux_part m start_dts duration tracks p sd false) (fun '(m', sd', brk) =>
        if brk then Ok (m', sd') else mux_parts m' start_dts duration tracks r sd')
  end.

(* ------------------------------------------------------------------ seekAndMux, /get *)

Fixpoint mux_rest (m : mstate) (first : seg) (start_off start duration : Z)
         (prev : seg) (seg_end_ : Z) (l : list gseg) : res mstate :=
  match l with
  | [] => Ok m
  | g :: r =>
      if negb (can_concat prev seg_end_ (g_seg g)) then Ok m
      else
        let dts := match s_mtxi first, s_mtxi (g_seg g) with
                   | Some fm, Some mx => mx_dts mx - mx_dts fm + start_off
                   | _, _ => g_start g - start
                   end in
        bind (mux_parts m dts duration (s_tracks first) (g_parts g) 0) (fun '(m', sd) =>
          mux_rest m' first start_off start duration (g_seg g) (g_start g + sd) r)
  end.

Definition seek_and_mux (segs : list gseg) (start duration : Z) : res mstate :=
  match segs with
  | [] => ErrOther
  | g0 :: rest =>
      let first := g_seg g0 in
      let start_off := g_start g0 - start in
      bind (mux_parts (mux_init (s_tracks first)) start_off duration (s_tracks first) (g_parts g0) 0) (fun '(m1, sd) =>
        bind (mux_rest m1 first start_off start duration first (g_start g0 + sd) rest) (fun m2 =>
          inner_flush true m2))
  end.

(* the parts of the returned file, oldest first; ErrNotFound = 404 *)
Definition on_get (all : list gseg) (start duration : Z) : res (list opart) :=
  match find_segments g_start all (Some start) (Some (start + duration)) with
  | None => ErrNotFound
  | Some segs => bind (seek_and_mux segs start duration) (fun m => Ok (rev (m_out m)))
  end.

(* the sample table of one track of a fragmented file: (sample, decode time) in file order *)
Fixpoint flat_samples (base : Z) (l : list sample) : list (sample * Z) :=
  match l with
  | [] => []
  | s :: r => (s, base) :: flat_samples (base + sm_dur s) r
  end.
Definition flat_part (id : Z) (p : opart) : list (sample * Z) :=
  flat_map (fun o => if o_track o =? id then flat_samples (o_base o) (o_samples o) else []) p.
Definition flat_track (id : Z) (ps : list opart) : list (sample * Z) := flat_map (flat_part id) ps.
