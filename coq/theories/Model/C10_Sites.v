(* C10: the error return sites of Conf.Validate (fn 0) and Path.validate (fn 1), each mapped to the model.

   Modelled e     the check is modelled: Model/C10_Load.v has `chk <condition> e` at the corresponding place
                  (condition over plain fields);
   Oracle e name  the condition is the result of a library call (name), shipped per case as an oracle boolean;
                  the model has `chk (negb <oracle field>) e`;
   PassThrough    Conf.Validate passes on the error of Path.validate (validate_paths).

   The list of sites (fn, kind, text) is regenerated from the Go sources by tools/gen/c10sites into
   coq/gen/C10_ErrSites.v at every check; [sites_tie] compares the two as multisets: a new, removed or reworded
   error site, or a `return` of an unrecognised shape (kind 2), breaks the tie, so that a validation rule added
   to the Go code without touching the model is noticed. Entries are kept in source order for reading only. *)
From Coq Require Import String.
From Coq Require Import List ZArith Bool.
Require Import MTX.Model.C10_Load.
Import ListNotations.
Local Open Scope Z_scope.

Inductive cls := Modelled (e : verr) | Oracle (e : verr) (oracle : list Z) | PassThrough.

Definition site_table : list (Z * Z * list Z * cls) := [
  (0, 0, bytes "'readTimeout' must be greater than zero", Modelled E_read_timeout);
  (0, 0, bytes "'writeTimeout' must be greater than zero", Modelled E_write_timeout);
  (0, 0, bytes "'writeQueueSize' must be greater than zero", Modelled E_wqs_pos);
  (0, 0, bytes "'writeQueueSize' must be a power of two", Modelled E_wqs_pow2);
  (0, 0, bytes "'udpMaxPayloadSize' must be less than 1472", Modelled E_udp_max);
  (0, 0, bytes "authInternalUsers and legacy credentials (publishUser, publishPass, publishIPs, readUser, readPass, readIPs) cannot be used together", Modelled E_users_and_legacy);
  (0, 0, bytes "empty usernames are not supported", Modelled E_user_empty);
  (0, 0, bytes "using a password with 'any' user is not supported", Modelled E_any_pass);
  (0, 0, bytes "'authHTTPAddress' is empty", Modelled E_http_addr_empty);
  (0, 0, bytes "'externalAuthenticationURL' must be a HTTP URL", Modelled E_http_addr_scheme);
  (0, 0, bytes "'authJWTJWKS' is empty", Modelled E_jwks_empty);
  (0, 0, bytes "'authJWTJWKS' must be a HTTP URL", Modelled E_jwks_scheme);
  (0, 0, bytes "'authJWTClaimKey' is empty", Modelled E_claim_empty);
  (0, 0, bytes "'apiAddress' must be set when API is enabled", Modelled E_api_addr);
  (0, 0, bytes "'metricsAddress' must be set when metrics are enabled", Modelled E_metrics_addr);
  (0, 0, bytes "'pprofAddress' must be set when pprof is enabled", Modelled E_pprof_addr);
  (0, 0, bytes "'playbackAddress' must be set when playback is enabled", Modelled E_playback_addr);
  (0, 0, bytes "'rtspAddress' must be set when RTSP is enabled and RTSP encryption is 'no' or 'optional'", Modelled E_rtsp_addr);
  (0, 0, bytes "'rtpAddress' must be set when UDP is enabled and RTSP encryption is 'no' or 'optional'", Modelled E_rtp_addr);
  (0, 0, bytes "'rtcpAddress' must be set when UDP is enabled and RTSP encryption is 'no' or 'optional'", Modelled E_rtcp_addr);
  (0, 0, bytes "'multicastIPRange' must be set when UDP multicast is enabled and RTSP encryption is 'no' or 'optional'", Modelled E_mc_range_plain);
  (0, 0, bytes "'multicastRTPPort' must be set when UDP multicast is enabled and RTSP encryption is 'no' or 'optional'", Modelled E_mc_rtp);
  (0, 0, bytes "'multicastRTCPPort' must be set when UDP multicast is enabled and RTSP encryption is 'no' or 'optional'", Modelled E_mc_rtcp);
  (0, 0, bytes "'rtspsAddress' must be set when RTSP is enabled and RTSP encryption is 'optional' or 'strict'", Modelled E_rtsps_addr);
  (0, 0, bytes "'srtpAddress' must be set when UDP is enabled and RTSP encryption is 'optional' or 'strict'", Modelled E_srtp_addr);
  (0, 0, bytes "'srtcpAddress' must be set when UDP is enabled and RTSP encryption is 'optional' or 'strict'", Modelled E_srtcp_addr);
  (0, 0, bytes "'multicastIPRange' must be set when UDP multicast is enabled and RTSP encryption is 'optional' or 'strict'", Modelled E_mc_range_secure);
  (0, 0, bytes "'multicastSRTPPort' must be set when UDP multicast is enabled and RTSP encryption is 'optional' or 'strict'", Modelled E_mc_srtp);
  (0, 0, bytes "'multicastSRTCPPort' must be set when UDP multicast is enabled and RTSP encryption is 'optional' or 'strict'", Modelled E_mc_srtcp);
  (0, 0, bytes "at least one 'rtspAuthMethods' must be provided", Modelled E_rtsp_auth_methods);
  (0, 0, bytes "when RTSP digest is enabled, the only supported auth method is 'internal'", Modelled E_digest_method);
  (0, 0, bytes "when RTSP digest is enabled, hashed credentials cannot be used", Modelled E_digest_hashed);
  (0, 0, bytes "'rtmpAddress' must be set when RTMP is enabled", Modelled E_rtmp_addr);
  (0, 0, bytes "'hlsAddress' must be set when HLS is enabled", Modelled E_hls_addr);
  (0, 0, bytes "'hlsCDNSecret' contains unsupported characters. Supported are: %s", Oracle E_hls_secret (bytes "rePlainCredential.MatchString"));
  (0, 0, bytes "'webrtcAddress' must be set when WebRTC is enabled", Modelled E_webrtc_addr);
  (0, 0, bytes "invalid ICE server: '%s'", Modelled E_ice_server);
  (0, 0, bytes "at least one between 'webrtcLocalUDPAddress', 'webrtcLocalTCPAddress' or 'webrtcICEServers2' must be filled", Modelled E_webrtc_no_transport);
  (0, 0, bytes "at least one between 'webrtcIPsFromInterfaces' or 'webrtcAdditionalHosts' must be filled", Modelled E_webrtc_no_hosts);
  (0, 0, bytes "'moqQUICAddress' must be set when MoQ is enabled", Modelled E_moq_addr);
  (0, 0, bytes "all_others, all and '~^.*$' are aliases", Modelled E_aliases);
  (0, 1, bytes "conf.Paths[].validate", PassThrough);
  (0, 0, bytes "'publishPass' and 'readPass' cannot be used without 'publishUser' and 'readUser'", Modelled E_dep_any_pass);
  (0, 0, bytes "when RTSP digest is enabled, hashed credentials cannot be used", Modelled E_dep_digest_hashed);
  (1, 0, bytes "invalid path name '%s': %w", Oracle E_name (bytes "IsValidPathName"));
  (1, 0, bytes "invalid regular expression: %s", Oracle E_regexp (bytes "regexp.Compile"));
  (1, 0, bytes "'srtPublishPassphase' can only be used when source is 'publisher'", Modelled E_srt_pub_source);
  (1, 0, bytes "'sourceRedirect' is useless when source is not 'redirect'", Modelled E_redirect_useless);
  (1, 0, bytes "invalid 'srtPublishPassphrase': %w", Modelled E_srt_pub_len);
  (1, 1, bytes "validateURL", Oracle E_url (bytes "validateURL"));
  (1, 0, bytes "'rtspUDPSourcePortRange' must contain two ports", Modelled E_rtsp_port_range);
  (1, 1, bytes "validateURL", Oracle E_url (bytes "validateURL"));
  (1, 1, bytes "validateURL", Oracle E_url (bytes "validateURL"));
  (1, 1, bytes "validateURL", Oracle E_url (bytes "validateURL"));
  (1, 0, bytes "'%s' is missing the port", Oracle E_hostport (bytes "net.SplitHostPort"));
  (1, 1, bytes "validateURL", Oracle E_url (bytes "validateURL"));
  (1, 0, bytes "'%s' is missing the port", Oracle E_hostport (bytes "net.SplitHostPort"));
  (1, 1, bytes "validateURL", Oracle E_url (bytes "validateURL"));
  (1, 0, bytes "'%s' is missing the port", Oracle E_hostport (bytes "net.SplitHostPort"));
  (1, 0, bytes "`rtpSDP` was not provided", Modelled E_rtp_sdp);
  (1, 0, bytes "`rtpSDP` was not provided", Modelled E_rtp_sdp);
  (1, 1, bytes "validateURL", Oracle E_url (bytes "validateURL"));
  (1, 1, bytes "validateURL", Oracle E_url (bytes "validateURL"));
  (1, 1, bytes "validateURL", Oracle E_url (bytes "validateURL"));
  (1, 0, bytes "source redirect must be filled", Modelled E_redirect_empty);
  (1, 1, bytes "checkRedirect", Oracle E_redirect (bytes "checkRedirect"));
  (1, 0, bytes "invalid 'rpiCameraWidth' value", Modelled E_rpi_w);
  (1, 0, bytes "invalid 'rpiCameraHeight' value", Modelled E_rpi_h);
  (1, 0, bytes "'rpiCameraWidth' must be a multiple of 8 and less than 2048 when using MJPEG", Modelled E_rpi_w_mjpeg);
  (1, 0, bytes "'rpiCameraHeight' must be a multiple of 8 and less than 2048 when using MJPEG", Modelled E_rpi_h_mjpeg);
  (1, 0, bytes "invalid 'rpiCameraExposure' value", Modelled E_rpi_exposure);
  (1, 0, bytes "invalid 'rpiCameraAWB' value", Modelled E_rpi_awb);
  (1, 0, bytes "invalid 'rpiCameraAWBGains' value", Modelled E_rpi_gains);
  (1, 0, bytes "invalid 'rpiCameraDenoise' value", Modelled E_rpi_denoise);
  (1, 0, bytes "invalid 'rpiCameraMetering' value", Modelled E_rpi_metering);
  (1, 0, bytes "invalid 'rpiCameraAfMode' value", Modelled E_rpi_afmode);
  (1, 0, bytes "invalid 'rpiCameraAfRange' value", Modelled E_rpi_afrange);
  (1, 0, bytes "invalid 'rpiCameraAfSpeed' value", Modelled E_rpi_afspeed);
  (1, 0, bytes "invalid 'rpiCameraHardwareH264Profile' value", Modelled E_rpi_hw_profile);
  (1, 0, bytes "invalid 'rpiCameraHardwareH264Level' value", Modelled E_rpi_hw_level);
  (1, 0, bytes "invalid 'rpiCameraSoftwareH264Profile' value", Modelled E_rpi_sw_profile);
  (1, 0, bytes "invalid 'rpiCameraSoftwareH264Level' value", Modelled E_rpi_sw_level);
  (1, 0, bytes "invalid 'rpiCameraH264Profile' value", Modelled E_rpi_profile);
  (1, 0, bytes "invalid 'rpiCameraH264Level' value", Modelled E_rpi_level);
  (1, 0, bytes "supported codecs for a RPI Camera stream are auto, hardwareH264, softwareH264, mjpeg", Modelled E_rpi_codec);
  (1, 0, bytes "'rpiCamera' with same camera ID %d is used as source in two paths, '%s' and '%s'", Modelled E_rpi_dup);
  (1, 0, bytes "cannot find a primary RPI Camera stream to associate with the secondary stream", Modelled E_rpi_no_primary);
  (1, 0, bytes "a primary RPI Camera stream is associated with multiple secondary streams", Modelled E_rpi_multi_secondary);
  (1, 0, bytes "invalid source: '%s'", Modelled E_source_invalid);
  (1, 0, bytes "'sourceOnDemand' is useless when source is 'publisher'", Modelled E_on_demand_publisher);
  (1, 0, bytes "a path with a regular expression (or path 'all_others') and a static source must have 'sourceOnDemand' set to true", Modelled E_regex_static_demand);
  (1, 0, bytes "invalid 'readRTPassphrase': %w", Modelled E_srt_read_len);
  (1, 0, bytes "invalid 'forward': %w", Oracle E_forward (bytes "Forward.Validate"));
  (1, 1, bytes "checkRedirect", Oracle E_fallback (bytes "checkRedirect"));
  (1, 0, bytes "invalid 'alwaysAvailableTracks': %w", Modelled E_tracks);
  (1, 0, bytes "'alwaysAvailable' cannot be used in a path with a regular expression (or path 'all_others')", Modelled E_aa_regex);
  (1, 0, bytes "'sourceOnDemand' is not compatible with 'alwaysAvailable'", Modelled E_aa_on_demand);
  (1, 0, bytes "'runOnDemand' and 'runOnUnDemand' cannot be used with 'alwaysAvailable'", Modelled E_aa_run_on_demand);
  (1, 0, bytes "'alwaysAvailableFile' and 'alwaysAvailableTracks' cannot be used together", Modelled E_aa_file_and_tracks);
  (1, 0, bytes "invalid 'alwaysAvailableFile': %w", Oracle E_aa_file (bytes "checkAlwaysAvailableFile"));
  (1, 0, bytes "'alwaysAvailableTracks' must contain at least one track", Modelled E_aa_no_tracks);
  (1, 0, bytes "'useAbsoluteTimestamp' cannot be used with 'alwaysAvailable'", Modelled E_aa_abs_ts);
  (1, 0, bytes "'recordPath' must contain %%path", Modelled E_rec_path);
  (1, 0, bytes "'recordPath' must contain either %%s or %%Y %%m %%d %%H %%M %%S", Modelled E_rec_ts);
  (1, 0, bytes "'recordPath' must contain %%f", Modelled E_rec_f);
  (1, 0, bytes "maximum segment duration is 1 day", Modelled E_seg_max);
  (1, 0, bytes "'recordDeleteAfter' cannot be lower than 'recordSegmentDuration'", Modelled E_del_lt_seg);
  (1, 0, bytes "a path with a regular expression (or path 'all_others') does not support option 'runOnInit'; use another path", Modelled E_run_on_init_regex);
  (1, 0, bytes "'runOnDemand' and 'runOnUnDemand' can be used only when source is 'publisher'", Modelled E_run_on_demand_source)
].

Definition key_eqb (a b : Z * Z * list Z) : bool :=
  (fst (fst a) =? fst (fst b)) && (snd (fst a) =? snd (fst b)) && list_eqb (snd a) (snd b).
Definition count (k : Z * Z * list Z) (l : list (Z * Z * list Z)) : nat := List.length (filter (key_eqb k) l).
Definition table_keys : list (Z * Z * list Z) := map fst site_table.

(* every generated site is in the table as often as it occurs in the code, and conversely; no site of unknown shape *)
Definition sites_tie (gen : list (Z * Z * list Z)) : bool :=
  forallb (fun k => Nat.eqb (count k gen) (count k table_keys)) (gen ++ table_keys) &&
  forallb (fun k => negb (snd (fst k) =? 2)) gen.

Definition n_modelled : nat := List.length (filter (fun r => match snd r with Modelled _ => true | _ => false end) site_table).
Definition n_oracle : nat := List.length (filter (fun r => match snd r with Oracle _ _ => true | _ => false end) site_table).
