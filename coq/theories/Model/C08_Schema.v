(* C08 — schema-generic model of the JSON encoding of configuration values.

   JSON is modelled as a value tree (what encoding/json's scanner hands over / takes); strings inside the
   tree are the decoded byte strings (the string escaper and its parser are Lib/Json.v's subject).
   [enc] mirrors encoding/json.Marshal on the shapes the configuration uses (struct fields in order,
   omitempty, nil pointer/slice -> null, json.Marshaler types through their codec); [dec] mirrors
   internal/conf/jsonwrapper.decode (unknown fields rejected, null rejected for slices, pointers, absent
   fields left at their zero value, null for a struct leaves it at its zero value, an integer token is
   accepted for a float field, json.Unmarshaler types through their codec).

   The scalar codecs are parameters of the section: a codec id [c] comes with
   cenc c : cval -> json, cdec c : json -> option cval, cwf c : cval -> Prop. *)
From Coq Require Import List ZArith Bool.
Require Import MTX.Lib.Utf8 MTX.Model.C08_Scalars.
Import ListNotations.
Local Open Scope Z_scope.

Inductive json :=
| JNull
| JBool (b : bool)
| JInt (z : Z)
| JFloat (tok : list Z)            (* a number token that is not an integer: opaque *)
| JStr (s : list Z)
| JArr (l : list json)
| JObj (m : list (list Z * json)).

(* the text of an integer token / strconv.FormatFloat(float64(z), 'f', -1, 64) for |z| <= 2^53 *)
Definition ztext (z : Z) : list Z := if z <? 0 then 45 :: C08_Scalars.dec (- z) else C08_Scalars.dec z.

(* equality of JSON trees; a number token that spells an integer is that integer (encoding/json writes
   the float 1.0 as "1"; the generic parser on the Go side cannot tell) *)
Fixpoint json_eqb (a b : json) {struct a} : bool :=
  match a, b with
  | JNull, JNull => true
  | JBool x, JBool y => Bool.eqb x y
  | JInt x, JInt y => x =? y
  | JFloat x, JFloat y => list_eqb x y
  | JFloat x, JInt y | JInt y, JFloat x => list_eqb x (ztext y)
  | JStr x, JStr y => list_eqb x y
  | JArr x, JArr y =>
      (fix go (x y : list json) : bool :=
         match x, y with
         | [], [] => true
         | p :: x', q :: y' => json_eqb p q && go x' y'
         | _, _ => false
         end) x y
  | JObj x, JObj y =>
      (fix go (x : list (list Z * json)) (y : list (list Z * json)) : bool :=
         match x, y with
         | [], [] => true
         | (k, p) :: x', (k', q) :: y' => list_eqb k k' && json_eqb p q && go x' y'
         | _, _ => false
         end) x y
  | _, _ => false
  end.

Section Schema.
  Variable codec : Type.
  Variable cval : Type.
  Variable cenc : codec -> cval -> json.
  Variable cdec : codec -> json -> option cval.
  Variable cwf : codec -> cval -> Prop.
  Variable czero : codec -> cval.

  (* field = (JSON key, omitempty, type) *)
  Inductive ty :=
  | TBool
  | TInt (lo hi : Z)                 (* int / uint kinds with their range *)
  | TFloat
  | TString
  | TCodec (c : codec)
  | TList (t : ty)
  | TOpt (t : ty)                    (* pointer *)
  | TMap (t : ty)                    (* map[string]T *)
  | TStruct (fs : list (list Z * bool * ty)).

  Inductive value :=
  | VBool (b : bool)
  | VInt (z : Z)
  | VFloat (tok : list Z)
  | VStr (s : list Z)
  | VCodec (x : cval)
  | VNilList                          (* a nil slice *)
  | VList (l : list value)
  | VNone                             (* a nil pointer *)
  | VSome (v : value)
  | VMap (m : list (list Z * value))  (* in key order, as encoding/json writes maps *)
  | VStruct (vs : list value).

  Definition fname (f : list Z * bool * ty) : list Z := fst (fst f).
  Definition fomit (f : list Z * bool * ty) : bool := snd (fst f).
  Definition ftype (f : list Z * bool * ty) : ty := snd f.

  (* encoding/json isEmptyValue *)
  Definition is_empty (v : value) : bool :=
    match v with
    | VBool b => negb b
    | VInt z => z =? 0
    | VStr s => match s with [] => true | _ => false end
    | VNilList | VNone => true
    | VList l => match l with [] => true | _ => false end
    | VMap m => match m with [] => true | _ => false end
    | VFloat _ | VCodec _ | VSome _ | VStruct _ => false
    end.

  Fixpoint enc (t : ty) (v : value) {struct t} : json :=
    match t, v with
    | TBool, VBool b => JBool b
    | TInt _ _, VInt z => JInt z
    | TFloat, VFloat k => JFloat k
    | TString, VStr s => JStr s
    | TCodec c, VCodec x => cenc c x
    | TList _, VNilList => JNull
    | TList t', VList l => JArr (map (enc t') l)
    | TOpt _, VNone => JNull
    | TOpt t', VSome v' => enc t' v'
    | TMap t', VMap m => JObj (map (fun kv => (fst kv, enc t' (snd kv))) m)
    | TStruct fs, VStruct vs =>
        JObj ((fix ef (fs : list (list Z * bool * ty)) (vs : list value) : list (list Z * json) :=
                 match fs, vs with
                 | f :: fs', fv :: vs' =>
                     if snd (fst f) && is_empty fv then ef fs' vs'
                     else (fst (fst f), enc (snd f) fv) :: ef fs' vs'
                 | _, _ => []
                 end) fs vs)
    | _, _ => JNull
    end.

  Fixpoint zero (t : ty) : value :=
    match t with
    | TBool => VBool false
    | TInt _ _ => VInt 0
    | TFloat => VFloat [48]
    | TString => VStr []
    | TCodec c => VCodec (czero c)
    | TList _ => VNilList
    | TOpt _ => VNone
    | TMap _ => VMap []
    | TStruct fs => VStruct ((fix zf (fs : list (list Z * bool * ty)) : list value :=
                               match fs with [] => [] | f :: fs' => zero (snd f) :: zf fs' end) fs)
    end.

  Fixpoint mapM {A B : Type} (f : A -> option B) (l : list A) : option (list B) :=
    match l with
    | [] => Some []
    | x :: r => match f x, mapM f r with Some y, Some ys => Some (y :: ys) | _, _ => None end
    end.

  (* map[string]RawMessage: the last occurrence of a key wins *)
  Fixpoint lookup_last (k : list Z) (m : list (list Z * json)) : option json :=
    match m with
    | [] => None
    | (k', j) :: r =>
        match lookup_last k r with
        | Some j' => Some j'
        | None => if list_eqb k' k then Some j else None
        end
    end.

  Definition known (k : list Z) (fs : list (list Z * bool * ty)) : bool :=
    existsb (fun f => list_eqb (fst (fst f)) k) fs.

  Fixpoint dec (t : ty) (j : json) {struct t} : option value :=
    match t with
    | TBool => match j with JBool b => Some (VBool b) | JNull => Some (VBool false) | _ => None end
    | TInt lo hi =>
        match j with
        | JInt z => if (lo <=? z) && (z <=? hi) then Some (VInt z) else None
        | JNull => Some (VInt 0)
        | _ => None
        end
    | TFloat =>
        match j with
        | JFloat k => Some (VFloat k)
        | JInt z => Some (VFloat (ztext z))           (* exact for |z| <= 2^53; beyond, float64 rounding is not modelled *)
        | JNull => Some (VFloat [48])
        | _ => None
        end
    | TString => match j with JStr s => Some (VStr s) | JNull => Some (VStr []) | _ => None end
    | TCodec c => option_map VCodec (cdec c j)
    | TList t' =>
        match j with
        | JArr l => option_map VList (mapM (dec t') l)
        | _ => None                                   (* null: "cannot set slice to nil" *)
        end
    | TOpt t' => match j with JNull => Some VNone | _ => option_map VSome (dec t' j) end
    | TMap t' =>
        match j with
        | JObj m => option_map VMap (mapM (fun kv => option_map (pair (fst kv)) (dec t' (snd kv))) m)
        | _ => None
        end
    | TStruct fs =>
        match j with
        | JObj m =>
            if forallb (fun kv => known (fst kv) fs) m then
              option_map VStruct
                ((fix df (fs : list (list Z * bool * ty)) : option (list value) :=
                    match fs with
                    | [] => Some []
                    | f :: fs' =>
                        match (match lookup_last (fst (fst f)) m with
                               | Some j' => dec (snd f) j'
                               | None => Some (zero (snd f))
                               end), df fs' with
                        | Some v, Some vs => Some (v :: vs)
                        | _, _ => None
                        end
                    end) fs)
            else None                                  (* json: unknown field *)
        | JNull => Some (zero (TStruct fs))            (* json.Unmarshal(null, &rawMap): no entry, no error *)
        | _ => None
        end
    end.

  (* well-formed values of a type (what a decoded, validated configuration holds).
     Maps: the model's decoder keeps the entries of a JSON object in order and does not merge duplicate
     keys (Go keeps the last one), its encoder writes the entries in the order of the value (Go sorts):
     faithful only for values whose keys are distinct [no_dup_keys] and listed in key order.  The four
     configuration schemas hold no map at all (C08_schema_facts: has_map = false). *)
  Fixpoint no_dup_keys (m : list (list Z * value)) : Prop :=
    match m with
    | [] => True
    | (k, _) :: r => ~ In k (map fst r) /\ no_dup_keys r
    end.

  Fixpoint wf (t : ty) (v : value) {struct t} : Prop :=
    match t, v with
    | TBool, VBool _ => True
    | TInt lo hi, VInt z => lo <= z <= hi
    | TFloat, VFloat _ => True
    | TString, VStr s => valid_utf8 s = true
    | TCodec c, VCodec x => cwf c x
    | TList t', VList l => (fix wl (l : list value) : Prop := match l with [] => True | x :: r => wf t' x /\ wl r end) l
    | TOpt _, VNone => True
    | TOpt t', VSome v' => wf t' v'
    | TMap t', VMap m =>
        no_dup_keys m /\
        (fix wm (m : list (list Z * value)) : Prop := match m with [] => True | kv :: r => wf t' (snd kv) /\ wm r end) m
    | TStruct fs, VStruct vs =>
        (fix ws (fs : list (list Z * bool * ty)) (vs : list value) : Prop :=
           match fs, vs with
           | [], [] => True
           | f :: fs', fv :: vs' => wf (snd f) fv /\ ws fs' vs'
           | _, _ => False
           end) fs vs
    | _, _ => False
    end.

  (* equality of values, given one on codec values (correspondence check only) *)
  Variable cveqb : cval -> cval -> bool.
  Fixpoint value_eqb (a b : value) {struct a} : bool :=
    match a, b with
    | VBool x, VBool y => Bool.eqb x y
    | VInt x, VInt y => x =? y
    | VFloat x, VFloat y | VStr x, VStr y => list_eqb x y
    | VCodec x, VCodec y => cveqb x y
    | VNilList, VNilList | VNone, VNone => true
    | VSome x, VSome y => value_eqb x y
    | VList x, VList y | VStruct x, VStruct y =>
        (fix go (x y : list value) : bool :=
           match x, y with
           | [], [] => true
           | p :: x', q :: y' => value_eqb p q && go x' y'
           | _, _ => false
           end) x y
    | VMap x, VMap y =>
        (fix go (x : list (list Z * value)) (y : list (list Z * value)) : bool :=
           match x, y with
           | [], [] => true
           | (k, p) :: x', (k', q) :: y' => list_eqb k k' && value_eqb p q && go x' y'
           | _, _ => false
           end) x y
    | _, _ => false
    end.

  (* conditions on the type itself *)
  Definition is_opt (t : ty) : bool := match t with TOpt _ => true | _ => false end.

  Fixpoint nodup_names (l : list (list Z)) : bool :=
    match l with
    | [] => true
    | x :: r => negb (existsb (list_eqb x) r) && nodup_names r
    end.

  Fixpoint ty_ok (t : ty) : bool :=
    match t with
    | TBool | TInt _ _ | TFloat | TString | TCodec _ => true
    | TList t' | TMap t' => ty_ok t'
    | TOpt t' => negb (is_opt t') && ty_ok t'
    | TStruct fs =>
        nodup_names (map (fun f => fst (fst f)) fs) &&
        (fix ok (fs : list (list Z * bool * ty)) : bool :=
           match fs with
           | [] => true
           | f :: fs' => (negb (snd (fst f)) || is_opt (snd f)) && ty_ok (snd f) && ok fs'
           end) fs
    end.

  Fixpoint has_map (t : ty) : bool :=
    match t with
    | TBool | TInt _ _ | TFloat | TString | TCodec _ => false
    | TList t' | TOpt t' => has_map t'
    | TMap _ => true
    | TStruct fs =>
        (fix hm (fs : list (list Z * bool * ty)) : bool :=
           match fs with [] => false | f :: fs' => has_map (snd f) || hm fs' end) fs
    end.

  Fixpoint codecs_of (t : ty) : list codec :=
    match t with
    | TBool | TInt _ _ | TFloat | TString => []
    | TCodec c => [c]
    | TList t' | TOpt t' | TMap t' => codecs_of t'
    | TStruct fs =>
        (fix cf (fs : list (list Z * bool * ty)) : list codec :=
           match fs with [] => [] | f :: fs' => codecs_of (snd f) ++ cf fs' end) fs
    end.

  Definition codec_ok (c : codec) : Prop :=
    forall x, cwf c x -> cdec c (cenc c x) = Some x /\ cenc c x <> JNull.

  Definition codecs_ok (t : ty) : Prop := forall c, In c (codecs_of t) -> codec_ok c.

  (* ---- the view the API decodes into: every field a pointer with omitempty
     (optionalGlobalValuesType / optionalPathValuesType) *)
  Definition optionalize (t : ty) : ty :=
    match t with
    | TStruct fs => TStruct (map (fun f => (fst (fst f), true, if is_opt (snd f) then snd f else TOpt (snd f))) fs)
    | _ => t
    end.

  (* the value of that view after decoding what [enc t v] wrote: non-pointer fields become non-nil pointers *)
  Fixpoint lift_fields (fs : list (list Z * bool * ty)) (vs : list value) : list value :=
    match fs, vs with
    | f :: fs', v :: vs' => (if is_opt (snd f) then v else VSome v) :: lift_fields fs' vs'
    | _, _ => []
    end.
  Definition lift (t : ty) (v : value) : value :=
    match t, v with
    | TStruct fs, VStruct vs => VStruct (lift_fields fs vs)
    | _, _ => v
    end.

  (* copyStructFields(dest, source) with source an optional view *)
  Fixpoint patch_fields (fs : list (list Z * bool * ty)) (dest src : list value) : list value :=
    match fs, dest, src with
    | f :: fs', d :: dest', s :: src' =>
        (match s with
         | VNone => d
         | VSome x => if is_opt (snd f) then VSome x else x
         | _ => s
         end) :: patch_fields fs' dest' src'
    | _, _, _ => []
    end.
  Definition patch (t : ty) (dest src : value) : value :=
    match t, dest, src with
    | TStruct fs, VStruct d, VStruct s => VStruct (patch_fields fs d s)
    | _, _, _ => dest
    end.
End Schema.

Arguments TBool {codec}.
Arguments TInt {codec}.
Arguments TFloat {codec}.
Arguments TString {codec}.
Arguments TCodec {codec}.
Arguments TList {codec}.
Arguments TOpt {codec}.
Arguments TMap {codec}.
Arguments TStruct {codec}.
Arguments VBool {cval}.
Arguments VInt {cval}.
Arguments VFloat {cval}.
Arguments VStr {cval}.
Arguments VCodec {cval}.
Arguments VNilList {cval}.
Arguments VList {cval}.
Arguments VNone {cval}.
Arguments VSome {cval}.
Arguments VMap {cval}.
Arguments VStruct {cval}.
