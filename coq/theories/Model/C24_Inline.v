(* Inline scaling expressions  a * b / c  of /repo/internal that are NOT one of the named helpers.
   The *sites* are translated from the Go sources on every run into gen/C24_Inline.v by
   tools/gen/muldiv_inline (go/ast + go/types): each site becomes a function of its three operand
   positions with the wrap-around of every conversion and of every operation explicit, together with
   the range of each operand (Go type of the operand, value of a constant, or a library range fact). *)
From Coq Require Import ZArith List Bool.
Require Import MTX.Lib.IntWrap.
Local Open Scope Z_scope.

(* signed / unsigned widths that IntWrap does not define *)
Definition wrap32 (z : Z) : Z := (z + 2147483648) mod 4294967296 - 2147483648.
Definition wrap16 (z : Z) : Z := (z + 32768) mod 65536 - 32768.
Definition wrap8 (z : Z) : Z := (z + 128) mod 256 - 128.
Definition wrapu8 (z : Z) : Z := z mod 256.

Definition rng : Type := (Z * Z)%type.          (* inclusive bounds *)
Definition in_rng (x : Z) (r : rng) : Prop := fst r <= x <= snd r.
Definition in_rngb (x : Z) (r : rng) : bool := (fst r <=? x) && (x <=? snd r).

Record inline_site := mk_inline_site {
  is_f : Z -> Z -> Z -> Z;      (* the translated expression over its operand positions a * b / c; a constant operand is
                                   printed literally and its position is unused *)
  is_ra : rng; is_rb : rng; is_rc : rng;   (* what is known of each operand *)
  is_res : rng }.               (* the values representable in the type of the expression *)

(* the property for one site: for all operands in their ranges and a non-zero divisor, if the exact result is
   representable in the type of the expression then the expression evaluates to it (truncated toward zero) *)
Definition inline_exact (s : inline_site) : Prop :=
  forall a b c, in_rng a (is_ra s) -> in_rng b (is_rb s) -> in_rng c (is_rc s) -> c <> 0 ->
    in_rng (Z.quot (a * b) c) (is_res s) -> is_f s a b c = Z.quot (a * b) c.

(* the negation in boolean form: some operands in the ranges with a representable exact result on which the
   expression yields something else (the intermediate product wrapped around) *)
Definition inline_overflows_at (s : inline_site) (a b c : Z) : bool :=
  in_rngb a (is_ra s) && in_rngb b (is_rb s) && in_rngb c (is_rc s) && negb (c =? 0) &&
  in_rngb (Z.quot (a * b) c) (is_res s) && negb (is_f s a b c =? Z.quot (a * b) c).
Definition inline_overflows (s : inline_site) : Prop := exists a b c, inline_overflows_at s a b c = true.

(* canonical shapes, one per width (used by examples and by the refutations) *)
Definition inl_w (W : Z -> Z) (a b c : Z) : Z := W (Z.quot (W (a * b)) c).

Definition rng_int64 : rng := (-9223372036854775808, 9223372036854775807).
Definition rng_uint64 : rng := (0, 18446744073709551615).
Definition rng_int32 : rng := (-2147483648, 2147483647).
Definition rng_uint32 : rng := (0, 4294967295).
