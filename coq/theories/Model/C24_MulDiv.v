(* The canonical shape of the timestamp scaling helpers of /repo/internal (multiplyAndDivide & co.),
   with Go's int64 wrap-around explicit. The *sites* are translated from the Go sources on every run
   into gen/C24_Sites.v by tools/gen/muldiv; each must be convertible to muldiv_w. *)
From Coq Require Import ZArith.
Require Import MTX.Lib.IntWrap.
Local Open Scope Z_scope.

(*  secs := v / d ; dec := v % d ; return secs*m + dec*m/d   (all int64 / time.Duration) *)
Definition muldiv_w (v m d : Z) : Z :=
  let secs := wrap64 (Z.quot v d) in
  let dec := wrap64 (Z.rem v d) in
  wrap64 (wrap64 (secs * m) + wrap64 (Z.quot (wrap64 (dec * m)) d)).

Definition nanos : Z := 1000000000.   (* time.Second *)
