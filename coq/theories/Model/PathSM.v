(* Model of the path event loop: internal/core/path.go (publisher paths and static-source paths, with or
   without alwaysAvailable; no redirect/fallback, no recording), with the hook closures of
   internal/hooks/on_available.go, on_online.go, on_demand.go and the start/stop protocol of
   internal/staticsources/handler.go.  Executable; no proofs here.

   The path goroutine handles one message at a time, so its behaviour is a function
     step : pstate -> pop -> pstate * list pevent
   Every handler below is a transliteration of the Go function named in its comment; the events are
   emitted in the order the loop issues them. *)
From Coq Require Import List ZArith Bool.
Require Import MTX.Lib.Trace.
Import ListNotations.
Local Open Scope Z_scope.

(* pathOnDemandState *)
Inductive ods := OdInitial | OdWaiting | OdReady | OdClosing.
(* the four timers of the loop *)
Inductive timer := TSSReady | TSSClose | TPubReady | TPubClose.
(* hook pairs: runOnAvailable/runOnUnavailable ("ready/not ready"), runOnOnline/runOnOffline, runOnDemand/runOnUnDemand *)
Inductive hk := HAvail | HOnline | HDemand.

Inductive ans := AStream (g : Z) | AErr (code : Z).
Definition E_BUSY := 1.          (* someone is already publishing *)
Definition E_NOSTREAM := 2.      (* PathNoStreamAvailableError *)
Definition E_TIMEOUT := 3.       (* source of path has timed out *)
Definition E_TERMINATED := 4.    (* terminated *)
Definition E_MAXREADERS := 5.    (* maximum reader count reached *)
Definition E_NOTPUBLISHER := 6.  (* 'source' is not 'publisher' *)
Definition E_INCOMPAT := 7.      (* SubStream.Initialize: mediasAreCompatible failed ("wants to publish ..., but stream expects ...") *)

(* which sub-stream is the stream's current one (internal/stream: Stream.subStream, the only one whose
   WriteUnit reaches readers): none (no stream), the offline sub-stream of an alwaysAvailable stream,
   the one handed to publisher p by its last successful AddPublisher, the static source's *)
Inductive sub := SNone | SOffline | SPub (p : Z) | SStatic.

Inductive pevent :=
| EAnswer (q : Z) (a : ans)      (* a value sent on the request's Res channel *)
| EReaderClosed (r : Z)          (* Reader.Close() *)
| EPubClosed (p : Z)             (* Publisher.Close() *)
| EPathReady (g : Z)             (* parent.setPathReady, stream generation g was created *)
| EPathNotReady                  (* parent.setPathNotReady: the stream is being torn down *)
| EOpen (k : hk)                 (* call of hooks.OnAvailable / OnOnline / OnDemand (not visible from outside) *)
| EClose (k : hk)                (* call of the closure it returned *)
| ELogStart (k : hk)             (* "runOnX command started" *)
| ELogStop (k : hk)              (* "runOnX command stopped" *)
| ELogLaunch (k : hk)            (* "runOnUnX command launched" *)
| ESrcStart                      (* staticsources.Handler.Start *)
| ESrcStop                       (* staticsources.Handler.Stop *)
| EFired (t : timer)             (* the loop received from the timer's channel *)
| ERemovePath                    (* parent.removePath *)
| EPanic.                        (* nil closure call / Handler.Start|Stop "should not happen" *)

Inductive pop :=
| Describe (q : Z)
| AddPublisher (q p : Z) (ok : bool)   (* ok: the publisher's tracks are compatible with the tracks of an
                                         alwaysAvailable stream (SubStream.Initialize succeeds); unused otherwise *)
| RemovePublisher (p : Z)
| AddReader (q r : Z)
| RemoveReader (r : Z)
| StaticReady (q : Z)            (* the static source instance calls SetReady *)
| StaticNotReady                 (* the static source instance calls SetNotReady *)
| TimerFire (t : timer)          (* enabled only while the timer is armed *)
| ReloadConf                     (* hot reload: changes only fields outside this model *)
| Close.                         (* ctx cancelled *)

(* the fields of conf.Path the loop reads (hook strings: non-empty?) *)
Record pconf := mkConf {
  c_static : bool;      (* HasStaticSource *)
  c_sod : bool;         (* SourceOnDemand *)
  c_override : bool;    (* OverridePublisher *)
  c_maxr : Z;           (* MaxReaders *)
  c_hAvail : bool; c_hUnavail : bool;
  c_hOnline : bool; c_hOffline : bool;
  c_hDemand : bool; c_hUnDemand : bool;
  c_aa : bool           (* AlwaysAvailable *)
}.

Definition od_static (cf : pconf) : bool := c_static cf && c_sod cf.   (* HasOnDemandStaticSource *)
Definition od_pub (cf : pconf) : bool := c_hDemand cf.                  (* HasOnDemandPublisher *)
Definition h_start (k : hk) (cf : pconf) : bool :=
  match k with HAvail => c_hAvail cf | HOnline => c_hOnline cf | HDemand => c_hDemand cf end.
Definition h_un (k : hk) (cf : pconf) : bool :=
  match k with HAvail => c_hUnavail cf | HOnline => c_hOffline cf | HDemand => c_hUnDemand cf end.

Definition ods_eqb (a b : ods) : bool :=
  match a, b with
  | OdInitial, OdInitial | OdWaiting, OdWaiting | OdReady, OdReady | OdClosing, OdClosing => true
  | _, _ => false
  end.

Record pstate := mkState {
  s_conf : pconf;
  s_closed : bool;
  s_source : option Z;
  s_stream : option Z;
  s_nextgen : Z;
  s_readers : list Z;
  s_dhold : list Z;
  s_rhold : list (Z * Z);
  s_ssState : ods;
  s_ssReadyT : bool;
  s_ssCloseT : bool;
  s_ssRunning : bool;
  s_instReady : bool;
  s_pubState : ods;
  s_pubReadyT : bool;
  s_pubCloseT : bool;
  s_hUnDemand : bool;
  s_hUnavail : bool;
  s_hOffline : bool;
  s_sub : sub           (* pa.stream.subStream, by identity *)
}.

Definition set_closed (v : bool) (s : pstate) : pstate :=
  mkState (s_conf s) v (s_source s) (s_stream s) (s_nextgen s) (s_readers s) (s_dhold s) (s_rhold s) (s_ssState s) (s_ssReadyT s) (s_ssCloseT s) (s_ssRunning s) (s_instReady s) (s_pubState s) (s_pubReadyT s) (s_pubCloseT s) (s_hUnDemand s) (s_hUnavail s) (s_hOffline s) (s_sub s).
Definition set_source (v : option Z) (s : pstate) : pstate :=
  mkState (s_conf s) (s_closed s) v (s_stream s) (s_nextgen s) (s_readers s) (s_dhold s) (s_rhold s) (s_ssState s) (s_ssReadyT s) (s_ssCloseT s) (s_ssRunning s) (s_instReady s) (s_pubState s) (s_pubReadyT s) (s_pubCloseT s) (s_hUnDemand s) (s_hUnavail s) (s_hOffline s) (s_sub s).
Definition set_stream (v : option Z) (s : pstate) : pstate :=
  mkState (s_conf s) (s_closed s) (s_source s) v (s_nextgen s) (s_readers s) (s_dhold s) (s_rhold s) (s_ssState s) (s_ssReadyT s) (s_ssCloseT s) (s_ssRunning s) (s_instReady s) (s_pubState s) (s_pubReadyT s) (s_pubCloseT s) (s_hUnDemand s) (s_hUnavail s) (s_hOffline s) (s_sub s).
Definition set_nextgen (v : Z) (s : pstate) : pstate :=
  mkState (s_conf s) (s_closed s) (s_source s) (s_stream s) v (s_readers s) (s_dhold s) (s_rhold s) (s_ssState s) (s_ssReadyT s) (s_ssCloseT s) (s_ssRunning s) (s_instReady s) (s_pubState s) (s_pubReadyT s) (s_pubCloseT s) (s_hUnDemand s) (s_hUnavail s) (s_hOffline s) (s_sub s).
Definition set_readers (v : list Z) (s : pstate) : pstate :=
  mkState (s_conf s) (s_closed s) (s_source s) (s_stream s) (s_nextgen s) v (s_dhold s) (s_rhold s) (s_ssState s) (s_ssReadyT s) (s_ssCloseT s) (s_ssRunning s) (s_instReady s) (s_pubState s) (s_pubReadyT s) (s_pubCloseT s) (s_hUnDemand s) (s_hUnavail s) (s_hOffline s) (s_sub s).
Definition set_dhold (v : list Z) (s : pstate) : pstate :=
  mkState (s_conf s) (s_closed s) (s_source s) (s_stream s) (s_nextgen s) (s_readers s) v (s_rhold s) (s_ssState s) (s_ssReadyT s) (s_ssCloseT s) (s_ssRunning s) (s_instReady s) (s_pubState s) (s_pubReadyT s) (s_pubCloseT s) (s_hUnDemand s) (s_hUnavail s) (s_hOffline s) (s_sub s).
Definition set_rhold (v : list (Z * Z)) (s : pstate) : pstate :=
  mkState (s_conf s) (s_closed s) (s_source s) (s_stream s) (s_nextgen s) (s_readers s) (s_dhold s) v (s_ssState s) (s_ssReadyT s) (s_ssCloseT s) (s_ssRunning s) (s_instReady s) (s_pubState s) (s_pubReadyT s) (s_pubCloseT s) (s_hUnDemand s) (s_hUnavail s) (s_hOffline s) (s_sub s).
Definition set_ssState (v : ods) (s : pstate) : pstate :=
  mkState (s_conf s) (s_closed s) (s_source s) (s_stream s) (s_nextgen s) (s_readers s) (s_dhold s) (s_rhold s) v (s_ssReadyT s) (s_ssCloseT s) (s_ssRunning s) (s_instReady s) (s_pubState s) (s_pubReadyT s) (s_pubCloseT s) (s_hUnDemand s) (s_hUnavail s) (s_hOffline s) (s_sub s).
Definition set_ssReadyT (v : bool) (s : pstate) : pstate :=
  mkState (s_conf s) (s_closed s) (s_source s) (s_stream s) (s_nextgen s) (s_readers s) (s_dhold s) (s_rhold s) (s_ssState s) v (s_ssCloseT s) (s_ssRunning s) (s_instReady s) (s_pubState s) (s_pubReadyT s) (s_pubCloseT s) (s_hUnDemand s) (s_hUnavail s) (s_hOffline s) (s_sub s).
Definition set_ssCloseT (v : bool) (s : pstate) : pstate :=
  mkState (s_conf s) (s_closed s) (s_source s) (s_stream s) (s_nextgen s) (s_readers s) (s_dhold s) (s_rhold s) (s_ssState s) (s_ssReadyT s) v (s_ssRunning s) (s_instReady s) (s_pubState s) (s_pubReadyT s) (s_pubCloseT s) (s_hUnDemand s) (s_hUnavail s) (s_hOffline s) (s_sub s).
Definition set_ssRunning (v : bool) (s : pstate) : pstate :=
  mkState (s_conf s) (s_closed s) (s_source s) (s_stream s) (s_nextgen s) (s_readers s) (s_dhold s) (s_rhold s) (s_ssState s) (s_ssReadyT s) (s_ssCloseT s) v (s_instReady s) (s_pubState s) (s_pubReadyT s) (s_pubCloseT s) (s_hUnDemand s) (s_hUnavail s) (s_hOffline s) (s_sub s).
Definition set_instReady (v : bool) (s : pstate) : pstate :=
  mkState (s_conf s) (s_closed s) (s_source s) (s_stream s) (s_nextgen s) (s_readers s) (s_dhold s) (s_rhold s) (s_ssState s) (s_ssReadyT s) (s_ssCloseT s) (s_ssRunning s) v (s_pubState s) (s_pubReadyT s) (s_pubCloseT s) (s_hUnDemand s) (s_hUnavail s) (s_hOffline s) (s_sub s).
Definition set_pubState (v : ods) (s : pstate) : pstate :=
  mkState (s_conf s) (s_closed s) (s_source s) (s_stream s) (s_nextgen s) (s_readers s) (s_dhold s) (s_rhold s) (s_ssState s) (s_ssReadyT s) (s_ssCloseT s) (s_ssRunning s) (s_instReady s) v (s_pubReadyT s) (s_pubCloseT s) (s_hUnDemand s) (s_hUnavail s) (s_hOffline s) (s_sub s).
Definition set_pubReadyT (v : bool) (s : pstate) : pstate :=
  mkState (s_conf s) (s_closed s) (s_source s) (s_stream s) (s_nextgen s) (s_readers s) (s_dhold s) (s_rhold s) (s_ssState s) (s_ssReadyT s) (s_ssCloseT s) (s_ssRunning s) (s_instReady s) (s_pubState s) v (s_pubCloseT s) (s_hUnDemand s) (s_hUnavail s) (s_hOffline s) (s_sub s).
Definition set_pubCloseT (v : bool) (s : pstate) : pstate :=
  mkState (s_conf s) (s_closed s) (s_source s) (s_stream s) (s_nextgen s) (s_readers s) (s_dhold s) (s_rhold s) (s_ssState s) (s_ssReadyT s) (s_ssCloseT s) (s_ssRunning s) (s_instReady s) (s_pubState s) (s_pubReadyT s) v (s_hUnDemand s) (s_hUnavail s) (s_hOffline s) (s_sub s).
Definition set_hUnDemand (v : bool) (s : pstate) : pstate :=
  mkState (s_conf s) (s_closed s) (s_source s) (s_stream s) (s_nextgen s) (s_readers s) (s_dhold s) (s_rhold s) (s_ssState s) (s_ssReadyT s) (s_ssCloseT s) (s_ssRunning s) (s_instReady s) (s_pubState s) (s_pubReadyT s) (s_pubCloseT s) v (s_hUnavail s) (s_hOffline s) (s_sub s).
Definition set_hUnavail (v : bool) (s : pstate) : pstate :=
  mkState (s_conf s) (s_closed s) (s_source s) (s_stream s) (s_nextgen s) (s_readers s) (s_dhold s) (s_rhold s) (s_ssState s) (s_ssReadyT s) (s_ssCloseT s) (s_ssRunning s) (s_instReady s) (s_pubState s) (s_pubReadyT s) (s_pubCloseT s) (s_hUnDemand s) v (s_hOffline s) (s_sub s).
Definition set_hOffline (v : bool) (s : pstate) : pstate :=
  mkState (s_conf s) (s_closed s) (s_source s) (s_stream s) (s_nextgen s) (s_readers s) (s_dhold s) (s_rhold s) (s_ssState s) (s_ssReadyT s) (s_ssCloseT s) (s_ssRunning s) (s_instReady s) (s_pubState s) (s_pubReadyT s) (s_pubCloseT s) (s_hUnDemand s) (s_hUnavail s) v (s_sub s).
Definition set_sub (v : sub) (s : pstate) : pstate :=
  mkState (s_conf s) (s_closed s) (s_source s) (s_stream s) (s_nextgen s) (s_readers s) (s_dhold s) (s_rhold s) (s_ssState s) (s_ssReadyT s) (s_ssCloseT s) (s_ssRunning s) (s_instReady s) (s_pubState s) (s_pubReadyT s) (s_pubCloseT s) (s_hUnDemand s) (s_hUnavail s) (s_hOffline s) v.

(* a handler: state transformer that emits events *)
Definition M := pstate -> pstate * list pevent.
Definition ret : M := fun s => (s, []).
Definition bindM (f g : M) : M :=
  fun s => let (s1, e1) := f s in let (s2, e2) := g s1 in (s2, e1 ++ e2).
Notation "f ;; g" := (bindM f g) (at level 61, right associativity).
Definition emit (evs : list pevent) : M := fun s => (s, evs).
Definition modify (f : pstate -> pstate) : M := fun s => (f s, []).
Definition whenM (c : pstate -> bool) (m : M) : M := fun s => if c s then m s else (s, []).

Definition cur_stream (s : pstate) : Z := match s_stream s with Some g => g | None => -1 end.
Definition mem (x : Z) (l : list Z) : bool := existsb (Z.eqb x) l.
Fixpoint remove_z (x : Z) (l : list Z) : list Z :=
  match l with [] => [] | y :: r => if x =? y then remove_z x r else y :: remove_z x r end.

(* hooks.OnAvailable / OnOnline / OnDemand: the call, and the closure it returns *)
Definition open_logs (k : hk) (cf : pconf) : list pevent :=
  if h_start k cf then [ELogStart k] else [].
Definition close_logs (k : hk) (cf : pconf) : list pevent :=
  (if h_start k cf then [ELogStop k] else []) ++ (if h_un k cf then [ELogLaunch k] else []).
Definition hook_open (k : hk) : M := fun s => (s, EOpen k :: open_logs k (s_conf s)).
Definition hook_close (k : hk) : M := fun s => (s, EClose k :: close_logs k (s_conf s)).
Definition panic : M := fun s => (set_closed true s, [EPanic]).

(* setOffline *)
Definition set_offline : M :=
  fun s => if s_hOffline s then (hook_close HOnline ;; modify (set_hOffline false)) s else (s, []).
(* setOnline *)
Definition set_online : M := set_offline ;; hook_open HOnline ;; modify (set_hOffline true).

Definition aa (s : pstate) : bool := c_aa (s_conf s).
Definition not_aa (s : pstate) : bool := negb (c_aa (s_conf s)).

(* setAvailable (stream.Initialize cannot fail on the descriptions the driver uses).  Stream.Initialize of an
   alwaysAvailable stream starts the offline sub-stream; otherwise the new stream has no sub-stream yet.
   The online pair is opened here only when the path is not alwaysAvailable. *)
Definition set_available : M :=
  fun s => let g := s_nextgen s in
    (modify (fun s => set_sub (if aa s then SOffline else SNone) (set_stream (Some g) (set_nextgen (g + 1) s))) ;;
     hook_open HAvail ;; modify (set_hUnavail true) ;;
     whenM not_aa set_online ;;
     emit [EPathReady g]) s.

(* pa.onUnavailableHook() : the field is never reset to nil by the code *)
Definition call_unavailable : M :=
  fun s => if s_hUnavail s then hook_close HAvail s else panic s.

(* setNotAvailable *)
Definition set_not_available : M :=
  emit [EPathNotReady] ;;
  set_offline ;;
  (fun s => (set_readers [] s, map EReaderClosed (s_readers s))) ;;
  call_unavailable ;;
  modify (fun s => set_sub SNone (set_stream None s)).

(* the source of the path is gone (executeRemovePublisher, doSourceStaticSetNotReady): the stream is torn down,
   or, on an alwaysAvailable path, the online pair is closed and the offline sub-stream takes over
   (Stream.StartOfflineSubStream); the readers stay *)
Definition start_offline : M := modify (set_sub SOffline).
Definition source_gone : M :=
  fun s => if aa s then (set_offline ;; start_offline) s else set_not_available s.

(* staticsources.Handler.Start / Stop as called by the path *)
Definition handler_start : M :=
  fun s => if s_ssRunning s then panic s else (set_ssRunning true s, [ESrcStart]).
Definition handler_stop : M :=
  fun s => if s_ssRunning s then (set_instReady false (set_ssRunning false s), [ESrcStop]) else panic s.

(* onDemandStaticSourceStart / ScheduleClose / Stop *)
Definition ss_start : M :=
  handler_start ;; modify (fun s => set_ssState OdWaiting (set_ssReadyT true s)).
Definition ss_schedule_close : M :=
  modify (fun s => set_ssState OdClosing (set_ssCloseT true s)).
Definition ss_stop : M :=
  whenM (fun s => ods_eqb (s_ssState s) OdClosing) (modify (set_ssCloseT false)) ;;
  modify (set_ssState OdInitial) ;;
  handler_stop.

(* onDemandPublisherStart / ScheduleClose / Stop *)
Definition pub_start : M :=
  hook_open HDemand ;; modify (set_hUnDemand true) ;;
  modify (fun s => set_pubState OdWaiting (set_pubReadyT true s)).
Definition pub_schedule_close : M :=
  modify (fun s => set_pubState OdClosing (set_pubCloseT true s)).
Definition pub_stop : M :=
  whenM (fun s => ods_eqb (s_pubState s) OdClosing) (modify (set_pubCloseT false)) ;;
  (fun s => if s_hUnDemand s then (hook_close HDemand ;; modify (set_hUnDemand false)) s else panic s) ;;
  modify (set_pubState OdInitial).

(* addReaderPost, tail: a reader arrived while the close timer was running *)
Definition bump_on_demand (s : pstate) : pstate :=
  let cf := s_conf s in
  if od_static cf then
    (if ods_eqb (s_ssState s) OdClosing then set_ssCloseT false (set_ssState OdReady s) else s)
  else if od_pub cf then
    (if ods_eqb (s_pubState s) OdClosing then set_pubCloseT false (set_pubState OdReady s) else s)
  else s.

(* addReaderPost *)
Definition add_reader_post (q r : Z) : M :=
  fun s =>
    let cf := s_conf s in
    if mem r (s_readers s) then (s, [EAnswer q (AStream (cur_stream s))])
    else if negb (c_maxr cf =? 0) && (c_maxr cf <=? Z.of_nat (length (s_readers s)))
    then (s, [EAnswer q (AErr E_MAXREADERS)])
    else (bump_on_demand (set_readers (s_readers s ++ [r]) s), [EAnswer q (AStream (cur_stream s))]).

Fixpoint add_readers_post (l : list (Z * Z)) : M :=
  match l with
  | [] => ret
  | (q, r) :: l' => add_reader_post q r ;; add_readers_post l'
  end.

(* consumeOnHoldRequests *)
Definition consume_on_hold : M :=
  fun s =>
    ((fun s => (set_dhold [] s, map (fun q => EAnswer q (AStream (cur_stream s))) (s_dhold s))) ;;
     add_readers_post (s_rhold s) ;;
     modify (set_rhold [])) s.

(* the answers of a ready-timer expiry / of the end of run() *)
Definition fail_on_hold (code : Z) : M :=
  fun s => (set_rhold [] (set_dhold [] s),
            map (fun q => EAnswer q (AErr code)) (s_dhold s) ++
            map (fun qr => EAnswer (fst qr) (AErr code)) (s_rhold s)).

(* executeRemovePublisher *)
Definition execute_remove_publisher : M := source_gone ;; modify (set_source None).

(* doDescribe *)
Definition do_describe (q : Z) : M :=
  fun s =>
    let cf := s_conf s in
    match s_stream s with
    | Some g => (s, [EAnswer q (AStream g)])
    | None =>
        if od_static cf then
          (whenM (fun s => ods_eqb (s_ssState s) OdInitial) ss_start ;;
           modify (fun s => set_dhold (s_dhold s ++ [q]) s)) s
        else if od_pub cf then
          (whenM (fun s => ods_eqb (s_pubState s) OdInitial) pub_start ;;
           modify (fun s => set_dhold (s_dhold s ++ [q]) s)) s
        else (s, [EAnswer q (AErr E_NOSTREAM)])
    end.

(* doAddReader *)
Definition do_add_reader (q r : Z) : M :=
  fun s =>
    let cf := s_conf s in
    match s_stream s with
    | Some _ => add_reader_post q r s
    | None =>
        if od_static cf then
          (whenM (fun s => ods_eqb (s_ssState s) OdInitial) ss_start ;;
           modify (fun s => set_rhold (s_rhold s ++ [(q, r)]) s)) s
        else if od_pub cf then
          (whenM (fun s => ods_eqb (s_pubState s) OdInitial) pub_start ;;
           modify (fun s => set_rhold (s_rhold s ++ [(q, r)]) s)) s
        else (s, [EAnswer q (AErr E_NOSTREAM)])
    end.

(* doRemoveReader *)
Definition do_remove_reader (r : Z) : M :=
  whenM (fun s => mem r (s_readers s)) (modify (fun s => set_readers (remove_z r (s_readers s)) s)) ;;
  whenM (fun s => match s_readers s with [] => true | _ => false end)
    (fun s =>
       let cf := s_conf s in
       if od_static cf then whenM (fun s => ods_eqb (s_ssState s) OdReady) ss_schedule_close s
       else if od_pub cf then whenM (fun s => ods_eqb (s_pubState s) OdReady) pub_schedule_close s
       else (s, [])).

(* doAddPublisher, after SubStream.Initialize succeeded: the new sub-stream is the current one *)
Definition attach_tail (q p : Z) : M :=
  modify (set_sub (SPub p)) ;; modify (set_source (Some p)) ;;
  whenM aa set_online ;;
  whenM (fun s => od_pub (s_conf s) && negb (ods_eqb (s_pubState s) OdInitial))
    (modify (set_pubReadyT false) ;; pub_schedule_close) ;;
  consume_on_hold ;;
  (fun s => (s, [EAnswer q (AStream (cur_stream s))])).

(* doAddPublisher, from setAvailable on.  On an alwaysAvailable path the stream exists already and
   SubStream.Initialize fails (before touching anything) when the tracks are not compatible *)
Definition attach_publisher (q p : Z) (ok : bool) : M :=
  whenM not_aa set_available ;;
  (fun s => if aa s && negb ok then (s, [EAnswer q (AErr E_INCOMPAT)]) else attach_tail q p s).

(* doAddPublisher *)
Definition do_add_publisher (q p : Z) (ok : bool) : M :=
  fun s =>
    let cf := s_conf s in
    if c_static cf then (s, [EAnswer q (AErr E_NOTPUBLISHER)])
    else
      match s_source s with
      | Some old =>
          if negb (c_override cf) then (s, [EAnswer q (AErr E_BUSY)])
          else (emit [EPubClosed old] ;; execute_remove_publisher ;; attach_publisher q p ok) s
      | None => attach_publisher q p ok s
      end.

(* doRemovePublisher.  `fx` = the repair of the C19 finding is present: when the publisher of an on-demand
   path leaves, the on-demand automaton is reset (as doSourceStaticSetNotReady does for static sources). *)
Definition do_remove_publisher (fx : bool) (p : Z) : M :=
  fun s =>
    match s_source s with
    | Some p0 =>
        if p0 =? p then
          (execute_remove_publisher ;;
           whenM (fun s => fx && od_pub (s_conf s) && negb (ods_eqb (s_pubState s) OdInitial)) pub_stop) s
        else (s, [])
    | None => (s, [])
    end.

(* doSourceStaticSetReady, reached through Handler.SetReady only while the handler runs; the instance
   calls SetReady once per connection attempt (instReady = it did and has not called SetNotReady since).
   On alwaysAvailable paths the driver's static source always offers compatible tracks (Initialize succeeds). *)
Definition do_static_ready (q : Z) : M :=
  fun s =>
    if s_ssRunning s && negb (s_instReady s) then
      (whenM not_aa set_available ;;
       modify (set_sub SStatic) ;;
       whenM aa set_online ;;
       whenM (fun s => od_static (s_conf s)) (modify (set_ssReadyT false) ;; ss_schedule_close) ;;
       consume_on_hold ;;
       modify (set_instReady true) ;;
       (fun s => (s, [EAnswer q (AStream (cur_stream s))]))) s
    else (s, []).

(* doSourceStaticSetNotReady *)
Definition do_static_not_ready : M :=
  fun s =>
    if s_ssRunning s && s_instReady s then
      (source_gone ;;
       modify (set_instReady false) ;;
       whenM (fun s => od_static (s_conf s) && negb (ods_eqb (s_ssState s) OdInitial)) ss_stop) s
    else (s, []).

Definition timer_armed (t : timer) (s : pstate) : bool :=
  match t with
  | TSSReady => s_ssReadyT s | TSSClose => s_ssCloseT s
  | TPubReady => s_pubReadyT s | TPubClose => s_pubCloseT s
  end.
Definition disarm (t : timer) (s : pstate) : pstate :=
  match t with
  | TSSReady => set_ssReadyT false s | TSSClose => set_ssCloseT false s
  | TPubReady => set_pubReadyT false s | TPubClose => set_pubCloseT false s
  end.

(* doOnDemand{StaticSource,Publisher}{Ready,Close}Timer (the `if AlwaysAvailable { panic }` of the static close
   timer is unreachable: conf validation excludes sourceOnDemand with alwaysAvailable, so the timer is never armed) *)
Definition do_timer (t : timer) : M :=
  fun s =>
    if timer_armed t s then
      (modify (disarm t) ;; emit [EFired t] ;;
       match t with
       | TSSReady => fail_on_hold E_TIMEOUT ;; ss_stop
       | TSSClose => set_not_available ;; ss_stop
       | TPubReady => fail_on_hold E_TIMEOUT ;; pub_stop
       | TPubClose => pub_stop
       end) s
    else (s, []).

(* the tail of run() after runInner returned *)
Definition clear_timers (s : pstate) : pstate :=
  set_ssReadyT false (set_ssCloseT false (set_pubReadyT false (set_pubCloseT false s))).
Definition close_source : M :=
  fun s =>
    let cf := s_conf s in
    if c_static cf then
      (if negb (c_sod cf) || negb (ods_eqb (s_ssState s) OdInitial) then handler_stop s else (s, []))
    else match s_source s with Some p => (s, [EPubClosed p]) | None => (s, []) end.
Definition close_demand : M :=
  fun s => if s_hUnDemand s then (hook_close HDemand ;; modify (set_hUnDemand false)) s else (s, []).
Definition close_stream : M :=
  fun s => match s_stream s with Some _ => set_not_available s | None => (s, []) end.
Definition do_close : M :=
  emit [ERemovePath] ;;
  modify clear_timers ;;
  fail_on_hold E_TERMINATED ;;
  close_source ;;
  close_demand ;;
  close_stream ;;
  modify (fun s => set_closed true (set_source None s)).

(* requests issued after the loop ended are answered by the wrappers (`case <-pa.ctx.Done()`) *)
Definition closed_answer (o : pop) : list pevent :=
  match o with
  | Describe q | AddPublisher q _ _ | AddReader q _ => [EAnswer q (AErr E_TERMINATED)]
  | _ => []
  end.

Definition step_gen (fx : bool) (s : pstate) (o : pop) : pstate * list pevent :=
  if s_closed s then (s, closed_answer o)
  else match o with
       | Describe q => do_describe q s
       | AddPublisher q p ok => do_add_publisher q p ok s
       | RemovePublisher p => do_remove_publisher fx p s
       | AddReader q r => do_add_reader q r s
       | RemoveReader r => do_remove_reader r s
       | StaticReady q => do_static_ready q s
       | StaticNotReady => do_static_not_ready s
       | TimerFire t => do_timer t s
       | ReloadConf => (s, [])
       | Close => do_close s
       end.

(* the code as it is in the tree: with the repair (fix: commit in /repo) *)
Definition current_fix : bool := true.
Definition step : pstate -> pop -> pstate * list pevent := step_gen current_fix.
(* the code before the repair; only used to state the finding *)
Definition step_unfixed : pstate -> pop -> pstate * list pevent := step_gen false.

(* initialize() + the head of run(): an alwaysAvailable path creates its stream at once (the available pair is
   opened, the offline sub-stream runs); a static source that is not on demand is started at once *)
Definition init_base (cf : pconf) : pstate :=
  mkState cf false None None 0 [] [] [] OdInitial false false false false
          OdInitial false false false false false SNone.
Definition init_m : M :=
  whenM aa set_available ;;
  whenM (fun s => c_static (s_conf s) && negb (c_sod (s_conf s))) handler_start.
Definition init_state (cf : pconf) : pstate := fst (init_m (init_base cf)).
Definition init_events (cf : pconf) : list pevent := snd (init_m (init_base cf)).

Definition run_gen (fx : bool) (cf : pconf) (ops : list pop) : pstate * list pevent :=
  (final (step_gen fx) (init_state cf) ops, init_events cf ++ trace (step_gen fx) (init_state cf) ops).
Definition run := run_gen current_fix.
