(* Model of httpp.dumpRequest (internal/protocols/httpp/handler_logger.go) and of the header name
   canonicalisation net/http applies before a handler sees the request
   (textproto.CanonicalMIMEHeaderKey). Executable; no proofs here. Strings are lists of byte values.

   A request is what the handler receives: method, RequestURI, protocol version, effective host
   (req.Host, or req.URL.Host when empty), the header map as an association list with distinct keys
   (in any order: the code sorts the keys), and the body READER: the byte stream req.Body delivers
   and how that stream ends (clean EOF, or a non-EOF error: client gone in the middle of the upload,
   body shorter than Content-Length, malformed chunked encoding, MaxBytesReader, ...). *)
From Coq Require Import List ZArith Bool.
Import ListNotations.
Local Open Scope Z_scope.

Fixpoint beq (a b : list Z) : bool :=
  match a, b with
  | [], [] => true
  | x :: a', y :: b' => (x =? y) && beq a' b'
  | _, _ => false
  end.

Fixpoint has_prefix (p s : list Z) : bool :=
  match p, s with
  | [], _ => true
  | a :: p', b :: s' => (a =? b) && has_prefix p' s'
  | _ :: _, [] => false
  end.

(* Go string order: bytewise lexicographic *)
Fixpoint key_le (a b : list Z) : bool :=
  match a, b with
  | [], _ => true
  | _ :: _, [] => false
  | x :: a', y :: b' => if x <? y then true else if y <? x then false else key_le a' b'
  end.

Definition header := (list Z * list (list Z))%type.

(* how the byte stream of req.Body ends: io.EOF (alone or together with the last bytes: io.ReadAll does
   not tell the two apart); a non-EOF error returned by a Read call of its own (0 bytes) after the last
   byte; a non-EOF error returned by the same Read call that delivers the last byte *)
Inductive body_end := EndEOF | EndErr | EndErrWithLast.

Record request := mkReq {
  r_method : list Z; r_requri : list Z; r_major : Z; r_minor : Z; r_host : list Z;
  r_hdr : list header; r_body : list Z; r_bend : body_end }.

(* requestHeadersToRedact *)
Definition redact_names : list (list Z) :=
  [ [65;117;116;104;111;114;105;122;97;116;105;111;110];                       (* Authorization *)
    [67;111;111;107;105;101];                                                 (* Cookie *)
    [80;114;111;120;121;45;65;117;116;104;111;114;105;122;97;116;105;111;110];  (* Proxy-Authorization *)
    [83;101;116;45;67;111;111;107;105;101];                                   (* Set-Cookie *)
    [88;45;65;112;105;45;75;101;121];                                         (* X-Api-Key *)
    [88;45;65;117;116;104;45;84;111;107;101;110] ].                            (* X-Auth-Token *)

Definition is_redacted (k : list Z) : bool := existsb (beq k) redact_names.

Definition placeholder : list Z := [60;114;101;100;97;99;116;101;100;62].     (* <redacted> *)
Definition crlf : list Z := [13; 10].
Definition truncated_note : list Z := [10;10;40;116;114;117;110;99;97;116;101;100;32;98;111;100;121;41;10].
Definition max_body : Z := 10240.

(* slices.Sort(keys): insertion sort on the keys *)
Fixpoint ins (e : header) (l : list header) : list header :=
  match l with
  | [] => [e]
  | x :: r => if key_le (fst e) (fst x) then e :: l else x :: ins e r
  end.
Definition sort_hdr (l : list header) : list header := fold_right ins [] l.

(* the lines of one key: "K: v\r\n" per value, the value replaced for a redacted key *)
Definition render (e : header) : list Z :=
  flat_map (fun v => fst e ++ [58; 32] ++ (if is_redacted (fst e) then placeholder else v) ++ crlf) (snd e).

(* strconv of the small protocol numbers *)
Fixpoint dec_fuel (fuel : nat) (n : Z) : list Z :=
  match fuel with
  | O => []
  | S f => if n <? 10 then [48 + n] else dec_fuel f (n / 10) ++ [48 + n mod 10]
  end.
Definition dec (n : Z) : list Z := dec_fuel 20 n.

(* peek, err := io.ReadAll(io.LimitReader(req.Body, maxRequestBodySizeToLog+1)); None = err != nil.
   The LimitReader answers io.EOF by itself once max_body+1 bytes went through, without calling the body
   again: an error the body would return in a later Read call is never seen; an error that comes in the
   same call as byte number max_body+1 is. Below the limit every error is seen. *)
Definition peek_limit : Z := max_body + 1.
Definition peek (body : list Z) (e : body_end) : option (list Z) :=
  let n := Z.of_nat (length body) in
  let ok := Some (firstn (Z.to_nat peek_limit) body) in
  match e with
  | EndEOF => ok
  | EndErr => if n <? peek_limit then None else ok
  | EndErrWithLast => if n <=? peek_limit then None else ok
  end.

Definition body_fails (r : request) : bool :=
  match peek (r_body r) (r_bend r) with None => true | Some _ => false end.

Definition capped (body : list Z) : list Z :=
  if max_body <? Z.of_nat (length body) then firstn (Z.to_nat max_body) body ++ truncated_note else body.

(* request line and Host line *)
Definition dump_head (r : request) : list Z :=
  (match r_method r with [] => [71; 69; 84] | m => m end) ++ [32] ++ r_requri r
  ++ [32;72;84;84;80;47] ++ dec (r_major r) ++ [46] ++ dec (r_minor r) ++ crlf
  ++ (if has_prefix [104;116;116;112;58;47;47] (r_requri r) || has_prefix [104;116;116;112;115;58;47;47] (r_requri r)
      then [] else match r_host r with [] => [] | h => [72;111;115;116;58;32] ++ h ++ crlf end).

Definition dump_tail (r : request) : list Z :=
  match peek (r_body r) (r_bend r) with Some p => crlf ++ capped p | None => [] end.

(* `if err != nil { return nil }`: when the body cannot be read NOTHING of the request is dumped *)
Definition dump (r : request) : list Z :=
  match peek (r_body r) (r_bend r) with
  | None => []
  | Some p => dump_head r ++ flat_map render (sort_hdr (r_hdr r)) ++ crlf ++ capped p
  end.

(* handlerLogger.ServeHTTP: h.log.Log(logger.Debug, "[conn %v] [c->s] %s", r.RemoteAddr, dumpRequest(r)) *)
Definition log_request (addr : list Z) (r : request) : list Z :=
  [91;99;111;110;110;32] ++ addr ++ [93;32;91;99;45;62;115;93;32] ++ dump r.

(* http.Header.Set(k, v) on the association list *)
Definition set_header (k v : list Z) (r : request) : request :=
  mkReq (r_method r) (r_requri r) (r_major r) (r_minor r) (r_host r)
        ((k, [v]) :: filter (fun e => negb (beq (fst e) k)) (r_hdr r)) (r_body r) (r_bend r).

Definition with_hdr (r : request) (h : list header) : request :=
  mkReq (r_method r) (r_requri r) (r_major r) (r_minor r) (r_host r) h (r_body r) (r_bend r).

(* ------------------------------------------------------------------ CanonicalMIMEHeaderKey *)

Definition is_lower (c : Z) : bool := (97 <=? c) && (c <=? 122).
Definition is_upper (c : Z) : bool := (65 <=? c) && (c <=? 90).
Definition to_lower (c : Z) : Z := if is_upper c then c + 32 else c.

(* validHeaderFieldByte: the token characters of RFC 7230 *)
Definition token_byte (c : Z) : bool :=
  is_lower c || is_upper c || ((48 <=? c) && (c <=? 57))
  || existsb (Z.eqb c) [33; 35; 36; 37; 38; 39; 42; 43; 45; 46; 94; 95; 96; 124; 126].

Fixpoint canon_aux (upper : bool) (s : list Z) : list Z :=
  match s with
  | [] => []
  | c :: r =>
      let c' := if upper && is_lower c then c - 32 else if negb upper && is_upper c then c + 32 else c in
      c' :: canon_aux (c' =? 45) r
  end.

(* a key with a byte outside the token alphabet is returned unchanged *)
Definition canon_key (s : list Z) : list Z := if forallb token_byte s then canon_aux true s else s.
