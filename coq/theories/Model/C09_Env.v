(* Model of internal/conf/env/env.go: loadEnvInternal (the environment loader that conf.Load
   runs after the YAML file), transliterated case by case over a universe of field types.
   Executable; no proofs here.

   func loadEnvInternal(env map[string]string, prefix string, prv reflect.Value) error
     prv not a pointer            -> recurse on prv.Addr()  (never nil)
     rt := prv.Type().Elem()
     *rt implements Unmarshaler   -> env[prefix] set: allocate if nil, UnmarshalEnv(prefix, value)
                                     else some key has the prefix  prefix+"_"  (after fix 9cf7e78; the
                                     pinned code tested the prefix WITHOUT separator: [legacy = true]):
                                        allocate if nil (fix e0b1164), UnmarshalEnv(prefix, "")
     string/int/uint/float64/bool -> env[prefix] set: allocate if nil, parse, set
     map                          -> every key  prefix_<K>[_...]  with K non-empty and K = ToUpper(K):
                                     make the map if nil, entry ToLower(K): allocate if missing/nil,
                                     recurse with prefix_<K>
     struct                       -> every field whose json tag is not "-": recurse with
                                     prefix_<ToUpper(TrimSuffix(tag, ",omitempty"))>
     []string / []uint / []float64-> env[prefix] set: allocate if nil; "" -> empty list, else split on ","
     []struct                     -> env[prefix] == "": empty list; else for i = 0,1,..: stop when no key has the
                                     prefix  prefix_<i>  (no separator) and i >= len; existing elements are loaded
                                     in place, new ones are appended
     anything else                -> error "unsupported type"

   Strings are byte lists ([list Z]); the environment is an association list (first binding wins:
   os.Environ has one binding per name). Go iterates its map in random order; the model iterates in
   list order (entries of different keys commute; see the notes).
   strings.ToUpper/ToLower are modelled on ASCII (assumption: variable names are ASCII). *)
From Coq Require Import List ZArith Bool.
Import ListNotations.
Local Open Scope Z_scope.

Definition str := list Z.
Definition env := list (str * str).

(* ------------------------------------------------------------------ strings *)
Fixpoint str_eqb (a b : str) : bool :=
  match a, b with
  | [], [] => true
  | x :: a', y :: b' => (x =? y) && str_eqb a' b'
  | _, _ => false
  end.

Fixpoint has_prefix (p s : str) : bool :=
  match p, s with
  | [], _ => true
  | x :: p', y :: s' => (x =? y) && has_prefix p' s'
  | _ :: _, [] => false
  end.

Fixpoint lookup (E : env) (k : str) : option str :=
  match E with
  | [] => None
  | (k', v) :: r => if str_eqb k' k then Some v else lookup r k
  end.

(* envHasAtLeastAKeyWithPrefix *)
Definition has_key_with_prefix (E : env) (p : str) : bool := existsb (fun kv => has_prefix p (fst kv)) E.

Definition US : Z := 95.      (* '_' *)
Definition COMMA : Z := 44.

Definition upper_c (c : Z) : Z := if (97 <=? c) && (c <=? 122) then c - 32 else c.
Definition lower_c (c : Z) : Z := if (65 <=? c) && (c <=? 90) then c + 32 else c.
Definition upper (s : str) : str := map upper_c s.
Definition lower (s : str) : str := map lower_c s.

(* strings.Cut(s, "_") : the part before the first '_' *)
Fixpoint cut_us (s : str) : str :=
  match s with
  | [] => []
  | c :: r => if c =? US then [] else c :: cut_us r
  end.

(* strings.Split(s, ",") *)
Fixpoint split_comma (s : str) : list str :=
  match s with
  | [] => [[]]
  | c :: r =>
      if c =? COMMA then [] :: split_comma r
      else match split_comma r with
           | h :: t => (c :: h) :: t
           | [] => [[c]]
           end
  end.

Fixpoint join_comma (l : list str) : str :=
  match l with
  | [] => []
  | [a] => a
  | a :: r => a ++ COMMA :: join_comma r
  end.

(* strings.TrimSuffix(tag, ",omitempty") ; ",omitempty" reversed = "ytpmetimo," *)
Definition omitempty_rev : str := [121; 116; 112; 109; 101; 116; 105; 109; 111; 44].
Definition trim_omitempty (tag : str) : str :=
  let r := rev tag in if has_prefix omitempty_rev r then rev (skipn 10 r) else tag.

(* name of the variable component of a struct field *)
Definition fname (tag : str) : str := upper (trim_omitempty tag).

(* ------------------------------------------------------------------ numbers *)
Definition is_digit (c : Z) : bool := (48 <=? c) && (c <=? 57).

Fixpoint digits_val (acc : Z) (s : str) : Z :=
  match s with [] => acc | c :: r => digits_val (acc * 10 + (c - 48)) r end.

(* strconv.ParseUint(s, 10, 32): non-empty run of ASCII digits (no sign, no underscores), value < 2^32 *)
Definition parse_uint32 (s : str) : option Z :=
  match s with
  | [] => None
  | _ => if forallb is_digit s then (let v := digits_val 0 s in if v <? 4294967296 then Some v else None) else None
  end.

(* strconv.ParseInt(s, 10, 32): optional sign, non-empty digits, -2^31 <= value < 2^31 *)
Definition parse_int32 (s : str) : option Z :=
  let '(neg, ds) := match s with
                    | 43 :: r => (false, r)
                    | 45 :: r => (true, r)
                    | _ => (false, s)
                    end in
  match ds with
  | [] => None
  | _ => if forallb is_digit ds then
           (let v := digits_val 0 ds in
            if neg then (if v <=? 2147483648 then Some (- v) else None)
            else (if v <? 2147483648 then Some v else None))
         else None
  end.

(* strconv.FormatInt(n, 10) for n >= 0 *)
Fixpoint dec_fuel (f : nat) (n : Z) : str :=
  match f with
  | O => []
  | S f' => if n <? 10 then [48 + n] else dec_fuel f' (n / 10) ++ [48 + n mod 10]
  end.
Definition dec (n : Z) : str := dec_fuel (S (Z.to_nat (Z.log2 n))) n.
Definition print_int (z : Z) : str := if z <? 0 then 45 :: dec (- z) else dec z.

(* strings.ToLower(ev) in {"yes","true"} / {"no","false"} *)
Definition s_yes : str := [121; 101; 115].
Definition s_true : str := [116; 114; 117; 101].
Definition s_no : str := [110; 111].
Definition s_false : str := [102; 97; 108; 115; 101].
Definition parse_bool (s : str) : option bool :=
  let l := lower s in
  if str_eqb l s_yes || str_eqb l s_true then Some true
  else if str_eqb l s_no || str_eqb l s_false then Some false
  else None.

(* ------------------------------------------------------------------ types and values *)
Inductive ty :=
| TBool | TInt | TUint | TFloat | TStr
| TCustom (k : Z)             (* *T implements env.Unmarshaler and is a leaf (Duration, StringSize, IPNetworks, enums, ...) *)
| TStrs | TUints | TFloats    (* []string, []uint, []float64 *)
| TStructs (fs : fields)      (* []struct{...} *)
| TStruct (fs : fields)
| THook (fs : fields)         (* OptionalPath: Unmarshaler that runs the loader on its Values struct with the same prefix *)
| TMap (e : ty)               (* map[string]*e *)
| TPtr (t : ty)
| TBad                        (* any other kind: "unsupported type" *)
with fields :=
| FNil
| FCons (tag : str) (t : ty) (fs : fields).   (* json tag as written; fields tagged "-" are not listed *)

Inductive value :=
| VBool (b : bool) | VInt (z : Z) | VUint (z : Z)
| VFloat (f : str)                 (* opaque token: canonical text of the float64 *)
| VStr (s : str)
| VCustom (c : str)                (* opaque token: canonical (JSON) text of the value *)
| VStrs (o : option (list str))    (* None = nil slice *)
| VUints (o : option (list Z))
| VFloats (o : option (list str))
| VStructs (o : option vals)       (* elements are VStruct *)
| VStruct (vs : vals)
| VHook (o : option vals)          (* Values == nil, or the optional-values struct *)
| VMap (o : option ments)
| VPtr (o : option value)
| VOpaque
with vals := VNil | VCons (v : value) (vs : vals)
with ments := MNil | MCons (k : str) (v : value) (m : ments).   (* entry values are VPtr *)

Inductive result (A : Type) := Ok (a : A) | Err | Panic | Stuck.
Arguments Ok {A} a. Arguments Err {A}. Arguments Panic {A}. Arguments Stuck {A}.
(* Err: the loader returns an error; Panic: it panics; Stuck: ill-typed value or fuel exhausted (model artefact). *)

Definition bind {A B} (r : result A) (f : A -> result B) : result B :=
  match r with Ok a => f a | Err => Err | Panic => Panic | Stuck => Stuck end.

(* external behaviour: the text -> value functions of the Unmarshaler types and of strconv.ParseFloat *)
Record oracles := {
  cparse : Z -> str -> option str;    (* UnmarshalEnv of kind k on a text: canonical token of the result, None = error *)
  ctext : Z -> str -> str;            (* a text that spells the value with that token (used by env_of only) *)
  czero : Z -> str;                   (* token of the zero value of kind k *)
  fparse : str -> option str;         (* strconv.ParseFloat(text, 64): canonical token, None = error *)
  fzero : str                         (* token of 0.0 *)
}.

Fixpoint vapp (a b : vals) : vals := match a with VNil => b | VCons v r => VCons v (vapp r b) end.
Fixpoint vlen (a : vals) : nat := match a with VNil => O | VCons _ r => S (vlen r) end.

Fixpoint mlookup (k : str) (m : ments) : option value :=
  match m with MNil => None | MCons k' v r => if str_eqb k' k then Some v else mlookup k r end.
(* SetMapIndex: replace in place or add at the end (Go maps are unordered; dumps are compared up to order) *)
Fixpoint mset (k : str) (v : value) (m : ments) : ments :=
  match m with
  | MNil => MCons k v MNil
  | MCons k' v' r => if str_eqb k' k then MCons k' v r else MCons k' v' (mset k v r)
  end.

Fixpoint sequence {A} (l : list (option A)) : option (list A) :=
  match l with
  | [] => Some []
  | Some a :: r => match sequence r with Some r' => Some (a :: r') | None => None end
  | None :: _ => None
  end.

Section Loader.
Variable OR : oracles.
Variable legacy : bool.     (* true: the pinned code (Unmarshaler sub-key probe without "_") *)

Fixpoint zero (t : ty) : value :=
  match t with
  | TBool => VBool false | TInt => VInt 0 | TUint => VUint 0 | TFloat => VFloat (fzero OR) | TStr => VStr []
  | TCustom k => VCustom (czero OR k)
  | TStrs => VStrs None | TUints => VUints None | TFloats => VFloats None
  | TStructs _ => VStructs None
  | TStruct fs => VStruct (zeros fs)
  | THook _ => VHook None
  | TMap _ => VMap None
  | TPtr _ => VPtr None
  | TBad => VOpaque
  end
with zeros (fs : fields) : vals :=
  match fs with FNil => VNil | FCons _ t r => VCons (zero t) (zeros r) end.

Definition sub (p : str) (name : str) : str := p ++ US :: name.

(* the loop of the []struct case, indices >= len: append while some key has the prefix  p_<i> *)
Fixpoint discover (ld : str -> vals -> result vals) (zs : vals) (E : env) (p : str) (fuel : nat) (i : Z)
  : result vals :=
  match fuel with
  | O => Stuck
  | S f =>
      let ip := sub p (dec i) in
      if has_key_with_prefix E ip then
        bind (ld ip zs) (fun e => bind (discover ld zs E p f (i + 1)) (fun r => Ok (VCons (VStruct e) r)))
      else Ok VNil
  end.

(* the same loop, indices < len: existing elements are loaded in place *)
Fixpoint load_elems (ld : str -> vals -> result vals) (p : str) (i : Z) (l : vals) : result vals :=
  match l with
  | VNil => Ok VNil
  | VCons (VStruct e) r =>
      bind (ld (sub p (dec i)) e) (fun e' => bind (load_elems ld p (i + 1) r) (fun r' => Ok (VCons (VStruct e') r')))
  | VCons _ _ => Stuck
  end.

(* iterations of the discovery loop are bounded by the total length of the keys below p *)
Definition loop_fuel (E : env) (p : str) : nat :=
  S (fold_right (fun kv acc => if has_prefix (p ++ [US]) (fst kv) then (length (fst kv) + acc)%nat else acc) O E).

(* a value in a non-pointer position of type ft is loaded through its address; a pointer field is the
   pointer itself *)
Local Notation via_ptr LD ft q v :=
  (match ft with
   | TPtr t' => match v with
                | VPtr o => bind (LD t' q o) (fun o' => Ok (VPtr o'))
                | _ => Stuck
                end
   | _ => bind (LD ft q (Some v)) (fun r => match r with Some y => Ok y | None => Stuck end)
   end).

(* loadEnvInternal with rt = t and prv = o (None: nil pointer) *)
Fixpoint loadp (t : ty) (E : env) (p : str) (o : option value) {struct t} : result (option value) :=
  match t with
  | TCustom k =>
      match lookup E p with
      | Some ev => match cparse OR k ev with Some c => Ok (Some (VCustom c)) | None => Err end
      | None =>
          if has_key_with_prefix E (if legacy then p else p ++ [US]) then
            (* a nil pointer is allocated first (fix e0b1164) *)
            match cparse OR k [] with Some c => Ok (Some (VCustom c)) | None => Err end
          else Ok o
      end
  | THook fs =>
      let run (hv : option vals) :=
        bind (load_fields fs E p (match hv with Some vs => vs | None => zeros fs end))
             (fun vs' => Ok (Some (VHook (Some vs')))) in
      match lookup E p with
      | Some _ => match o with
                  | None => run None
                  | Some (VHook hv) => run hv
                  | Some _ => Stuck
                  end
      | None =>
          if has_key_with_prefix E (if legacy then p else p ++ [US]) then
            match o with
            | None => run None
            | Some (VHook hv) => run hv
            | Some _ => Stuck
            end
          else Ok o
      end
  | TStr => match lookup E p with Some ev => Ok (Some (VStr ev)) | None => Ok o end
  | TInt =>
      match lookup E p with
      | Some ev => match parse_int32 ev with Some z => Ok (Some (VInt z)) | None => Err end
      | None => Ok o
      end
  | TUint =>
      match lookup E p with
      | Some ev => match parse_uint32 ev with Some z => Ok (Some (VUint z)) | None => Err end
      | None => Ok o
      end
  | TFloat =>
      match lookup E p with
      | Some ev => match fparse OR ev with Some f => Ok (Some (VFloat f)) | None => Err end
      | None => Ok o
      end
  | TBool =>
      match lookup E p with
      | Some ev => match parse_bool ev with Some b => Ok (Some (VBool b)) | None => Err end
      | None => Ok o
      end
  | TMap e =>
      fold_left
        (fun (acc : result (option value)) (k : str) =>
           bind acc (fun cur =>
             if has_prefix (p ++ [US]) k then
               let mk := cut_us (skipn (length p + 1) k) in
               match mk with
               | [] => Ok cur
               | _ =>
                   if negb (str_eqb mk (upper mk)) then Ok cur
                   else match cur with
                        | None => Panic
                        | Some (VMap mo) =>
                            let m := match mo with Some m => m | None => MNil end in
                            let lk := lower mk in
                            let nv := match mlookup lk m with
                                      | Some (VPtr (Some x)) => x
                                      | _ => zero e
                                      end in
                            bind (via_ptr (fun t' q' o' => loadp t' E q' o') e (sub p mk) nv)
                                 (fun x => Ok (Some (VMap (Some (mset lk (VPtr (Some x)) m)))))
                        | Some _ => Stuck
                        end
               end
             else Ok cur))
        (map fst E) (Ok o)
  | TStruct fs =>
      match o with
      | None => match fs with FNil => Ok None | _ => Panic end
      | Some (VStruct vs) => bind (load_fields fs E p vs) (fun vs' => Ok (Some (VStruct vs')))
      | Some _ => Stuck
      end
  | TStrs =>
      match lookup E p with
      | Some [] => Ok (Some (VStrs (Some [])))
      | Some ev => Ok (Some (VStrs (Some (split_comma ev))))
      | None => Ok o
      end
  | TUints =>
      match lookup E p with
      | Some [] => Ok (Some (VUints (Some [])))
      | Some ev => match sequence (map parse_uint32 (split_comma ev)) with
                   | Some l => Ok (Some (VUints (Some l)))
                   | None => Err
                   end
      | None => Ok o
      end
  | TFloats =>
      match lookup E p with
      | Some [] => Ok (Some (VFloats (Some [])))
      | Some ev => match sequence (map (fparse OR) (split_comma ev)) with
                   | Some l => Ok (Some (VFloats (Some l)))
                   | None => Err
                   end
      | None => Ok o
      end
  | TStructs fs =>
      match lookup E p with
      | Some [] => Ok (Some (VStructs (Some VNil)))
      | _ =>
          let ld := fun q vs => load_fields fs E q vs in
          match o with
          | None =>
              bind (discover ld (zeros fs) E p (loop_fuel E p) 0)
                   (fun ex => match ex with VNil => Ok None | _ => Ok (Some (VStructs (Some ex))) end)
          | Some (VStructs so) =>
              let l := match so with Some l => l | None => VNil end in
              bind (load_elems ld p 0 l) (fun l' =>
              bind (discover ld (zeros fs) E p (loop_fuel E p) (Z.of_nat (vlen l))) (fun ex =>
                match so, ex with
                | None, VNil => Ok (Some (VStructs None))
                | _, _ => Ok (Some (VStructs (Some (vapp l' ex))))
                end))
          | Some _ => Stuck
          end
      end
  | TPtr _ => Err
  | TBad => Err
  end
with load_fields (fs : fields) (E : env) (p : str) (vs : vals) {struct fs} : result vals :=
  match fs, vs with
  | FNil, VNil => Ok VNil
  | FCons tag ft fs', VCons v vs' =>
      bind (via_ptr (fun t' q' o' => loadp t' E q' o') ft (sub p (fname tag)) v)
           (fun v' => bind (load_fields fs' E p vs') (fun r => Ok (VCons v' r)))
  | _, _ => Stuck
  end.

(* a value in a non-pointer position *)
Definition load_val (t : ty) (E : env) (p : str) (v : value) : result value :=
  via_ptr (fun t' q' o' => loadp t' E q' o') t p v.

(* env.Load(prefix, &v) *)
Definition load_env (t : ty) (E : env) (p : str) (v : value) : result value := load_val t E p v.

(* ------------------------------------------------------------------ the canonical spelling of a value *)
Fixpoint elems_env (f : str -> vals -> env) (p : str) (i : Z) (l : vals) : env :=
  match l with
  | VNil => []
  | VCons (VStruct e) r => f (sub p (dec i)) e ++ elems_env f p (i + 1) r
  | VCons _ r => elems_env f p (i + 1) r
  end.

Fixpoint ments_env (f : str -> value -> env) (p : str) (m : ments) : env :=
  match m with
  | MNil => []
  | MCons k (VPtr (Some x)) r => f (sub p (upper k)) x ++ ments_env f p r
  | MCons _ _ r => ments_env f p r
  end.

(* variables that spell the value v (of the pointee type t) at prefix p; a nil pointer / nil slice /
   nil map is spelled by the absence of variables *)
Fixpoint env_of (t : ty) (p : str) (v : value) {struct t} : env :=
  match t, v with
  | TBool, VBool b => [(p, if b then s_true else s_false)]
  | TInt, VInt z => [(p, print_int z)]
  | TUint, VUint z => [(p, dec z)]
  | TFloat, VFloat f => [(p, f)]
  | TStr, VStr s => [(p, s)]
  | TCustom k, VCustom c => [(p, ctext OR k c)]
  | TStrs, VStrs (Some l) => [(p, join_comma l)]
  | TUints, VUints (Some l) => [(p, join_comma (map dec l))]
  | TFloats, VFloats (Some l) => [(p, join_comma l)]
  | TStructs fs, VStructs (Some VNil) => [(p, [])]
  | TStructs fs, VStructs (Some l) => elems_env (fun q vs => env_of_fields fs q vs) p 0 l
  | TStruct fs, VStruct vs => env_of_fields fs p vs
  | THook fs, VHook (Some vs) => env_of_fields fs p vs
  | TMap e, VMap (Some m) =>
      ments_env (fun q x => env_of e q x) p m
  | TPtr t', VPtr (Some x) => env_of t' p x
  | _, _ => []
  end
with env_of_fields (fs : fields) (p : str) (vs : vals) {struct fs} : env :=
  match fs, vs with
  | FCons tag ft fs', VCons v vs' => env_of ft (sub p (fname tag)) v ++ env_of_fields fs' p vs'
  | _, _ => []
  end.

End Loader.
