(* Model of the segment-addressing part of the API (C31):
     internal/api/api_recordings.go  onRecordingDeleteSegment (after fix 555d196), recordingsOfPath
     internal/recorder/recorder_instance.go  (how the recorder names a segment)
   on top of the Path.Encode / Path.Decode model of Model/C26_RecPath.v. Executable; no proofs here.

   All three parties work on the same *path format*
       g = PathAddExtension(strings.ReplaceAll(recordPath, "%path", pathName), recordFormat)
   (made absolute by filepath.Abs in the API and in FindSegments; the model takes record paths that are
   already absolute and clean, for which Abs is the identity):
     recorder : Path{Start: ntp}.Encode(g)                       ntp in the server's zone
     listing  : Path.Decode(g, file) -> Start                    (FindSegments, recordingsOfPath)
     delete   : Path{Start: start.Local()}.Encode(g), os.Remove  start = time.Parse(RFC3339, query "start")
   The server's time zone is a function `zone : Unix seconds -> offset in force` (oracle: the zone database);
   `loff` is the offset time.Date applies when Decode reads a name without %z / %s; the general form
   takes C26's `lzone` (both functions of the zone), see listed_start_lz and Proofs/C31_DeleteSeg.v
   for the zone-table instance (Model/C26_Zone.v). *)
From Coq Require Import List ZArith Bool.
Require Import MTX.Lib.Civil MTX.Model.C26_RecPath.
Import ListNotations.
Local Open Scope Z_scope.

Definition pth : list Z := tok_src TPath.   (* "%path" *)

(* PathAddExtension(strings.ReplaceAll(recordPath, "%path", pathName), format) *)
Definition path_format (rp ext name : list Z) : list Z := repl pth name 0 rp ++ ext.

(* time.Time.Local(): same instant, offset of the server zone at that instant *)
Definition to_local (zone : Z -> Z) (t : instant) : instant := mkI (i_unix t) (i_ns t) (zone (i_unix t)).

(* the file onRecordingDeleteSegment removes; req = the parsed 'start' parameter with the offset it was written with *)
Definition delete_target (zone : Z -> Z) (g : list Z) (req : instant) : list Z :=
  encode_go g [] (to_local zone req).

(* the same before fix 555d196: the request's own offset was used *)
Definition delete_target_prefix (g : list Z) (req : instant) : list Z := encode_go g [] req.

(* the file the recorder creates for a segment starting at Unix time (u, n) *)
Definition recorded_name (zone : Z -> Z) (g : list Z) (u n : Z) : list Z := encode_go g [] (mkI u n (zone u)).

(* the Start the listing reports for a file; L = the server's local zone as Decode sees it
   (C26: lzone), a fixed offset loff being the constant pair *)
Definition listed_start_lz (L : lzone) (g v : list Z) : option (Z * Z) :=
  match decode_lz L g v with Some (_, u, n) => Some (u, n) | None => None end.
Definition listed_start (loff : Z) (g v : list Z) : option (Z * Z) := listed_start_lz (fixed_lz loff) g v.

Definition same_instant (a b : instant) : Prop := i_unix a = i_unix b /\ i_ns a = i_ns b.

(* every '%' of the format starts a placeholder *)
Definition no_stray (ts : list tok) : bool := forallb (fun k => negb (tok_eqb k (TLit 37))) ts.
(* no %path left (the name has been substituted) *)
Definition no_path (ts : list tok) : bool := forallb (fun k => negb (tok_eqb k TPath)) ts.

(* ------------------------------------------------------------------ RFC 3339 *)

(* An RFC 3339 date-time denotes civil fields and an offset; time.Parse turns them into an instant
   with time.Date semantics. *)
Record fields := mkF { f_Y : Z; f_M : Z; f_D : Z; f_h : Z; f_m : Z; f_s : Z; f_ns : Z; f_off : Z }.

Definition instant_of_fields (x : fields) : instant :=
  mkI (date_unix (f_Y x) (f_M x) (f_D x) (f_h x) (f_m x) (f_s x) (f_off x)) (f_ns x) (f_off x).

(* the fields time.Time.Format(RFC3339Nano) writes for an instant shown at offset off *)
Definition fields_of (u n off : Z) : fields :=
  let c := civil_of_unix u off in mkF (c_year c) (c_month c) (c_day c) (c_hour c) (c_min c) (c_sec c) n off.

(* positional reader of "YYYY-MM-DDTHH:MM:SS[.f{1,9}](Z|+HH:MM|-HH:MM)" (the texts Format(RFC3339Nano) writes;
   time.Parse's range checks and tolerated variants are not modelled) *)
Definition expect (c : Z) (s : list Z) : option (list Z) :=
  match s with x :: r => if x =? c then Some r else None | [] => None end.

Fixpoint span_digits (fuel : nat) (s : list Z) : list Z * list Z :=
  match fuel, s with
  | S k, c :: r => if is_digit c then let '(d, rest) := span_digits k r in (c :: d, rest) else ([], s)
  | _, _ => ([], s)
  end.

Definition num2 (s : list Z) : option (Z * list Z) :=
  match take_digits 2 s with Some (d, r) => Some (dec_val d, r) | None => None end.

Definition rfc3339_fields (s : list Z) : option fields :=
  match take_digits 4 s with Some (y, s1) =>
  match expect 45 s1 with Some s2 =>
  match num2 s2 with Some (mo, s3) =>
  match expect 45 s3 with Some s4 =>
  match num2 s4 with Some (d, s5) =>
  match expect 84 s5 with Some s6 =>
  match num2 s6 with Some (h, s7) =>
  match expect 58 s7 with Some s8 =>
  match num2 s8 with Some (mi, s9) =>
  match expect 58 s9 with Some s10 =>
  match num2 s10 with Some (sec, s11) =>
    let '(ns, s12) :=
      match expect 46 s11 with
      | Some sf => let '(fd, rest) := span_digits 9 sf in
                   (dec_val (fd ++ repeat 48 (9 - length fd)), rest)
      | None => (0, s11)
      end in
    match s12 with
    | [90] => Some (mkF (dec_val y) mo d h mi sec ns 0)
    | sg :: z =>
        if (sg =? 43) || (sg =? 45) then
          match num2 z with Some (zh, z1) =>
          match expect 58 z1 with Some z2 =>
          match num2 z2 with Some (zm, []) =>
            Some (mkF (dec_val y) mo d h mi sec ns ((if sg =? 43 then 1 else -1) * (zh * 3600 + zm * 60)))
          | _ => None end | None => None end | None => None end
        else None
    | [] => None
    end
  | None => None end | None => None end | None => None end | None => None end | None => None end
  | None => None end | None => None end | None => None end | None => None end | None => None end
  | None => None end.

Definition rfc3339_parse (s : list Z) : option instant :=
  match rfc3339_fields s with Some x => Some (instant_of_fields x) | None => None end.
