(* Model of the segment finder of internal/recordstore/segment.go (FindSegments, fixedPathHasSegments,
   regexpPathFindPathsWithSegments) as far as file NAMES go, and of the name under which the recorder's
   file is later walked (internal/recorder/recorder_instance.go + the kernel's path resolution +
   filepath.WalkDir). Executable; no proofs here.

   The code (three copies):
       recordPath := PathAddExtension(strings.ReplaceAll(pathConf.RecordPath, "%path", pathName), format)
       recordPath, _ = filepath.Abs(recordPath)      // Join(cwd, .) when relative; always Clean
       WalkDir(CommonPath(recordPath), ... pa.Decode(recordPath, fpath) ...)
   ORDER MATTERS: %path is substituted first, THEN the whole string is made absolute and cleaned, so the
   path name goes through the same Clean as the name of the file on disk. A path name that
   conf.IsValidPathName accepts may hold consecutive slashes (site//cam1): the recorder creates
   recordings/site//cam1/x.mp4, the kernel resolves it to recordings/site/cam1/x.mp4, WalkDir yields
   that clean name. `finder_format_cleanfirst` is the other order (Abs on the raw format, then substitute),
   refuted in Props/C26.v.

   Unix paths, bytes as Z. filepath.Clean on a rooted path: split on '/', drop empty elements and ".",
   ".." pops (stays at the root), join with "/" behind a leading "/". *)
From Coq Require Import List ZArith Bool.
Require Import MTX.Model.C26_RecPath.
Import ListNotations.
Local Open Scope Z_scope.

(* non-empty elements between slashes; cur = the current element, reversed *)
Fixpoint elems_acc (cur s : list Z) : list (list Z) :=
  match s with
  | [] => match cur with [] => [] | _ => [rev cur] end
  | c :: r =>
      if c =? 47
      then match cur with [] => elems_acc [] r | _ => rev cur :: elems_acc [] r end
      else elems_acc (c :: cur) r
  end.
Definition elems (s : list Z) : list (list Z) := elems_acc [] s.

(* the lexical stack of Clean (top first) *)
Definition clean_step (st : list (list Z)) (e : list Z) : list (list Z) :=
  if name_eqb e [46] then st else if name_eqb e [46; 46] then tl st else e :: st.

Definition render_abs (st : list (list Z)) : list Z :=
  match st with [] => [47] | _ => concat (map (fun e => 47 :: e) (rev st)) end.

(* filepath.Clean of a rooted path *)
Definition clean_abs (s : list Z) : list Z := render_abs (fold_left clean_step (elems s) []).

(* filepath.Abs with working directory cwd (rooted) *)
Definition rooted (cwd s : list Z) : list Z :=
  match s with c :: _ => if c =? 47 then s else cwd ++ 47 :: s | [] => cwd ++ 47 :: s end.
Definition abs_path (cwd s : list Z) : list Z := clean_abs (rooted cwd s).

Definition pathpat : list Z := [37; 112; 97; 116; 104].   (* "%path" *)
Definition subst_path (f p : list Z) : list Z := repl pathpat p 0 f.

(* what the three finder functions match file names against (f = recordPath, ext = ".mp4" / ".ts") *)
Definition finder_format (cwd f ext p : list Z) : list Z := abs_path cwd (subst_path f p ++ ext).
(* regexp paths: %path is kept and captured *)
Definition lister_format (cwd f ext : list Z) : list Z := abs_path cwd (f ++ ext).
(* the other order: Abs (Clean) on the raw format, the path name inserted afterwards, un-cleaned *)
Definition finder_format_cleanfirst (cwd f ext p : list Z) : list Z := subst_path (abs_path cwd (f ++ ext)) p.

(* the name the recorder passes to os.Create, and the name WalkDir later reports for that file *)
Definition recorder_name (f ext p : list Z) (t : instant) : list Z := encode_go (subst_path f p ++ ext) [] t.
Definition walked (cwd f ext p : list Z) (t : instant) : list Z := abs_path cwd (recorder_name f ext p t).

(* conf.IsValidPathName *)
Fixpoint split47 (s : list Z) : list (list Z) :=
  match s with
  | [] => [[]]
  | c :: r => if c =? 47 then [] :: split47 r
              else match split47 r with e :: es => (c :: e) :: es | [] => [[c]] end
  end.
Definition pn_char (c : Z) : bool :=
  ((48 <=? c) && (c <=? 57)) || ((65 <=? c) && (c <=? 90)) || ((97 <=? c) && (c <=? 122))
  || (c =? 95) || (c =? 45) || (c =? 47) || (c =? 46).
Definition path_name_valid (p : list Z) : bool :=
  match p with [] => false | c :: _ => negb (c =? 47) end
  && negb (last p 0 =? 47)
  && forallb pn_char p
  && forallb (fun e => negb (name_eqb e [46]) && negb (name_eqb e [46; 46])) (split47 p).

(* runs of slashes collapsed (b: the previous byte was a slash); all that Clean changes in a valid name *)
Fixpoint sqf (b : bool) (s : list Z) : list Z :=
  match s with
  | [] => []
  | c :: r => if c =? 47 then (if b then sqf true r else 47 :: sqf true r) else c :: sqf false r
  end.
Definition squeeze (p : list Z) : list Z := sqf false p.

Fixpoint mem_name (x : list Z) (l : list (list Z)) : bool :=
  match l with [] => false | y :: r => name_eqb x y || mem_name x r end.
Fixpoint dedup (l : list (list Z)) : list (list Z) :=
  match l with [] => [] | x :: r => if mem_name x r then dedup r else x :: dedup r end.

(* FindSegments(pathConf, p, nil, nil) over the walked files: the starts (unsorted) *)
Definition find_model (L : lzone) (cwd f ext p : list Z) (files : list (list Z)) : list (Z * Z) :=
  flat_map (fun w => match decode_lz L (finder_format cwd f ext p) w with
                     | Some (_, u, n) => [(u, n)] | None => [] end) files.

(* regexpPathFindPathsWithSegments with a regular expression that matches every name *)
Definition list_model (L : lzone) (cwd f ext : list Z) (files : list (list Z)) : list (list Z) :=
  flat_map (fun w => match decode_lz L (lister_format cwd f ext) w with
                     | Some (q, _, _) => if path_name_valid q then [q] else [] | None => [] end) files.
