(* Model of the READ side of the Control-API configuration endpoints, as steps of the same histories as the edits:
     internal/api/api_config_global.go        onConfigGlobalGet        GET /v3/config/global/get
     internal/api/api_config_pathdefaults.go  onConfigPathDefaultsGet  GET /v3/config/pathdefaults/get
     internal/api/api_config_paths.go         onConfigPathsList / onConfigPathsGet   GET /v3/config/paths/list, get/*name
     internal/api/api.go                      redactCredentials: c = snapshot.Clone(); then IN-PLACE writes into c
                                              (c.AuthInternalUsers[i].Pass = ..., *c.PathDefaults.PublishPass = ...,
                                              *c.Paths[n].ReadPass = ...), answer built from c.
   Every handler works on a copy of Core.APIConfigSnapshot() and writes into that copy. Whether the running
   configuration survives depends on what the copy shares with it. Two memories are modelled:
     (1) the heap of per-path cells of Model/C12_ApiEdit (everything reached through the path maps): the handler
         clones with [clone mode] and then writes an ARBITRARY function of each cell into the cells of its copy;
     (2) a store of values reached through slices / pointers of the global part (the backing array of
         AuthInternalUsers; the pointees of PathDefaults.PublishPass / ReadPass): [copy_kind] says whether the copy
         has fresh locations (Conf.Clone) or shares them (a struct copy `c := *snapshot`).
   Executable; no proofs here. *)
From Coq Require Import List ZArith Bool.
Require Import MTX.Model.C12_ApiEdit MTX.Model.C12_FileReload.
Import ListNotations.
Local Open Scope Z_scope.

Inductive endpoint := EGlobal | EDefaults | EList | EGet (n : Z).
Inductive resp := RFields (f : fmap) | RItems (l : list (Z * fmap)) | RNotFound.

(* what an endpoint shows of a configuration (before any redaction): Global(), PathDefaults, Paths (effective
   configurations, sorted by name in the code: compared as a map), Paths[name] or 404 *)
Definition project (name_f : Z) (v : view) (e : endpoint) : resp :=
  match e with
  | EGlobal => RFields (vg v)
  | EDefaults => RFields (vd v)
  | EList => RItems (map (fun p => (fst p, set name_f (fst p) (overlay (snd p) (vd v)))) (vp v))
  | EGet n => match effective name_f v n with Some f => RFields f | None => RNotFound end
  end.

Section Reads.
  Variable name_f : Z.
  Variable mode : clone_mode.
  (* what the handler writes into its copy: the by-value parts (fields of the copied struct) and the path cells;
     arbitrary functions (redaction is one instance; what exactly is redacted is C07's subject) *)
  Variable wr_g wr_d wr_c : fmap -> fmap.

  Definition scribble (h : heap) (l : list nat) : heap := fold_left (fun h a => upd a (wr_c (cell h a)) h) l h.

  (* one GET: the memory afterwards (the running configuration's root is not assigned by a handler) and the answer *)
  Definition read_world (w : world) (e : endpoint) : world * resp :=
    let '(h1, c1) := clone mode w in
    let h2 := scribble h1 (addrs c1) in
    ({| mem := h2; live := live w |},
     project name_f (view_of h2 {| cg := wr_g (cg c1); cd := wr_d (cd c1); cp := cp c1 |}) e).

  (* the same writes on a plain value: what the answer must be *)
  Definition written (v : view) : view :=
    {| vg := wr_g (vg v); vd := wr_d (vd v); vp := map (fun p => (fst p, wr_c (snd p))) (vp v) |}.

  (* ---- histories of edits, file reloads and reads -------------------------------------------------------------- *)
  Variable valid : view -> bool.

  Inductive rop := RH (o : hop) | RRead (e : endpoint).
  Inductive rout := ROut (o : hout) | RResp (r : resp) | RDead.

  Definition rstep (st : option world) (o : rop) : option world * rout :=
    match o with
    | RH h => let '(st', out) := hstep valid st h in (st', ROut out)
    | RRead e => match st with
                 | None => (None, RDead)
                 | Some w => let '(w', r) := read_world w e in (Some w', RResp r)
                 end
    end.

  Fixpoint rrun (st : option world) (ops : list rop) : option world * list rout :=
    match ops with
    | [] => (st, [])
    | o :: r => let '(st1, out) := rstep st o in
                let '(st2, outs) := rrun st1 r in (st2, out :: outs)
    end.

  (* specification: the configuration is a plain value; a read does not change it and shows it (with the handler's
     writes applied to the ANSWER only) *)
  Definition rspec_step (sv : option view) (o : rop) : option view * rout :=
    match o with
    | RH h => let '(sv', out) := hspec_step valid sv h in (sv', ROut out)
    | RRead e => match sv with
                 | None => (None, RDead)
                 | Some v => (Some v, RResp (project name_f (written v) e))
                 end
    end.

  Fixpoint rspec_run (sv : option view) (ops : list rop) : option view * list rout :=
    match ops with
    | [] => (sv, [])
    | o :: r => let '(sv1, out) := rspec_step sv o in
                let '(sv2, outs) := rspec_run sv1 r in (sv2, out :: outs)
    end.
End Reads.

(* ---- (2) values behind slices / pointers of the global part ------------------------------------------------------- *)
(* [store]: memory of credential values; a configuration reaches its own through a list of locations
   (AuthInternalUsers[i].Pass = element i of the backing array; *PathDefaults.PublishPass; ...). *)
Definition store := list Z.
Definition sread (s : store) (a : nat) : Z := nth a s 0.
Fixpoint swrite (a : nat) (v : Z) (s : store) : store :=
  match s, a with
  | [], _ => []
  | _ :: r, O => v :: r
  | x :: r, S a' => x :: swrite a' v r
  end.

Inductive copy_kind :=
| CClone      (* Conf.Clone(): deepClone allocates a new backing array / new pointees *)
| CStruct.    (* c := *snapshot: slice headers and pointers are copied, the memory behind them is shared *)

Definition copy_locs (k : copy_kind) (s : store) (locs : list nat) : store * list nat :=
  match k with
  | CClone => (s ++ map (sread s) locs, seq (length s) (length locs))
  | CStruct => (s, locs)
  end.

(* `if x != "" { x = "<redacted>" }` at one location; [red] / [empty] are the tokens of the two strings *)
Definition redact_at (red empty : Z) (s : store) (a : nat) : store :=
  if sread s a =? empty then s else swrite a red s.
Definition redact_val (red empty v : Z) : Z := if v =? empty then v else red.

(* a GET handler: copy, redact the copy in place, answer from the copy. Returns the memory afterwards and the
   credential values of the answer *)
Definition read_creds (k : copy_kind) (red empty : Z) (s : store) (locs : list nat) : store * list Z :=
  let '(s1, l1) := copy_locs k s locs in
  let s2 := fold_left (redact_at red empty) l1 s1 in
  (s2, map (sread s2) l1).

(* the credential values of the running configuration *)
Definition creds (s : store) (locs : list nat) : list Z := map (sread s) locs.
