(* Model of internal/api/paginate.go (paginate, paginate2). Executable; no proofs here. *)
From Coq Require Import List ZArith Bool.
Require Import MTX.Lib.IntWrap.
Import ListNotations.
Local Open Scope Z_scope.

(* strings are lists of byte values *)
Definition is_digit (c : Z) : bool := (48 <=? c) && (c <=? 57).

Fixpoint digits_val (acc : Z) (s : list Z) : option Z :=
  match s with
  | [] => Some acc
  | c :: r => if is_digit c then digits_val (acc * 10 + (c - 48)) r else None
  end.

(* strconv.ParseUint(s, 10, 31): no sign, no underscore (base given), range error at 2^31 *)
Definition parse_uint31 (s : list Z) : option Z :=
  match s with
  | [] => None
  | _ => match digits_val 0 s with
         | Some v => if v <? two31 then Some v else None
         | None => None
         end
  end.

Inductive outcome :=
| Rejected                      (* paginate returns an error *)
| Panics                        (* reflect Slice bounds out of range *)
| Page (page_count lo hi : Z).  (* items := items[lo:hi], returns page_count *)

(* paginate2 with Go's int64 arithmetic made explicit *)
Definition paginate2 (len ipp page : Z) : outcome :=
  if len =? 0 then Page 0 0 0 else
  let pc := wrap64 (Z.quot len ipp + (if Z.rem len ipp =? 0 then 0 else 1)) in
  let lo := Z.min (wrap64 (page * ipp)) len in
  let hi := Z.min (wrap64 (wrap64 (page + 1) * ipp)) len in
  if (0 <=? lo) && (lo <=? hi) then Page pc lo hi else Panics.

Definition paginate (len : Z) (ipp_s page_s : list Z) : outcome :=
  let ipp := match ipp_s with [] => Some 100 | _ => parse_uint31 ipp_s end in
  match ipp with
  | None => Rejected
  | Some ipp =>
    if ipp =? 0 then Rejected else
    let page := match page_s with [] => Some 0 | _ => parse_uint31 page_s end in
    match page with
    | None => Rejected
    | Some page => paginate2 len ipp page
    end
  end.

(* the items a page holds *)
Definition page_items {A} (xs : list A) (ipp page : Z) : list A :=
  match paginate2 (Z.of_nat (length xs)) ipp page with
  | Page _ lo hi => firstn (Z.to_nat (hi - lo)) (skipn (Z.to_nat lo) xs)
  | _ => []
  end.

Definition page_count (len ipp : Z) : Z :=
  match paginate2 len ipp 0 with Page pc _ _ => pc | _ => 0 end.
