(* C24, call-site layer: WHAT the output paths convert. The helper definitions (C24_MulDiv, C24_Inline) say how a value
   is scaled; this file says which value each branch of the MPEG-TS writer path
   (internal/protocols/mpegts/from_stream.go FromStream) scales, and what the right timestamp of every written
   frame is: the exact conversion (truncated toward zero) of that frame's POSITION in the source clock. *)
From Coq Require Import ZArith List Bool.
Require Import MTX.Lib.IntWrap.
Local Open Scope Z_scope.

(* branches of FromStream that hand a converted timestamp to the MPEG-TS writer (the video branches write u.PTS of a
   90 kHz format as it is, with a DTS from the DTS extractor: not a scaling, not modelled here) *)
Inductive ts_branch := TsOpus | TsKLV | TsMPEG4Audio | TsLATM | TsMPEG1Audio | TsAC3.

Definition ts_rate : Z := 90000.          (* MPEG-TS clock *)
Definition ac3_spf : Z := 1536.           (* ac3.SamplesPerFrame *)

(* samples between consecutive timestamps written for ONE unit (0: the unit gets a single timestamp) *)
Definition branch_spf (k : ts_branch) : Z := match k with TsAC3 => ac3_spf | _ => 0 end.

(* the quantity a written timestamp stands for: position, in source clock ticks, of frame i of a unit stamped pts *)
Definition frame_pos (k : ts_branch) (pts i : Z) : Z := pts + i * branch_spf k.

(* exact conversion of a tick count between clock rates, truncated toward zero *)
Definition conv (v from to : Z) : Z := Z.quot (v * to) from.

(* transliteration of the branches; md is the package's multiplyAndDivide (translated from the sources on every run) *)
Definition ts_written (md : Z -> Z -> Z -> Z) (k : ts_branch) (rate pts i : Z) : Z :=
  match k with
  | TsAC3 => md (wrap64 (pts + wrap64 (i * ac3_spf))) ts_rate rate      (* framePTS := u.PTS + int64(i)*ac3.SamplesPerFrame *)
  | TsKLV => md pts ts_rate ts_rate                                     (* multiplyAndDivide(u.PTS, 90000, 90000) *)
  | TsMPEG1Audio => pts                                                  (* "no conversion is needed": clock rate 90000 *)
  | TsOpus | TsMPEG4Audio | TsLATM => md pts ts_rate rate
  end.

(* the clock rate the format of a branch can have (format.X.ClockRate()) *)
Definition branch_rate_ok (k : ts_branch) (rate : Z) : bool :=
  match k with
  | TsKLV | TsMPEG1Audio => rate =? ts_rate
  | TsOpus => rate =? 48000
  | _ => (1 <=? rate) && (rate <=? 4294967296)
  end.

(* a PES header carries 33 bits *)
Definition pes33 (z : Z) : Z := z mod 8589934592.

(* ---- the tempting rewrites of a per-frame conversion (what a "loop hoisting" edit does) ---- *)
(* convert the unit timestamp once and the frame duration once, then add: a sum of truncated quotients *)
Definition hoisted_written (md : Z -> Z -> Z -> Z) (spf rate pts i : Z) : Z :=
  wrap64 (md pts ts_rate rate + wrap64 (i * md spf ts_rate rate)).
(* accumulate the converted frame duration frame after frame *)
Fixpoint accumulated_written (md : Z -> Z -> Z -> Z) (spf rate pts : Z) (i : nat) : Z :=
  match i with
  | O => md pts ts_rate rate
  | S j => wrap64 (accumulated_written md spf rate pts j + md spf ts_rate rate)
  end.

(* ---- boolean form of the property on an observed timestamp (used by Check.spec_fail; no model function) ---- *)
Definition ts_judged (rate pts i : Z) : bool :=
  (1 <=? rate) && (rate <=? 4294967296) && (0 <=? i) && (i <=? 65536) &&
  (-70368744177664 <=? pts) && (pts <=? 70368744177664).          (* |pts| <= 2^46: exact result far inside int64 *)
Definition ts_obs_ok (k : ts_branch) (rate pts i obs : Z) : bool :=
  obs =? pes33 (conv (frame_pos k pts i) rate ts_rate).
