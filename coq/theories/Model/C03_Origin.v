(* C03, requester identity: WHICH address a protocol server hands to the path manager as AccessRequest.IP, and whose
   address that is when reverse proxies sit between the client and the server. Executable definitions and the
   specification vocabulary (ground truth of a request's origin); no proofs here.

   Code modelled:
   - HTTP front ends (HLS, WebRTC WHIP/WHEP, the MoQ page check): `gin.New()` followed, unconditionally, by
     `router.SetTrustedProxies(<proto>TrustedProxies.ToTrustedProxies())` (internal/servers/{hls,webrtc,moq}/http_server.go);
     the IP is `net.ParseIP(ctx.ClientIP())`, directly or through `httpp.RemoteAddr(ctx)` (= ClientIP + the peer's port,
     internal/protocols/httpp/remote_addr.go) stored in a session field. gin's ClientIP is the model of C43
     (MTX.Model.C43_Hls: client_ip over an engine; validate_header walks X-Forwarded-For / X-Real-Ip from the right
     through trusted networks);
   - RTSP / RTMP: `c.ip()` = RemoteAddr() of the accepted connection; when <proto>TrustedProxies is not empty the listener
     is wrapped in internal/protocols/proxy.Listener (go-proxyproto, ConnPolicy: USE for peers inside the list, IGNORE
     otherwise), whose connections answer RemoteAddr() with the source address of a PROXY protocol header;
   - SRT, MoQ sessions (QUIC): RemoteAddr() of the connection request / connection, nothing else. *)
From Coq Require Import List ZArith Bool.
Require Import MTX.Model.C14_PathConf MTX.Model.C03_Auth.
Require MTX.Model.C43_Hls.
Module G := MTX.Model.C43_Hls.
Import ListNotations.
Local Open Scope Z_scope.

(* how a request reaches the server (decided per call site by tools/gen/authflows):
   CHttp    a HTTP request served by a gin engine (credentials = httpp.Credentials(request) / the function has a gin.Context)
   CTcp     a TCP connection of a server that installs proxy.Listener (RTSP, RTMP)
   CDirect  any other connection (SRT, QUIC) *)
Inductive carrier := CHttp | CTcp | CDirect.

(* which expression supplies AccessRequest.IP at a call site (tools/gen/authflows):
   SClient  gin ClientIP() of the request;  SPeer  the transport peer (conn.RemoteAddr(), http.Request.RemoteAddr);
   SNone    the field is not set;  SUnknown  anything else *)
Inductive ipsrc := SClient | SPeer | SNone | SUnknown.

(* the source a site must use: proxy-aware on HTTP, the (PROXY-protocol-aware) connection elsewhere *)
Definition ip_ok (c : carrier) (s : ipsrc) : bool :=
  match c, s with
  | CHttp, SClient | CTcp, SPeer | CDirect, SPeer => true
  | _, _ => false
  end.

(* gin.New() + SetTrustedProxies(tr): ForwardedByClientIP, RemoteIPHeaders = X-Forwarded-For, X-Real-Ip, no platform *)
Definition gin_engine (tr : list G.cidr) : G.engine :=
  {| G.e_trusted := tr; G.e_forwarded := true; G.e_headers := [G.h_xff; G.h_xreal]; G.e_platform := None |}.

(* gin.New() alone (SetTrustedProxies never called): every peer is a trusted proxy (0.0.0.0/0 and ::/0) *)
Definition gin_trust_all : list G.cidr :=
  [ {| G.c_v4 := true; G.c_base := 0; G.c_ones := 0 |}; {| G.c_v4 := false; G.c_base := 0; G.c_ones := 0 |} ].

(* what the server sees of a request: the transport peer with, on HTTP, the forwarding headers (G.netreq), and on a
   TCP connection the source address (text) of a PROXY protocol header sent first (None: no header, or UNKNOWN / LOCAL) *)
Record wreq := { w_net : G.netreq; w_pp : option (list Z) }.

(* proxy.Listener as the RTSP / RTMP servers install it (`if len(s.TrustedProxies) > 0`), then Conn.RemoteAddr():
   the header's source address for a peer inside the list, the peer itself otherwise (IGNORE: header consumed, unused).
   With an empty list nothing reads a PROXY header (the protocol parser then fails on it: never an admission). *)
Definition pp_remote (tr : list G.cidr) (n : G.netreq) (pp : option (list Z)) : list Z :=
  match G.n_peer n with
  | None => []
  | Some (t, a) =>
      match tr with
      | [] => t
      | _ :: _ => if G.is_trusted tr a then match pp with Some src => src | None => t end else t
      end
  end.

(* the text of the IP a call site hands to the path manager (net.ParseIP of it is AccessRequest.IP).
   tr = <proto>TrustedProxies, parse = net.ParseIP (oracle), other = whatever an unrecognised expression yields *)
Definition site_ip (car : carrier) (src : ipsrc) (tr : list G.cidr) (parse : list Z -> option G.addr)
           (other : list Z) (w : wreq) : list Z :=
  match src with
  | SClient => G.client_ip (gin_engine tr) parse (w_net w)
  | SPeer => match car with CTcp => pp_remote tr (w_net w) (w_pp w) | _ => G.peer_text (w_net w) end
  | SNone => []
  | SUnknown => other
  end.

(* ---- ground truth: the host a request is attributable to ------------------------------------------------------

   HTTP: (1) the peer is outside the trusted networks: it is the requester whatever headers it sends;
         (2) a trusted proxy asking for itself (no forwarding header);
         (3) an honest chain: the client `who` (not in a trusted network) sends ANY X-Forwarded-For x0, every proxy on the
             way appends the IP of its peer, all proxies are trusted (G.chain_xff);
         (4) a trusted proxy that sends no X-Forwarded-For and sets X-Real-Ip to its peer (nginx `X-Real-IP $remote_addr`) *)
Definition http_origin (tr : list G.cidr) (parse : list Z -> option G.addr) (n : G.netreq) (who : list Z) : Prop :=
  (exists a, G.n_peer n = Some (who, a) /\ G.is_trusted tr a = false) \/
  (exists a, G.n_peer n = Some (who, a) /\ G.hdr_val n G.h_xff = [] /\ G.hdr_val n G.h_xreal = []) \/
  (exists x0 ca ps pt pa,
      G.n_peer n = Some (pt, pa) /\ G.is_trusted tr pa = true /\
      G.hdr_val n G.h_xff = G.chain_xff x0 (who :: map fst ps) /\
      G.clean who = true /\ parse who = Some ca /\ G.is_trusted tr ca = false /\
      Forall (fun e => G.clean (fst e) = true /\ parse (fst e) = Some (snd e) /\ G.is_trusted tr (snd e) = true) ps) \/
  (exists ca pt pa,
      G.n_peer n = Some (pt, pa) /\ G.is_trusted tr pa = true /\
      G.hdr_val n G.h_xff = [] /\ G.hdr_val n G.h_xreal = who /\ G.clean who = true /\ parse who = Some ca).

(* TCP with PROXY protocol: a peer outside the list is the requester (whatever it sends first); a trusted proxy
   names the requester in its header; without a header it asks for itself *)
Definition tcp_origin (tr : list G.cidr) (w : wreq) (who : list Z) : Prop :=
  exists t a, G.n_peer (w_net w) = Some (t, a) /\
    ((G.is_trusted tr a = false /\ who = t) \/
     (G.is_trusted tr a = true /\ w_pp w = Some who) \/
     (G.is_trusted tr a = true /\ w_pp w = None /\ who = t)).

Definition attributable (car : carrier) (tr : list G.cidr) (parse : list Z -> option G.addr) (w : wreq)
           (who : list Z) : Prop :=
  match car with
  | CHttp => http_origin tr parse (w_net w) who
  | CTcp => tcp_origin tr w who
  | CDirect => exists a, G.n_peer (w_net w) = Some (who, a)
  end.

(* ---- end-to-end cases with a network in between (Check/C03.v, E2EN) ------------------------------------------- *)

(* the carrier of the five driven protocols: 0 RTSP, 1 RTMP, 2 HLS, 3 WebRTC, 4 SRT; and the source its sites use *)
Definition proto_carrier (proto : Z) : carrier :=
  if (proto =? 0) || (proto =? 1) then CTcp else if (proto =? 2) || (proto =? 3) then CHttp else CDirect.

Definition proto_src (proto : Z) : ipsrc := match proto_carrier proto with CHttp => SClient | _ => SPeer end.

Fixpoint txt_eqb (a b : list Z) : bool :=
  match a, b with
  | [], [] => true
  | x :: a', y :: b' => (x =? y) && txt_eqb a' b'
  | _, _ => false
  end.

Fixpoint tbl_get {A : Type} (t : list (list Z * A)) (k : list Z) : option A :=
  match t with
  | [] => None
  | (k', v) :: r => if txt_eqb k' k then Some v else tbl_get r k
  end.

Definition mk_cidr (x : bool * Z * Z) : G.cidr :=
  let '(v4, base, ones) := x in {| G.c_v4 := v4; G.c_base := base; G.c_ones := ones |}.

(* net.ParseIP restricted to the texts the driver shipped (the peer, every header item, the PROXY source) *)
Definition parse_of (t : list (list Z * option (bool * Z))) (s : list Z) : option G.addr :=
  match tbl_get t s with Some r => r | None => None end.

Definition wreq_of (parse : list Z -> option G.addr) (peer : list Z) (hdrs : list (Z * list Z)) (pp : option (list Z)) : wreq :=
  {| w_net := {| G.n_peer := match parse peer with Some a => Some (peer, a) | None => None end; G.n_hdrs := hdrs |};
     w_pp := pp |}.

(* the IP the server of that protocol evaluates for the request, by the sources its call sites use *)
Definition e2en_ip (proto : Z) (tr : list (bool * Z * Z)) (ptbl : list (list Z * option (bool * Z)))
           (peer : list Z) (hdrs : list (Z * list Z)) (pp : option (list Z)) : list Z :=
  site_ip (proto_carrier proto) (proto_src proto) (map mk_cidr tr) (parse_of ptbl) []
          (wreq_of (parse_of ptbl) peer hdrs pp).
