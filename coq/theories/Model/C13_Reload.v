(* Model of the hot-reload decision of internal/core/core.go.
   The table (one row per Core component) is generated from the Go source on every run (gen/C13_CoreDeps.v). *)
From Coq Require Import List String ZArith Bool.
Import ListNotations.
Local Open Scope string_scope.
Local Open Scope list_scope.

Inductive cmpkind := CmpVal | CmpDeep | CmpSlices | CmpDerived.

(* the condition under which createResources constructs a component, without its `p.x == nil` conjunct:
   GAtom f "" = the boolean (or derived boolean) field f is true; GAtom f k = field f equals the constant k *)
Inductive gexpr := GTrue | GAtom (f t : string) | GAnd (a b : gexpr) | GOr (a b : gexpr) | GNot (a : gexpr).

Record row := {
  comp : string;                       (* field of Core holding the component *)
  guard : list string;                 (* configuration fields its creation is conditioned on *)
  uses : list string;                  (* configuration fields its construction block reads *)
  refs : list string;                  (* other components handed to its constructor *)
  cmps : list (string * cmpkind);      (* comparisons made by its close predicate *)
  close_refs : list string;            (* components whose close predicate is included in its own *)
  reloads : list string;               (* fields pushed into the running component when it is not closed *)
  gexp : gexpr;                        (* creation condition (over the guard fields) *)
  bound : list string;                 (* fields bound directly to a key of the constructor literal (Key: currentConf.F) *)
  refbound : list string;              (* components bound directly to a key of the constructor literal (Key: p.comp) *)
}.

(* a loaded configuration: per field its value and, for pointer-typed fields, the address of the pointee *)
Record fval := { val : Z; addr : Z }.
Definition conf := string -> fval.

Definition mem (x : string) (l : list string) : bool := existsb (String.eqb x) l.

(* what the Go comparison observes *)
Definition differs (ptrs : list string) (old new : conf) (f : string) (k : cmpkind) : bool :=
  match k with
  | CmpVal => if mem f ptrs then negb (Z.eqb (addr (old f)) (addr (new f)))   (* != on pointers *)
              else negb (Z.eqb (val (old f)) (val (new f)))
  | _ => negb (Z.eqb (val (old f)) (val (new f)))
  end.

(* the close predicates: least solution of  close_c = (some comparison differs) \/ (some included close_d) ;
   on a table in declaration order this is what the straight-line Go code computes (see closes_eval) *)
Inductive Closes (tbl : list row) (ptrs : list string) (old new : conf) : string -> Prop :=
| Closes_cmp r f k : In r tbl -> In (f, k) (cmps r) -> differs ptrs old new f k = true -> Closes tbl ptrs old new (comp r)
| Closes_ref r d : In r tbl -> In d (close_refs r) -> Closes tbl ptrs old new d -> Closes tbl ptrs old new (comp r).

(* executable evaluation in declaration order *)
Fixpoint lookupb (c : string) (env : list (string * bool)) : bool :=
  match env with [] => false | (k, b) :: e => if String.eqb k c then b else lookupb c e end.

Fixpoint eval_rows (ptrs : list string) (old new : conf) (rows : list row) (env : list (string * bool)) :=
  match rows with
  | [] => env
  | r :: rs =>
      let b := existsb (fun fk => differs ptrs old new (fst fk) (snd fk)) (cmps r)
               || existsb (fun d => lookupb d env) (close_refs r) in
      eval_rows ptrs old new rs ((comp r, b) :: env)
  end.
Definition closes_eval tbl ptrs old new c : bool := lookupb c (eval_rows ptrs old new tbl []).

(* ---- decidable checks on a table ---- *)

(* fields compared by c's predicate, directly or through included predicates *)
Fixpoint reach_fields (fuel : nat) (tbl : list row) (c : string) : list string :=
  match fuel with
  | O => []
  | S k => flat_map (fun r => if String.eqb (comp r) c
                              then map fst (cmps r) ++ flat_map (reach_fields k tbl) (close_refs r) else []) tbl
  end.

(* components whose closing forces c's closing *)
Fixpoint reach_comps (fuel : nat) (tbl : list row) (c : string) : list string :=
  match fuel with
  | O => []
  | S k => c :: flat_map (fun r => if String.eqb (comp r) c then flat_map (reach_comps k tbl) (close_refs r) else []) tbl
  end.

Definition params (r : row) : list string := uses r ++ guard r.

(* (component, field) pairs: the component is built from the field, but a change of the field neither closes nor reloads it *)
Definition incomplete (tbl : list row) : list (string * string) :=
  flat_map (fun r => map (fun f => (comp r, f))
              (filter (fun f => negb (mem f (reach_fields (S (List.length tbl)) tbl (comp r)) || mem f (reloads r))) (params r))) tbl.

(* (component, held component): c holds d but closing d does not close c *)
Definition dangling (tbl : list row) : list (string * string) :=
  flat_map (fun r => map (fun d => (comp r, d))
              (filter (fun d => negb (mem d (reach_comps (S (List.length tbl)) tbl (comp r)))) (refs r))) tbl.

(* (component, field): spurious restarts — a comparison on something the component is not built from, a pointer
   compared by identity, or an included predicate of a component it does not hold *)
Definition loose (tbl : list row) (ptrs : list string) : list (string * string) :=
  flat_map (fun r =>
      map (fun fk => (comp r, fst fk))
          (filter (fun fk => negb (mem (fst fk) (params r)) ||
                             (match snd fk with CmpVal => mem (fst fk) ptrs | _ => false end)) (cmps r))
      ++ map (fun d => (comp r, d)) (filter (fun d => negb (mem d (refs r))) (close_refs r))) tbl.

(* ---- the running components: closeResources, then createResources (reloadConf) ---- *)

Fixpoint gfields (e : gexpr) : list string :=
  match e with
  | GTrue => []
  | GAtom f _ => [f]
  | GAnd a b | GOr a b => gfields a ++ gfields b
  | GNot a => gfields a
  end.

(* a running instance: its identity, the value it holds for each configuration field it was built from (or that
   was pushed into it since), and the identity of each component that was handed to its constructor (0 = nil) *)
Record inst := { gen : Z; hval : string -> Z; href : string -> Z }.
Definition state := string -> option inst.
Definition gen_of (o : option inst) : Z := match o with Some i => gen i | None => 0%Z end.
Definition upd (s : state) (c : string) (o : option inst) : state := fun x => if String.eqb x c then o else s x.
Definition no_components : state := fun _ => None.

Section Live.
(* oracle: the truth of test t on a value of field f (EncryptionNo …, atLeastOneRecordDeleteAfter) is a function of the value *)
Variable atomv : string -> string -> Z -> bool.

Fixpoint geval (c : conf) (e : gexpr) : bool :=
  match e with
  | GTrue => true
  | GAtom f t => atomv f t (val (c f))
  | GAnd a b => geval c a && geval c b
  | GOr a b => geval c a || geval c b
  | GNot a => negb (geval c a)
  end.
Definition enabled (r : row) (c : conf) : bool := geval c (gexp r).

(* createResources reads p.conf *after* reloadConf stored the new configuration: a component constructed at step n
   is built from the new configuration and from the components standing in Core at that moment *)
Definition fresh (n : Z) (new : conf) (s : state) : inst :=
  {| gen := n; hval := fun f => val (new f); href := fun d => gen_of (s d) |}.

Fixpoint create (n : Z) (new : conf) (rows : list row) (s : state) : state :=
  match rows with
  | [] => s
  | r :: rs =>
      create n new rs (match s (comp r) with
                       | Some _ => s
                       | None => if enabled r new then upd s (comp r) (Some (fresh n new s)) else s
                       end)
  end.

(* `if !closeX && !reflect.DeepEqual(newConf.F, currentConf.F) { p.x.ReloadF(newConf.F) }` *)
Definition push (old new : conf) (r : row) (i : inst) : inst :=
  {| gen := gen i;
     hval := fun f => if mem f (reloads r) && negb (Z.eqb (val (old f)) (val (new f))) then val (new f) else hval i f;
     href := href i |}.

(* the close* variables are computed once (env), then consulted: `lookupb c env` is `closes_eval tbl ptrs old new c` *)
Definition close_pass (tbl : list row) (ptrs : list string) (old new : conf) (s : state) : state :=
  let env := eval_rows ptrs old new tbl [] in
  fun c => match find (fun r => String.eqb (comp r) c) tbl with
           | None => s c
           | Some r => match s c with
                       | None => None
                       | Some i => if lookupb c env then None else Some (push old new r i)
                       end
           end.

(* reloadConf number n *)
Definition reload (n : Z) (tbl : list row) (ptrs : list string) (old new : conf) (s : state) : state :=
  create n new tbl (close_pass tbl ptrs old new s).

(* New: createResources(initial) on an empty Core *)
Definition start (tbl : list row) (c0 : conf) : state := create 1 c0 tbl no_components.

(* a history of successful reloads *)
Fixpoint run (n : Z) (tbl : list row) (ptrs : list string) (cur : conf) (s : state) (hist : list conf) : state :=
  match hist with
  | [] => s
  | c :: h => run (n + 1) tbl ptrs c (reload n tbl ptrs cur c s) h
  end.
End Live.

(* ---- further decidable checks on a table ---- *)

(* (component, field): a field of the creation condition that is not compared by the close predicate (a change of it
   would leave the component present although disabled, or absent although enabled), or an atom outside `guard` *)
Definition unguarded (tbl : list row) : list (string * string) :=
  flat_map (fun r => map (fun f => (comp r, f))
              (filter (fun f => negb (mem f (reach_fields (S (List.length tbl)) tbl (comp r)))) (guard r)
               ++ filter (fun f => negb (mem f (guard r))) (gfields (gexp r)))) tbl.

(* (component, held component): the held component is constructed later than (or is) the component holding it *)
Fixpoint misordered (seen : list string) (rows : list row) : list (string * string) :=
  match rows with
  | [] => []
  | r :: rs => map (fun d => (comp r, d)) (filter (fun d => negb (mem d seen)) (refs r)) ++ misordered (comp r :: seen) rs
  end.
