(* Model of the hot-reload decision of internal/core/core.go.
   The table (one row per Core component) is generated from the Go source on every run (gen/C13_CoreDeps.v). *)
From Coq Require Import List String ZArith Bool.
Import ListNotations.
Local Open Scope string_scope.
Local Open Scope list_scope.

Inductive cmpkind := CmpVal | CmpDeep | CmpSlices | CmpDerived.

Record row := {
  comp : string;                       (* field of Core holding the component *)
  guard : list string;                 (* configuration fields its creation is conditioned on *)
  uses : list string;                  (* configuration fields its construction block reads *)
  refs : list string;                  (* other components handed to its constructor *)
  cmps : list (string * cmpkind);      (* comparisons made by its close predicate *)
  close_refs : list string;            (* components whose close predicate is included in its own *)
  reloads : list string;               (* fields pushed into the running component when it is not closed *)
}.

(* a loaded configuration: per field its value and, for pointer-typed fields, the address of the pointee *)
Record fval := { val : Z; addr : Z }.
Definition conf := string -> fval.

Definition mem (x : string) (l : list string) : bool := existsb (String.eqb x) l.

(* what the Go comparison observes *)
Definition differs (ptrs : list string) (old new : conf) (f : string) (k : cmpkind) : bool :=
  match k with
  | CmpVal => if mem f ptrs then negb (Z.eqb (addr (old f)) (addr (new f)))   (* != on pointers *)
              else negb (Z.eqb (val (old f)) (val (new f)))
  | _ => negb (Z.eqb (val (old f)) (val (new f)))
  end.

(* the close predicates: least solution of  close_c = (some comparison differs) \/ (some included close_d) ;
   on a table in declaration order this is what the straight-line Go code computes (see closes_eval) *)
Inductive Closes (tbl : list row) (ptrs : list string) (old new : conf) : string -> Prop :=
| Closes_cmp r f k : In r tbl -> In (f, k) (cmps r) -> differs ptrs old new f k = true -> Closes tbl ptrs old new (comp r)
| Closes_ref r d : In r tbl -> In d (close_refs r) -> Closes tbl ptrs old new d -> Closes tbl ptrs old new (comp r).

(* executable evaluation in declaration order *)
Fixpoint lookupb (c : string) (env : list (string * bool)) : bool :=
  match env with [] => false | (k, b) :: e => if String.eqb k c then b else lookupb c e end.

Fixpoint eval_rows (ptrs : list string) (old new : conf) (rows : list row) (env : list (string * bool)) :=
  match rows with
  | [] => env
  | r :: rs =>
      let b := existsb (fun fk => differs ptrs old new (fst fk) (snd fk)) (cmps r)
               || existsb (fun d => lookupb d env) (close_refs r) in
      eval_rows ptrs old new rs ((comp r, b) :: env)
  end.
Definition closes_eval tbl ptrs old new c : bool := lookupb c (eval_rows ptrs old new tbl []).

(* ---- decidable checks on a table ---- *)

(* fields compared by c's predicate, directly or through included predicates *)
Fixpoint reach_fields (fuel : nat) (tbl : list row) (c : string) : list string :=
  match fuel with
  | O => []
  | S k => flat_map (fun r => if String.eqb (comp r) c
                              then map fst (cmps r) ++ flat_map (reach_fields k tbl) (close_refs r) else []) tbl
  end.

(* components whose closing forces c's closing *)
Fixpoint reach_comps (fuel : nat) (tbl : list row) (c : string) : list string :=
  match fuel with
  | O => []
  | S k => c :: flat_map (fun r => if String.eqb (comp r) c then flat_map (reach_comps k tbl) (close_refs r) else []) tbl
  end.

Definition params (r : row) : list string := uses r ++ guard r.

(* (component, field) pairs: the component is built from the field, but a change of the field neither closes nor reloads it *)
Definition incomplete (tbl : list row) : list (string * string) :=
  flat_map (fun r => map (fun f => (comp r, f))
              (filter (fun f => negb (mem f (reach_fields (S (List.length tbl)) tbl (comp r)) || mem f (reloads r))) (params r))) tbl.

(* (component, held component): c holds d but closing d does not close c *)
Definition dangling (tbl : list row) : list (string * string) :=
  flat_map (fun r => map (fun d => (comp r, d))
              (filter (fun d => negb (mem d (reach_comps (S (List.length tbl)) tbl (comp r)))) (refs r))) tbl.

(* (component, field): spurious restarts — a comparison on something the component is not built from, a pointer
   compared by identity, or an included predicate of a component it does not hold *)
Definition loose (tbl : list row) (ptrs : list string) : list (string * string) :=
  flat_map (fun r =>
      map (fun fk => (comp r, fst fk))
          (filter (fun fk => negb (mem (fst fk) (params r)) ||
                             (match snd fk with CmpVal => mem (fst fk) ptrs | _ => false end)) (cmps r))
      ++ map (fun d => (comp r, d)) (filter (fun d => negb (mem d (refs r))) (close_refs r))) tbl.
