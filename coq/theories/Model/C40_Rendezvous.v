(* C40 — model of the synchronous-channel (rendezvous) protocol between the path manager loop, the path loops,
   callers and shutdown (internal/core/path_manager.go, internal/core/path.go).  Executable; no proofs here.

   WHAT THIS IS NOT: a model of the Go memory model.  Data-race freedom cannot be stated here at all.

   Processes are small automata with program counters; every Go channel involved is unbuffered, so a send and the
   matching receive branch of a `select` fire together as ONE step (a rendezvous).  `ctx.Done()` is a flag that, once
   set, enables the corresponding select branch forever.  `pa.ctx` is derived from `pm.ctx`
   (context.WithCancel(pa.parentCtx)), hence `pa.ctx.Done()` is enabled when `pm_ctx || pctx`.
   `close(pa.done)` / `pm.wg` are the flags "program counter = PaDead / PmDone".

   path manager  (pathManager.run)
     PmIdle            the main `select` (all pm.ch* receive branches + <-pm.ctx.Done())
     PmHandle c        a request of caller c was received (chAddReader / chAddPublisher / chDescribe / chAPIPathsGet...),
                       pm is inside the do* handler (findPathConf, Authenticate, createPath: no channel operation)
     PmAnswer c r      at `req.Res <- res` (unbuffered; the caller is at `<-req.Res`)
     PmClose ps        doReloadConf / doClosePath: the paths of `ps` are still to be closed
     PmWait p ps       after `pa.close()` (= pa.ctxCancel()), at `pa.wait()` (= <-pa.done)
     PmDone            left the loop (pm.ctxCancel(); wg.Done())

   path p  (path.run / runInner)
     PaRun, script=[]  the main `select` of runInner
     PaRun, script=a::_  inside a handler (or the prologue of run()); the script is the list of the BLOCKING operations
                       the handler still performs, in order:
                         AAns c   `req.Res <- …` towards caller c, who is at `<-req.Res`
                         APm k    pa.parent.setPathReady / setPathNotReady / closePathIfIdle:
                                  select { pm.chX <- pa ; <-pm.ctx.Done() ; <-pa.ctx.Done() }
                       The script is fixed when the request is received (the handler is sequential code over the path's
                       own data); which script a given request gets is left open (any well-formed script), so the model
                       covers every handler of path.go: doAddReader, doAddPublisher, doDescribe, doRemove*, the timers…
     held              describeRequestsOnHold ++ readerAddRequestsOnHold (callers waiting for an answer of this path that
                       the running handler is not going to answer)
     PaTRemove         after runInner returned (only on <-pa.ctx.Done()): at pa.parent.removePath(pa)
     PaTHeld           after pa.ctxCancel() (a no-op: runInner only returns once pa.ctx is done; `pctx` therefore
                       records exactly "the path manager called pa.close()"): answering the requests on hold with
                       "terminated", one by one
     PaTNotReady       `if pa.stream != nil { pa.setNotAvailable() }` -> at pa.parent.setPathNotReady(pa)
     PaDead            wg.Done(); close(pa.done)

   caller c  (pathManager.AddReader / AddPublisher / Describe / APIPathsGet, or pathManager.ReloadPathConfs; or a
              session that holds a defs.Path and calls path.RemoveReader / RemovePublisher / APIPathsGet on it:
              LSpawnAt p, which starts at CAtPa p)
     CStart k          at select { pm.chX <- req ; <-pm.ctx.Done() }
     CWaitPm           at `<-req.Res`
     CAtPa p           at pa.addReader(req) etc.: select { pa.chX <- req ; <-pa.ctx.Done() }
     CWaitPa p         at `<-req.Res`
     CDone r           returned

   closer  (pathManager.close):  ClIdle -> pm.ctxCancel() -> ClWait (pm.wg.Wait(): pm loop and every path) -> ClDone

   `esc` = the `<-pa.ctx.Done()` branches of setPathReady / setPathNotReady / removePath / closePathIfIdle exist
   (true = the code as it is; false = the variant without them, used for the _refuted theorem). *)
From Coq Require Import List Arith Bool.
Import ListNotations.

Definition cid := nat.
Definition pid := nat.

Inductive pmkind := KReady | KNotReady | KCloseIdle.
Inductive act := AAns (c : cid) | APm (k : pmkind).

Inductive pmres := RErr | RPath (p : pid).

Inductive pm_pc :=
| PmIdle
| PmHandle (c : cid)
| PmAnswer (c : cid) (r : pmres)
| PmClose (ps : list pid)
| PmWait (p : pid) (ps : list pid)
| PmDone.

Inductive ckind := KCall | KReload (ps : list pid).

(* how a call ended *)
Inductive cres :=
| DPmErr        (* error answered by the path manager (no such path, authentication…) *)
| DPmTerm       (* "terminated": <-pm.ctx.Done() in the caller's first select *)
| DPaTerm (p : pid)   (* "terminated": <-pa.ctx.Done() of path p in the caller's second select *)
| DPaAns        (* answered by a handler of the path *)
| DPaTermAns (p : pid)   (* a request on hold answered "terminated" by the terminating path p *)
| DReload.      (* ReloadPathConfs delivered *)

Inductive c_pc :=
| CNone
| CStart (k : ckind)
| CWaitPm
| CAtPa (p : pid)
| CWaitPa (p : pid)
| CDone (r : cres).

Inductive pa_pc := PaRun | PaTRemove | PaTHeld | PaTNotReady | PaDead.

Record path_st := { ppc : pa_pc; pctx : bool; held : list cid; script : list act }.

Inductive cl_pc := ClIdle | ClWait | ClDone.

Record state := {
  pm_ctx : bool;
  pm : pm_pc;
  np : nat;
  paths : pid -> path_st;
  nc : nat;
  callers : cid -> c_pc;
  closer : cl_pc;
}.

Definition dead_path : path_st := {| ppc := PaDead; pctx := true; held := []; script := [] |}.

Definition init : state :=
  {| pm_ctx := false; pm := PmIdle; np := 0; paths := fun _ => dead_path; nc := 0; callers := fun _ => CNone;
     closer := ClIdle |}.

Definition upd {A} (f : nat -> A) (i : nat) (v : A) : nat -> A := fun j => if Nat.eqb j i then v else f j.

Definition set_pm (s : state) (x : pm_pc) : state :=
  {| pm_ctx := pm_ctx s; pm := x; np := np s; paths := paths s; nc := nc s; callers := callers s; closer := closer s |}.
Definition set_caller (s : state) (c : cid) (x : c_pc) : state :=
  {| pm_ctx := pm_ctx s; pm := pm s; np := np s; paths := paths s; nc := nc s; callers := upd (callers s) c x;
     closer := closer s |}.
Definition set_path (s : state) (p : pid) (x : path_st) : state :=
  {| pm_ctx := pm_ctx s; pm := pm s; np := np s; paths := upd (paths s) p x; nc := nc s; callers := callers s;
     closer := closer s |}.

Definition with_pc (x : path_st) (pc : pa_pc) := {| ppc := pc; pctx := pctx x; held := held x; script := script x |}.
Definition with_ctx (x : path_st) := {| ppc := ppc x; pctx := true; held := held x; script := script x |}.
Definition with_script (x : path_st) (sc : list act) := {| ppc := ppc x; pctx := pctx x; held := held x; script := sc |}.
Definition with_held (x : path_st) (h : list cid) := {| ppc := ppc x; pctx := pctx x; held := h; script := script x |}.

(* pa.ctx.Done() of path p is enabled *)
Definition pa_done (s : state) (p : pid) : bool := pm_ctx s || pctx (paths s p).

(* the escape branches of setPathReady / setPathNotReady / removePath / closePathIfIdle *)
Definition pa_escape (esc : bool) (s : state) (p : pid) : bool := pm_ctx s || (esc && pctx (paths s p)).

Fixpoint answers (sc : list act) : list cid :=
  match sc with [] => [] | AAns c :: r => c :: answers r | APm _ :: r => answers r end.
Fixpoint pm_calls (sc : list act) : nat :=
  match sc with [] => 0 | AAns _ :: r => pm_calls r | APm _ :: r => S (pm_calls r) end.

Definition memb (c : cid) (l : list cid) : bool := existsb (Nat.eqb c) l.
Fixpoint nodupb (l : list cid) : bool :=
  match l with [] => true | c :: r => negb (memb c r) && nodupb r end.
Definition minus (l a : list cid) : list cid := filter (fun c => negb (memb c a)) l.

(* a handler performs at most three parent calls (setNotAvailable, setAvailable, closePathIfIdle) *)
Definition max_pm_calls : nat := 3.

(* a script is well formed w.r.t. the callers `w` waiting for an answer of the path: it answers each at most once *)
Definition wf_script (w : list cid) (sc : list act) : bool :=
  nodupb (answers sc) && forallb (fun c => memb c w) (answers sc) && (pm_calls sc <=? max_pm_calls).

Inductive handled := HErr | HPath (p : pid) | HNew (isc : list act).

Inductive label :=
(* environment: arrival of a new call, a new static path (pathManager.initialize / doReloadConf: createPath), expiry
   of a timer of a path, pathManager.close() being called *)
| LSpawn (k : ckind)
| LSpawnAt (p : pid)
| LCreate (isc : list act)
| LTimer (p : pid) (sc : list act)
| LCancel
(* path manager *)
| LPmRecv (c : cid)              (* pm.chAddReader etc. <- req  ||  main select of pm *)
| LPmHandled (h : handled)       (* the do* handler decided: error / existing path / createPath *)
| LPmAns                         (* req.Res <- res  ||  caller's <-req.Res *)
| LPmReload (c : cid)            (* pm.chReloadConf <- confs  ||  main select of pm *)
| LPmCloseHd                     (* doClosePath: pa.close() *)
| LPmCloseEnd                    (* doReloadConf / chClosePathIfIdle handler returns *)
| LPmWaitDone                    (* <-pa.done *)
| LPmStop                        (* <-pm.ctx.Done() in the main select *)
(* callers *)
| LCEscPm (c : cid)              (* <-pm.ctx.Done() *)
| LCEscPa (c : cid)              (* <-pa.ctx.Done() *)
(* paths *)
| LPaRecv (c : cid) (sc : list act)   (* pa.chAddReader etc. <- req  ||  main select of the path *)
| LPaAns (p : pid)               (* req.Res <- res  ||  caller's <-req.Res *)
| LPaPm (p : pid) (cl : bool)    (* pm.chSetPathReady etc. <- pa  ||  main select of pm; cl: pendingRequests == 0 *)
| LPaPmEsc (p : pid)             (* <-pm.ctx.Done() or <-pa.ctx.Done() in setPathReady etc. *)
| LPaCtx (p : pid)               (* <-pa.ctx.Done() in the main select of the path *)
| LPaTRemPm (p : pid)            (* removePath: pm.chRemovePath <- pa  ||  main select of pm *)
| LPaTRemEsc (p : pid)           (* removePath: <-pm.ctx.Done() or <-pa.ctx.Done() *)
| LPaTAns (p : pid)              (* req.Res <- "terminated" to a request on hold *)
| LPaTFin (p : pid) (nr : bool)  (* no request on hold left; nr: pa.stream != nil *)
| LPaTNrPm (p : pid)             (* setPathNotReady: pm.chSetPathNotReady <- pa  ||  main select of pm *)
| LPaTNrEsc (p : pid)            (* setPathNotReady: escape *)
(* closer *)
| LClDone.                       (* pm.wg.Wait() returns *)

Definition internal (l : label) : bool :=
  match l with LSpawn _ | LSpawnAt _ | LCreate _ | LTimer _ _ | LCancel => false | _ => true end.

Definition is_dead (x : path_st) : bool := match ppc x with PaDead => true | _ => false end.

Definition new_path (isc : list act) : path_st := {| ppc := PaRun; pctx := false; held := []; script := isc |}.

Definition step (esc : bool) (s : state) (l : label) : option state :=
  match l with
  | LSpawn k =>
      Some {| pm_ctx := pm_ctx s; pm := pm s; np := np s; paths := paths s; nc := S (nc s);
              callers := upd (callers s) (nc s) (CStart k); closer := closer s |}
  | LSpawnAt p =>
      if p <? np s
      then Some {| pm_ctx := pm_ctx s; pm := pm s; np := np s; paths := paths s; nc := S (nc s);
                   callers := upd (callers s) (nc s) (CAtPa p); closer := closer s |}
      else None
  | LCreate isc =>
      match pm s, answers isc with
      | PmIdle, [] | PmClose [], [] =>
          if pm_calls isc <=? max_pm_calls
          then Some {| pm_ctx := pm_ctx s; pm := pm s; np := S (np s); paths := upd (paths s) (np s) (new_path isc);
                       nc := nc s; callers := callers s; closer := closer s |}
          else None
      | _, _ => None
      end
  | LTimer p sc =>
      let x := paths s p in
      match ppc x, script x with
      | PaRun, [] =>
          if wf_script (held x) sc
          then Some (set_path s p (with_script (with_held x (minus (held x) (answers sc))) sc))
          else None
      | _, _ => None
      end
  | LCancel =>
      match closer s with
      | ClIdle => Some {| pm_ctx := true; pm := pm s; np := np s; paths := paths s; nc := nc s; callers := callers s;
                          closer := ClWait |}
      | _ => None
      end
  | LPmRecv c =>
      match pm s, callers s c with
      | PmIdle, CStart KCall => Some (set_caller (set_pm s (PmHandle c)) c CWaitPm)
      | _, _ => None
      end
  | LPmHandled h =>
      match pm s with
      | PmHandle c =>
          match h with
          | HErr => Some (set_pm s (PmAnswer c RErr))
          | HPath p => if p <? np s then Some (set_pm s (PmAnswer c (RPath p))) else None
          | HNew isc =>
              match answers isc with
              | [] => if pm_calls isc <=? max_pm_calls
                      then Some {| pm_ctx := pm_ctx s; pm := PmAnswer c (RPath (np s)); np := S (np s);
                                   paths := upd (paths s) (np s) (new_path isc); nc := nc s; callers := callers s;
                                   closer := closer s |}
                      else None
              | _ :: _ => None
              end
          end
      | _ => None
      end
  | LPmAns =>
      match pm s with
      | PmAnswer c r =>
          match callers s c with
          | CWaitPm => Some (set_caller (set_pm s PmIdle) c (match r with RErr => CDone DPmErr | RPath p => CAtPa p end))
          | _ => None
          end
      | _ => None
      end
  | LPmReload c =>
      match pm s, callers s c with
      | PmIdle, CStart (KReload ps) => Some (set_caller (set_pm s (PmClose ps)) c (CDone DReload))
      | _, _ => None
      end
  | LPmCloseHd =>
      match pm s with
      | PmClose (p :: ps) => Some (set_path (set_pm s (PmWait p ps)) p (with_ctx (paths s p)))
      | _ => None
      end
  | LPmCloseEnd =>
      match pm s with
      | PmClose [] => Some (set_pm s PmIdle)
      | _ => None
      end
  | LPmWaitDone =>
      match pm s with
      | PmWait p ps => if is_dead (paths s p) then Some (set_pm s (PmClose ps)) else None
      | _ => None
      end
  | LPmStop =>
      match pm s with
      | PmIdle => if pm_ctx s then Some (set_pm s PmDone) else None
      | _ => None
      end
  | LCEscPm c =>
      match callers s c with
      | CStart _ => if pm_ctx s then Some (set_caller s c (CDone DPmTerm)) else None
      | _ => None
      end
  | LCEscPa c =>
      match callers s c with
      | CAtPa p => if pa_done s p then Some (set_caller s c (CDone (DPaTerm p))) else None
      | _ => None
      end
  | LPaRecv c sc =>
      match callers s c with
      | CAtPa p =>
          let x := paths s p in
          match ppc x, script x with
          | PaRun, [] =>
              if wf_script (held x ++ [c]) sc
              then Some (set_caller (set_path s p (with_script (with_held x (minus (held x ++ [c]) (answers sc))) sc))
                                    c (CWaitPa p))
              else None
          | _, _ => None
          end
      | _ => None
      end
  | LPaAns p =>
      let x := paths s p in
      match ppc x, script x with
      | PaRun, AAns c :: sc =>
          match callers s c with
          | CWaitPa q => if Nat.eqb q p then Some (set_caller (set_path s p (with_script x sc)) c (CDone DPaAns)) else None
          | _ => None
          end
      | _, _ => None
      end
  | LPaPm p cl =>
      let x := paths s p in
      match ppc x, script x, pm s with
      | PaRun, APm k :: sc, PmIdle =>
          Some (set_path (set_pm s (match k with
                                    | KCloseIdle => if cl then PmClose [p] else PmIdle
                                    | _ => PmIdle
                                    end)) p (with_script x sc))
      | _, _, _ => None
      end
  | LPaPmEsc p =>
      let x := paths s p in
      match ppc x, script x with
      | PaRun, APm _ :: sc => if pa_escape esc s p then Some (set_path s p (with_script x sc)) else None
      | _, _ => None
      end
  | LPaCtx p =>
      let x := paths s p in
      match ppc x, script x with
      | PaRun, [] => if pa_done s p then Some (set_path s p (with_pc x PaTRemove)) else None
      | _, _ => None
      end
  | LPaTRemPm p =>
      let x := paths s p in
      match ppc x, pm s with
      | PaTRemove, PmIdle => Some (set_path s p (with_pc x PaTHeld))
      | _, _ => None
      end
  | LPaTRemEsc p =>
      let x := paths s p in
      match ppc x with
      | PaTRemove => if pa_escape esc s p then Some (set_path s p (with_pc x PaTHeld)) else None
      | _ => None
      end
  | LPaTAns p =>
      let x := paths s p in
      match ppc x, held x with
      | PaTHeld, c :: r =>
          match callers s c with
          | CWaitPa q => if Nat.eqb q p then Some (set_caller (set_path s p (with_held x r)) c (CDone (DPaTermAns p))) else None
          | _ => None
          end
      | _, _ => None
      end
  | LPaTFin p nr =>
      let x := paths s p in
      match ppc x, held x with
      | PaTHeld, [] => Some (set_path s p (with_pc x (if nr then PaTNotReady else PaDead)))
      | _, _ => None
      end
  | LPaTNrPm p =>
      let x := paths s p in
      match ppc x, pm s with
      | PaTNotReady, PmIdle => Some (set_path s p (with_pc x PaDead))
      | _, _ => None
      end
  | LPaTNrEsc p =>
      let x := paths s p in
      match ppc x with
      | PaTNotReady => if pa_escape esc s p then Some (set_path s p (with_pc x PaDead)) else None
      | _ => None
      end
  | LClDone =>
      match closer s, pm s with
      | ClWait, PmDone =>
          if forallb (fun p => is_dead (paths s p)) (seq 0 (np s))
          then Some {| pm_ctx := pm_ctx s; pm := pm s; np := np s; paths := paths s; nc := nc s; callers := callers s;
                       closer := ClDone |}
          else None
      | _, _ => None
      end
  end.

Fixpoint run (esc : bool) (s : state) (ls : list label) : option state :=
  match ls with
  | [] => Some s
  | l :: r => match step esc s l with Some s' => run esc s' r | None => None end
  end.

Inductive reachable (esc : bool) : state -> Prop :=
| reach_init : reachable esc init
| reach_step : forall s l s', reachable esc s -> step esc s l = Some s' -> reachable esc s'.

(* ---- quiescence and termination -------------------------------------------------------------------------------- *)

(* the path manager sits in its main select with nothing to do, or has terminated *)
Definition pm_quiet (s : state) : Prop := (pm s = PmIdle /\ pm_ctx s = false) \/ pm s = PmDone.
(* a path sits in its main select with its context alive, or has terminated *)
Definition pa_quiet (s : state) (p : pid) : Prop :=
  (ppc (paths s p) = PaRun /\ script (paths s p) = [] /\ pa_done s p = false) \/ ppc (paths s p) = PaDead.
(* a caller has not started, has returned, or is a request on hold of a path (waiting for an on-demand source) *)
Definition c_quiet (s : state) (c : cid) : Prop :=
  match callers s c with
  | CNone | CDone _ => True
  | CWaitPa p => In c (held (paths s p))
  | _ => False
  end.
Definition cl_quiet (s : state) : Prop := closer s <> ClWait.

Definition quiescent (s : state) : Prop :=
  pm_quiet s /\ (forall p, pa_quiet s p) /\ (forall c, c_quiet s c) /\ cl_quiet s.

Definition all_terminated (s : state) : Prop :=
  pm s = PmDone /\ (forall p, ppc (paths s p) = PaDead) /\ (forall c, c < nc s -> exists r, callers s c = CDone r)
  /\ closer s = ClDone.

(* ---- the measure: every internal step strictly decreases it ------------------------------------------------------ *)
Definition w_caller (c : c_pc) : nat :=
  match c with
  | CNone => 0
  | CStart KCall => 100
  | CStart (KReload ps) => 4 + 2 * length ps
  | CWaitPm => 40
  | CAtPa _ => 30
  | CWaitPa _ => 1
  | CDone _ => 0
  end.
Definition w_path (x : path_st) : nat :=
  match ppc x with
  | PaRun => 10 + 4 * pm_calls (script x)
  | PaTRemove => 9
  | PaTHeld => 5
  | PaTNotReady => 4
  | PaDead => 0
  end.
Definition w_pm (x : pm_pc) : nat :=
  match x with
  | PmIdle => 1
  | PmHandle _ => 30
  | PmAnswer _ _ => 2
  | PmClose ps => 2 + 2 * length ps
  | PmWait _ ps => 3 + 2 * length ps
  | PmDone => 0
  end.
Definition w_closer (x : cl_pc) : nat := match x with ClIdle => 2 | ClWait => 1 | ClDone => 0 end.

Fixpoint sum_upto (n : nat) (f : nat -> nat) : nat :=
  match n with O => 0 | S k => sum_upto k f + f k end.

Definition measure (s : state) : nat :=
  w_pm (pm s) + sum_upto (np s) (fun p => w_path (paths s p)) + sum_upto (nc s) (fun c => w_caller (callers s c))
  + w_closer (closer s).
