(* C08 — scalar codecs of internal/conf, transliterated byte-exactly (strings are lists of byte values).

   Duration    internal/conf/duration.go  marshalInternal / unmarshalInternal
               + time.Duration.String, time.ParseDuration (go1.26 src/time/{time,format}.go)
   StringSize  internal/conf/string_size.go + code.cloudfoundry.org/bytefmt ByteSize / ToBytes
   float64     only what those two need: round-to-nearest-even of a positive rational to 53 bits
   enums       the switch tables of log_level.go, encryption.go, ... (text <-> value)
   IPNetwork   ip_network.go for IPv4: net.IPNet.String, net.ParseCIDR, net.ParseIP (dotted decimal)

   No proofs here (Proofs/C08_*.v). *)
From Coq Require Import List ZArith Bool.
Require Import MTX.Lib.IntWrap MTX.Lib.Utf8.
Import ListNotations.
Local Open Scope Z_scope.

(* ------------------------------------------------------------------ bytes, decimal numerals *)

Definition is_digit (c : Z) : bool := (48 <=? c) && (c <=? 57).

Fixpoint span (p : Z -> bool) (s : list Z) : list Z * list Z :=
  match s with
  | c :: r => if p c then let '(a, b) := span p r in (c :: a, b) else ([], s)
  | [] => ([], [])
  end.

(* value of a run of digits, most significant first, continuing from [acc] *)
Fixpoint digits_val (acc : Z) (s : list Z) : Z :=
  match s with [] => acc | c :: r => digits_val (acc * 10 + (c - 48)) r end.

(* strconv.FormatUint(n, 10) for 0 <= n < 10^fuel *)
Fixpoint dec_fuel (fuel : nat) (n : Z) : list Z :=
  match fuel with
  | O => []
  | S f => if n <? 10 then [48 + n] else dec_fuel f (n / 10) ++ [48 + n mod 10]
  end.
Definition dec (n : Z) : list Z := dec_fuel 40 n.

Definition str_eqb := list_eqb.

(* s[0] == k: the rest of s *)
Definition strip_char (k : Z) (s : list Z) : option (list Z) :=
  match s with c :: t => if c =? k then Some t else None | [] => None end.

(* ------------------------------------------------------------------ float64, as far as needed *)

(* A finite non-negative float64 is a pair (m, e) standing for m * 2^e.  [rnd n d] rounds the rational
   n/d (n >= 0, d > 0) to 53 significant bits, ties to even, with the subnormal exponent floor -1074;
   overflow is detected by the callers that can reach it ([fl_overflow]). *)
Definition fl := (Z * Z)%type.

Definition scale2 (n d e : Z) : Z * Z := if e <? 0 then (n * 2 ^ (- e), d) else (n, d * 2 ^ e).

Definition rnd (n d : Z) : fl :=
  if n <=? 0 then (0, 0) else
  if (n mod d =? 0) && (n / d <? 2 ^ 53) then (n / d, 0)     (* integers below 2^53 are representable *)
  else
  let e0 := Z.log2 n - Z.log2 d - 52 in
  let '(n0, d0) := scale2 n d e0 in
  let e1 := if n0 / d0 <? 2 ^ 52 then e0 - 1 else e0 in
  let e := Z.max e1 (-1074) in
  let '(n1, d1) := scale2 n d e in
  let q := n1 / d1 in
  let r := n1 mod d1 in
  let m := if 2 * r <? d1 then q else if d1 <? 2 * r then q + 1 else if Z.even q then q else q + 1 in
  (m, e).

Definition fl_overflow (x : fl) : bool :=            (* >= 2^1024 : +Inf *)
  let '(m, e) := x in if e <? 0 then false else 2 ^ 1024 <=? m * 2 ^ e.

Definition fl_of_int (n : Z) : fl := rnd n 1.                                   (* float64(uint64) *)
Definition fl_mul (a b : fl) : fl :=
  let '(ma, ea) := a in let '(mb, eb) := b in
  let '(m, e) := rnd (ma * mb) 1 in (m, e + ea + eb).
Definition fl_div (a b : fl) : fl :=                                            (* b > 0 *)
  let '(ma, ea) := a in let '(mb, eb) := b in
  let ex := ea - eb in
  if ex <? 0 then rnd ma (mb * 2 ^ (- ex)) else rnd (ma * 2 ^ ex) mb.
Definition fl_floor (x : fl) : Z :=                                             (* uint64(x), x < 2^64 *)
  let '(m, e) := x in if e <? 0 then m / 2 ^ (- e) else m * 2 ^ e.

(* ------------------------------------------------------------------ time.Duration.String *)

Definition t_second : Z := 1000000000.
Definition t_minute : Z := 60000000000.
Definition t_hour : Z := 3600000000000.
Definition t_day : Z := 86400000000000.

(* fmtFrac: [acc] is the part of the buffer already written (to the right) *)
Fixpoint fmt_frac (prec : nat) (v : Z) (print : bool) (acc : list Z) : list Z * Z :=
  match prec with
  | O => (if print then 46 :: acc else acc, v)
  | S p =>
      let digit := v mod 10 in
      let print' := print || negb (digit =? 0) in
      fmt_frac p (v / 10) print' (if print' then (48 + digit) :: acc else acc)
  end.

(* fmtInt prepends the decimal form of v *)
Definition fmt_int (v : Z) (acc : list Z) : list Z := dec v ++ acc.

(* format for the magnitude u (0 <= u <= 2^63) *)
Definition dur_format_u (u : Z) : list Z :=
  if u <? t_second then
    if u =? 0 then [48; 115]
    else if u <? 1000 then fmt_int u [110; 115]                                   (* "ns" *)
    else if u <? 1000000 then
      let '(b, u') := fmt_frac 3 u false [194; 181; 115] in fmt_int u' b         (* "µs" *)
    else
      let '(b, u') := fmt_frac 6 u false [109; 115] in fmt_int u' b              (* "ms" *)
  else
    let '(b, u1) := fmt_frac 9 u false [115] in
    let b1 := fmt_int (u1 mod 60) b in
    let u2 := u1 / 60 in
    if u2 >? 0 then
      let b2 := fmt_int (u2 mod 60) (109 :: b1) in
      let u3 := u2 / 60 in
      if u3 >? 0 then fmt_int u3 (104 :: b2) else b2
    else b1.

(* d is an int64 *)
Definition dur_string (d : Z) : list Z :=
  if d <? 0 then 45 :: dur_format_u (wrapu64 (- d)) else dur_format_u d.

(* ------------------------------------------------------------------ Duration.marshalInternal *)

Definition dur_marshal (d : Z) : list Z :=
  let neg := d <? 0 in
  let d1 := if neg then wrap64 (- d) else d in
  let days := Z.quot d1 t_day in
  let non_days := Z.rem d1 t_day in
  (if neg then [45] else []) ++
  (if days >? 0 then dec days ++ [100] else []) ++
  (if non_days =? 0 then [] else dur_string non_days).

(* ------------------------------------------------------------------ time.ParseDuration *)

Fixpoint leading_int (x : Z) (s : list Z) : option (Z * list Z) :=
  match s with
  | c :: r =>
      if is_digit c then
        if x >? two63 / 10 then None else
        let x' := x * 10 + (c - 48) in
        if x' >? two63 then None else leading_int x' r
      else Some (x, s)
  | [] => Some (x, [])
  end.

(* returns (x, scale, rest); scale is the float64 obtained by repeated `scale *= 10` *)
Fixpoint leading_fraction (x : Z) (scale : fl) (ovf : bool) (s : list Z) : Z * fl * list Z :=
  match s with
  | c :: r =>
      if is_digit c then
        if ovf then leading_fraction x scale true r
        else if x >? (two63 - 1) / 10 then leading_fraction x scale true r
        else
          let y := x * 10 + (c - 48) in
          if y >? two63 then leading_fraction x scale true r
          else leading_fraction y (fl_mul scale (10, 0)) false r
      else (x, scale, s)
  | [] => (x, scale, [])
  end.

Definition unit_of (u : list Z) : option Z :=
  if str_eqb u [110; 115] then Some 1
  else if str_eqb u [117; 115] then Some 1000
  else if str_eqb u [194; 181; 115] then Some 1000                 (* U+00B5 *)
  else if str_eqb u [206; 188; 115] then Some 1000                 (* U+03BC *)
  else if str_eqb u [109; 115] then Some 1000000
  else if str_eqb u [115] then Some t_second
  else if str_eqb u [109] then Some t_minute
  else if str_eqb u [104] then Some t_hour
  else None.

Definition num_char (c : Z) : bool := (c =? 46) || is_digit c.

(* uint64(float64(f) * (float64(unit) / scale)); +Inf scale gives 0 *)
Definition frac_ns (f unit : Z) (scale : fl) : Z :=
  if fl_overflow scale then 0
  else fl_floor (fl_mul (fl_of_int f) (fl_div (fl_of_int unit) scale)).

(* the `for s != ""` loop; d is the uint64 accumulator *)
Fixpoint pd_loop (fuel : nat) (d : Z) (s : list Z) : option Z :=
  match s with
  | [] => Some d
  | c :: _ =>
      match fuel with
      | O => None
      | S fu =>
          if negb (num_char c) then None else
          match leading_int 0 s with
          | None => None
          | Some (v, s1) =>
              let pre := negb (Nat.eqb (length s) (length s1)) in
              let '(f, scale, s2, post) :=
                match strip_char 46 s1 with
                | Some t => let '(f, sc, s2) := leading_fraction 0 (1, 0) false t in
                            (f, sc, s2, negb (Nat.eqb (length t) (length s2)))
                | None => (0, (1, 0), s1, false)
                end in
              if negb pre && negb post then None else
              let '(u, s3) := span (fun c => negb (num_char c)) s2 in
              match u with
              | [] => None
              | _ =>
                  match unit_of u with
                  | None => None
                  | Some unit =>
                      if v >? two63 / unit then None else
                      let v1 := v * unit in
                      let v2 := if f >? 0 then wrapu64 (v1 + frac_ns f unit scale) else v1 in
                      if (f >? 0) && (v2 >? two63) then None else
                      let d' := wrapu64 (d + v2) in
                      if d' >? two63 then None else pd_loop fu d' s3
                  end
              end
          end
      end
  end.

Definition parse_duration (s : list Z) : option Z :=
  let '(neg, s1) := match strip_char 45 s with
                    | Some t => (true, t)
                    | None => match strip_char 43 s with Some t => (false, t) | None => (false, s) end
                    end in
  if str_eqb s1 [48] then Some 0 else
  match s1 with
  | [] => None
  | _ =>
      match pd_loop (length s1) 0 s1 with
      | None => None
      | Some d => if neg then Some (- d) else if d >? two63 - 1 then None else Some d
      end
  end.

(* ------------------------------------------------------------------ Duration.unmarshalInternal *)

(* regexp ^(-?[0-9]+)d : (text of group 1, rest after the match) *)
Definition re_days (s : list Z) : option (list Z * list Z) :=
  let '(sg, t) := match strip_char 45 s with Some t => ([45], t) | None => ([], s) end in
  let '(ds, r) := span is_digit t in
  match ds, strip_char 100 r with
  | _ :: _, Some rest => Some (sg ++ ds, rest)
  | _, _ => None
  end.

(* strconv.ParseInt(m, 10, 64) with the error dropped: out-of-range values are clamped *)
Definition parse_int_clamp (m : list Z) : Z :=
  match strip_char 45 m with
  | Some ds => let v := digits_val 0 ds in if v >? two63 then - two63 else - v
  | None => let v := digits_val 0 m in if v >? two63 - 1 then two63 - 1 else v
  end.

Definition dur_unmarshal (s : list Z) : option Z :=
  let '(neg, days, rest) :=
    match re_days s with
    | Some (m1, rest) =>
        let days := parse_int_clamp m1 in
        if days <? 0 then (true, wrap64 (- days), rest) else (false, days, rest)
    | None => (false, 0, s)
    end in
  match (match rest with [] => Some 0 | _ => parse_duration rest end) with
  | None => None
  | Some nd =>
      let nd1 := wrap64 (nd + wrap64 (days * 24 * t_hour)) in
      Some (if neg then wrap64 (- nd1) else nd1)
  end.

(* ------------------------------------------------------------------ bytefmt.ByteSize *)

(* strconv.FormatFloat(v, 'f', 1, 64) of the exact value m*2^e, then TrimSuffix ".0" *)
Definition fmt_f1 (x : fl) : list Z :=
  let '(m, e) := x in
  let '(n, d) := if e <? 0 then (m * 10, 2 ^ (- e)) else (m * 2 ^ e * 10, 1) in
  let q := n / d in
  let r := n mod d in
  let tenths := if 2 * r <? d then q else if d <? 2 * r then q + 1 else if Z.even q then q else q + 1 in
  let ip := dec (tenths / 10) in
  if tenths mod 10 =? 0 then ip else ip ++ [46; 48 + tenths mod 10].

Definition byte_size (n : Z) : list Z :=
  if n =? 0 then [48; 66] else
  let '(m, e) := fl_of_int n in
  let '(k, u) :=
    if 2 ^ 60 <=? n then (60, 69)
    else if 2 ^ 50 <=? n then (50, 80)
    else if 2 ^ 40 <=? n then (40, 84)
    else if 2 ^ 30 <=? n then (30, 71)
    else if 2 ^ 20 <=? n then (20, 77)
    else if 2 ^ 10 <=? n then (10, 75)
    else (0, 66) in
  fmt_f1 (m, e - k) ++ [u].

(* ------------------------------------------------------------------ bytefmt.ToBytes (ASCII input) *)

Definition is_space (c : Z) : bool := (c =? 32) || ((9 <=? c) && (c <=? 13)).
Fixpoint trim_left (s : list Z) : list Z :=
  match s with c :: r => if is_space c then trim_left r else s | [] => [] end.
Definition trim_space (s : list Z) : list Z := rev (trim_left (rev (trim_left s))).
Definition upper (c : Z) : Z := if (97 <=? c) && (c <=? 122) then c - 32 else c.
Definition is_upper_letter (c : Z) : bool := (65 <=? c) && (c <=? 90).

Inductive tb_result := TBErr | TBOut (* >= 2^64: implementation-specific conversion *) | TBVal (n : Z).

(* strconv.ParseFloat on a string without letters: sign, digits with at most one '.', underscores *)
Inductive pf_result := PFSyntax | PFRange | PFVal (neg : bool) (x : fl).

(* scan of the mantissa characters: (digits so far as an integer, digits after the dot, saw dot, saw digit) *)
Fixpoint pf_scan (s : list Z) (n : Z) (frac : Z) (sawdot sawdig : bool) : option (Z * Z * bool) :=
  match s with
  | [] => Some (n, frac, sawdig)
  | c :: r =>
      if c =? 95 then pf_scan r n frac sawdot sawdig
      else if c =? 46 then (if sawdot then None else pf_scan r n frac true sawdig)
      else if is_digit c then pf_scan r (n * 10 + (c - 48)) (if sawdot then frac + 1 else frac) sawdot true
      else None
  end.

(* underscoreOK after the optional sign, no base prefix possible (no letters): saw in {^,0,_,!} as 0..3 *)
Fixpoint underscore_ok (s : list Z) (saw : Z) : bool :=
  match s with
  | [] => negb (saw =? 2)
  | c :: r =>
      if is_digit c then underscore_ok r 1
      else if c =? 95 then (if saw =? 1 then underscore_ok r 2 else false)
      else if saw =? 2 then false
      else underscore_ok r 3
  end.

Definition parse_float (s : list Z) : pf_result :=
  let '(neg, t) := match s with 43 :: t => (false, t) | 45 :: t => (true, t) | _ => (false, s) end in
  match pf_scan t 0 0 false false with
  | None => PFSyntax
  | Some (n, frac, sawdig) =>
      if negb sawdig then PFSyntax
      else if existsb (Z.eqb 95) t && negb (underscore_ok t 0) then PFSyntax
      else let x := rnd n (10 ^ frac) in
           if fl_overflow x then PFRange else PFVal neg x
  end.

Definition size_unit (u : list Z) : option Z :=
  let is a := str_eqb u a in
  if is [69] || is [69; 66] || is [69; 73; 66] then Some 60
  else if is [80] || is [80; 66] || is [80; 73; 66] then Some 50
  else if is [84] || is [84; 66] || is [84; 73; 66] then Some 40
  else if is [71] || is [71; 66] || is [71; 73; 66] then Some 30
  else if is [77] || is [77; 66] || is [77; 73; 66] then Some 20
  else if is [75] || is [75; 66] || is [75; 73; 66] then Some 10
  else if is [66] then Some 0
  else None.

Definition to_bytes (s0 : list Z) : tb_result :=
  let s := map upper (trim_space s0) in
  let '(num, mult) := span (fun c => negb (is_upper_letter c)) s in
  match mult with
  | [] => TBErr
  | _ =>
      match parse_float num with
      | PFSyntax | PFRange => TBErr
      | PFVal neg (m, e) =>
          if neg && (0 <? m) then TBErr else
          match size_unit mult with
          | None => TBErr
          | Some k => let v := fl_floor (m, e + k) in if two64 <=? v then TBOut else TBVal v
          end
      end
  end.

(* ------------------------------------------------------------------ StringSize (string_size.go) *)

(* before the repair: MarshalJSON = ByteSize, UnmarshalJSON = ToBytes *)
Definition size_marshal_old (n : Z) : list Z := byte_size n.
Definition size_unmarshal_old (s : list Z) : tb_result := to_bytes s.

(* after the repair.  The two library functions are parameters here so that the round-trip theorem is
   stated for *any* formatter/parser pair; the instances below plug in the models above.
   parseSize: sizes written in bytes ("<digits>B", any case, surrounding blanks) are parsed exactly
   with strconv.ParseUint; everything else goes to bytefmt.ToBytes. *)
Definition parse_uint64 (s : list Z) : option Z :=
  match s with
  | [] => None
  | _ => if forallb is_digit s then
           let v := digits_val 0 s in if v <? two64 then Some v else None
         else None
  end.

Definition cut_suffix_B (s : list Z) : option (list Z) :=
  match rev s with 66 :: r => Some (rev r) | _ => None end.

Section SizeRepaired.
  Variable bytesize : Z -> list Z.
  Variable tobytes : list Z -> tb_result.

  Definition parse_size (s : list Z) : tb_result :=
    match cut_suffix_B (map upper (trim_space s)) with
    | Some num => match parse_uint64 num with Some v => TBVal v | None => tobytes s end
    | None => tobytes s
    end.

  Definition tb_eqb (a : tb_result) (n : Z) : bool := match a with TBVal v => v =? n | _ => false end.

  Definition size_marshal (n : Z) : list Z :=
    let str := bytesize n in
    if tb_eqb (parse_size str) n then str else dec n ++ [66].
End SizeRepaired.

Definition size_marshal_m := size_marshal byte_size to_bytes.
Definition size_unmarshal_m := parse_size to_bytes.

(* ------------------------------------------------------------------ enums *)

(* value of an enum-like type: an integer constant, a string constant, the optional protocol of
   RTSPTransport, or the protocol set of RTSPTransports (sorted list of protocol numbers) *)
Inductive eval := EInt (n : Z) | EStr (s : list Z) | ENone | ESet (l : list Z).

Definition eval_eqb (a b : eval) : bool :=
  match a, b with
  | EInt x, EInt y => x =? y
  | EStr x, EStr y => str_eqb x y
  | ENone, ENone => true
  | ESet x, ESet y => str_eqb x y
  | _, _ => false
  end.

Inductive enum_id :=
| ELogLevel | ELogDestination | EEncryption | EAuthMethod | ERecordFormat | EHLSVariant | ERTSPRangeType
| EMoQTransport | ERTSPTransport | ERTSPAuthMethod | EAuthAction.

Definition all_enums : list enum_id :=
  [ELogLevel; ELogDestination; EEncryption; EAuthMethod; ERecordFormat; EHLSVariant; ERTSPRangeType;
   EMoQTransport; ERTSPTransport; ERTSPAuthMethod; EAuthAction].

(* ASCII literals *)
Definition s_error := [101;114;114;111;114].
Definition s_warn := [119;97;114;110].
Definition s_info := [105;110;102;111].
Definition s_debug := [100;101;98;117;103].
Definition s_stdout := [115;116;100;111;117;116].
Definition s_file := [102;105;108;101].
Definition s_syslog := [115;121;115;108;111;103].
Definition s_no := [110;111].
Definition s_optional := [111;112;116;105;111;110;97;108].
Definition s_strict := [115;116;114;105;99;116].
Definition s_false := [102;97;108;115;101].
Definition s_true := [116;114;117;101].
Definition s_yes := [121;101;115].
Definition s_internal := [105;110;116;101;114;110;97;108].
Definition s_http := [104;116;116;112].
Definition s_jwt := [106;119;116].
Definition s_fmp4 := [102;109;112;52].
Definition s_mpegts := [109;112;101;103;116;115].
Definition s_lowLatency := [108;111;119;76;97;116;101;110;99;121].
Definition s_clock := [99;108;111;99;107].
Definition s_npt := [110;112;116].
Definition s_smpte := [115;109;112;116;101].
Definition s_quic := [113;117;105;99].
Definition s_webtransport := [119;101;98;116;114;97;110;115;112;111;114;116].
Definition s_udp := [117;100;112].
Definition s_multicast := [109;117;108;116;105;99;97;115;116].
Definition s_tcp := [116;99;112].
Definition s_automatic := [97;117;116;111;109;97;116;105;99].
Definition s_basic := [98;97;115;105;99].
Definition s_digest := [100;105;103;101;115;116].
Definition s_publish := [112;117;98;108;105;115;104].
Definition s_read := [114;101;97;100].
Definition s_playback := [112;108;97;121;98;97;99;107].
Definition s_api := [97;112;105].
Definition s_metrics := [109;101;116;114;105;99;115].
Definition s_pprof := [112;112;114;111;102].

(* MarshalJSON: the text inside the JSON string.  Types without a MarshalJSON method (string kinds)
   are written by encoding/json as the string itself. *)
Definition enum_marshal (e : enum_id) (v : eval) : list Z :=
  match e, v with
  | ELogLevel, EInt n => if n =? 4 then s_error else if n =? 3 then s_warn else if n =? 2 then s_info else s_debug
  | ELogDestination, EInt n => if n =? 0 then s_stdout else if n =? 1 then s_file else s_syslog
  | EHLSVariant, EInt n => if n =? 1 then s_mpegts else if n =? 2 then s_fmp4 else s_lowLatency
  | ERTSPAuthMethod, EInt n => if n =? 0 then s_basic else s_digest
  | ERTSPTransport, ENone => s_automatic
  | ERTSPTransport, EInt n => if n =? 0 then s_udp else if n =? 1 then s_multicast else s_tcp
  | _, EStr s => s
  | _, _ => []
  end.

Definition one_of (s : list Z) (l : list (list Z)) : bool := existsb (str_eqb s) l.

Definition enum_unmarshal (e : enum_id) (s : list Z) : option eval :=
  let is a := str_eqb s a in
  match e with
  | ELogLevel => if is s_error then Some (EInt 4) else if is s_warn then Some (EInt 3)
                 else if is s_info then Some (EInt 2) else if is s_debug then Some (EInt 1) else None
  | ELogDestination => if is s_stdout then Some (EInt 0) else if is s_file then Some (EInt 1)
                       else if is s_syslog then Some (EInt 2) else None
  | EEncryption =>
      let s1 := if is s_false then s_no else if is s_true || is s_yes then s_strict else s in
      if one_of s1 [s_no; s_optional; s_strict] then Some (EStr s1) else None
  | EAuthMethod => if one_of s [s_internal; s_http; s_jwt] then Some (EStr s) else None
  | ERecordFormat => if one_of s [s_fmp4; s_mpegts] then Some (EStr s) else None
  | EHLSVariant => if is s_mpegts then Some (EInt 1) else if is s_fmp4 then Some (EInt 2)
                   else if is s_lowLatency then Some (EInt 3) else None
  | ERTSPRangeType => if one_of s [[]; s_clock; s_npt; s_smpte] then Some (EStr s) else None
  | EMoQTransport => if one_of s [s_quic; s_webtransport] then Some (EStr s) else None
  | ERTSPTransport => if is s_udp then Some (EInt 0) else if is s_multicast then Some (EInt 1)
                      else if is s_tcp then Some (EInt 2) else if is s_automatic then Some ENone else None
  | ERTSPAuthMethod => if is s_basic then Some (EInt 0) else if is s_digest then Some (EInt 1) else None
  | EAuthAction => if one_of s [s_publish; s_read; s_playback; s_api; s_metrics; s_pprof] then Some (EStr s) else None
  end.

(* every text the decoder accepts (the case labels of the switch statements) *)
Definition enum_texts (e : enum_id) : list (list Z) :=
  match e with
  | ELogLevel => [s_error; s_warn; s_info; s_debug]
  | ELogDestination => [s_stdout; s_file; s_syslog]
  | EEncryption => [s_no; s_optional; s_strict; s_false; s_true; s_yes]
  | EAuthMethod => [s_internal; s_http; s_jwt]
  | ERecordFormat => [s_fmp4; s_mpegts]
  | EHLSVariant => [s_mpegts; s_fmp4; s_lowLatency]
  | ERTSPRangeType => [[]; s_clock; s_npt; s_smpte]
  | EMoQTransport => [s_quic; s_webtransport]
  | ERTSPTransport => [s_udp; s_multicast; s_tcp; s_automatic]
  | ERTSPAuthMethod => [s_basic; s_digest]
  | EAuthAction => [s_publish; s_read; s_playback; s_api; s_metrics; s_pprof]
  end.

(* the values a decoder can produce = the valid values of the type *)
Definition enum_values (e : enum_id) : list eval :=
  flat_map (fun t => match enum_unmarshal e t with Some v => [v] | None => [] end) (enum_texts e).

(* RTSPTransports: a set of protocols, written as the sorted list of their names, read from any list *)
Definition proto_name (p : Z) : list Z := if p =? 0 then s_udp else if p =? 1 then s_multicast else s_tcp.
Definition proto_of_name (s : list Z) : option Z :=
  if str_eqb s s_udp then Some 0 else if str_eqb s s_multicast then Some 1 else if str_eqb s s_tcp then Some 2 else None.

(* a set of protocols is a triple of membership bits (udp, multicast, tcp) *)
Definition pset := (bool * bool * bool)%type.
(* sort.Strings order: "multicast" < "tcp" < "udp" *)
Definition transports_marshal (s : pset) : list (list Z) :=
  let '(u, m, t) := s in
  (if m then [s_multicast] else []) ++ (if t then [s_tcp] else []) ++ (if u then [s_udp] else []).
Fixpoint transports_unmarshal (l : list (list Z)) (acc : pset) : option pset :=
  match l with
  | [] => Some acc
  | x :: r =>
      let '(u, m, t) := acc in
      match proto_of_name x with
      | Some 0 => transports_unmarshal r (true, m, t)
      | Some 1 => transports_unmarshal r (u, true, t)
      | Some _ => transports_unmarshal r (u, m, true)
      | None => None
      end
  end.
Definition all_psets : list pset :=
  flat_map (fun u => flat_map (fun m => map (fun t => (u, m, t)) [false; true]) [false; true]) [false; true].

(* ------------------------------------------------------------------ IPNetwork, IPv4 *)

(* value: the four address bytes and the prefix length (Mask = CIDRMask(ones, 32)) *)
Definition join_dots (l : list (list Z)) : list Z :=
  match l with
  | [] => []
  | x :: r => x ++ flat_map (fun y => 46 :: y) r
  end.

(* net.IPNet.String for a 4-byte IP and a canonical mask *)
Definition ipnet4_string (ip : list Z) (ones : Z) : list Z :=
  join_dots (map dec ip) ++ [47] ++ dec ones.

(* netip.parseIPv4Fields *)
Fixpoint ipv4_fields (s : list Z) (first : bool) (prev_dot : bool) (val diglen pos : Z) (acc : list Z)
  : option (list Z) :=
  match s with
  | [] => if prev_dot then None                                (* trailing '.' or empty *)
          else if pos <? 3 then None else Some (acc ++ [val])
  | c :: r =>
      if is_digit c then
        if (diglen =? 1) && (val =? 0) then None
        else let v := val * 10 + (c - 48) in
             if v >? 255 then None else ipv4_fields r false false v (diglen + 1) pos acc
      else if c =? 46 then
        if first || prev_dot then None
        else if pos =? 3 then None
        else ipv4_fields r false true 0 0 (pos + 1) (acc ++ [val])
      else None
  end.
Definition parse_ipv4 (s : list Z) : option (list Z) := ipv4_fields s true false 0 0 0 [].

(* netip.ParseAddr dispatches on the first of '.', ':' and '%' *)
Inductive addr_kind := AKv4 | AKv6 | AKbad.
Fixpoint addr_kind_of (s : list Z) : addr_kind :=
  match s with
  | [] => AKbad
  | c :: r => if c =? 46 then AKv4 else if c =? 58 then AKv6 else if c =? 37 then AKbad else addr_kind_of r
  end.

(* net.dtoi on the whole mask text: digits only, value < 0xFFFFFF *)
Fixpoint dtoi (s : list Z) (n : Z) : option Z :=
  match s with
  | [] => Some n
  | c :: r => if is_digit c then let n' := n * 10 + (c - 48) in if n' >=? 16777215 then None else dtoi r n'
              else None
  end.

(* CIDRMask(ones, 32) applied to the address *)
Definition mask_byte (ones i : Z) : Z :=
  let k := ones - 8 * i in
  if k >=? 8 then 255 else if k <=? 0 then 0 else 256 - 2 ^ (8 - k).
Definition apply_mask (ip : list Z) (ones : Z) : list Z :=
  map (fun '(i, b) => Z.land b (mask_byte ones (Z.of_nat i))) (combine (seq 0 (length ip)) ip).

Fixpoint cut_slash (s : list Z) : option (list Z * list Z) :=
  match s with
  | [] => None
  | c :: r => if c =? 47 then Some ([], r)
              else match cut_slash r with Some (a, b) => Some (c :: a, b) | None => None end
  end.

Inductive net_result := NErr | NV6 (* an IPv6 text: outside this model *) | NVal (ip : list Z) (ones : Z).

Definition ipnet_unmarshal (t : list Z) : net_result :=
  let plain :=
    match addr_kind_of t with
    | AKv4 => match parse_ipv4 t with Some ip => NVal ip 32 | None => NErr end
    | AKv6 => NV6
    | AKbad => NErr
    end in
  match cut_slash t with
  | None => plain
  | Some (addr, mask) =>
      match addr_kind_of addr with
      | AKv6 => NV6
      | AKbad => plain
      | AKv4 =>
          match parse_ipv4 addr, mask with
          | Some ip, _ :: _ =>
              match dtoi mask 0 with
              | Some n => if n <=? 32 then NVal (apply_mask ip n) n else plain
              | None => plain
              end
          | _, _ => plain
          end
      end
  end.

Definition ipnet4_wf (ip : list Z) (ones : Z) : bool :=
  (Nat.eqb (length ip) 4) && forallb (fun b => (0 <=? b) && (b <=? 255)) ip && (0 <=? ones) && (ones <=? 32)
  && str_eqb (apply_mask ip ones) ip.
