(* Model of internal/recordstore/path.go: Path.Encode, Path.Decode (shared by C26, C30, C31).
   Executable; no proofs here.
   Strings are lists of byte values. A record path format is tokenised the way the
   sequential strings.ReplaceAll calls of the code see it (a '%' starts at most one
   placeholder; placeholders do not overlap). Decode is the leftmost-first (backtracking)
   match of the regular expression the code builds from the format:
     literal bytes (all metacharacters are escaped by the code), %path -> (.*?),
     %Y -> ([0-9]{4}), %m %d %H %M %S -> ([0-9]{2}), %f -> ([0-9]{6}), %s -> ([0-9]{10}),
     %z -> (Z|\+[0-9]{4}|-[0-9]{4}),
   compiled as ^...$ since the fix: commit 2b44fe1 (before it: without anchors, see
   decode_unanchored). Since the second fix (re-encode comparison) Decode ends with
   `return p.Encode(format) == v` (before it: decode_lax).
   The local time zone enters as a pair of functions `lzone` (the offset time.Date subtracts for a
   wall-clock reading; the offset in force at an instant); a fixed-offset zone `loff` is the
   constant pair (decode loff = decode_lz (fixed_lz loff)). Real zones: Model/C26_Zone.v. *)
From Coq Require Import List ZArith Bool.
Require Import MTX.Lib.Civil.
Import ListNotations.
Local Open Scope Z_scope.

Inductive tok := TLit (c : Z) | TPath | TY | Tmo | Td | TH | TMi | TS | Tf | Tz | Ts.

Definition tok_eqb (a b : tok) : bool :=
  match a, b with
  | TLit x, TLit y => x =? y
  | TPath, TPath | TY, TY | Tmo, Tmo | Td, Td | TH, TH | TMi, TMi | TS, TS | Tf, Tf | Tz, Tz | Ts, Ts => true
  | _, _ => false
  end.

(* source text of a token: "%path" "%Y" "%m" "%d" "%H" "%M" "%S" "%f" "%z" "%s" *)
Definition tok_src (t : tok) : list Z :=
  match t with
  | TLit c => [c]
  | TPath => [37; 112; 97; 116; 104]
  | TY => [37; 89] | Tmo => [37; 109] | Td => [37; 100] | TH => [37; 72] | TMi => [37; 77]
  | TS => [37; 83] | Tf => [37; 102] | Tz => [37; 122] | Ts => [37; 115]
  end.

Definition ptoks : list tok := [TPath; TY; Tmo; Td; TH; TMi; TS; Tf; Tz; Ts].

Fixpoint prefixb (p s : list Z) : bool :=
  match p, s with
  | [], _ => true
  | a :: p', b :: s' => (a =? b) && prefixb p' s'
  | _ :: _, [] => false
  end.

Definition token_at (s : list Z) : option tok := find (fun t => prefixb (tok_src t) s) ptoks.

(* skip = bytes of the current placeholder still to be dropped *)
Fixpoint tokenize_aux (skip : nat) (s : list Z) : list tok :=
  match s with
  | [] => []
  | c :: r =>
    match skip with
    | S k => tokenize_aux k r
    | O => match token_at s with
           | Some t => t :: tokenize_aux (length (tok_src t) - 1) r
           | None => TLit c :: tokenize_aux 0 r
           end
    end
  end.
Definition tokenize (f : list Z) : list tok := tokenize_aux 0 f.

Definition is_lit (t : tok) : bool := match t with TLit _ => true | _ => false end.
Definition has (t : tok) (ts : list tok) : bool := existsb (tok_eqb t) ts.

(* ------------------------------------------------------------------ numbers *)

Definition is_digit (c : Z) : bool := (48 <=? c) && (c <=? 57).

(* strconv.FormatInt(n, 10) *)
Fixpoint fmt_fuel (fuel : nat) (n : Z) : list Z :=
  match fuel with
  | O => []
  | S f => if n <? 10 then [48 + n] else fmt_fuel f (n / 10) ++ [48 + n mod 10]
  end.
Definition format_int (n : Z) : list Z := if n <? 0 then 45 :: fmt_fuel 40 (- n) else fmt_fuel 40 n.

(* leadingZeros(v, size) *)
Definition leading_zeros (v : Z) (size : nat) : list Z :=
  let o := format_int v in
  if (size <=? length o)%nat then o else repeat 48 (size - length o) ++ o.

(* strconv.ParseInt on a run of ASCII digits (no overflow for <= 18 digits) *)
Definition dec_val (s : list Z) : Z := fold_left (fun a c => a * 10 + (c - 48)) s 0.

(* ------------------------------------------------------------------ Encode *)

(* an instant as time.Time holds it: Unix seconds, nanoseconds (0..999999999) and the
   offset (seconds east of UTC) its Location gives at that instant *)
Record instant := mkI { i_unix : Z; i_ns : Z; i_off : Z }.

(* timeLocationEncode *)
Definition zone_text (off : Z) : list Z :=
  if off =? 0 then [90] else
  let sign := if 0 <? off then 43 else 45 in
  let a := Z.abs off in
  sign :: leading_zeros (a / 60 / 60) 2 ++ leading_zeros ((a / 60) mod 60) 2.

(* replacement text of a placeholder *)
Definition tok_text (path : list Z) (t : instant) (k : tok) : list Z :=
  let c := civil_of_unix (i_unix t) (i_off t) in
  match k with
  | TLit x => [x]
  | TPath => path
  | TY => format_int (c_year c)
  | Tmo => leading_zeros (c_month c) 2
  | Td => leading_zeros (c_day c) 2
  | TH => leading_zeros (c_hour c) 2
  | TMi => leading_zeros (c_min c) 2
  | TS => leading_zeros (c_sec c) 2
  | Tf => leading_zeros (i_ns t / 1000) 6
  | Tz => zone_text (i_off t)
  | Ts => format_int (i_unix t)
  end.

(* strings.ReplaceAll(s, pat, rep) for a non-empty pat: leftmost, non-overlapping *)
Fixpoint repl (pat rep : list Z) (skip : nat) (s : list Z) : list Z :=
  match s with
  | [] => []
  | c :: r =>
    match skip with
    | S k => repl pat rep k r
    | O => if prefixb pat s then rep ++ repl pat rep (length pat - 1) r else c :: repl pat rep 0 r
    end
  end.

(* Path.Encode exactly as written: ten sequential ReplaceAll passes over the format *)
Definition encode_go (f path : list Z) (t : instant) : list Z :=
  fold_left (fun s k => repl (tok_src k) (tok_text path t k) 0 s) ptoks f.

(* the same by tokens (equal to encode_go when no replacement text can complete a
   placeholder, see Proofs: encode_go_tokens) *)
Definition render (ts : list tok) (path : list Z) (t : instant) : list Z :=
  flat_map (tok_text path t) ts.
Definition encode (f path : list Z) (t : instant) : list Z := render (tokenize f) path t.

(* ------------------------------------------------------------------ Decode *)

Fixpoint take_digits (n : nat) (s : list Z) : option (list Z * list Z) :=
  match n with
  | O => Some ([], s)
  | S k => match s with
           | c :: r => if is_digit c
                       then match take_digits k r with Some (d, rest) => Some (c :: d, rest) | None => None end
                       else None
           | [] => None
           end
  end.

Definition take_zone (s : list Z) : option (list Z * list Z) :=
  match s with
  | c :: r =>
    if c =? 90 then Some ([90], r)
    else if (c =? 43) || (c =? 45)
         then match take_digits 4 r with Some (d, rest) => Some (c :: d, rest) | None => None end
         else None
  | [] => None
  end.

Definition tok_width (t : tok) : nat :=
  match t with TY => 4 | Tf => 6 | Ts => 10 | Tmo | Td | TH | TMi | TS => 2 | _ => 0 end%nat.

Definition take_tok (t : tok) (s : list Z) : option (list Z * list Z) :=
  match t with
  | Tz => take_zone s
  | _ => take_digits (tok_width t) s
  end.

(* (.*?) followed by the rest of the pattern `m`: shortest first, extended by one byte on failure *)
Fixpoint lazy_path (m : list Z -> option (list (tok * list Z))) (acc : list Z) (s : list Z) {struct s}
  : option (list (tok * list Z)) :=
  match m s with
  | Some caps => Some ((TPath, rev acc) :: caps)
  | None => match s with
            | c :: r => if c =? 10 then None else lazy_path m (c :: acc) r
            | [] => None
            end
  end.

(* leftmost-first match of the token regex at the start of s; captures in group order.
   `.` does not match '\n' (10); (.*?) is lazy: shortest first, extended on failure. *)
Fixpoint mtch (anch : bool) (ts : list tok) (s : list Z) {struct ts} : option (list (tok * list Z)) :=
  match ts with
  | [] => if anch then (match s with [] => Some [] | _ => None end) else Some []
  | TLit c :: K =>
      match s with
      | c' :: r => if c' =? c then mtch anch K r else None
      | [] => None
      end
  | TPath :: K => lazy_path (mtch anch K) [] s
  | t :: K =>
      match take_tok t s with
      | Some (txt, r) => match mtch anch K r with Some caps => Some ((t, txt) :: caps) | None => None end
      | None => None
      end
  end.

(* unanchored search (the code before the fix): first start position that matches *)
Fixpoint search (ts : list tok) (s : list Z) : option (list (tok * list Z)) :=
  match mtch false ts s with
  | Some caps => Some caps
  | None => match s with _ :: r => search ts r | [] => None end
  end.

(* values[groupMapping[i]] = match: the last group of a placeholder wins *)
Definition cap_of (k : tok) (caps : list (tok * list Z)) : option (list Z) :=
  match find (fun c => tok_eqb (fst c) k) (rev caps) with Some c => Some (snd c) | None => None end.

Definition num_of (k : tok) (caps : list (tok * list Z)) (dflt : Z) : Z :=
  match cap_of k caps with Some s => dec_val s | None => dflt end.

(* timeLocationDecode *)
Definition zone_off (s : list Z) : Z :=
  match s with
  | sg :: d =>
      if sg =? 90 then 0 else
      (if sg =? 43 then 1 else -1) * (dec_val (firstn 2 d) * 3600 + dec_val (firstn 2 (skipn 2 d)) * 60)
  | [] => 0
  end.

(* result of Decode: path, Unix seconds, nanoseconds of Start *)
Definition decode_caps (loff : Z) (caps : list (tok * list Z)) : list Z * Z * Z :=
  let path := match cap_of TPath caps with Some p => p | None => [] end in
  let micros := num_of Tf caps 0 in
  let unix := num_of Ts caps (-1) in
  let off := match cap_of Tz caps with Some z => zone_off z | None => loff end in
  if 0 <? unix then (path, unix, micros * 1000)
  else (path,
        date_unix (num_of TY caps 0) (num_of Tmo caps 1) (num_of Td caps 1)
                  (num_of TH caps 0) (num_of TMi caps 0) (num_of TS caps 0) off,
        micros * 1000).

Definition decode_toks (loff : Z) (ts : list tok) (v : list Z) : option (list Z * Z * Z) :=
  match mtch true ts v with Some caps => Some (decode_caps loff caps) | None => None end.

(* Path.Decode before the re-encode comparison (anchored pattern, fixed local offset) *)
Definition decode_lax (loff : Z) (f v : list Z) : option (list Z * Z * Z) := decode_toks loff (tokenize f) v.

(* Path.Decode before fix 2b44fe1 *)
Definition decode_unanchored (loff : Z) (f v : list Z) : option (list Z * Z * Z) :=
  match search (tokenize f) v with Some caps => Some (decode_caps loff caps) | None => None end.

(* The local time zone (time.Local) as the two functions the code uses:
     lz_date w : the offset time.Date subtracts from the wall-clock reading w (seconds, the civil
                 fields taken as if they were UTC) - for a reading that exists once, the offset in
                 force then; for a skipped or repeated reading, what time.Date's lookup yields;
     lz_at u   : the offset in force at Unix time u (what Time.Zone / Year() ... Second() use). *)
Record lzone := mkLZ { lz_date : Z -> Z; lz_at : Z -> Z }.
Definition fixed_lz (o : Z) : lzone := mkLZ (fun _ => o) (fun _ => o).

(* the wall-clock reading time.Date is called with (fields normalised, as if UTC) *)
Definition caps_wall (caps : list (tok * list Z)) : Z :=
  date_unix (num_of TY caps 0) (num_of Tmo caps 1) (num_of Td caps 1)
            (num_of TH caps 0) (num_of TMi caps 0) (num_of TS caps 0) 0.

Definition decode_caps_lz (L : lzone) (caps : list (tok * list Z)) : list Z * Z * Z :=
  decode_caps (lz_date L (caps_wall caps)) caps.

(* offset of the decoded Start in its Location: the fixed zone of %z, else time.Local
   (time.Date(..., loc) and time.Unix(...).In(loc)) *)
Definition start_off (L : lzone) (caps : list (tok * list Z)) (u : Z) : Z :=
  match cap_of Tz caps with Some z => zone_off z | None => lz_at L u end.

Fixpoint name_eqb (a b : list Z) : bool :=
  match a, b with
  | [], [] => true
  | x :: a', y :: b' => (x =? y) && name_eqb a' b'
  | _, _ => false
  end.

(* Path.Decode(format, v) of the current code: anchored match, fields -> Start, and the name is
   recognised only if Encode writes it back for the decoded path and start *)
Definition decode_lz (L : lzone) (f v : list Z) : option (list Z * Z * Z) :=
  match mtch true (tokenize f) v with
  | Some caps =>
      let '(p, u, n) := decode_caps_lz L caps in
      if name_eqb (encode_go f p (mkI u n (start_off L caps u))) v then Some (p, u, n) else None
  | None => None
  end.

(* the same without the final comparison *)
Definition decode_lax_lz (L : lzone) (f v : list Z) : option (list Z * Z * Z) :=
  match mtch true (tokenize f) v with Some caps => Some (decode_caps_lz L caps) | None => None end.

(* fixed-offset local zone *)
Definition decode (loff : Z) (f v : list Z) : option (list Z * Z * Z) := decode_lz (fixed_lz loff) f v.

(* ------------------------------------------------------------------ well-formedness *)

(* conf.IsValidPathName, the part that matters here: non-empty, [0-9a-zA-Z_./-] only *)
Definition name_char (c : Z) : bool :=
  is_digit c || ((65 <=? c) && (c <=? 90)) || ((97 <=? c) && (c <=? 122))
  || (c =? 95) || (c =? 45) || (c =? 47) || (c =? 46).
Definition valid_name (p : list Z) : bool := negb (match p with [] => true | _ => false end) && forallb name_char p.

Fixpoint count_tok (k : tok) (ts : list tok) : nat :=
  match ts with [] => O | t :: r => ((if tok_eqb t k then 1 else 0) + count_tok k r)%nat end.

Fixpoint after_path (ts : list tok) : list tok :=
  match ts with [] => [] | TPath :: r => r | _ :: r => after_path r end.

(* every '%' of the format starts a placeholder; %path occurs exactly once; at most one %z after it *)
Definition wf_toks (ts : list tok) : bool :=
  forallb (fun t => negb (tok_eqb t (TLit 37))) ts
  && (count_tok TPath ts =? 1)%nat
  && (count_tok Tz (after_path ts) <=? 1)%nat.
Definition wf_format (f : list Z) : bool := wf_toks (tokenize f).

(* the format pins the instant down: %s, or the six calendar placeholders *)
Definition has_civil (ts : list tok) : bool :=
  has TY ts && has Tmo ts && has Td ts && has TH ts && has TMi ts && has TS ts.
Definition identifies (ts : list tok) : bool := has Ts ts || has_civil ts.

(* whole-name reading of a match: the literals of the format with the captured texts in between *)
Fixpoint fill (ts : list tok) (caps : list (tok * list Z)) : list Z :=
  match ts with
  | [] => []
  | TLit c :: K => c :: fill K caps
  | _ :: K => match caps with (_, x) :: caps' => x ++ fill K caps' | [] => [] end
  end.

(* shape of a captured text *)
Definition cap_shape (c : tok * list Z) : bool :=
  match fst c with
  | TLit _ => false
  | TPath => forallb (fun b => negb (b =? 10)) (snd c)
  | Tz => match snd c with
          | [z] => z =? 90
          | sg :: d => ((sg =? 43) || (sg =? 45)) && (length d =? 4)%nat && forallb is_digit d
          | [] => false
          end
  | t => (length (snd c) =? tok_width t)%nat && forallb is_digit (snd c)
  end.

(* path names without newline and without '%' (every valid path name is one) *)
Definition name_ok (p : list Z) : bool := forallb (fun c => negb (c =? 10) && negb (c =? 37)) p.

(* the instant can be written in the fixed-width groups the decoder expects (4-digit year, 10-digit
   Unix time; with %z an offset of whole minutes below 100 h) *)
Definition enc_ranges (ts : list tok) (t : instant) : bool :=
  (0 <=? i_ns t) && (i_ns t <? 1000000000)
  && (negb (has TY ts) || ((1000 <=? c_year (civil_of_unix (i_unix t) (i_off t)))
                           && (c_year (civil_of_unix (i_unix t) (i_off t)) <=? 9999)))
  && (negb (has Ts ts) || ((1000000000 <=? i_unix t) && (i_unix t <? 10000000000)))
  && (negb (has Tz ts) || ((i_off t mod 60 =? 0) && (Z.abs (i_off t) <? 360000))).

(* ... and, without %z, the instant is held in the local zone (the recorder's case: the offset in
   force locally at that instant is the one Encode used) and, without %s as well, time.Date maps
   its wall-clock reading back to that offset *)
Definition encodable_lz (L : lzone) (ts : list tok) (t : instant) : bool :=
  enc_ranges ts t
  && (has Tz ts
      || ((lz_at L (i_unix t) =? i_off t)
          && (has Ts ts || (lz_date L (i_unix t + i_off t) =? i_off t)))).

Definition encodable (loff : Z) (ts : list tok) (t : instant) : bool := encodable_lz (fixed_lz loff) ts t.

(* Start as Decode returns it for a name written by Encode *)
Definition trunc_start (ts : list tok) (t : instant) : Z * Z :=
  (i_unix t, if has Tf ts then i_ns t / 1000 * 1000 else 0).

(* where time.Date / time.Unix put the Start of a name Encode wrote for t (Proofs: decode_lz_unfold) *)
Definition decoded_unix (L : lzone) (ts : list tok) (t : instant) : Z :=
  if has Ts ts then i_unix t
  else i_unix t + i_off t - (if has Tz ts then i_off t else lz_date L (i_unix t + i_off t)).
