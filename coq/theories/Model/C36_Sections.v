(* Model of the section logic of Metrics.onMetrics (internal/metrics/metrics.go): which sections are written for which
   query (type=, path=, forward_dest=, hls_muxer=, … ), which entities pass a filter, and — table-driven — per entity kind
   the metric names, the label keys and the entity field that feeds each label and each value. The result is the list of
   `item`s (comment lines, sample lines, blank lines) that Model/C36_Metrics.render turns into the body.

   Entities are records of named fields, named after the Go struct fields of defs.APIPath, defs.APIRTSPSession, … :
   string fields (uuid.UUID as its String()), uint64 counters (bool as 0/1), float64 fields as the token
   strconv.FormatFloat(v,'f',-1,64) prints (oracle, shipped by the driver), and the reader types of a path.

   No proofs here. `expected_samples` at the end is the declarative reading of the property (what a scrape must
   contain), written without items, comments or sections; Proofs/C36_Sections.v relates the two. *)
From Coq Require Import String.
From Coq Require Import List ZArith Bool.
From Coq Require Strings.Byte.
Require Import MTX.Lib.IntWrap MTX.Model.C36_Metrics.
Import ListNotations.
Local Open Scope Z_scope.

(* ---------- byte strings ---------- *)

Definition bs (s : string) : bytes := map (fun b => Z.of_N (Strings.Byte.to_N b)) (list_byte_of_string s).

Fixpoint beqb (a b : bytes) : bool :=
  match a, b with
  | [], [] => true
  | x :: a', y :: b' => (x =? y) && beqb a' b'
  | _, _ => false
  end.

Definition isnil (s : bytes) : bool := match s with [] => true | _ => false end.

(* Go string order (sort.Strings): bytewise lexicographic *)
Fixpoint bytes_leb (a b : bytes) : bool :=
  match a, b with
  | [], _ => true
  | _ :: _, [] => false
  | x :: a', y :: b' => if x <? y then true else if y <? x then false else bytes_leb a' b'
  end.

Fixpoint lookup {A} (d : A) (k : bytes) (l : list (bytes * A)) : A :=
  match l with
  | [] => d
  | (k', v) :: r => if beqb k' k then v else lookup d k r
  end.

(* ---------- entities, state, query ---------- *)

Record entity := {
  e_str : list (bytes * bytes);      (* string-typed fields; uuid.UUID fields hold ID.String() *)
  e_num : list (bytes * Z);          (* uint64 fields (value 0 .. 2^64-1); bool fields as 0 / 1 *)
  e_flt : list (bytes * bytes);      (* float64 fields: the token FormatFloat(v,'f',-1,64) (oracle) *)
  e_readers : list bytes             (* defs.APIPath.Readers: the Type of each reader, in order *)
}.

Definition gs (e : entity) (f : bytes) : bytes := lookup [] f (e_str e).
Definition gn (e : entity) (f : bytes) : Z := lookup 0 f (e_num e).
Definition gf (e : entity) (f : bytes) : bytes := lookup [] f (e_flt e).

Inductive kind := KPaths | KForward | KHlsSessions | KHlsMuxers | KRtspConns | KRtspSessions | KRtspsConns
                | KRtspsSessions | KRtmpConns | KRtmpsConns | KSrtConns | KWebrtcSessions | KMoqSessions.

(* what a protocol server answers: no server configured (interfaceIsEmpty), the list call failed, or a list *)
Inductive listing := Absent | Failed | Listed (l : list entity).

Record state := {
  st_paths : option (list entity);               (* pathManager.APIPathsList(): None = error *)
  st_fwd : bytes -> option (list entity);        (* pathManager.APIForwardDestList(name): None = error *)
  st_srv : kind -> listing                       (* the list call of the server behind each other kind *)
}.

(* the URL query as gin's ctx.Query reads it: first value of the key, "" when missing *)
Definition query := list (bytes * bytes).
Definition qget (q : query) (k : bytes) : bytes := lookup [] k q.

(* ---------- the table ---------- *)

Inductive vsrc :=
| VOne                      (* metric(..., 1) *)
| VNum (field : bytes)      (* metric(..., int64(i.Field)) *)
| VFlt (field : bytes)      (* metricFloat(..., i.Field) *)
| VReaders.                 (* paths_readers: one sample per reader type (extra label readerType), or one 0 sample *)
Record mspec := { m_name : bytes; m_src : vsrc }.
Inductive lsrc :=
| LField (field : bytes)    (* label value = the string field *)
| LReady.                   (* "ready" / "notReady" from the bool field Ready *)
Definition group := (bytes * list mspec)%type.       (* "# title" line, the metrics written per entity *)
Definition zgroup := (bytes * list bytes)%type.      (* "# title" line, the names written with value 0 and no labels *)

Record kspec := {
  k_type : bytes;                          (* value of type= selecting this kind *)
  k_filters : list (bytes * bytes);        (* (query parameter, string field it is compared with) *)
  k_labels : list (bytes * lsrc);          (* the map literal passed to tags(), in source order *)
  k_groups : list group;
  k_zero : list zgroup;                    (* what is written when there is no entity *)
  k_zero_needs_type : bool                 (* forward destinations: zero lines only with type=forward_dests *)
}.

Definition M (n : string) (s : vsrc) : mspec := {| m_name := bs n; m_src := s |}.
Definition N (f : string) : vsrc := VNum (bs f).
Definition F (f : string) : vsrc := VFlt (bs f).
Definition G {A} (title : string) (l : list A) : bytes * list A := (bs title, l).
Definition L (key field : string) : bytes * lsrc := (bs key, LField (bs field)).
Definition zero_of (gs : list group) : list zgroup := map (fun g => (fst g, map m_name (snd g))) gs.

Definition paths_groups : list group :=
  [ G "Paths" [ M "paths" VOne;
        M "paths_readers" VReaders;
        M "paths_inbound_bytes" (N "InboundBytes");
        M "paths_outbound_bytes" (N "OutboundBytes");
        M "paths_inbound_frames_in_error" (N "InboundFramesInError") ];
    G "Paths (deprecated)" [ M "paths_bytes_received" (N "BytesReceived");
        M "paths_bytes_sent" (N "BytesSent") ] ].
Definition paths_zero : list zgroup :=
  [ G "Paths" (map bs [ "paths"; "paths_inbound_bytes"; "paths_outbound_bytes"; "paths_inbound_frames_in_error" ]%string);
    G "Paths (deprecated)" (map bs [ "paths_bytes_received"; "paths_bytes_sent"; "paths_readers" ]%string) ].
Definition fwd_groups : list group :=
  [ G "Forward destinations" [ M "forward_dests" VOne;
        M "forward_dests_outbound_bytes" (N "OutboundBytes") ] ].
Definition hls_sessions_groups : list group :=
  [ G "HLS sessions" [ M "hls_sessions" VOne;
        M "hls_sessions_outbound_bytes" (N "OutboundBytes") ] ].
Definition hls_muxers_groups : list group :=
  [ G "HLS muxers" [ M "hls_muxers" VOne;
        M "hls_muxers_outbound_bytes" (N "OutboundBytes");
        M "hls_muxers_outbound_frames_discarded" (N "OutboundFramesDiscarded") ];
    G "HLS muxers (deprecated)" [ M "hls_muxers_bytes_sent" (N "BytesSent") ] ].
Definition rtsp_conns_groups : list group :=
  [ G "RTSP connections" [ M "rtsp_conns" VOne;
        M "rtsp_conns_inbound_bytes" (N "InboundBytes");
        M "rtsp_conns_outbound_bytes" (N "OutboundBytes") ];
    G "RTSP connections (deprecated)" [ M "rtsp_conns_bytes_received" (N "BytesReceived");
        M "rtsp_conns_bytes_sent" (N "BytesSent") ] ].
Definition rtsp_sessions_groups : list group :=
  [ G "RTSP sessions" [ M "rtsp_sessions" VOne;
        M "rtsp_sessions_inbound_bytes" (N "InboundBytes");
        M "rtsp_sessions_inbound_rtp_packets" (N "InboundRTPPackets");
        M "rtsp_sessions_inbound_rtp_packets_lost" (N "InboundRTPPacketsLost");
        M "rtsp_sessions_inbound_rtp_packets_in_error" (N "InboundRTPPacketsInError");
        M "rtsp_sessions_inbound_rtp_packets_jitter" (F "InboundRTPPacketsJitter");
        M "rtsp_sessions_inbound_rtcp_packets" (N "InboundRTCPPackets");
        M "rtsp_sessions_inbound_rtcp_packets_in_error" (N "InboundRTCPPacketsInError");
        M "rtsp_sessions_outbound_bytes" (N "OutboundBytes");
        M "rtsp_sessions_outbound_rtp_packets" (N "OutboundRTPPackets");
        M "rtsp_sessions_outbound_rtp_packets_reported_lost" (N "OutboundRTPPacketsReportedLost");
        M "rtsp_sessions_outbound_rtp_packets_discarded" (N "OutboundRTPPacketsDiscarded");
        M "rtsp_sessions_outbound_rtcp_packets" (N "OutboundRTCPPackets") ];
    G "RTSP sessions (deprecated)" [ M "rtsp_sessions_bytes_received" (N "BytesReceived");
        M "rtsp_sessions_bytes_sent" (N "BytesSent");
        M "rtsp_sessions_rtp_packets_received" (N "RTPPacketsReceived");
        M "rtsp_sessions_rtp_packets_sent" (N "RTPPacketsSent");
        M "rtsp_sessions_rtp_packets_lost" (N "RTPPacketsLost");
        M "rtsp_sessions_rtp_packets_in_error" (N "RTPPacketsInError");
        M "rtsp_sessions_rtp_packets_jitter" (F "RTPPacketsJitter");
        M "rtsp_sessions_rtcp_packets_received" (N "RTCPPacketsReceived");
        M "rtsp_sessions_rtcp_packets_sent" (N "RTCPPacketsSent");
        M "rtsp_sessions_rtcp_packets_in_error" (N "RTCPPacketsInError") ] ].
Definition rtsps_conns_groups : list group :=
  [ G "RTSPS connections" [ M "rtsps_conns" VOne;
        M "rtsps_conns_inbound_bytes" (N "InboundBytes");
        M "rtsps_conns_outbound_bytes" (N "OutboundBytes") ];
    G "RTSPS connections (deprecated)" [ M "rtsps_conns_bytes_received" (N "BytesReceived");
        M "rtsps_conns_bytes_sent" (N "BytesSent") ] ].
Definition rtsps_sessions_groups : list group :=
  [ G "RTSPS sessions" [ M "rtsps_sessions" VOne;
        M "rtsps_sessions_inbound_bytes" (N "InboundBytes");
        M "rtsps_sessions_inbound_rtp_packets" (N "InboundRTPPackets");
        M "rtsps_sessions_inbound_rtp_packets_lost" (N "InboundRTPPacketsLost");
        M "rtsps_sessions_inbound_rtp_packets_in_error" (N "InboundRTPPacketsInError");
        M "rtsps_sessions_inbound_rtp_packets_jitter" (F "InboundRTPPacketsJitter");
        M "rtsps_sessions_inbound_rtcp_packets" (N "InboundRTCPPackets");
        M "rtsps_sessions_inbound_rtcp_packets_in_error" (N "InboundRTCPPacketsInError");
        M "rtsps_sessions_outbound_bytes" (N "OutboundBytes");
        M "rtsps_sessions_outbound_rtp_packets" (N "OutboundRTPPackets");
        M "rtsps_sessions_outbound_rtp_packets_reported_lost" (N "OutboundRTPPacketsReportedLost");
        M "rtsps_sessions_outbound_rtp_packets_discarded" (N "OutboundRTPPacketsDiscarded");
        M "rtsps_sessions_outbound_rtcp_packets" (N "OutboundRTCPPackets") ];
    G "RTSPS sessions (deprecated)" [ M "rtsps_sessions_bytes_received" (N "BytesReceived");
        M "rtsps_sessions_bytes_sent" (N "BytesSent");
        M "rtsps_sessions_rtp_packets_received" (N "RTPPacketsReceived");
        M "rtsps_sessions_rtp_packets_sent" (N "RTPPacketsSent");
        M "rtsps_sessions_rtp_packets_lost" (N "RTPPacketsLost");
        M "rtsps_sessions_rtp_packets_in_error" (N "RTPPacketsInError");
        M "rtsps_sessions_rtp_packets_jitter" (F "RTPPacketsJitter");
        M "rtsps_sessions_rtcp_packets_received" (N "RTCPPacketsReceived");
        M "rtsps_sessions_rtcp_packets_sent" (N "RTCPPacketsSent");
        M "rtsps_sessions_rtcp_packets_in_error" (N "RTCPPacketsInError") ] ].
Definition rtmp_conns_groups : list group :=
  [ G "RTMP connections" [ M "rtmp_conns" VOne;
        M "rtmp_conns_inbound_bytes" (N "InboundBytes");
        M "rtmp_conns_outbound_bytes" (N "OutboundBytes");
        M "rtmp_conns_outbound_frames_discarded" (N "OutboundFramesDiscarded") ];
    G "RTMP connections (deprecated)" [ M "rtmp_conns_bytes_received" (N "BytesReceived");
        M "rtmp_conns_bytes_sent" (N "BytesSent") ] ].
Definition rtmps_conns_groups : list group :=
  [ G "RTMPS connections" [ M "rtmps_conns" VOne;
        M "rtmps_conns_inbound_bytes" (N "InboundBytes");
        M "rtmps_conns_outbound_bytes" (N "OutboundBytes");
        M "rtmps_conns_outbound_frames_discarded" (N "OutboundFramesDiscarded") ];
    G "RTMPS connections (deprecated)" [ M "rtmps_conns_bytes_received" (N "BytesReceived");
        M "rtmps_conns_bytes_sent" (N "BytesSent") ] ].
Definition srt_conns_groups : list group :=
  [ G "SRT connections" [ M "srt_conns" VOne;
        M "srt_conns_packets_sent" (N "PacketsSent");
        M "srt_conns_packets_received" (N "PacketsReceived");
        M "srt_conns_packets_sent_unique" (N "PacketsSentUnique");
        M "srt_conns_packets_received_unique" (N "PacketsReceivedUnique");
        M "srt_conns_packets_send_loss" (N "PacketsSendLoss");
        M "srt_conns_packets_received_loss" (N "PacketsReceivedLoss");
        M "srt_conns_packets_retrans" (N "PacketsRetrans");
        M "srt_conns_packets_received_retrans" (N "PacketsReceivedRetrans");
        M "srt_conns_packets_sent_ack" (N "PacketsSentACK");
        M "srt_conns_packets_received_ack" (N "PacketsReceivedACK");
        M "srt_conns_packets_sent_nak" (N "PacketsSentNAK");
        M "srt_conns_packets_received_nak" (N "PacketsReceivedNAK");
        M "srt_conns_packets_sent_km" (N "PacketsSentKM");
        M "srt_conns_packets_received_km" (N "PacketsReceivedKM");
        M "srt_conns_us_snd_duration" (N "UsSndDuration");
        M "srt_conns_packets_received_belated" (N "PacketsReceivedBelated");
        M "srt_conns_packets_send_drop" (N "PacketsSendDrop");
        M "srt_conns_packets_received_drop" (N "PacketsReceivedDrop");
        M "srt_conns_packets_received_undecrypt" (N "PacketsReceivedUndecrypt");
        M "srt_conns_bytes_sent" (N "BytesSent");
        M "srt_conns_bytes_received" (N "BytesReceived");
        M "srt_conns_bytes_sent_unique" (N "BytesSentUnique");
        M "srt_conns_bytes_received_unique" (N "BytesReceivedUnique");
        M "srt_conns_bytes_received_loss" (N "BytesReceivedLoss");
        M "srt_conns_bytes_retrans" (N "BytesRetrans");
        M "srt_conns_bytes_received_retrans" (N "BytesReceivedRetrans");
        M "srt_conns_bytes_received_belated" (N "BytesReceivedBelated");
        M "srt_conns_bytes_send_drop" (N "BytesSendDrop");
        M "srt_conns_bytes_received_drop" (N "BytesReceivedDrop");
        M "srt_conns_bytes_received_undecrypt" (N "BytesReceivedUndecrypt");
        M "srt_conns_us_packets_send_period" (F "UsPacketsSendPeriod");
        M "srt_conns_packets_flow_window" (N "PacketsFlowWindow");
        M "srt_conns_packets_flight_size" (N "PacketsFlightSize");
        M "srt_conns_ms_rtt" (F "MsRTT");
        M "srt_conns_mbps_send_rate" (F "MbpsSendRate");
        M "srt_conns_mbps_receive_rate" (F "MbpsReceiveRate");
        M "srt_conns_mbps_link_capacity" (F "MbpsLinkCapacity");
        M "srt_conns_bytes_avail_send_buf" (N "BytesAvailSendBuf");
        M "srt_conns_bytes_avail_receive_buf" (N "BytesAvailReceiveBuf");
        M "srt_conns_mbps_max_bw" (F "MbpsMaxBW");
        M "srt_conns_bytes_mss" (N "ByteMSS");
        M "srt_conns_packets_send_buf" (N "PacketsSendBuf");
        M "srt_conns_bytes_send_buf" (N "BytesSendBuf");
        M "srt_conns_ms_send_buf" (N "MsSendBuf");
        M "srt_conns_ms_send_tsb_pd_delay" (N "MsSendTsbPdDelay");
        M "srt_conns_packets_receive_buf" (N "PacketsReceiveBuf");
        M "srt_conns_bytes_receive_buf" (N "BytesReceiveBuf");
        M "srt_conns_ms_receive_buf" (N "MsReceiveBuf");
        M "srt_conns_ms_receive_tsb_pd_delay" (N "MsReceiveTsbPdDelay");
        M "srt_conns_packets_reorder_tolerance" (N "PacketsReorderTolerance");
        M "srt_conns_packets_received_avg_belated_time" (N "PacketsReceivedAvgBelatedTime");
        M "srt_conns_packets_send_loss_rate" (F "PacketsSendLossRate");
        M "srt_conns_packets_received_loss_rate" (F "PacketsReceivedLossRate");
        M "srt_conns_outbound_frames_discarded" (N "OutboundFramesDiscarded") ] ].
Definition webrtc_sessions_groups : list group :=
  [ G "WebRTC sessions" [ M "webrtc_sessions" VOne;
        M "webrtc_sessions_inbound_bytes" (N "InboundBytes");
        M "webrtc_sessions_inbound_rtp_packets" (N "InboundRTPPackets");
        M "webrtc_sessions_inbound_rtp_packets_lost" (N "InboundRTPPacketsLost");
        M "webrtc_sessions_inbound_rtp_packets_jitter" (F "InboundRTPPacketsJitter");
        M "webrtc_sessions_inbound_rtcp_packets" (N "InboundRTCPPackets");
        M "webrtc_sessions_outbound_bytes" (N "OutboundBytes");
        M "webrtc_sessions_outbound_rtp_packets" (N "OutboundRTPPackets");
        M "webrtc_sessions_outbound_rtcp_packets" (N "OutboundRTCPPackets");
        M "webrtc_sessions_outbound_frames_discarded" (N "OutboundFramesDiscarded") ];
    G "WebRTC sessions (deprecated)" [ M "webrtc_sessions_bytes_received" (N "BytesReceived");
        M "webrtc_sessions_bytes_sent" (N "BytesSent");
        M "webrtc_sessions_rtp_packets_received" (N "RTPPacketsReceived");
        M "webrtc_sessions_rtp_packets_sent" (N "RTPPacketsSent");
        M "webrtc_sessions_rtp_packets_lost" (N "RTPPacketsLost");
        M "webrtc_sessions_rtp_packets_jitter" (F "RTPPacketsJitter");
        M "webrtc_sessions_rtcp_packets_received" (N "RTCPPacketsReceived");
        M "webrtc_sessions_rtcp_packets_sent" (N "RTCPPacketsSent") ] ].
Definition moq_sessions_groups : list group :=
  [ G "MoQ sessions" [ M "moq_sessions" VOne;
        M "moq_sessions_inbound_bytes" (N "InboundBytes");
        M "moq_sessions_outbound_bytes" (N "OutboundBytes") ] ].

(* label maps: tags(map[string]string{...}) of each kind, in source order *)
Definition session_labels : list (bytes * lsrc) := [ L "id" "ID"; L "state" "State"; L "path" "Path"; L "remoteAddr" "RemoteAddr" ].
Definition id_labels : list (bytes * lsrc) := [ L "id" "ID" ].

Definition mk (type param field : string) (labels : list (bytes * lsrc)) (groups : list group) : kspec :=
  {| k_type := bs type; k_filters := [ (bs param, bs field) ]; k_labels := labels;
     k_groups := groups; k_zero := zero_of groups; k_zero_needs_type := false |}.

Definition paths_spec : kspec :=
  {| k_type := bs "paths"; k_filters := [ (bs "path", bs "Name") ];
     k_labels := [ L "name" "Name"; (bs "state", LReady) ];
     k_groups := paths_groups; k_zero := paths_zero; k_zero_needs_type := false |}.
(* "(path)" is not a field of defs.APIForwardDest: it is the name of the path the destination was listed under *)
Definition fwd_spec : kspec :=
  {| k_type := bs "forward_dests"; k_filters := [ (bs "path", bs "(path)"); (bs "forward_dest", bs "ID") ];
     k_labels := [ L "id" "ID"; L "path" "(path)"; L "protocol" "Protocol"; L "state" "State" ];
     k_groups := fwd_groups; k_zero := zero_of fwd_groups; k_zero_needs_type := true |}.
Definition hls_sessions_spec := mk "hls_sessions" "hls_session" "ID" [ L "id" "ID"; L "path" "Path"; L "remoteAddr" "RemoteAddr" ] hls_sessions_groups.
Definition hls_muxers_spec := mk "hls_muxers" "hls_muxer" "Path" [ L "name" "Path" ] hls_muxers_groups.
Definition rtsp_conns_spec := mk "rtsp_conns" "rtsp_conn" "ID" id_labels rtsp_conns_groups.
Definition rtsp_sessions_spec := mk "rtsp_sessions" "rtsp_session" "ID" session_labels rtsp_sessions_groups.
Definition rtsps_conns_spec := mk "rtsps_conns" "rtsps_conn" "ID" id_labels rtsps_conns_groups.
Definition rtsps_sessions_spec := mk "rtsps_sessions" "rtsps_session" "ID" session_labels rtsps_sessions_groups.
Definition rtmp_conns_spec := mk "rtmp_conns" "rtmp_conn" "ID" session_labels rtmp_conns_groups.
Definition rtmps_conns_spec := mk "rtmps_conns" "rtmps_conn" "ID" session_labels rtmps_conns_groups.
Definition srt_conns_spec := mk "srt_conns" "srt_conn" "ID" session_labels srt_conns_groups.
Definition webrtc_sessions_spec := mk "webrtc_sessions" "webrtc_session" "ID" session_labels webrtc_sessions_groups.
Definition moq_sessions_spec := mk "moq_sessions" "moq_session" "ID" session_labels moq_sessions_groups.

Definition spec (k : kind) : kspec :=
  match k with
  | KPaths => paths_spec | KForward => fwd_spec | KHlsSessions => hls_sessions_spec | KHlsMuxers => hls_muxers_spec
  | KRtspConns => rtsp_conns_spec | KRtspSessions => rtsp_sessions_spec | KRtspsConns => rtsps_conns_spec
  | KRtspsSessions => rtsps_sessions_spec | KRtmpConns => rtmp_conns_spec | KRtmpsConns => rtmps_conns_spec
  | KSrtConns => srt_conns_spec | KWebrtcSessions => webrtc_sessions_spec | KMoqSessions => moq_sessions_spec
  end.

(* the order in which onMetrics writes the sections *)
Definition server_kinds : list kind :=
  [ KHlsSessions; KHlsMuxers; KRtspConns; KRtspSessions; KRtspsConns; KRtspsSessions; KRtmpConns; KRtmpsConns;
    KSrtConns; KWebrtcSessions; KMoqSessions ].
Definition all_kinds : list kind := KPaths :: KForward :: server_kinds.

(* ---------- tags(map) : keys sorted ---------- *)

Fixpoint insert_label (kv : label) (l : list label) : list label :=
  match l with
  | [] => [kv]
  | h :: t => if bytes_leb (fst kv) (fst h) then kv :: l else h :: insert_label kv t
  end.
Definition sort_labels (l : list label) : list label := fold_right insert_label [] l.

(* readersByType[string(r.Type)]++ followed by sortedKeys: reader types in string order with their counts *)
Fixpoint bump (t : bytes) (l : list (bytes * Z)) : list (bytes * Z) :=
  match l with
  | [] => [(t, 1)]
  | (u, c) :: r => if beqb t u then (u, c + 1) :: r else if bytes_leb t u then (t, 1) :: l else (u, c) :: bump t r
  end.
Definition readers_by_type (rs : list bytes) : list (bytes * Z) := fold_right bump [] rs.

(* ---------- the samples of one entity ---------- *)

Definition label_value (e : entity) (s : lsrc) : bytes :=
  match s with
  | LField f => gs e f
  | LReady => if gn e (bs "Ready") =? 0 then bs "notReady" else bs "ready"
  end.
Definition entity_labels (k : kind) (e : entity) : list label :=
  map (fun ks => (fst ks, label_value e (snd ks))) (k_labels (spec k)).

(* (label map, value token) of every line one metric call writes for one entity *)
Definition mvalues (k : kind) (e : entity) (m : mspec) : list (list label * bytes) :=
  let ls := entity_labels k e in
  match m_src m with
  | VOne => [(ls, [49])]
  | VNum f => [(ls, format_int (wrap64 (gn e f)))]
  | VFlt f => [(ls, gf e f)]
  | VReaders =>
      match readers_by_type (e_readers e) with
      | [] => [(ls ++ [(bs "readerType", [])], [48])]
      | rl => map (fun tc => (ls ++ [(bs "readerType", fst tc)], format_int (snd tc))) rl
      end
  end.
Definition msamples (k : kind) (e : entity) (m : mspec) : list sample :=
  map (fun lv => {| s_name := m_name m; s_tags := Some (sort_labels (fst lv)); s_value := snd lv |}) (mvalues k e m).
Definition zero_sample (n : bytes) : sample := {| s_name := n; s_tags := None; s_value := [48] |}.

(* ---------- which sections, which entities ---------- *)

Definition typ (q : query) : bytes := qget q (bs "type").
Definition type_ok (q : query) (k : kind) : bool := isnil (typ q) || beqb (typ q) (k_type (spec k)).
Definition filter_set (q : query) (p : bytes) : bool := negb (isnil (qget q p)).
(* anyFilterActive: one of the thirteen filter parameters is non-empty *)
Definition any_filter (q : query) : bool :=
  existsb (fun k => existsb (fun pf => filter_set q (fst pf)) (k_filters (spec k))) all_kinds.
Definition own_filter (q : query) (k : kind) : bool := existsb (fun pf => filter_set q (fst pf)) (k_filters (spec k)).
Definition sec_on (q : query) (k : kind) : bool := type_ok q k && (negb (any_filter q) || own_filter q k).
Definition passes (q : query) (k : kind) (e : entity) : bool :=
  forallb (fun pf => isnil (qget q (fst pf)) || beqb (qget q (fst pf)) (gs e (snd pf))) (k_filters (spec k)).

Definition sample_items (k : kind) (e : entity) (ms : list mspec) : list item :=
  flat_map (fun m => map Sample (msamples k e m)) ms.
(* for each "# title": the loop over the entities *)
Definition entity_section (k : kind) (ents : list entity) : list item :=
  flat_map (fun g : group => Comment (fst g) :: flat_map (fun e => sample_items k e (snd g)) ents ++ [Blank]) (k_groups (spec k)).
Definition zero_section (k : kind) : list item :=
  flat_map (fun g : zgroup => Comment (fst g) :: map (fun n => Sample (zero_sample n)) (snd g) ++ [Blank]) (k_zero (spec k)).

(* the shape shared by the paths section and the protocol servers:
     if (typ == "" || typ == K) && (!anyFilterActive || filterK != "") {
       if err == nil && len(data.Items) != 0 { headers; entities passing the filter } else if filterK == "" { zero lines } } *)
Definition listed_section (q : query) (k : kind) (l : option (list entity)) : list item :=
  if sec_on q k then
    match l with
    | Some ((_ :: _) as ents) => entity_section k (filter (passes q k) ents)
    | _ => if own_filter q k then [] else zero_section k
    end
  else [].

(* forward destinations: collected path by path, filters applied while collecting; nothing at all if no item is left,
   except with type=forward_dests and no filter *)
Definition with_path (name : bytes) (e : entity) : entity :=
  {| e_str := (bs "(path)", name) :: e_str e; e_num := e_num e; e_flt := e_flt e; e_readers := e_readers e |}.
Fixpoint fwd_collect (q : query) (st : state) (paths : list entity) : list entity :=
  match paths with
  | [] => []
  | pa :: r =>
      let name := gs pa (bs "Name") in
      if negb (isnil (qget q (bs "path"))) && negb (beqb (qget q (bs "path")) name) then fwd_collect q st r
      else match st_fwd st name with
           | None => fwd_collect q st r
           | Some items =>
               map (with_path name)
                   (filter (fun it => isnil (qget q (bs "forward_dest")) || beqb (qget q (bs "forward_dest")) (gs it (bs "ID"))) items)
               ++ fwd_collect q st r
           end
  end.
Definition fwd_section (q : query) (st : state) : list item :=
  if sec_on q KForward then
    match st_paths st with
    | None => []
    | Some ps =>
        match fwd_collect q st ps with
        | (_ :: _) as items => entity_section KForward items
        | [] => if beqb (typ q) (k_type (spec KForward)) && negb (own_filter q KForward) then zero_section KForward else []
        end
    end
  else [].

Definition srv_section (q : query) (st : state) (k : kind) : list item :=
  match st_srv st k with
  | Absent => []
  | Failed => listed_section q k None
  | Listed l => listed_section q k (Some l)
  end.

Definition items_of (st : state) (q : query) : list item :=
  listed_section q KPaths (st_paths st) ++ fwd_section q st ++ flat_map (srv_section q st) server_kinds.

(* the body of the response *)
Definition body_of (st : state) (q : query) : bytes := render escape_label (items_of st q).

(* ---------- the declarative reading ---------- *)

(* the entities of a kind that exist in the server, whatever the query *)
Inductive avail := NotThere | Ents (l : list entity).
Definition all_forwards (st : state) (ps : list entity) : list entity :=
  flat_map (fun pa => let name := gs pa (bs "Name") in
                      match st_fwd st name with None => [] | Some items => map (with_path name) items end) ps.
Definition entities (st : state) (k : kind) : avail :=
  match k with
  | KPaths => Ents (match st_paths st with Some l => l | None => [] end)
  | KForward => match st_paths st with Some ps => Ents (all_forwards st ps) | None => NotThere end
  | _ => match st_srv st k with Absent => NotThere | Failed => Ents [] | Listed l => Ents l end
  end.

(* every sample of one entity: one per metric of its kind (paths_readers: one per reader type) *)
Definition entity_samples (k : kind) (e : entity) : list sample :=
  flat_map (fun g : group => flat_map (msamples k e) (snd g)) (k_groups (spec k)).
Definition zero_names (k : kind) : list bytes := flat_map snd (k_zero (spec k)).
Definition zero_ok (q : query) (k : kind) : bool :=
  negb (own_filter q k) && (negb (k_zero_needs_type (spec k)) || beqb (typ q) (k_type (spec k))).

(* a selected kind contributes: with entities, the samples of those passing the filters (grouped as the titles
   group them); without entities and without filter, its names with value 0 and no labels *)
Definition avail_samples (q : query) (k : kind) (a : avail) : list sample :=
  if sec_on q k then
    match a with
    | NotThere => []
    | Ents [] => if zero_ok q k then map zero_sample (zero_names k) else []
    | Ents l => flat_map (fun g : group => flat_map (fun e => flat_map (msamples k e) (snd g)) (filter (passes q k) l))
                         (k_groups (spec k))
    end
  else [].
Definition kind_samples (st : state) (q : query) (k : kind) : list sample := avail_samples q k (entities st k).
Definition expected_samples (st : state) (q : query) : list sample := flat_map (kind_samples st q) all_kinds.

(* ---------------- states given by finite data; float tokens ---------------- *)

Definition kind_eqb (a b : kind) : bool :=
  match a, b with
  | KPaths, KPaths | KForward, KForward | KHlsSessions, KHlsSessions | KHlsMuxers, KHlsMuxers | KRtspConns, KRtspConns
  | KRtspSessions, KRtspSessions | KRtspsConns, KRtspsConns | KRtspsSessions, KRtspsSessions | KRtmpConns, KRtmpConns
  | KRtmpsConns, KRtmpsConns | KSrtConns, KSrtConns | KWebrtcSessions, KWebrtcSessions | KMoqSessions, KMoqSessions => true
  | _, _ => false
  end.

Fixpoint srv_lookup (k : kind) (l : list (kind * listing)) : listing :=
  match l with
  | [] => Absent
  | (k', v) :: r => if kind_eqb k' k then v else srv_lookup k r
  end.

(* paths list (None = error), forward destinations per path name (missing / None = error), list per server kind
   (missing = no server) *)
Definition mk_state (paths : option (list entity)) (fwd : list (bytes * option (list entity))) (srv : list (kind * listing)) : state :=
  {| st_paths := paths; st_fwd := fun n => lookup None n fwd; st_srv := fun k => srv_lookup k srv |}.

(* a float token must be a token: non-empty, no newline (FormatFloat output always is) *)
Definition no_nlb (l : bytes) : bool := forallb (fun c => negb (c =? 10)) l.
Definition tok_okb (t : bytes) : bool := negb (isnil t) && no_nlb t.
Definition wf_entityb (k : kind) (e : entity) : bool :=
  forallb (fun g : group => forallb (fun m => match m_src m with VFlt f => tok_okb (gf e f) | _ => true end) (snd g))
          (k_groups (spec k)).
Definition wf_stateb (st : state) : bool :=
  forallb (fun k => match entities st k with NotThere => true | Ents l => forallb (wf_entityb k) l end) all_kinds.
