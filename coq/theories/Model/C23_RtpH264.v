(* Model of gortsplib v5 pkg/format/rtph264: Encoder (Init, Encode, writeBatch, writeSingle,
   writeFragmented, writeAggregated) and Decoder (decodeNALUs, removeAnnexB, Decode,
   addToFrameBuffer), the packetizer mediamtx uses for H.264 (internal/stream/rtp_encoder.go,
   rtp_decoder.go). Executable; no proofs here.

   Bytes are Z (0..255); a NAL unit is a list of bytes; lengths are Z. Go `/` and `%` on ints are
   Z.quot / Z.rem; uint16 / uint32 arithmetic wraps explicitly. The payload type, the RTP version
   and padding are constant and not modelled. The encoder leaves Timestamp = 0 (the caller adds it).

   Not modelled: the Annex-B mode of the decoder (entered when a single NAL unit contains
   00 00 00 01): the model stops with DAnnexB there. Fragmentation with PayloadMaxSize < 3 is a
   division by zero / negative make in Go: Panic in the model. *)
From Coq Require Import List ZArith Bool.
Require Import MTX.Lib.IntWrap.
Import ListNotations.
Local Open Scope Z_scope.

Notation bytes := (list Z) (only parsing).

Inductive res (A : Type) := Ok (a : A) | Panic.
Arguments Ok {A} _.
Arguments Panic {A}.

Definition blen {A} (b : list A) : Z := Z.of_nat (length b).

Record packet := mkpkt { p_seq : Z; p_ts : Z; p_marker : bool; p_ssrc : Z; p_payload : bytes }.

(* ------------------------------------------------------------------ encoder *)

Record enc := mkenc { e_max : Z; e_ssrc : Z; e_seq : Z }.

(* Init with SSRC and InitialSequenceNumber given; PayloadMaxSize == 0 means 1450 *)
Definition enc_init (max ssrc seq0 : Z) : enc := mkenc (if max =? 0 then 1450 else max) ssrc seq0.

Definition bump (e : enc) : enc := mkenc e.(e_max) e.(e_ssrc) (wrapu16 (e.(e_seq) + 1)).   (* e.sequenceNumber++ *)

Fixpoint len_agg_list (nalus : list bytes) : Z :=
  match nalus with [] => 0 | n :: r => 2 + blen n + len_agg_list r end.

(* lenAggregated(nalus, addNALU) *)
Definition len_agg (nalus : list bytes) (add : option bytes) : Z :=
  1 + len_agg_list nalus + match add with Some n => 2 + blen n | None => 0 end.

Definition packet_count (avail le : Z) : Z :=
  let n := Z.quot le avail in if Z.rem le avail =? 0 then n else n + 1.

Definition write_single (e : enc) (nalu : bytes) (marker : bool) : list packet * enc :=
  ([mkpkt e.(e_seq) 0 marker e.(e_ssrc) nalu], bump e).

(* the loop of writeFragmented: k packets left, start bit, rest of the NAL unit *)
Fixpoint frag_loop (k : nat) (avail : nat) (ind typ : Z) (start : Z) (marker : bool) (body : bytes) (e : enc)
    : list packet * enc :=
  match k with
  | O => ([], e)
  | S k' =>
      let last := match k' with O => true | _ => false end in
      let le := if last then length body else avail in
      let en := if last then 1 else 0 in
      let data := ind :: Z.lor (Z.lor (Z.shiftl start 7) (Z.shiftl en 6)) typ :: firstn le body in
      let pkt := mkpkt e.(e_seq) 0 (last && marker) e.(e_ssrc) data in
      let '(r, e') := frag_loop k' avail ind typ 0 marker (skipn le body) (bump e) in
      (pkt :: r, e')
  end.

Definition write_fragmented (e : enc) (nalu : bytes) (marker : bool) : res (list packet * enc) :=
  let avail := e.(e_max) - 2 in
  let le := blen nalu - 1 in
  if avail <=? 0 then Panic
  else match nalu with
       | [] => Panic
       | b :: body =>
           let pc := packet_count avail le in
           let nri := Z.land (Z.shiftr b 5) 3 in
           let typ := Z.land b 31 in
           Ok (frag_loop (Z.to_nat pc) (Z.to_nat avail) (Z.lor (Z.shiftl nri 5) 28) typ 1 marker body e)
       end.

Definition stap_entry (n : bytes) : bytes :=
  Z.land (Z.shiftr (blen n) 8) 255 :: Z.land (blen n) 255 :: n.

Definition write_aggregated (e : enc) (nalus : list bytes) (marker : bool) : list packet * enc :=
  ([mkpkt e.(e_seq) 0 marker e.(e_ssrc) (24 :: concat (map stap_entry nalus))], bump e).

Definition write_batch (e : enc) (nalus : list bytes) (marker : bool) : res (list packet * enc) :=
  match nalus with
  | [n] => if blen n <? e.(e_max) then Ok (write_single e n marker) else write_fragmented e n marker
  | _ => Ok (write_aggregated e nalus marker)
  end.

(* the loop of Encode; batch = [] is the nil batch before the first NAL unit *)
Fixpoint enc_loop (e : enc) (au : list bytes) (batch : list bytes) : res (list packet * enc) :=
  match au with
  | [] => write_batch e batch true
  | nalu :: r =>
      if len_agg batch (Some nalu) <=? e.(e_max) then enc_loop e r (batch ++ [nalu])
      else match batch with
           | [] => enc_loop e r [nalu]
           | _ => match write_batch e batch false with
                  | Panic => Panic
                  | Ok (pkts, e') =>
                      match enc_loop e' r [nalu] with
                      | Panic => Panic
                      | Ok (pkts', e'') => Ok (pkts ++ pkts', e'')
                      end
                  end
           end
  end.

Definition h264_encode (e : enc) (au : list bytes) : res (list packet * enc) := enc_loop e au [].

(* a sequence of access units through one encoder *)
Fixpoint h264_encode_run (e : enc) (aus : list (list bytes)) : res (list (list packet) * enc) :=
  match aus with
  | [] => Ok ([], e)
  | au :: r =>
      match h264_encode e au with
      | Panic => Panic
      | Ok (pkts, e') =>
          match h264_encode_run e' r with
          | Panic => Panic
          | Ok (rest, e'') => Ok (pkts :: rest, e'')
          end
      end
  end.

(* ------------------------------------------------------------------ decoder *)

Definition max_au_size : Z := 8388608.     (* h264.MaxAccessUnitSize = 8 MiB *)
Definition max_nalus : Z := 50.            (* h264.MaxNALUsPerAccessUnit *)

Fixpoint has_prefix (p s : bytes) : bool :=
  match p, s with
  | [], _ => true
  | x :: p', y :: s' => (x =? y) && has_prefix p' s'
  | _ :: _, [] => false
  end.

(* bytes.Index(s, pat) *)
Fixpoint index (pat s : bytes) : option nat :=
  if has_prefix pat s then Some O
  else match s with
       | [] => None
       | _ :: r => match index pat r with Some i => Some (S i) | None => None end
       end.

Definition contains (pat s : bytes) : bool := match index pat s with Some _ => true | None => false end.

(* splitNALUs: the loop `for len(b) > 0`; fuel = an upper bound of the iterations *)
Fixpoint split_nalus_fuel (fuel : nat) (b : bytes) : list bytes :=
  match fuel with
  | O => []
  | S f =>
      match b with
      | [] => []
      | _ =>
          match index [0; 0; 1] b with
          | None => [b]
          | Some idx =>
              let four := match idx with S i => nth i b 1 =? 0 | O => false end in
              let idx' := if four then pred idx else idx in
              let sz := if four then 4%nat else 3%nat in
              match idx' with
              | O => split_nalus_fuel f (skipn sz b)
              | _ => firstn idx' b :: split_nalus_fuel f (skipn (idx' + sz) b)
              end
          end
      end
  end.
Definition split_nalus (b : bytes) : list bytes := split_nalus_fuel (S (length b)) b.

Record dec := mkdec {
  d_first : bool;             (* firstPacketReceived *)
  d_frags : bytes;            (* fragments, kept joined *)
  d_fsize : Z;                (* fragmentsSize *)
  d_next : Z;                 (* fragmentNextSeqNum *)
  d_annexb : bool;            (* annexBMode *)
  d_fb : option (list bytes); (* frameBuffer, None = nil *)
  d_fblen : Z; d_fbsize : Z; d_fbts : Z }.

Definition dec_init : dec := mkdec false [] 0 0 false None 0 0 0.

Inductive dout :=
| DOk (au : list bytes)
| DMore            (* ErrMorePacketsNeeded *)
| DNoPrev          (* ErrNonStartingPacketAndNoPrevious *)
| DErr             (* any other error *)
| DAnnexB.         (* outside the model *)

Definition reset_frags (d : dec) : dec :=
  mkdec d.(d_first) [] 0 d.(d_next) d.(d_annexb) d.(d_fb) d.(d_fblen) d.(d_fbsize) d.(d_fbts).
Definition set_first (d : dec) : dec :=
  mkdec true d.(d_frags) d.(d_fsize) d.(d_next) d.(d_annexb) d.(d_fb) d.(d_fblen) d.(d_fbsize) d.(d_fbts).
Definition set_frags (d : dec) (fr : bytes) (fs nx : Z) : dec :=
  mkdec d.(d_first) fr fs nx d.(d_annexb) d.(d_fb) d.(d_fblen) d.(d_fbsize) d.(d_fbts).
Definition set_annexb (d : dec) : dec :=
  mkdec d.(d_first) d.(d_frags) d.(d_fsize) d.(d_next) true d.(d_fb) d.(d_fblen) d.(d_fbsize) d.(d_fbts).
Definition reset_fb (d : dec) : dec :=
  mkdec d.(d_first) d.(d_frags) d.(d_fsize) d.(d_next) d.(d_annexb) None 0 0 d.(d_fbts).

(* the STAP-A loop; None = "invalid STAP-A packet" *)
Fixpoint stap_loop (fuel : nat) (payload : bytes) (acc : list bytes) : option (list bytes) :=
  match fuel with
  | O => None
  | S f =>
      match payload with
      | hi :: lo :: rest =>
          let size := Z.lor (Z.shiftl hi 8) lo in
          if size =? 0 then (if forallb (Z.eqb 0) rest then Some acc else None)
          else if size >? blen rest then None
          else let acc' := acc ++ [firstn (Z.to_nat size) rest] in
               match skipn (Z.to_nat size) rest with
               | [] => Some acc'
               | rest' => stap_loop f rest' acc'
               end
      | _ => None
      end
  end.

Definition remove_annexb (d : dec) (nalus : list bytes) : dec * (list bytes + dout) :=
  match nalus with
  | [nalu] =>
      let d' := if negb d.(d_annexb) && contains [0; 0; 0; 1] nalu then set_annexb d else d in
      if d'.(d_annexb) then (d', inr DAnnexB) else (d', inl nalus)
  | _ => (d, inl nalus)
  end.

Definition decode_nalus (d : dec) (pkt : packet) : dec * (list bytes + dout) :=
  match pkt.(p_payload) with
  | [] => (reset_frags d, inr DErr)
  | b0 :: rest =>
      let typ := Z.land b0 31 in
      if typ =? 28 then
        match rest with
        | [] => (d, inr DErr)
        | b1 :: body =>
            let start := Z.shiftr b1 7 in
            let en := Z.land (Z.shiftr b1 6) 1 in
            if start =? 1 then
              let nri := Z.land (Z.shiftr b0 5) 3 in
              let t := Z.land b1 31 in
              let d2 := set_first (set_frags d (Z.lor (Z.shiftl nri 5) t :: body) (blen rest)
                                             (wrapu16 (pkt.(p_seq) + 1))) in
              if negb (en =? 0) then remove_annexb (reset_frags d2) (split_nalus d2.(d_frags))
              else (d2, inr DMore)
            else if d.(d_fsize) =? 0 then (d, inr (if d.(d_first) then DErr else DNoPrev))
            else if negb (pkt.(p_seq) =? d.(d_next)) then (reset_frags d, inr DErr)
            else
              let fs := d.(d_fsize) + blen body in
              if fs >? max_au_size then (reset_frags d, inr DErr)
              else
                let d2 := set_frags d (d.(d_frags) ++ body) fs (wrapu16 (d.(d_next) + 1)) in
                if negb (en =? 1) then (d2, inr DMore)
                else remove_annexb (reset_frags d2) (split_nalus d2.(d_frags))
        end
      else if typ =? 24 then
        let d1 := reset_frags d in
        match stap_loop (S (length rest)) rest [] with
        | None => (d1, inr DErr)
        | Some [] => (d1, inr DErr)
        | Some nalus => remove_annexb (set_first d1) nalus
        end
      else if (typ =? 25) || (typ =? 26) || (typ =? 27) || (typ =? 29) then
        (set_first (reset_frags d), inr DErr)
      else remove_annexb (set_first (reset_frags d)) [pkt.(p_payload)]
  end.

Fixpoint au_size (au : list bytes) : Z := match au with [] => 0 | n :: r => blen n + au_size r end.

(* addToFrameBuffer; false = error *)
Definition add_fb (d : dec) (nalus : list bytes) (ts : Z) : dec * bool :=
  let l := blen nalus in
  if d.(d_fblen) + l >? max_nalus then (reset_fb d, false)
  else if d.(d_fbsize) + au_size nalus >? max_au_size then (reset_fb d, false)
  else
    let fb := match d.(d_fb), nalus with
              | None, [] => None
              | None, _ => Some nalus
              | Some old, _ => Some (old ++ nalus)
              end in
    (mkdec d.(d_first) d.(d_frags) d.(d_fsize) d.(d_next) d.(d_annexb) fb (d.(d_fblen) + l)
           (d.(d_fbsize) + au_size nalus) ts, true).

Definition fb_list (d : dec) : list bytes := match d.(d_fb) with Some l => l | None => [] end.

Definition decode (d : dec) (pkt : packet) : dec * dout :=
  match decode_nalus d pkt with
  | (d1, inr o) => (d1, o)
  | (d1, inl nalus) =>
      match d1.(d_fb) with
      | Some ret =>
          if negb (pkt.(p_ts) =? d1.(d_fbts)) then
            match add_fb (reset_fb d1) nalus pkt.(p_ts) with
            | (d3, false) => (d3, DErr)
            | (d3, true) => (d3, DOk ret)
            end
          else
            match add_fb d1 nalus pkt.(p_ts) with
            | (d2, false) => (d2, DErr)
            | (d2, true) => if pkt.(p_marker) then (reset_fb d2, DOk (fb_list d2)) else (d2, DMore)
            end
      | None =>
          match add_fb d1 nalus pkt.(p_ts) with
          | (d2, false) => (d2, DErr)
          | (d2, true) => if pkt.(p_marker) then (reset_fb d2, DOk (fb_list d2)) else (d2, DMore)
          end
      end
  end.

Fixpoint decode_run (d : dec) (pkts : list packet) : list dout * dec :=
  match pkts with
  | [] => ([], d)
  | p :: r => let '(d1, o) := decode d p in let '(os, d2) := decode_run d1 r in (o :: os, d2)
  end.

(* stamping: what the caller does with the packets of one unit *)
Definition stamp (delta : Z) (p : packet) : packet :=
  mkpkt p.(p_seq) (wrapu32 (p.(p_ts) + delta)) p.(p_marker) p.(p_ssrc) p.(p_payload).
