(* C27 — the fMP4 segmenter of the recorder as a state machine over abstract samples.

   Transliterates (with the I/O calls replaced by entries of a log):
     internal/recorder/format_fmp4.go          the first-key-frame gate of the video callbacks (`gate`), close()
     internal/recorder/format_fmp4_track.go    formatFMP4Track.write (sample duration from the successor, NTP drift test,
                                               segment creation, late samples, discard-until-sync (fix 2f5314e), segment
                                               switch), nextSegmentStartingPos
     internal/recorder/format_fmp4_segment.go  formatFMP4Segment.write / closeCurPart / close
     internal/recorder/format_fmp4_part.go     formatFMP4Part.write (max part size), duration()
   A sample is (track, dts in track time scale units, ntp in ns, non-sync flag, payload size). Timestamps are
   converted with timestampToDuration = multiplyAndDivide2(t, time.Second, clockRate) (`muldiv_w`, int64 wrap explicit);
   the other sums/differences of timestamps are on Z (no wrap: timestamps are far from 2^63). I/O never fails.
   The log: SCreate = os.Create + onSegmentCreate + Write(init); SPart = one Write of a marshalled part;
   SClose = writeDuration (in-place mvhd rewrite) + Close + onSegmentComplete. *)
From Coq Require Import List ZArith Bool Lia.
Require Import MTX.Lib.IntWrap MTX.Model.C24_MulDiv.
Import ListNotations.
Local Open Scope Z_scope.

Record tcfg := { tc_rate : Z; tc_video : bool }.
Record cfg := { c_tracks : list tcfg; c_part_dur : Z; c_seg_dur : Z; c_max_part : Z }.

Record smp := { s_dts : Z; s_ntp : Z; s_nonsync : bool; s_size : Z }.
Definition event := (nat * smp)%type.

(* a sample as handed to formatFMP4Segment.write: the (possibly dts-adjusted) input sample, its duration in time
   scale units (uint32), its dts and its end in ns *)
Record wsmp := { w_trk : nat; w_video : bool; w_smp : smp; w_dur : Z; w_dts : Z; w_end : Z }.

Record pst := { p_num : Z; p_start : Z; p_size : Z; p_end : Z; p_base : list (nat * Z); p_smps : list wsmp }.
Record opart := { o_seq : Z; o_base : list (nat * Z); o_smps : list wsmp }.
Inductive sop :=
| SCreate (num sdts sntp : Z)
| SPart (num : Z) (p : opart)
| SClose (num dur : Z).

Record sst := { g_num : Z; g_start : Z; g_ntp : Z; g_end : Z; g_created : bool; g_nextpart : Z; g_cur : option pst }.
Record tst := { t_next : option smp; t_init : bool; t_sdts : Z; t_sntp : Z; t_skip : bool }.
Record st := { x_trk : list tst; x_hasvideo : bool; x_seg : option sst; x_nextseg : Z;
               x_log : list sop; x_acc : list wsmp; x_outs : list Z }.

Definition ts2dur (t rate : Z) : Z := muldiv_w t nanos rate.           (* timestampToDuration *)
Definition ntp_drift_tolerance : Z := 5 * nanos.
Definition max_basetime : Z := nanos.
Definition ntp_zero : Z := -6795364578871345152.                        (* time.Time{}.UnixNano() *)

Fixpoint upd {A} (l : list A) (i : nat) (x : A) : list A :=
  match l, i with
  | [], _ => []
  | _ :: r, O => x :: r
  | a :: r, S i' => a :: upd r i' x
  end.

Definition has_trk (t : nat) (l : list (nat * Z)) : bool := existsb (fun e => Nat.eqb (fst e) t) l.

(* ---- formatFMP4Segment.closeCurPart (the part stays in g_cur, as in the code) ---- *)
Definition opart_of (p : pst) : opart := {| o_seq := p.(p_num); o_base := p.(p_base); o_smps := p.(p_smps) |}.
Definition set_created (g : sst) : sst :=
  {| g_num := g.(g_num); g_start := g.(g_start); g_ntp := g.(g_ntp); g_end := g.(g_end); g_created := true;
     g_nextpart := g.(g_nextpart); g_cur := g.(g_cur) |}.
Definition close_part (g : sst) (lg : list sop) : sst * list sop :=
  match g.(g_cur) with
  | None => (g, lg)
  | Some p =>
      let lg1 := if g.(g_created) then lg else lg ++ [SCreate g.(g_num) g.(g_start) g.(g_ntp)] in
      (set_created g, lg1 ++ [SPart g.(g_num) (opart_of p)])
  end.

(* ---- formatFMP4Segment.close ---- *)
Definition seg_close (g : sst) (lg : list sop) : list sop :=
  let '(g', lg') := close_part g lg in
  if g'.(g_created) then lg' ++ [SClose g'.(g_num) (g'.(g_end) - g'.(g_start))] else lg'.

Definition new_part (num dts : Z) : pst :=
  {| p_num := num; p_start := dts; p_size := 0; p_end := 0; p_base := []; p_smps := [] |}.
Definition set_part (g : sst) (e : Z) (np : Z) (p : option pst) : sst :=
  {| g_num := g.(g_num); g_start := g.(g_start); g_ntp := g.(g_ntp); g_end := e; g_created := g.(g_created);
     g_nextpart := np; g_cur := p |}.

(* ---- formatFMP4Part.write ---- *)
Definition part_write (c : cfg) (segstart rate : Z) (p : pst) (w : wsmp) : option pst :=
  if p.(p_size) + w.(w_smp).(s_size) >? c.(c_max_part) then None
  else Some {| p_num := p.(p_num); p_start := p.(p_start); p_size := p.(p_size) + w.(w_smp).(s_size);
               p_end := Z.max p.(p_end) w.(w_end);
               p_base := if has_trk w.(w_trk) p.(p_base) then p.(p_base)
                         else p.(p_base) ++ [(w.(w_trk), muldiv_w (w.(w_dts) - segstart) rate nanos)];
               p_smps := p.(p_smps) ++ [w] |}.

(* ---- formatFMP4Segment.write: (segment, log, accepted?) ----
   The repaired code (fix b7e594b in /repo): endDTS is raised after formatFMP4Part.write has accepted the sample. *)
Definition seg_write (c : cfg) (rate : Z) (g : sst) (w : wsmp) (lg : list sop) : sst * list sop * bool :=
  let e := g.(g_end) in
  let '(g1, lg1) :=
    match g.(g_cur) with
    | None => (set_part g e (g.(g_nextpart) + 1) (Some (new_part g.(g_nextpart) w.(w_dts))), lg)
    | Some p =>
        if p.(p_end) - p.(p_start) >=? c.(c_part_dur) then
          let '(g', lg') := close_part (set_part g e g.(g_nextpart) (Some p)) lg in
          (set_part g' e (g.(g_nextpart) + 1) (Some (new_part g.(g_nextpart) w.(w_dts))), lg')
        else (set_part g e g.(g_nextpart) (Some p), lg)
    end in
  match g1.(g_cur) with
  | None => (g1, lg1, false)
  | Some p =>
      match part_write c g1.(g_start) rate p w with
      | None => (g1, lg1, false)
      | Some p' => (set_part g1 (Z.max g1.(g_end) w.(w_end)) g1.(g_nextpart) (Some p'), lg1, true)
      end
  end.
(* The PINNED code (before b7e594b): endDTS was raised first, so a sample refused by formatFMP4Part.write ("reached
   maximum part size") was counted in the duration of the segment that the recorder then closed. *)
Definition seg_write_pinned (c : cfg) (rate : Z) (g : sst) (w : wsmp) (lg : list sop) : sst * list sop * bool :=
  let e := Z.max g.(g_end) w.(w_end) in
  let '(g1, lg1) :=
    match g.(g_cur) with
    | None => (set_part g e (g.(g_nextpart) + 1) (Some (new_part g.(g_nextpart) w.(w_dts))), lg)
    | Some p =>
        if p.(p_end) - p.(p_start) >=? c.(c_part_dur) then
          let '(g', lg') := close_part (set_part g e g.(g_nextpart) (Some p)) lg in
          (set_part g' e (g.(g_nextpart) + 1) (Some (new_part g.(g_nextpart) w.(w_dts))), lg')
        else (set_part g e g.(g_nextpart) (Some p), lg)
    end in
  match g1.(g_cur) with
  | None => (g1, lg1, false)
  | Some p =>
      match part_write c g1.(g_start) rate p w with
      | None => (g1, lg1, false)
      | Some p' => (set_part g1 g1.(g_end) g1.(g_nextpart) (Some p'), lg1, true)
      end
  end.

Definition new_seg (num start ntp : Z) : sst :=
  {| g_num := num; g_start := start; g_ntp := ntp; g_end := start; g_created := false; g_nextpart := 0; g_cur := None |}.

(* ---- nextSegmentStartingPos ---- *)
Fixpoint next_samples (tcs : list tcfg) (trs : list tst) : list (Z * Z) :=
  match tcs, trs with
  | tc :: tcs', tr :: trs' =>
      match tr.(t_next) with
      | Some s => (ts2dur s.(s_dts) tc.(tc_rate), s.(s_ntp)) :: next_samples tcs' trs'
      | None => next_samples tcs' trs'
      end
  | _, _ => []
  end.
Definition next_start (l : list (Z * Z)) : Z * Z :=       (* (oldestNTP, oldestDTS) *)
  let mx := fold_left (fun m e => if fst e >? m then fst e else m) l 0 in
  fold_left (fun a e => if (mx - fst e <=? max_basetime) && (fst e <=? snd a) then (snd e, fst e) else a)
            l (ntp_zero, mx).

Definition set_next (tr : tst) (s : smp) : tst :=
  {| t_next := Some s; t_init := tr.(t_init); t_sdts := tr.(t_sdts); t_sntp := tr.(t_sntp); t_skip := tr.(t_skip) |}.
Definition set_started (tr : tst) (dts ntp : Z) : tst :=
  {| t_next := tr.(t_next); t_init := true; t_sdts := dts; t_sntp := ntp; t_skip := tr.(t_skip) |}.
Definition set_skip (tr : tst) (b : bool) : tst :=
  {| t_next := tr.(t_next); t_init := tr.(t_init); t_sdts := tr.(t_sdts); t_sntp := tr.(t_sntp); t_skip := b |}.
Definition set_dts (s : smp) (d : Z) : smp :=
  {| s_dts := d; s_ntp := s.(s_ntp); s_nonsync := s.(s_nonsync); s_size := s.(s_size) |}.

Definition mk_st trk hv sg ns lg ac ou : st :=
  {| x_trk := trk; x_hasvideo := hv; x_seg := sg; x_nextseg := ns; x_log := lg; x_acc := ac; x_outs := ou |}.

(* outcome of one formatFMP4Track.write call: 0 = nil, 1 = nil after a "discarding" warning, 2 = error *)
Definition o_ok : Z := 0.
Definition o_discard : Z := 1.
Definition o_err : Z := 2.

(* ---- formatFMP4Track.write (sw = formatFMP4Segment.write: the repaired or the pinned one) ---- *)
Definition segw := cfg -> Z -> sst -> wsmp -> list sop -> sst * list sop * bool.
Definition track_write_gen (sw : segw) (c : cfg) (t : nat) (s : smp) (x : st) : st * Z :=
  match nth_error c.(c_tracks) t, nth_error x.(x_trk) t with
  | Some tc, Some tr =>
      let hv := x.(x_hasvideo) || tc.(tc_video) in
      match tr.(t_next) with
      | None => (mk_st (upd x.(x_trk) t (set_next tr s)) hv x.(x_seg) x.(x_nextseg) x.(x_log) x.(x_acc) x.(x_outs), o_ok)
      | Some prev =>
          let d0 := s.(s_dts) - prev.(s_dts) in
          let s' := if d0 <? 0 then set_dts s prev.(s_dts) else s in
          let dur := wrapu32 (if d0 <? 0 then 0 else d0) in
          let dts := ts2dur prev.(s_dts) tc.(tc_rate) in
          let tr1 := set_next tr s' in
          let drift := (prev.(s_ntp) - tr.(t_sntp)) - (dts - tr.(t_sdts)) in
          let drift_err := tr.(t_init) && ((drift <? - ntp_drift_tolerance) || (drift >? ntp_drift_tolerance)) in
          let tr2 := if tr.(t_init) then tr1 else set_started tr1 dts prev.(s_ntp) in
          if drift_err then
            (mk_st (upd x.(x_trk) t tr2) hv x.(x_seg) x.(x_nextseg) x.(x_log) x.(x_acc) x.(x_outs), o_err)
          else
            let late := match x.(x_seg) with Some g => dts - g.(g_start) <? 0 | None => false end in
            let g0 := match x.(x_seg) with Some g => g | None => new_seg x.(x_nextseg) dts prev.(s_ntp) end in
            let ns0 := match x.(x_seg) with Some _ => x.(x_nextseg) | None => x.(x_nextseg) + 1 end in
            if late then
              (mk_st (upd x.(x_trk) t (set_skip tr2 tc.(tc_video))) hv (Some g0) ns0 x.(x_log) x.(x_acc) x.(x_outs),
               o_discard)
            else if tr2.(t_skip) && prev.(s_nonsync) then
              (mk_st (upd x.(x_trk) t tr2) hv (Some g0) ns0 x.(x_log) x.(x_acc) x.(x_outs), o_discard)
            else
              let tr3 := set_skip tr2 false in
              let w := {| w_trk := t; w_video := tc.(tc_video); w_smp := prev; w_dur := dur; w_dts := dts;
                          w_end := dts + ts2dur dur tc.(tc_rate) |} in
              let '(g1, lg1, ok) := sw c tc.(tc_rate) g0 w x.(x_log) in
              let trk3 := upd x.(x_trk) t tr3 in
              if negb ok then (mk_st trk3 hv (Some g1) ns0 lg1 x.(x_acc) x.(x_outs), o_err)
              else
                let next_dts := ts2dur s'.(s_dts) tc.(tc_rate) in
                if (negb hv || tc.(tc_video)) && negb s'.(s_nonsync) && (next_dts - g1.(g_start) >=? c.(c_seg_dur)) then
                  let lg2 := seg_close g1 lg1 in
                  let '(ontp, odts) := next_start (next_samples c.(c_tracks) trk3) in
                  (mk_st trk3 hv (Some (new_seg ns0 odts ontp)) (ns0 + 1) lg2 (x.(x_acc) ++ [w]) x.(x_outs), o_ok)
                else (mk_st trk3 hv (Some g1) ns0 lg1 (x.(x_acc) ++ [w]) x.(x_outs), o_ok)
      end
  | _, _ => (x, o_ok)
  end.

Definition track_write : cfg -> nat -> smp -> st -> st * Z := track_write_gen seg_write.

Definition add_out (x : st) (o : Z) : st :=
  mk_st x.(x_trk) x.(x_hasvideo) x.(x_seg) x.(x_nextseg) x.(x_log) x.(x_acc) (x.(x_outs) ++ [o]).

(* the recorder instance stops at the first error *)
Fixpoint run_from (c : cfg) (x : st) (evs : list event) : st :=
  match evs with
  | [] => x
  | (t, s) :: r =>
      let '(x', o) := track_write c t s x in
      if o =? o_err then add_out x' o else run_from c (add_out x' o) r
  end.

(* ---- formatFMP4.close ---- *)
Definition finish (x : st) : st :=
  match x.(x_seg) with
  | Some g => mk_st x.(x_trk) x.(x_hasvideo) None x.(x_nextseg) (seg_close g x.(x_log)) x.(x_acc) x.(x_outs)
  | None => x
  end.

Definition init_tst : tst := {| t_next := None; t_init := false; t_sdts := 0; t_sntp := 0; t_skip := false |}.
Definition init_st (c : cfg) : st := mk_st (map (fun _ => init_tst) c.(c_tracks)) false None 0 [] [] [].

(* samples handed to formatFMP4Track.write directly *)
Definition run_raw (c : cfg) (evs : list event) : st := finish (run_from c (init_st c) evs).

(* ---- the first-key-frame gate of the video callbacks of format_fmp4.go (firstReceived / dtsExtractor == nil):
        the samples of a video track are dropped until its first random access sample ---- *)
Fixpoint gate_from (c : cfg) (passed : list nat) (evs : list event) : list event :=
  match evs with
  | [] => []
  | (t, s) :: r =>
      match nth_error c.(c_tracks) t with
      | Some tc =>
          if negb tc.(tc_video) || existsb (Nat.eqb t) passed then (t, s) :: gate_from c passed r
          else if s.(s_nonsync) then gate_from c passed r
          else (t, s) :: gate_from c (t :: passed) r
      | None => (t, s) :: gate_from c passed r
      end
  end.
Definition gate (c : cfg) (evs : list event) : list event := gate_from c [] evs.

(* the recorder: gate, then the segmenter *)
Definition run (c : cfg) (evs : list event) : st := run_raw c (gate c evs).

(* the pinned recorder (before fix b7e594b): the same with seg_write_pinned *)
Fixpoint run_from_pinned (c : cfg) (x : st) (evs : list event) : st :=
  match evs with
  | [] => x
  | (t, s) :: r =>
      let '(x', o) := track_write_gen seg_write_pinned c t s x in
      if o =? o_err then add_out x' o else run_from_pinned c (add_out x' o) r
  end.
Definition run_pinned (c : cfg) (evs : list event) : st := finish (run_from_pinned c (init_st c) (gate c evs)).

(* ---- reading the log ---- *)
Definition parts_of (l : list sop) : list opart :=
  flat_map (fun o => match o with SPart _ p => [p] | _ => [] end) l.
Definition log_samples (l : list sop) : list wsmp := flat_map o_smps (parts_of l).

(* duration of a part as formatFMP4Part.duration() computes it: endDTS (initially 0) - dts of the first sample *)
Definition span (l : list wsmp) : Z :=
  match l with
  | [] => 0
  | w :: _ => fold_left Z.max (map w_end l) 0 - w.(w_dts)
  end.
Definition size_of (l : list wsmp) : Z := fold_right Z.add 0 (map (fun w => w.(w_smp).(s_size)) l).

(* the log is well-formed from (open segment, next number to create): create n, parts of n, close n, create n+1 ... *)
Fixpoint log_ok (open : option Z) (n : Z) (l : list sop) : bool :=
  match l with
  | [] => true
  | SCreate k _ _ :: r => match open with None => (k =? n) && log_ok (Some k) (n + 1) r | Some _ => false end
  | SPart k _ :: r => match open with Some j => (k =? j) && log_ok open n r | None => false end
  | SClose k _ :: r => match open with Some j => (k =? j) && log_ok None n r | None => false end
  end.
Fixpoint log_open (open : option Z) (l : list sop) : option Z :=
  match l with
  | [] => open
  | SCreate k _ _ :: r => log_open (Some k) r
  | SPart _ _ :: r => log_open open r
  | SClose _ _ :: r => log_open None r
  end.

(* the segment files of a log *)
Record segfile := { f_num : Z; f_sdts : Z; f_sntp : Z; f_parts : list opart; f_closed : option Z }.
Definition add_part (f : segfile) (p : opart) : segfile :=
  {| f_num := f.(f_num); f_sdts := f.(f_sdts); f_sntp := f.(f_sntp); f_parts := f.(f_parts) ++ [p]; f_closed := f.(f_closed) |}.
Definition set_closed (f : segfile) (d : Z) : segfile :=
  {| f_num := f.(f_num); f_sdts := f.(f_sdts); f_sntp := f.(f_sntp); f_parts := f.(f_parts); f_closed := Some d |}.
(* done = finished files (reversed), cur = the open file *)
Fixpoint files_from (done : list segfile) (cur : option segfile) (l : list sop) : list segfile :=
  match l with
  | [] => rev (match cur with Some f => f :: done | None => done end)
  | SCreate k a b :: r =>
      files_from (match cur with Some f => f :: done | None => done end)
                 (Some {| f_num := k; f_sdts := a; f_sntp := b; f_parts := []; f_closed := None |}) r
  | SPart _ p :: r => files_from done (option_map (fun f => add_part f p) cur) r
  | SClose _ d :: r => files_from (match cur with Some f => set_closed f d :: done | None => done end) None r
  end.
Definition files_of (l : list sop) : list segfile := files_from [] None l.
Definition ops_of_file (f : segfile) : list sop :=
  SCreate f.(f_num) f.(f_sdts) f.(f_sntp) :: map (SPart f.(f_num)) f.(f_parts)
  ++ match f.(f_closed) with Some d => [SClose f.(f_num) d] | None => [] end.

(* first video sample of a sample list is a sync sample (true when there is no video sample) *)
Fixpoint first_video_sync (l : list wsmp) : bool :=
  match l with
  | [] => true
  | w :: r => if w.(w_video) then negb w.(w_smp).(s_nonsync) else first_video_sync r
  end.
Definition file_samples (f : segfile) : list wsmp := flat_map o_smps f.(f_parts).

(* ---- the bounds formatFMP4Segment.write / formatFMP4Part.write enforce on a part ----
   size: the payload sizes add up to at most maxPartSize;
   duration (upper): the part was not yet partDuration long when its last sample was added, i.e. without that sample
     its duration() is below partDuration (a part of one sample has no such bound: an over-long sample is kept);
   duration (lower): a part that is followed by another part of the same segment was closed because its duration()
     had reached partDuration. *)
Definition short (c : cfg) (l : list wsmp) : bool :=
  match l with
  | [] | [_] => true
  | _ => span (removelast l) <? c.(c_part_dur)
  end.
Definition part_ok (c : cfg) (l : list wsmp) : bool := (size_of l <=? c.(c_max_part)) && short c l.
Fixpoint parts_bounded (c : cfg) (prev : option (list wsmp)) (l : list sop) : bool :=
  match l with
  | [] => true
  | SPart _ p :: r =>
      part_ok c p.(o_smps)
      && match prev with Some q => c.(c_part_dur) <=? span q | None => true end
      && parts_bounded c (Some p.(o_smps)) r
  | _ :: r => parts_bounded c None r
  end.

(* ---- "every segment starts on a sync sample", read off the log: seen = a video sample has been written to the
        segment file that is open ---- *)
Definition has_video (l : list wsmp) : bool := existsb w_video l.
Fixpoint sync_scan (seen : bool) (l : list sop) : bool :=
  match l with
  | [] => true
  | SCreate _ _ _ :: r => sync_scan false r
  | SPart _ p :: r => (seen || first_video_sync p.(o_smps)) && sync_scan (seen || has_video p.(o_smps)) r
  | SClose _ _ :: r => sync_scan seen r
  end.
(* the first sample that track v hands to formatFMP4Track.write is a sync sample (what the gate guarantees) *)
Fixpoint first_v_sync (v : nat) (evs : list event) : bool :=
  match evs with
  | [] => true
  | (t, s) :: r => if Nat.eqb t v then negb s.(s_nonsync) else first_v_sync v r
  end.
Definition video_tracks (c : cfg) : list nat :=
  filter (fun t => match nth_error c.(c_tracks) t with Some tc => tc.(tc_video) | None => false end)
         (seq 0 (length c.(c_tracks))).

(* ---- the true duration of a segment file whose tracks interleave in any order (b5-c27) ----
   The media in a file ends where the sample that ends LAST ends - not where the sample written last ends: with
   several tracks (audio ahead of video, a sparse track with long samples) the last sample handed to
   formatFMP4Segment.write before the close may end earlier than a sample of another track written before it. *)
Definition media_end (start : Z) (l : list wsmp) : Z := fold_left Z.max (map w_end l) start.
Definition true_duration (f : segfile) : Z := media_end f.(f_sdts) (file_samples f) - f.(f_sdts).
(* the same, read track by track: the end of the last sample of every track *)
Definition track_ends (t : nat) (l : list wsmp) : list Z := map w_end (filter (fun w => Nat.eqb w.(w_trk) t) l).
Definition tracks_end (n : nat) (start : Z) (l : list wsmp) : Z :=
  fold_left Z.max (map (fun t => last (track_ends t l) start) (seq 0 n)) start.
Fixpoint nondecr (l : list Z) : bool :=
  match l with
  | a :: r => match r with b :: _ => (a <=? b) && nondecr r | [] => true end
  | [] => true
  end.
(* what the duration of the sample written last would give (the wrong notion; used by the refutation) *)
Definition last_written_end (start : Z) (l : list wsmp) : Z := last (map w_end l) start.

(* the duration check on a log: cur = (start, running maximum of the sample ends) of the open file; every SClose
   must carry (maximum - start) *)
Definition dstep (cur : option (Z * Z)) (o : sop) : option (Z * Z) :=
  match o with
  | SCreate _ s _ => Some (s, s)
  | SPart _ p => option_map (fun c => (fst c, media_end (snd c) p.(o_smps))) cur
  | SClose _ _ => None
  end.
Definition dstate (cur : option (Z * Z)) (l : list sop) : option (Z * Z) := fold_left dstep l cur.
(* boolean form of the exact check *)
Fixpoint dur_scan (cur : option (Z * Z)) (l : list sop) : bool :=
  match l with
  | [] => true
  | o :: r =>
      match o with
      | SClose _ d => match cur with Some (s, e) => d =? e - s | None => false end
      | _ => true
      end && dur_scan (dstep cur o) r
  end.
