(* Model of the MoQ wire codecs: internal/protocols/moq/{varint,namespace,parameter,property,
   controlmessage,subgroup}. Executable; no proofs here.

   Conventions
   - a byte string / a stream is a [list Z] of byte values; [len] is Go's len().
   - a decoder returns [Ok v rest | Err | Panic | Overalloc n]:
       Ok v rest   : value decoded, [rest] = the unread bytes (a Go decoder that returns a consumed
                     count n, after which its caller does buf = buf[n:], is modelled as returning the rest)
       Err         : the Go function returns a non-nil error
       Panic       : a slice expression / index of the Go code is out of range (see [slice_from],
                     [slice_to], [take_n]) or a loop ran out of the fuel that bounds it
       Overalloc n : a make() was reached with a size n above the protocol limit that applies at that
                     point ([alloc n limit]); the limits are the ones the statement of C32 names
   - shifts and masks are written with / 2^k, mod 2^k and + (the correspondence run ties this to Go's
     >>, &, |); Go's uint64 wrap-around is [wrapu64], int(x) of a uint64 is [to_int]. *)
From Coq Require Import List ZArith Bool.
Require Import MTX.Lib.IntWrap.
Import ListNotations.
Local Open Scope Z_scope.

Definition bytes := list Z.
Definition len {A} (l : list A) : Z := Z.of_nat (length l).

Inductive res (A : Type) : Type :=
| Ok (v : A) (rest : bytes)
| Err
| Panic
| Overalloc (n : Z).
Arguments Ok {A} v rest.
Arguments Err {A}.
Arguments Panic {A}.
Arguments Overalloc {A} n.

Definition bind {A B} (m : res A) (f : A -> bytes -> res B) : res B :=
  match m with
  | Ok v r => f v r
  | Err => Err
  | Panic => Panic
  | Overalloc n => Overalloc n
  end.

Notation "'let*' ( x , r ) := m 'in' k" := (bind m (fun x r => k))
  (at level 200, x name, r name, m at level 100, k at level 200, right associativity).

(* make([]T, n) at a point where the protocol allows at most [limit] *)
Definition alloc {A} (n limit : Z) (k : res A) : res A :=
  if n <=? limit then k else Overalloc n.

(* buf[n:] *)
Definition slice_from {A} (n : Z) (buf : bytes) (k : bytes -> res A) : res A :=
  if (0 <=? n) && (n <=? len buf) then k (skipn (Z.to_nat n) buf) else Panic.
(* buf[:n]  (Go allows n <= cap(buf); the model is stricter and asks n <= len(buf)) *)
Definition slice_to {A} (n : Z) (buf : bytes) (k : bytes -> res A) : res A :=
  if (0 <=? n) && (n <=? len buf) then k (firstn (Z.to_nat n) buf) else Panic.
(* buf[0], ..., buf[n-1] all indexed: Some (those, the others), None = index out of range *)
Definition take_n (n : Z) (buf : bytes) : option (bytes * bytes) :=
  if (0 <=? n) && (n <=? len buf) then Some (firstn (Z.to_nat n) buf, skipn (Z.to_nat n) buf) else None.

(* int(x) for a uint64 x *)
Definition to_int (x : Z) : Z := if x <? two63 then x else x - two64.

(* ------------------------------------------------------------------------------------------ *)
(* varint (varint.go): 9 length classes 0xxxxxxx, 10xxxxxx +1, 110xxxxx +2, ..., 1111110x +6,
   0xFE +7, 0xFF +8; big-endian *)

(* byte(v >> 8(k-1)), ..., byte(v >> 8), byte(v) *)
Fixpoint be_bytes (k : nat) (v : Z) : bytes :=
  match k with
  | O => []
  | S k' => (v / 256 ^ Z.of_nat k') mod 256 :: be_bytes k' v
  end.

(* ((acc << 8 | b0) << 8 | b1) ... *)
Fixpoint be_val (acc : Z) (bs : bytes) : Z :=
  match bs with
  | [] => acc
  | x :: r => be_val (acc * 256 + x) r
  end.

(* MarshalSize *)
Definition varint_len (v : Z) : Z :=
  if v <? 2 ^ 7 then 1 else if v <? 2 ^ 14 then 2 else if v <? 2 ^ 21 then 3
  else if v <? 2 ^ 28 then 4 else if v <? 2 ^ 35 then 5 else if v <? 2 ^ 42 then 6
  else if v <? 2 ^ 49 then 7 else if v <? 2 ^ 56 then 8 else 9.

(* MarshalTo / Marshal: 0x80 | byte(v>>8) is written 128 + (v / 2^8) mod 256, etc. *)
Definition enc_varint (v : Z) : bytes :=
  if v <? 2 ^ 7 then [v mod 256]
  else if v <? 2 ^ 14 then (128 + (v / 2 ^ 8) mod 256) :: be_bytes 1 v
  else if v <? 2 ^ 21 then (192 + (v / 2 ^ 16) mod 256) :: be_bytes 2 v
  else if v <? 2 ^ 28 then (224 + (v / 2 ^ 24) mod 256) :: be_bytes 3 v
  else if v <? 2 ^ 35 then (240 + (v / 2 ^ 32) mod 256) :: be_bytes 4 v
  else if v <? 2 ^ 42 then (248 + (v / 2 ^ 40) mod 256) :: be_bytes 5 v
  else if v <? 2 ^ 49 then (252 + (v / 2 ^ 48) mod 256) :: be_bytes 6 v
  else if v <? 2 ^ 56 then 254 :: be_bytes 7 v
  else 255 :: be_bytes 8 v.

(* the switch on the first byte: b&0x80 == 0, b&0xC0 == 0x80, ..., b == 0xFE, b == 0xFF, default *)
Definition varint_size (b : Z) : option Z :=
  if b / 128 =? 0 then Some 1
  else if b / 64 =? 2 then Some 2
  else if b / 32 =? 6 then Some 3
  else if b / 16 =? 14 then Some 4
  else if b / 8 =? 30 then Some 5
  else if b / 4 =? 62 then Some 6
  else if b / 2 =? 126 then Some 7
  else if b =? 254 then Some 8
  else if b =? 255 then Some 9
  else None.

(* b & 0x3F, b & 0x1F, ... : the value bits of the first byte *)
Definition varint_hi (size b : Z) : Z :=
  if size =? 2 then b mod 64 else if size =? 3 then b mod 32 else if size =? 4 then b mod 16
  else if size =? 5 then b mod 8 else if size =? 6 then b mod 4 else if size =? 7 then b mod 2
  else 0.

(* Varint.Unmarshal(buf) *)
Definition dec_varint (buf : bytes) : res Z :=
  match buf with
  | [] => Err
  | b :: tl =>
    match varint_size b with
    | None => Err
    | Some size =>
      if size =? 1 then Ok b tl
      else if len buf <? size then Err
      else match take_n (size - 1) tl with       (* buf[1] .. buf[size-1] *)
           | None => Panic
           | Some (bs, rest) => Ok (be_val (varint_hi size b) bs) rest
           end
    end
  end.

(* Varint.Read(r): same switch; rest := make([]byte, size-1); io.ReadFull *)
Definition read_varint (s : bytes) : res Z :=
  match s with
  | [] => Err
  | b :: tl =>
    match varint_size b with
    | None => Err
    | Some size =>
      if size =? 1 then Ok b tl
      else alloc (size - 1) 8
             (if len tl <? size - 1 then Err
              else match take_n (size - 1) tl with
                   | None => Panic
                   | Some (bs, rest) => Ok (be_val (varint_hi size b) bs) rest
                   end)
    end
  end.

(* ------------------------------------------------------------------------------------------ *)
(* namespace (namespace.go) *)

Definition max_field_count : Z := 32.

Fixpoint dec_ns_fields (n : nat) (buf : bytes) : res (list bytes) :=
  match n with
  | O => Ok [] buf
  | S n' =>
    let* (l, b1) := dec_varint buf in
    if len b1 <? l then Err
    else slice_to l b1 (fun part =>              (* string(buf[:l]) *)
         slice_from (to_int l) b1 (fun b2 =>     (* buf[int(l):] *)
         let* (parts, b3) := dec_ns_fields n' b2 in
         Ok (part :: parts) b3))
  end.

Definition dec_namespace (buf : bytes) : res (list bytes) :=
  let* (cnt, b1) := dec_varint buf in
  if cnt >? max_field_count then Err
  else alloc cnt max_field_count                  (* make(Namespace, nsCount) *)
         (dec_ns_fields (Z.to_nat cnt) b1).

Definition enc_lenstr (s : bytes) : bytes := enc_varint (len s) ++ s.

Definition enc_namespace (ns : list bytes) : bytes :=
  enc_varint (len ns) ++ concat (map enc_lenstr ns).

(* ------------------------------------------------------------------------------------------ *)
(* parameters (parameter.go, authorization_token.go); the only parameter type is
   AUTHORIZATION_TOKEN = 0x03 *)

Record token := mkTok { tk_alias : Z; tk_type : Z; tk_value : bytes }.

Definition type_authorization_token : Z := 3.
Definition alias_use_value : Z := 3.

(* AuthorizationToken.unmarshal; returns n1 + int(le), after which the caller slices buf[n:] *)
Definition dec_token (buf : bytes) : res token :=
  let* (le, b1) := dec_varint buf in
  let n1 := len buf - len b1 in
  if len b1 <? le then Err
  else slice_to le b1 (fun inner =>               (* buf = buf[:le] *)
       let* (alias, b2) := dec_varint inner in
       if negb (alias =? alias_use_value) then Err
       else let* (tt, b3) := dec_varint b2 in
            slice_from (n1 + to_int le) buf (fun rest =>
            Ok (mkTok alias tt b3) rest)).

(* Parameters.Unmarshal(count, buf): for range uint64(count). Every iteration consumes at least
   one byte, which is what bounds the loop; the model makes that bound explicit as fuel and
   panics if it runs out (proved impossible). *)
Fixpoint dec_params (fuel : nat) (count cur : Z) (buf : bytes) : res (list token) :=
  if count =? 0 then Ok [] buf
  else match fuel with
       | O => Panic
       | S f =>
         let* (d, b1) := dec_varint buf in
         let cur' := wrapu64 (cur + d) in
         if cur' =? type_authorization_token then
           let* (t, b2) := dec_token b1 in
           let* (ts, b3) := dec_params f (count - 1) cur' b2 in
           Ok (t :: ts) b3
         else Err
       end.

Definition dec_parameters (count : Z) (buf : bytes) : res (list token) :=
  dec_params (S (length buf)) (wrapu64 count) 0 buf.

Definition enc_token (t : token) : bytes :=
  let inner := enc_varint t.(tk_alias) ++ enc_varint t.(tk_type) ++ t.(tk_value) in
  enc_varint (len inner) ++ inner.

Fixpoint enc_params (prev : Z) (ps : list token) : bytes :=
  match ps with
  | [] => []
  | p :: r => enc_varint (wrapu64 (type_authorization_token - prev)) ++ enc_token p
              ++ enc_params type_authorization_token r
  end.
Definition enc_parameters (ps : list token) : bytes := enc_params 0 ps.

(* ------------------------------------------------------------------------------------------ *)
(* properties (property.go, timestamp.go): only Timestamp = 0x06 is kept, unknown types are
   skipped (odd: length-prefixed, even: one varint). A Timestamp is shown as its uint64 bits. *)

Definition timestamp_property_type : Z := 6.

Fixpoint dec_props (fuel : nat) (cur : Z) (buf : bytes) : res (list Z) :=
  match buf with
  | [] => Ok [] []
  | _ :: _ =>
    match fuel with
    | O => Panic
    | S f =>
      let* (d, b1) := dec_varint buf in
      let cur' := wrapu64 (cur + d) in
      if cur' =? timestamp_property_type then
        let* (t, b2) := dec_varint b1 in
        let* (ts, b3) := dec_props f cur' b2 in
        Ok (t :: ts) b3
      else if cur' mod 2 =? 1 then
        let* (l, b2) := dec_varint b1 in
        let n2 := len b1 - len b2 in
        if wrapu64 (len b1 - n2) <? l then Err
        else slice_from (n2 + to_int l) b1 (fun b3 => dec_props f cur' b3)
      else
        let* (skip, b2) := dec_varint b1 in
        dec_props f cur' b2
    end
  end.

Definition dec_properties (buf : bytes) : res (list Z) := dec_props (length buf) 0 buf.

Fixpoint enc_props (prev : Z) (ts : list Z) : bytes :=
  match ts with
  | [] => []
  | t :: r => enc_varint (wrapu64 (timestamp_property_type - prev)) ++ enc_varint t
              ++ enc_props timestamp_property_type r
  end.
Definition enc_properties (ts : list Z) : bytes := enc_props 0 ts.

(* ------------------------------------------------------------------------------------------ *)
(* control messages (controlmessage/*.go) *)

Inductive setup_kind := KSetup | KClientSetup | KServerSetup.

Inductive msg :=
| MSetup (k : setup_kind) (path authority : bytes)
| MSubscribe (request_id : Z) (ns : list bytes) (track : bytes) (params : list token)
| MSubscribeOk (track_alias : Z) (params : list token) (props : list Z)
| MRequestError (code : Z) (reason : bytes)
| MPublish (request_id : Z) (ns : list bytes) (track : bytes) (track_alias : Z)
           (params : list token) (props : list Z)
| MPublishOk (params : list token) (props : list Z)
| MRequestOk (params : list token) (props : list Z).

Inductive msg_kind := TSetup (k : setup_kind) | TSubscribe | TSubscribeOk | TRequestError
                    | TPublish | TPublishOk | TRequestOk.

Definition msg_type_code (k : msg_kind) : Z :=
  match k with
  | TSetup KSetup => 12032 (* 0x2F00 *) | TSetup KClientSetup => 32 | TSetup KServerSetup => 33
  | TSubscribe => 3 | TSubscribeOk => 4 | TRequestError => 5
  | TPublish => 29 | TPublishOk => 30 | TRequestOk => 7
  end.

Definition msg_kind_of_code (t : Z) : option msg_kind :=
  if t =? 12032 then Some (TSetup KSetup) else if t =? 32 then Some (TSetup KClientSetup)
  else if t =? 33 then Some (TSetup KServerSetup) else if t =? 3 then Some TSubscribe
  else if t =? 4 then Some TSubscribeOk else if t =? 5 then Some TRequestError
  else if t =? 29 then Some TPublish else if t =? 30 then Some TPublishOk
  else if t =? 7 then Some TRequestOk else None.

(* Setup.unmarshal: delta-typed options; even = one varint, odd = length-prefixed bytes;
   0x01 path, 0x05 authority, others ignored. Loop bounded by the buffer (fuel). *)
Fixpoint dec_setup_opts (fuel : nat) (prev : Z) (path auth : bytes) (buf : bytes)
  : res (bytes * bytes) :=
  match buf with
  | [] => Ok (path, auth) []
  | _ :: _ =>
    match fuel with
    | O => Panic
    | S f =>
      let* (d, b1) := dec_varint buf in
      let cur := wrapu64 (prev + d) in
      if cur mod 2 =? 0 then
        let* (v, b2) := dec_varint b1 in
        dec_setup_opts f cur path auth b2
      else
        let* (l, b2) := dec_varint b1 in
        if len b2 <? l then Err
        else slice_to (to_int l) b2 (fun value =>
             slice_from (to_int l) b2 (fun b3 =>
             if cur =? 1 then dec_setup_opts f cur value auth b3
             else if cur =? 5 then dec_setup_opts f cur path value b3
             else dec_setup_opts f cur path auth b3))
    end
  end.

(* varint length + that many bytes, buf[:l] then buf[int(l):] (track names) *)
Definition dec_lenstr (buf : bytes) : res bytes :=
  let* (l, b1) := dec_varint buf in
  if len b1 <? l then Err
  else slice_to l b1 (fun s => slice_from (to_int l) b1 (fun b2 => Ok s b2)).

(* the unmarshal(payload) of each message; the rest component is what unmarshal leaves unread
   (only Subscribe and RequestError can leave something) *)
Definition dec_payload (k : msg_kind) (buf : bytes) : res msg :=
  match k with
  | TSetup sk =>
    let* (pa, r) := dec_setup_opts (length buf) 0 [] [] buf in
    Ok (MSetup sk (fst pa) (snd pa)) r
  | TSubscribe =>
    let* (rid, b1) := dec_varint buf in
    let* (ns, b2) := dec_namespace b1 in
    let* (tn, b3) := dec_lenstr b2 in
    let* (pc, b4) := dec_varint b3 in
    let* (ps, b5) := dec_parameters (to_int pc) b4 in
    Ok (MSubscribe rid ns tn ps) b5
  | TSubscribeOk =>
    let* (al, b1) := dec_varint buf in
    let* (pc, b2) := dec_varint b1 in
    let* (ps, b3) := dec_parameters (to_int pc) b2 in
    let* (pr, b4) := dec_properties b3 in
    Ok (MSubscribeOk al ps pr) b4
  | TRequestError =>
    let* (code, b1) := dec_varint buf in
    let* (retry, b2) := dec_varint b1 in
    let* (l, b3) := dec_varint b2 in
    if len b3 <? l then Err
    else slice_to l b3 (fun reason => Ok (MRequestError code reason) (skipn (Z.to_nat l) b3))
  | TPublish =>
    let* (rid, b1) := dec_varint buf in
    let* (ns, b2) := dec_namespace b1 in
    let* (tn, b3) := dec_lenstr b2 in
    let* (al, b4) := dec_varint b3 in
    let* (pc, b5) := dec_varint b4 in
    let* (ps, b6) := dec_parameters (to_int pc) b5 in
    let* (pr, b7) := dec_properties b6 in
    Ok (MPublish rid ns tn al ps pr) b7
  | TPublishOk =>
    let* (pc, b1) := dec_varint buf in
    let* (ps, b2) := dec_parameters (to_int pc) b1 in
    let* (pr, b3) := dec_properties b2 in
    Ok (MPublishOk ps pr) b3
  | TRequestOk =>
    let* (pc, b1) := dec_varint buf in
    let* (ps, b2) := dec_parameters (to_int pc) b1 in
    let* (pr, b3) := dec_properties b2 in
    Ok (MRequestOk ps pr) b3
  end.

Definition max_control_payload : Z := 65535.

(* controlmessage.Read(r) *)
Definition read_msg (s : bytes) : res msg :=
  let* (t, s1) := read_varint s in
  match s1 with
  | b0 :: b1 :: s2 =>
    let length := (b0 * 256 + b1) mod 65536 in      (* uint16(b0)<<8 | uint16(b1) *)
    alloc length max_control_payload                (* make([]byte, length) *)
      (if len s2 <? length then Err                 (* io.ReadFull *)
       else let payload := firstn (Z.to_nat length) s2 in
            let s3 := skipn (Z.to_nat length) s2 in
            match msg_kind_of_code t with
            | None => Err
            | Some k => let* (m, unread) := dec_payload k payload in Ok m s3
            end)
  | _ => Err
  end.

Definition enc_setup_payload (path auth : bytes) : bytes :=
  (match path with [] => [] | _ :: _ => enc_varint (wrapu64 (1 - 0)) ++ enc_lenstr path end)
  ++ (match auth with
      | [] => []
      | _ :: _ => enc_varint (wrapu64 (5 - (match path with [] => 0 | _ :: _ => 1 end))) ++ enc_lenstr auth
      end).

Definition kind_of_msg (m : msg) : msg_kind :=
  match m with
  | MSetup k _ _ => TSetup k | MSubscribe _ _ _ _ => TSubscribe | MSubscribeOk _ _ _ => TSubscribeOk
  | MRequestError _ _ => TRequestError | MPublish _ _ _ _ _ _ => TPublish
  | MPublishOk _ _ => TPublishOk | MRequestOk _ _ => TRequestOk
  end.

Definition enc_payload (m : msg) : bytes :=
  match m with
  | MSetup _ p a => enc_setup_payload p a
  | MSubscribe rid ns tn ps =>
    enc_varint rid ++ enc_namespace ns ++ enc_lenstr tn ++ enc_varint (len ps) ++ enc_parameters ps
  | MSubscribeOk al ps pr =>
    enc_varint al ++ enc_varint (len ps) ++ enc_parameters ps ++ enc_properties pr
  | MRequestError code reason => enc_varint code ++ [0] ++ enc_lenstr reason
  | MPublish rid ns tn al ps pr =>
    enc_varint rid ++ enc_namespace ns ++ enc_lenstr tn ++ enc_varint al ++ enc_varint (len ps)
    ++ enc_parameters ps ++ enc_properties pr
  | MPublishOk ps pr => enc_varint (len ps) ++ enc_parameters ps ++ enc_properties pr
  | MRequestOk ps pr => enc_varint (len ps) ++ enc_parameters ps ++ enc_properties pr
  end.

(* Marshal: type, byte(payloadSize >> 8), byte(payloadSize), payload. The 16-bit length field is
   NOT checked against the payload size: sizes >= 2^16 are silently truncated. *)
Definition enc_msg (m : msg) : bytes :=
  let p := enc_payload m in
  enc_varint (msg_type_code (kind_of_msg m)) ++ [(len p / 256) mod 256; len p mod 256] ++ p.

(* ------------------------------------------------------------------------------------------ *)
(* subgroup stream (subgroup/{header,object,subgroup}.go) *)

Record header := mkHdr { h_props : bool; h_first : bool; h_alias : Z; h_group : Z }.
Record object := mkObj { o_delta : Z; o_props : list Z; o_payload : bytes }.

Definition max_props_len : Z := 131072.
Definition max_payload_size : Z := 10485760.

(* Header.read: ONE byte of stream type (b&0x01 properties, b&0x40 first object), two varints *)
Definition read_header (s : bytes) : res header :=
  match s with
  | [] => Err
  | b :: s1 =>
    let* (a, s2) := read_varint s1 in
    let* (g, s3) := read_varint s2 in
    Ok (mkHdr (negb (b mod 2 =? 0)) (negb ((b / 64) mod 2 =? 0)) a g) s3
  end.

(* Object.read *)
Definition read_object (hp : bool) (s : bytes) : res object :=
  let* (d, s1) := read_varint s in
  let* (props, s2) :=
     (if hp then
        let* (pl, s1a) := read_varint s1 in
        if pl >? 0 then
          if pl >? max_props_len then Err
          else alloc pl max_props_len                 (* make([]byte, propsLen) *)
                 (if len s1a <? pl then Err
                  else let* (ps, unread) := dec_properties (firstn (Z.to_nat pl) s1a) in
                       Ok ps (skipn (Z.to_nat pl) s1a))
        else Ok [] s1a
      else Ok [] s1) in
  let* (plen, s3) := read_varint s2 in
  if plen =? 0 then
    let* (st, s4) := read_varint s3 in
    if negb (st =? 3) && negb (st =? 4) then Err
    else Ok (mkObj d props []) s4
  else if plen >? max_payload_size then Err
  else alloc plen max_payload_size                    (* make([]byte, payloadLen) *)
         (if len s3 <? plen then Err
          else Ok (mkObj d props (firstn (Z.to_nat plen) s3)) (skipn (Z.to_nat plen) s3)).

(* SubGroup.Read: header, one non-empty object, one end-of-group/track status object *)
Definition read_subgroup (s : bytes) : res (header * list object) :=
  let* (h, s1) := read_header s in
  let* (o1, s2) := read_object h.(h_props) s1 in
  if len o1.(o_payload) =? 0 then Err
  else let* (o2, s3) := read_object h.(h_props) s2 in
       if negb (len o2.(o_payload) =? 0) then Err
       else Ok (h, [o1]) s3.

Definition enc_header (h : header) : bytes :=
  enc_varint (48 + (if h.(h_props) then 1 else 0) + (if h.(h_first) then 64 else 0))
  ++ enc_varint h.(h_alias) ++ enc_varint h.(h_group).

Definition enc_object (hp : bool) (o : object) : bytes :=
  enc_varint o.(o_delta)
  ++ (if hp then enc_varint (len (enc_properties o.(o_props))) ++ enc_properties o.(o_props) else [])
  ++ (if len o.(o_payload) =? 0 then [0; 3]
      else enc_varint (len o.(o_payload)) ++ o.(o_payload)).

Definition enc_subgroup (h : header) (objs : list object) : bytes :=
  enc_header h ++ concat (map (enc_object h.(h_props)) objs)
  ++ enc_object h.(h_props) (mkObj 0 [] []).
