(* Fourth model of C40: who waits for whom between pathManager.run, the path loops, hls.Server.run and the HLS muxers
   (internal/core/path_manager.go, internal/servers/hls/server.go, muxer.go, session.go).

     pathManager.run     PmIdle (its select) | PmHandler (inside a handler of a caller's request) |
                         PmNotify p (inside doSetPathReady / doSetPathNotReady of path p, at hlsServer.PathReady /
                         PathNotReady)
     path loop p         PaIdle | PaNotify (inside pm.setPathReady / setPathNotReady: a send to pathManager.run)
     hls.Server.run      HsIdle | HsCreate p (inside createMuxer) | HsAtMutex (serving an API listing / get: RLock of the
                         muxers' mutexes) | HsKickMutex p, HsAtPath p (serving a kick: Lock of the muxers' mutexes, then
                         session.close2 -> path.RemoveReader on THIS goroutine)
     muxer               MxInit p (muxer.initialize took the mutex; runInner is in pathManager.AddReader: send to
                         pathManager.run) | MxAtPath p (pathManager.run has answered; waiting for the path loop; mutex still
                         held) | MxUp p (mutex free) | MxExit p (holds the mutex and is inside session.close2 ->
                         path.RemoveReader: run()'s exit, the session clean-up ticker, an instance crash) | MxGone

   queued = true : hls.Server.PathReady / PathNotReady append to a queue and return (fix 029c0b4); hls.Server.run
                   drains the queue.   queued = false : the pinned code: an unbuffered send to hls.Server.run.

   Environment (not `internal`): a path appears, a path's state changes (its loop goes to notify the path manager), a
   caller's request arrives at the path manager, an API listing / kick arrives at the HLS server, a running muxer takes
   its mutex to close sessions.  Waiting for all the muxers' mutexes at once instead of one after the other makes a step
   of hls.Server.run harder to take, never easier.  Executable; no proofs here. *)
From Coq Require Import List Arith Bool.
Import ListNotations.

Module HL.

Inductive pm_pc := PmIdle | PmHandler | PmNotify (p : nat).
Inductive hs_pc := HsIdle | HsCreate (p : nat) | HsAtMutex | HsKickMutex (p : nat) | HsAtPath (p : nat).
Inductive mx_pc := MxInit (p : nat) | MxAtPath (p : nat) | MxUp (p : nat) | MxExit (p : nat) | MxGone.
Inductive pa_pc := PaIdle | PaNotify.

Record state := mk {
  pm : pm_pc; hs : hs_pc; mxs : list mx_pc; pas : list pa_pc;
  hq : list nat;     (* queued path events (queued = true) *)
  wrk : nat;         (* requests of callers waiting to be received by pathManager.run *)
  lst : nat;         (* API listings waiting to be received by hls.Server.run *)
  kck : list nat;    (* API kicks (of a session on path p) waiting to be received *)
}.

Definition init : state := mk PmIdle HsIdle [] [] [] 0 0 [].

Inductive label :=
| LPath | LNotify (p : nat) | LCall | LList | LKick (p : nat) | LMuxClose (m : nat)
| LPmRecvCall | LPmHandled | LPmRecvNotify (p : nat) | LPmNotified (create : bool)
| LHsDrain (create : bool) | LHsCreated
| LPmServeAdd (m : nat) | LPaServeAdd (m : nat) (ok : bool) | LMxExitDone (m : nat) (back : bool)
| LHsRecvList | LHsListDone | LHsRecvKick | LHsKickLocked | LHsKickDone.

Definition internal (l : label) : bool :=
  match l with LPath | LNotify _ | LCall | LList | LKick _ | LMuxClose _ => false | _ => true end.

Fixpoint set_nth {A} (n : nat) (x : A) (l : list A) : list A :=
  match l, n with
  | [], _ => []
  | _ :: t, 0 => x :: t
  | h :: t, S k => h :: set_nth k x t
  end.

Definition pa_at (s : state) (p : nat) : pa_pc := nth p (pas s) PaIdle.
Definition mutex_free (x : mx_pc) : bool := match x with MxUp _ | MxGone => true | _ => false end.
Definition all_free (s : state) : bool := forallb mutex_free (mxs s).
Definition is_idle (x : pa_pc) : bool := match x with PaIdle => true | PaNotify => false end.

Definition upd_pm s x := mk x (hs s) (mxs s) (pas s) (hq s) (wrk s) (lst s) (kck s).
Definition upd_hs s x := mk (pm s) x (mxs s) (pas s) (hq s) (wrk s) (lst s) (kck s).
Definition upd_mxs s x := mk (pm s) (hs s) x (pas s) (hq s) (wrk s) (lst s) (kck s).
Definition upd_pas s x := mk (pm s) (hs s) (mxs s) x (hq s) (wrk s) (lst s) (kck s).
Definition upd_hq s x := mk (pm s) (hs s) (mxs s) (pas s) x (wrk s) (lst s) (kck s).
Definition upd_wrk s x := mk (pm s) (hs s) (mxs s) (pas s) (hq s) x (lst s) (kck s).
Definition upd_lst s x := mk (pm s) (hs s) (mxs s) (pas s) (hq s) (wrk s) x (kck s).
Definition upd_kck s x := mk (pm s) (hs s) (mxs s) (pas s) (hq s) (wrk s) (lst s) x.

Definition step (queued : bool) (s : state) (l : label) : option state :=
  match l with
  | LPath => Some (upd_pas s (pas s ++ [PaIdle]))
  | LNotify p =>
      match nth_error (pas s) p with Some PaIdle => Some (upd_pas s (set_nth p PaNotify (pas s))) | _ => None end
  | LCall => Some (upd_wrk s (S (wrk s)))
  | LList => Some (upd_lst s (S (lst s)))
  | LKick p => Some (upd_kck s (kck s ++ [p]))
  | LMuxClose m =>
      match nth_error (mxs s) m with Some (MxUp p) => Some (upd_mxs s (set_nth m (MxExit p) (mxs s))) | _ => None end
  | LPmRecvCall =>
      match pm s, wrk s with PmIdle, S k => Some (upd_pm (upd_wrk s k) PmHandler) | _, _ => None end
  | LPmHandled => match pm s with PmHandler => Some (upd_pm s PmIdle) | _ => None end
  | LPmRecvNotify p =>
      match pm s, nth_error (pas s) p with
      | PmIdle, Some PaNotify => Some (upd_pm (upd_pas s (set_nth p PaIdle (pas s))) (PmNotify p))
      | _, _ => None
      end
  | LPmNotified create =>
      match pm s with
      | PmNotify p =>
          if queued then Some (upd_pm (upd_hq s (hq s ++ [p])) PmIdle)
          else match hs s with
               | HsIdle => Some (upd_pm (upd_hs s (if create then HsCreate p else HsIdle)) PmIdle)
               | _ => None
               end
      | _ => None
      end
  | LHsDrain create =>
      if queued then
        match hs s, hq s with
        | HsIdle, p :: r => Some (upd_hs (upd_hq s r) (if create then HsCreate p else HsIdle))
        | _, _ => None
        end
      else None
  | LHsCreated => match hs s with HsCreate p => Some (upd_hs (upd_mxs s (mxs s ++ [MxInit p])) HsIdle) | _ => None end
  | LPmServeAdd m =>
      match pm s, nth_error (mxs s) m with
      | PmIdle, Some (MxInit p) => Some (upd_mxs s (set_nth m (MxAtPath p) (mxs s)))
      | _, _ => None
      end
  | LPaServeAdd m ok =>
      match nth_error (mxs s) m with
      | Some (MxAtPath p) =>
          if is_idle (pa_at s p) then Some (upd_mxs s (set_nth m (if ok then MxUp p else MxGone) (mxs s))) else None
      | _ => None
      end
  | LMxExitDone m back =>
      match nth_error (mxs s) m with
      | Some (MxExit p) =>
          if is_idle (pa_at s p) then Some (upd_mxs s (set_nth m (if back then MxUp p else MxGone) (mxs s))) else None
      | _ => None
      end
  | LHsRecvList => match hs s, lst s with HsIdle, S k => Some (upd_hs (upd_lst s k) HsAtMutex) | _, _ => None end
  | LHsListDone => match hs s with HsAtMutex => if all_free s then Some (upd_hs s HsIdle) else None | _ => None end
  | LHsRecvKick => match hs s, kck s with HsIdle, p :: r => Some (upd_hs (upd_kck s r) (HsKickMutex p)) | _, _ => None end
  | LHsKickLocked =>
      match hs s with HsKickMutex p => if all_free s then Some (upd_hs s (HsAtPath p)) else None | _ => None end
  | LHsKickDone =>
      match hs s with HsAtPath p => if is_idle (pa_at s p) then Some (upd_hs s HsIdle) else None | _ => None end
  end.

Fixpoint run (queued : bool) (s : state) (ls : list label) : option state :=
  match ls with
  | [] => Some s
  | l :: t => match step queued s l with Some s' => run queued s' t | None => None end
  end.

Inductive reachable (queued : bool) : state -> Prop :=
| r_init : reachable queued init
| r_step s l s' : reachable queued s -> step queued s l = Some s' -> reachable queued s'.

(* nobody is inside an operation: the loops are in their selects with nothing to receive, every muxer's mutex is free *)
Definition quiescentb (s : state) : bool :=
  match pm s, hs s, hq s, wrk s, lst s, kck s with
  | PmIdle, HsIdle, [], 0, 0, [] => forallb is_idle (pas s) && all_free s
  | _, _, _, _, _, _ => false
  end.

Definition wpm (x : pm_pc) : nat := match x with PmIdle => 0 | PmHandler => 1 | PmNotify _ => 9 end.
Definition whs (x : hs_pc) : nat :=
  match x with HsIdle => 0 | HsCreate _ => 7 | HsAtMutex => 1 | HsKickMutex _ => 2 | HsAtPath _ => 1 end.
Definition wmx (x : mx_pc) : nat :=
  match x with MxInit _ => 3 | MxAtPath _ => 2 | MxUp _ => 0 | MxExit _ => 1 | MxGone => 0 end.
Definition wpa (x : pa_pc) : nat := match x with PaIdle => 0 | PaNotify => 10 end.
Definition sum {A} (w : A -> nat) (l : list A) : nat := fold_right (fun x n => w x + n) 0 l.

Definition measure (s : state) : nat :=
  wpm (pm s) + whs (hs s) + sum wmx (mxs s) + sum wpa (pas s) + 8 * length (hq s) + 2 * wrk s + 2 * lst s
  + 3 * length (kck s).

End HL.
