(* Third model of C36: SEVERAL scrapes of one Metrics instance at the same time (internal/metrics/metrics.go, onMetrics).
   net/http runs every request in its own goroutine, so two GET /metrics (two Prometheus replicas, or a scrape that is
   still listing paths when the next one arrives) run the handler concurrently on the same *Metrics.  The handler as
   straight-line code over what is SHARED (fields of the Metrics struct, the RWMutex) and what is PER REQUEST (locals
   of the call, the gin context), cut into the instructions between which another request can get in:

     m.mutex.RLock()                       IRLock      shared lock: any number of holders (no writer in a scrape;
     pathManager := m.pathManager; ...                 the Set*Server writers only swap the pointers copied here)
     m.mutex.RUnlock()                     IRUnlock
     var out strings.Builder               IReset      the buffer the exposition is rendered into
     metric(&out, ...) / out.WriteString   IAppend l   one per rendered line (the list calls on the servers sit between
                                                       these; every cut of the body into pieces is covered, see the theorems)
     ctx.Writer.WriteString(out.String())  IFlush      the response body

   Where the buffer lives is the variant:
     PerRequest   the code: `out` is a local of the call.
     SharedRLock  an edit that compiles and passes the package's tests: the buffer is a field of Metrics, reused
                  between scrapes (out := &m.outBuf; out.Reset()), "protected" by holding m.mutex.RLock() for the whole
                  handler - a read lock excludes writers, not other readers.
   A schedule is the list of the requests that execute their next instruction, in order.

   Executable; no proofs here. *)
From Coq Require Import List Arith Bool ZArith.
Require Import MTX.Model.C36_Metrics MTX.Model.C36_Sections.
Import ListNotations.

Module CC.

Inductive instr := IRLock | IRUnlock | IReset | IAppend (c : bytes) | IFlush.
Inductive variant := PerRequest | SharedRLock.

(* the program of one scrape whose body is rendered piece by piece as `chunks` *)
Definition prog (v : variant) (chunks : list bytes) : list instr :=
  match v with
  | PerRequest => [IRLock; IRUnlock; IReset] ++ map IAppend chunks ++ [IFlush]
  | SharedRLock => [IRLock; IReset] ++ map IAppend chunks ++ [IFlush; IRUnlock]
  end.

Record local := { pc : list instr; lbuf : bytes; out : option bytes }.      (* out = the response body, once written *)
Record shared := { sbuf : bytes; readers : nat }.
Record gstate := { sh : shared; locals : list local }.

Fixpoint upd {A} (i : nat) (x : A) (l : list A) : list A :=
  match l, i with
  | [], _ => []
  | _ :: t, O => x :: t
  | h :: t, S j => h :: upd j x t
  end.

(* one instruction of a request; `rest` = its program after this instruction *)
Definition exec (v : variant) (ins : instr) (s : shared) (r : local) (rest : list instr) : shared * local :=
  match ins with
  | IRLock => ({| sbuf := sbuf s; readers := S (readers s) |}, {| pc := rest; lbuf := lbuf r; out := out r |})
  | IRUnlock => ({| sbuf := sbuf s; readers := pred (readers s) |}, {| pc := rest; lbuf := lbuf r; out := out r |})
  | IReset =>
      match v with
      | PerRequest => (s, {| pc := rest; lbuf := []; out := out r |})
      | SharedRLock => ({| sbuf := []; readers := readers s |}, {| pc := rest; lbuf := lbuf r; out := out r |})
      end
  | IAppend c =>
      match v with
      | PerRequest => (s, {| pc := rest; lbuf := lbuf r ++ c; out := out r |})
      | SharedRLock => ({| sbuf := sbuf s ++ c; readers := readers s |}, {| pc := rest; lbuf := lbuf r; out := out r |})
      end
  | IFlush =>
      (s, {| pc := rest; lbuf := lbuf r;
             out := Some (match v with PerRequest => lbuf r | SharedRLock => sbuf s end) |})
  end.

(* request j executes its next instruction (nothing if it has returned / does not exist) *)
Definition step (v : variant) (g : gstate) (j : nat) : gstate :=
  match nth_error (locals g) j with
  | None => g
  | Some r =>
      match pc r with
      | [] => g
      | ins :: rest => let '(s', r') := exec v ins (sh g) r rest in {| sh := s'; locals := upd j r' (locals g) |}
      end
  end.

Definition linit (v : variant) (chunks : list bytes) : local := {| pc := prog v chunks; lbuf := []; out := None |}.
Definition init (v : variant) (cs : list (list bytes)) : gstate :=
  {| sh := {| sbuf := []; readers := 0 |}; locals := map (linit v) cs |}.
Definition run (v : variant) (sched : list nat) (cs : list (list bytes)) : gstate := fold_left (step v) sched (init v cs).

(* the response of every request after the schedule: None = the handler has not written it yet *)
Definition responses (v : variant) (cs : list (list bytes)) (sched : list nat) : list (option bytes) :=
  map out (locals (run v sched cs)).

(* every request runs to its end, one after the other (appended to a schedule: whatever is left is completed) *)
Definition finish_sched (cs : list (list bytes)) : list nat :=
  flat_map (fun i => repeat i (length (nth i cs []) + 5)) (seq 0 (length cs)).

(* what one request does alone, on its own state (the PerRequest variant never looks at anything else) *)
Definition lstep (r : local) : local :=
  match pc r with
  | [] => r
  | ins :: rest => snd (exec PerRequest ins {| sbuf := []; readers := 0 |} r rest)
  end.

(* ---- the scrapes of the handler model: one piece per rendered line ---- *)
Definition scrape_chunks (st : state) (q : query) : list bytes := map (render_item escape_label) (items_of st q).

(* the bodies the requests `qs` receive when the instance holds `st` and the requests are interleaved as `sched`
   (then completed) *)
Definition overlapped_bodies (v : variant) (st : state) (qs : list query) (sched : list nat) : list (option bytes) :=
  let cs := map (scrape_chunks st) qs in responses v cs (sched ++ finish_sched cs).

End CC.
