(* C15, second layer: the hand-over of a reloaded configuration to a live path is a step of its own.

   pathManager.doReloadConf never waits for a path (the path may be waiting for the manager): it decides what
   happens to every live path from ITS OWN tables (pm.pathConfs, pa.confName) and hands the new configuration to a
   kept path asynchronously (path.reloadConfAsync -> reloadConf / reloadConfAndMatches -> pa.chReloadConf);
   path.doReloadConf, on the path's goroutine, installs it later (pa.conf, pa.matches). Between the two the path
   runs with what it had. Executable; no proofs here.

   An xpath carries
     x_p      the manager's side, exactly the lpath of Model/C15_PathMgr.v: name, confName, and the configuration
              and groups of the last hand-over (or of the creation);
     x_cname, x_conf, x_matches   what the path goroutine runs with: pa.conf (its Name and value), pa.matches;
     x_queue  the hand-overs that were issued and not yet received, oldest first.

   ordered = true: the code after the fix: commit (hand-overs to one path are received in the order in which they
             were issued: each delivery goroutine waits for the previous one of the same path);
   ordered = false: the code as found (one free goroutine per hand-over, all blocked on the same unbuffered
             channel: any pending hand-over may be received next).
   guarded = true: the code after the fix: commit (the manager closes an idle path only if the configuration IT
             holds for the path is a regular expression); false: the code as found (the path alone decides,
             from the configuration it runs with: path.shouldClose). *)
From Coq Require Import List ZArith Bool String.
Require Import MTX.Model.C14_PathConf MTX.Model.C15_PathMgr.
Import ListNotations.
Local Open Scope Z_scope.

(* pathReloadConfReq{conf, matchesChanged, matches}; d_name = conf.Name *)
Record delivery := DL { d_name : str; d_conf : conf; d_matches : option (list str) }.

(* what a path goroutine runs with *)
Definition running := (str * conf * list str)%type.

(* path.doReloadConf *)
Definition apply_d (r : running) (d : delivery) : running :=
  (d_name d, d_conf d, match d_matches d with Some g => g | None => snd r end).

Record xpath := XP { x_p : lpath; x_cname : str; x_conf : conf; x_matches : list str; x_queue : list delivery }.

Definition x_running (x : xpath) : running := (x_cname x, x_conf x, x_matches x).
Definition mgr_view (p : lpath) : running := (p_confName p, p_conf p, p_matches p).

Definition set_running (x : xpath) (r : running) (q : list delivery) : xpath :=
  XP (x_p x) (fst (fst r)) (snd (fst r)) (snd r) q.

(* a path that has just been created: createPath + path.initialize *)
Definition fresh (p : lpath) : xpath := XP p (p_confName p) (p_conf p) (p_matches p) [].

Record xstate := XST {
  xs_confs : list (str * conf);
  xs_paths : list xpath;
  xs_next : Z;
  xs_crashed : bool
}.

Inductive xop :=
| XReload (nc : list (str * conf))   (* pathManager.doReloadConf(newPaths): hand-overs are issued, not received *)
| XCreate (n : str)
| XLeave (n : str)
| XDeliver (n : str) (i : nat).      (* the path named n receives a pending hand-over (ordered: the oldest one;
                                        otherwise the i-th) *)

Section XPM.
  Variable m : str -> str -> option (list str).
  Variable mask : list bool.
  Variable ordered : bool.
  Variable guarded : bool.

  (* what doReloadConf hands to a live path it keeps (same case analysis as reload_path) *)
  Definition delivery_of (old nc : list (str * conf)) (p : lpath) : list delivery :=
    match find m nc (p_name p) with
    | Found k c g =>
        if negb (str_eqb k (p_confName p)) then [DL k c (Some g)]       (* reloadConfAndMatches(newPathConf, newMatches) *)
        else if in_recreate mask old nc k then []
        else if in_reload mask old nc k then [DL k c None]             (* reloadConf(newPathConf) *)
        else []
    | _ => []
    end.

  Definition xkeep_of (old nc : list (str * conf)) (x : xpath) : list xpath :=
    match reload_path m mask true old nc (x_p x) with
    | PKeep q => [XP q (x_cname x) (x_conf x) (x_matches x) (x_queue x ++ delivery_of old nc (x_p x))]
    | _ => []      (* doClosePath: the pending hand-overs die with the path (pa.ctx.Done()) *)
    end.

  Definition xreload (s : xstate) (nc : list (str * conf)) : xstate :=
    let rs := map (reload_path m mask true (xs_confs s) nc) (map x_p (xs_paths s)) in
    let kept := flat_map (xkeep_of (xs_confs s) nc) (xs_paths s) in
    let '(created, next') := create_static nc (map x_p kept) (xs_next s) in
    XST nc (kept ++ map fresh created) next' (xs_crashed s || existsb is_crash rs).

  Definition xhas_path (xs : list xpath) (n : str) : bool := has_path (map x_p xs) n.

  Definition xcreate (s : xstate) (n : str) : xstate :=
    if xhas_path (xs_paths s) n then s
    else if negb (valid_name n) then s
    else match find m (xs_confs s) n with
         | Found k c g => XST (xs_confs s) (xs_paths s ++ [fresh (LP n k c g (xs_next s))]) (xs_next s + 1) (xs_crashed s)
         | _ => s
         end.

  (* the publisher of n leaves: path.shouldClose looks at pa.conf (what the path runs with);
     pathManager (chClosePathIfIdle) then closes it - guarded: only if its own configuration for the path is a
     regular expression too *)
  Definition closes_idle (x : xpath) : bool :=
    is_regex_key (x_cname x) && (negb guarded || is_regex_key (p_confName (x_p x))).

  Definition xleave (s : xstate) (n : str) : xstate :=
    XST (xs_confs s)
        (filter (fun x => negb (str_eqb (p_name (x_p x)) n && closes_idle x)) (xs_paths s))
        (xs_next s) (xs_crashed s).

  Fixpoint remove_nth {A} (i : nat) (l : list A) : list A :=
    match l, i with
    | [], _ => []
    | _ :: r, O => r
    | a :: r, S j => a :: remove_nth j r
    end.

  Definition deliver_path (i : nat) (x : xpath) : xpath :=
    let j := if ordered then O else i in
    match nth_error (x_queue x) j with
    | Some d => set_running x (apply_d (x_running x) d) (remove_nth j (x_queue x))
    | None => x
    end.

  Definition xdeliver (s : xstate) (n : str) (i : nat) : xstate :=
    XST (xs_confs s)
        (map (fun x => if str_eqb (p_name (x_p x)) n then deliver_path i x else x) (xs_paths s))
        (xs_next s) (xs_crashed s).

  Definition xstep (s : xstate) (o : xop) : xstate :=
    match o with
    | XReload nc => xreload s nc
    | XCreate n => xcreate s n
    | XLeave n => xleave s n
    | XDeliver n i => xdeliver s n i
    end.

  Definition xrun (s : xstate) (h : list xop) : xstate := fold_left xstep h s.

  Definition xinit (cs : list (str * conf)) : xstate := xreload (XST [] [] 0 false) cs.
End XPM.

(* the manager's side of a state: a state of Model/C15_PathMgr.v *)
Definition proj (s : xstate) : state := ST (xs_confs s) (map x_p (xs_paths s)) (xs_next s) (xs_crashed s).

(* the paths' side: each live path with what its goroutine runs with *)
Definition running_path (x : xpath) : lpath :=
  LP (p_name (x_p x)) (x_cname x) (x_conf x) (x_matches x) (p_gen (x_p x)).
Definition applied_view (s : xstate) : state :=
  ST (xs_confs s) (map running_path (xs_paths s)) (xs_next s) (xs_crashed s).

(* every pending hand-over is received, oldest first *)
Definition settle (x : xpath) : running := fold_left apply_d (x_queue x) (x_running x).
Definition drain_path (x : xpath) : xpath := set_running x (settle x) [].
Definition drain (s : xstate) : xstate := XST (xs_confs s) (map drain_path (xs_paths s)) (xs_next s) (xs_crashed s).
Definition drain_ops (s : xstate) : list xop :=
  flat_map (fun x => repeat (XDeliver (p_name (x_p x)) O) (List.length (x_queue x))) (xs_paths s).
Definition quiet (s : xstate) : bool := forallb (fun x => match x_queue x with [] => true | _ => false end) (xs_paths s).
