(* Model of the local time zone behind recordstore.Path.Decode / Encode (C26, shared by C30 / C31):
   a zone-database zone as a finite table of transitions, Location.lookup, and time.Date's
   resolution of a wall-clock reading (go1.26 src/time/time.go, func Date):

       unix := <the civil fields taken as if they were UTC>
       _, offset, start, end, _ := loc.lookup(unix)
       if offset != 0 {
           utc := unix - int64(offset)
           if utc < start || utc >= end { _, offset, _, _, _ = loc.lookup(utc) }
           unix -= int64(offset)
       }

   The documentation promises only "a time that is correct in one of the two zones involved in the
   transition"; the model is the implementation. Executable; no proofs here.
   Periods are [start, end) with None = unbounded (Go: alpha = -1<<63, omega = 1<<63 - 1).
   The table lists the instants at which the offset changes (what the driver ships: the periods of
   Time.ZoneBounds with neighbours of equal offset merged). *)
From Coq Require Import List ZArith Bool.
Require Import MTX.Model.C26_RecPath.
Import ListNotations.
Local Open Scope Z_scope.

(* offset before the first transition; then (instant, offset from that instant on), ascending *)
Record zone := mkZone { z_first : Z; z_tx : list (Z * Z) }.

Definition period := (Z * option Z * option Z)%type.   (* offset, start, end *)

Fixpoint lookup_from (o : Z) (s : option Z) (tx : list (Z * Z)) (x : Z) : period :=
  match tx with
  | [] => (o, s, None)
  | (w, o') :: r => if x <? w then (o, s, Some w) else lookup_from o' (Some w) r x
  end.

(* Location.lookup(x) *)
Definition lookup (z : zone) (x : Z) : period := lookup_from (z_first z) None (z_tx z) x.

(* ---- everything below is written over an arbitrary lookup function, so that the proofs can be
   done once for every function with the two zone-database properties (Proofs/C26_Zone.v) *)

Definition lk_off (lk : Z -> period) (x : Z) : Z := fst (fst (lk x)).

Definition before (s : option Z) (x : Z) : bool := match s with Some s => x <? s | None => false end.
Definition notbefore (e : option Z) (x : Z) : bool := match e with Some e => e <=? x | None => false end.

(* the offset time.Date subtracts from the wall-clock reading w *)
Definition date_off (lk : Z -> period) (w : Z) : Z :=
  let '(o1, s, e) := lk w in
  if o1 =? 0 then 0
  else let utc := w - o1 in
       if before s utc || notbefore e utc then lk_off lk utc else o1.

(* u lies in an hour that the local clock shows twice: within (a - b) before a transition at which the
   offset drops from a to b (first pass), or within (a' - a) after one at which it dropped from a' to a
   (second pass) *)
Definition first_pass (lk : Z -> period) (u : Z) : bool :=
  let '(a, _, e) := lk u in
  match e with Some e => let b := lk_off lk e in (b <? a) && (e - (a - b) <=? u) | None => false end.
Definition second_pass (lk : Z -> period) (u : Z) : bool :=
  let '(a, s, _) := lk u in
  match s with Some s => let a' := lk_off lk (s - 1) in (a <? a') && (u <? s + (a' - a)) | None => false end.
Definition in_repeat (lk : Z -> period) (u : Z) : bool := first_pass lk u || second_pass lk u.

(* the other instant with the same wall-clock reading *)
Definition twin (lk : Z -> period) (u : Z) : Z :=
  let '(a, s, e) := lk u in
  if first_pass lk u then match e with Some e => u + (a - lk_off lk e) | None => u end
  else match s with Some s => u - (lk_off lk (s - 1) - a) | None => u end.

(* the transition instant of the repeated hour u lies in *)
Definition repeat_at (lk : Z -> period) (u : Z) : Z :=
  let '(_, s, e) := lk u in
  if first_pass lk u then match e with Some e => e | None => 0 end
  else match s with Some s => s | None => 0 end.

(* ---- the table instance *)

Definition offset_at (z : zone) : Z -> Z := lk_off (lookup z).
Definition go_date_off (z : zone) : Z -> Z := date_off (lookup z).
Definition lz_of_zone (z : zone) : lzone := mkLZ (go_date_off z) (offset_at z).

(* the two properties of a zone database, with the bound made explicit: offsets within B seconds of
   UTC, and successive changes more than 2B apart (tzdata: |offset| <= 15 h 56 min; the closest pair
   of changes the driver met between 1995 and 2042 in 16 zones is 503 h apart) *)
Fixpoint spaced (d : Z) (tx : list (Z * Z)) : bool :=
  match tx with
  | [] => true
  | (w1, _) :: r => match r with [] => true | (w2, _) :: _ => (w1 + d <? w2) && spaced d r end
  end.

Definition zone_ok (B : Z) (z : zone) : bool :=
  (0 <=? B) && (Z.abs (z_first z) <=? B) && forallb (fun t => Z.abs (snd t) <=? B) (z_tx z)
  && spaced (2 * B) (z_tx z).

(* Path.Decode in the zone z *)
Definition decode_zone (z : zone) (f v : list Z) : option (list Z * Z * Z) := decode_lz (lz_of_zone z) f v.

(* the instant u as the recorder holds it (time.Time in time.Local) *)
Definition local_instant (z : zone) (u n : Z) : instant := mkI u n (offset_at z u).
