(* Model of the path manager's admission of readers and publishers
   (internal/core/path_manager.go: findPathConf, doFindPathConf, doDescribe, doAddReader, doAddPublisher, doReloadConf as
   far as pm.pathConfs is concerned; internal/defs/path_access_request.go: ToAuthRequest). Executable; no proofs here.

   - a configuration (a conf.Path value) is the identity of its reflect.DeepEqual class (Path.Equal = reflect.DeepEqual);
   - pm.pathConfs is an association list key -> configuration, resolution is C14's `find` behind C06's validation
     (pathManager.findPathConf = IsValidPathName, then conf.FindPathConf);
   - the authentication manager is an oracle `auth publish name creds ip` (= authManager.Authenticate(req) returned no
     error, where req = ToAuthRequest(): Action is publish iff the request's Publish flag is set, Path = Name,
     Credentials and IP are the request's own); it does not depend on pm.pathConfs. The manager object lives as long as
     the path manager, but its internal users can be hot-reloaded (ReloadInternalUsers): `auth` is the manager's
     decision at the moment of the authenticating call (each call, and each flow, authenticates at most once);
   - what the path itself does with an admitted request (path.addReader / addPublisher / describe) can only refuse
     further; `Attached k n` = the path manager handed the request to the path object of name n. *)
From Coq Require Import List ZArith Bool String.
Require Import MTX.Model.C14_PathConf.
Import ListNotations.
Local Open Scope Z_scope.

Definition conf := Z.
Definition confs := list (str * conf).

Inductive kind := KDescribe | KReader | KPublisher.

(* the action a client performs by a call of that kind *)
Definition kind_publish (k : kind) : bool := match k with KPublisher => true | _ => false end.

Definition kind_eqb (a b : kind) : bool :=
  match a, b with
  | KDescribe, KDescribe | KReader, KReader | KPublisher, KPublisher => true
  | _, _ => false
  end.

Inductive reject := EInvalid | ENotConfigured | EAuth | EConfChanged.

Section PM.
  Context {Cr Ip : Type}.
  Variable m : str -> str -> option (list str).      (* regexp oracle, as in C14 *)
  Variable auth : bool -> str -> Cr -> Ip -> bool.   (* publish? name credentials ip *)

  (* defs.PathAccessRequest: Name, Publish, SkipAuth, Credentials, IP *)
  Record areq := AR { r_name : str; r_publish : bool; r_skip : bool; r_creds : Cr; r_ip : Ip }.

  Inductive call :=
  | CFind (r : areq)                                  (* FindPathConf *)
  | CAdd (k : kind) (r : areq) (ctc : option conf)    (* Describe / AddReader / AddPublisher; ConfToCompare exists in
                                                         PathAddPublisherReq only and is consulted for KPublisher only *)
  | CReload (nc : confs).                             (* ReloadPathConfs *)

  Inductive event :=
  | Authenticated (publish : bool) (n : str) (c : Cr) (i : Ip)
  | Resolved (n key : str) (c : conf)                 (* FindPathConf's answer: PathFindPathConfRes.Conf *)
  | Attached (k : kind) (n : str)
  | Rejected (e : reject).

  (* pathManager.findPathConf *)
  Definition resolve (cs : confs) (n : str) : result conf :=
    if valid_name n then find m cs n else ErrInvalid.

  Definition authenticate (r : areq) : bool := auth (r_publish r) (r_name r) (r_creds r) (r_ip r).
  Definition ev_auth (r : areq) : event := Authenticated (r_publish r) (r_name r) (r_creds r) (r_ip r).

  (* doFindPathConf: authenticates whatever SkipAuth says *)
  Definition do_find (cs : confs) (r : areq) : list event :=
    match resolve cs (r_name r) with
    | Found k c _ => if authenticate r then [ev_auth r; Resolved (r_name r) k c] else [Rejected EAuth]
    | ErrInvalid => [Rejected EInvalid]
    | ErrNotConfigured => [Rejected ENotConfigured]
    end.

  Definition conf_changed (k : kind) (c : conf) (ctc : option conf) : bool :=
    match k, ctc with
    | KPublisher, Some c0 => negb (c =? c0)
    | _, _ => false
    end.

  (* doDescribe / doAddReader / doAddPublisher *)
  Definition do_add (cs : confs) (k : kind) (r : areq) (ctc : option conf) : list event :=
    match resolve cs (r_name r) with
    | Found _ c _ =>
        if conf_changed k c ctc then [Rejected EConfChanged]
        else if r_skip r then [Attached k (r_name r)]
        else if authenticate r then [ev_auth r; Attached k (r_name r)]
        else [Rejected EAuth]
    | ErrInvalid => [Rejected EInvalid]
    | ErrNotConfigured => [Rejected ENotConfigured]
    end.

  Definition step (cs : confs) (c : call) : confs * list event :=
    match c with
    | CFind r => (cs, do_find cs r)
    | CAdd k r ctc => (cs, do_add cs k r ctc)
    | CReload nc => (nc, [])
    end.

  (* a trace: every call with the events it produced *)
  Fixpoint run (cs : confs) (l : list call) : list (call * list event) :=
    match l with
    | [] => []
    | c :: r => let '(cs', evs) := step cs c in (c, evs) :: run cs' r
    end.

  Fixpoint final (cs : confs) (l : list call) : confs :=
    match l with
    | [] => cs
    | c :: r => final (fst (step cs c)) r
    end.

  (* ---- the flows the servers build from these calls ---- *)

  (* what a server does, as far as the go/ast pass can see it:
     FSingle k publish skip            one Describe/AddReader/AddPublisher call
     FFindOnly                         a FindPathConf call that is not followed by an attachment (page / OPTIONS checks)
     FTwoStep k p1 p2 same ctc         FindPathConf (Publish = p1), later Add (Publish = p2, SkipAuth = true);
                                       same: the second call names the path with the first call's name expression;
                                       ctc: ConfToCompare is the configuration returned by the first call *)
  Inductive flow :=
  | FSingle (k : kind) (publish skip : bool)
  | FFindOnly
  | FTwoStep (k : kind) (p1 p2 same ctc : bool).

  Definition flow_ok (f : flow) : bool :=
    match f with
    | FSingle k p s => negb s && Bool.eqb p (kind_publish k)
    | FFindOnly => true
    | FTwoStep k p1 p2 same ctc =>
        Bool.eqb p1 (kind_publish k) && Bool.eqb p2 (kind_publish k) && same
        && (if kind_publish k then ctc else true)
    end.

  (* everything the go/ast pass cannot see is universally quantified: both names, both credentials and addresses,
     the ConfToCompare used when it is not the first call's answer *)
  Record env := ENV { e_n1 : str; e_n2 : str; e_cr1 : Cr; e_cr2 : Cr; e_ip1 : Ip; e_ip2 : Ip; e_ctc : option conf }.

  Definition find_answer (evs : list event) : option conf :=
    match evs with
    | [Authenticated _ _ _ _; Resolved _ _ c] => Some c
    | _ => None
    end.

  (* the events of the attaching call of a flow started under cs0, with the reloads rl arriving before it
     (for a two-step flow: between the two calls); a server whose first call fails does not make the second *)
  Definition flow_events (f : flow) (e : env) (cs0 : confs) (rl : list confs) : list event :=
    let cs := last rl cs0 in
    match f with
    | FSingle k p s => do_add cs k (AR (e_n1 e) p s (e_cr1 e) (e_ip1 e)) (e_ctc e)
    | FFindOnly => do_find cs (AR (e_n1 e) false false (e_cr1 e) (e_ip1 e))
    | FTwoStep k p1 p2 same ctc =>
        match find_answer (do_find cs0 (AR (e_n1 e) p1 false (e_cr1 e) (e_ip1 e))) with
        | None => []
        | Some c => do_add cs k (AR (if same then e_n1 e else e_n2 e) p2 true (e_cr2 e) (e_ip2 e))
                           (if ctc then Some c else e_ctc e)
        end
    end.

  Definition conf_of_result (r : result conf) : option conf :=
    match r with Found _ c _ => Some c | _ => None end.

  (* the same flow as a trace of path-manager calls (Proofs: the last entry of `run cs0 (flow_calls ...)` carries
     exactly `flow_events ...`) *)
  Definition flow_calls (f : flow) (e : env) (cs0 : confs) (rl : list confs) : list call :=
    match f with
    | FSingle k p s => map CReload rl ++ [CAdd k (AR (e_n1 e) p s (e_cr1 e) (e_ip1 e)) (e_ctc e)]
    | FFindOnly => map CReload rl ++ [CFind (AR (e_n1 e) false false (e_cr1 e) (e_ip1 e))]
    | FTwoStep k p1 p2 same ctc =>
        let first := CFind (AR (e_n1 e) p1 false (e_cr1 e) (e_ip1 e)) in
        match find_answer (do_find cs0 (AR (e_n1 e) p1 false (e_cr1 e) (e_ip1 e))) with
        | None => [first]
        | Some c => first :: map CReload rl
                    ++ [CAdd k (AR (if same then e_n1 e else e_n2 e) p2 true (e_cr2 e) (e_ip2 e))
                             (if ctc then Some c else e_ctc e)]
        end
    end.
End PM.

Arguments areq : clear implicits.
Arguments call : clear implicits.
Arguments event : clear implicits.
Arguments env : clear implicits.

(* End to end (Check/C03.v, E2E cases), model side: the flow the servers build (publishers of RTSP / RTMP / WebRTC / SRT: FindPathConf, then
   AddPublisher with SkipAuth and ConfToCompare; every reader: one authenticated AddReader), run on the model with the
   name's configuration as a static entry and the oracle's verdict for the requested name. The path itself may still
   refuse a reader (no stream). *)
Definition e2e_confs (n : str) (c : option Z) : confs := match c with Some c => [(n, c)] | None => [] end.

Definition e2e_flow (publish : bool) : flow :=
  if publish then FTwoStep KPublisher true true true true else FSingle KReader false false.

Definition has_attached (evs : list (event Z Z)) : bool :=
  existsb (fun e => match e with Attached _ _ => true | _ => false end) evs.

Definition e2e_model (publish : bool) (n : str) (cr ip : Z) (conf0 : option Z) (reload : option (option Z))
           (oracle_req : bool) : bool :=
  has_attached
    (flow_events (fun _ _ => None)
                 (fun p n' c i => Bool.eqb p publish && str_eqb n' n && (c =? cr) && (i =? ip) && oracle_req)
                 (e2e_flow publish) (ENV n n cr cr ip ip None) (e2e_confs n conf0)
                 (match reload with Some c1 => [e2e_confs n c1] | None => [] end)).

(* the configuration serving the name when the attaching call is made *)
Definition e2e_in_force (conf0 : option Z) (reload : option (option Z)) : option Z :=
  match reload with Some c1 => c1 | None => conf0 end.
