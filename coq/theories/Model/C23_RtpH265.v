(* Model of gortsplib v5 pkg/format/rtph265: Encoder (Init, Encode, writeBatch, writeSingle,
   writeFragmentationUnits, lenAggregationUnit, writeAggregationUnit) and Decoder (decodeNALUs, Decode),
   the packetizer mediamtx uses for H.265 (internal/stream/rtp_encoder.go: MaxDONDiff must be 0, otherwise
   Init fails and no encoder exists). Executable; no proofs here.

   Shares packet / enc / bump / packet_count / len_agg_list / stap_entry (16-bit big-endian size + NAL unit) /
   split_nalus / dout / stamp with Model/C23_RtpH264.v. Differences to H.264: two-byte NAL unit header, the
   aggregation packet has a two-byte header (type 48, lowest layer id / temporal id of its NAL units), the
   fragmentation unit a three-byte one (type 49), the encoder returns an error for a NAL unit shorter than two
   bytes inside an aggregation packet, the decoder has no Annex-B mode, does not look at timestamps and accepts
   at most 21 NAL units per access unit.

   Fragmentation with PayloadMaxSize <= 3 is outside the encoder's domain (Go: integer division by zero for 3;
   a negative `make` or a silently dropped NAL unit below): Panic in the model. *)
From Coq Require Import List ZArith Bool.
Require Import MTX.Lib.IntWrap MTX.Model.C23_RtpH264.
Import ListNotations.
Local Open Scope Z_scope.

(* the result of an encoder call as the glue wants it: inl (Ok _) | inl Panic | inr e' (an error was returned;
   e' = the encoder afterwards: batches written before the failing one have consumed sequence numbers) *)
Notation eres := (res (list packet * enc) + enc)%type (only parsing).

(* ------------------------------------------------------------------ encoder *)

(* lenAggregationUnit(nalus, addNALU) *)
Definition len_agg5 (nalus : list bytes) (add : option bytes) : Z :=
  2 + len_agg_list nalus + match add with Some n => 2 + blen n | None => 0 end.

(* the loop of writeFragmentationUnits: k packets left, start bit, rest of the NAL unit;
   h0 h1 = data[0], data[1]; typ = (head[0]>>1)&63 *)
Fixpoint frag5_loop (k : nat) (avail : nat) (h0 h1 typ : Z) (start : Z) (marker : bool) (body : bytes) (e : enc)
    : list packet * enc :=
  match k with
  | O => ([], e)
  | S k' =>
      let last := match k' with O => true | _ => false end in
      let le := if last then length body else avail in
      let en := if last then 1 else 0 in
      let data := h0 :: h1 :: Z.lor (Z.lor (Z.shiftl start 7) (Z.shiftl en 6)) typ :: firstn le body in
      let pkt := mkpkt e.(e_seq) 0 (last && marker) e.(e_ssrc) data in
      let '(r, e') := frag5_loop k' avail h0 h1 typ 0 marker (skipn le body) (bump e) in
      (pkt :: r, e')
  end.

Definition fu5_h0 (b0 : Z) : Z := Z.lor (Z.land b0 129) 98.       (* head[0]&0b10000001 | 49<<1 *)
Definition fu5_typ (b0 : Z) : Z := Z.land (Z.shiftr b0 1) 63.     (* (head[0]>>1)&0b111111 *)

Definition write_fragmented5 (e : enc) (nalu : bytes) (marker : bool) : res (list packet * enc) :=
  let avail := e.(e_max) - 3 in
  let le := blen nalu - 2 in
  if avail <=? 0 then Panic
  else match nalu with
       | b0 :: b1 :: body =>
           let pc := packet_count avail le in
           Ok (frag5_loop (Z.to_nat pc) (Z.to_nat avail) (fu5_h0 b0) b1 (fu5_typ b0) 1 marker body e)
       | _ => Panic
       end.

(* the lowest layer id and temporal id of the batch, starting from 0xFF, 0xFF *)
Definition nal_layer (n : bytes) : Z :=
  match n with b0 :: b1 :: _ => Z.lor (Z.shiftl (Z.land b0 1) 5) (Z.land (Z.shiftr b1 3) 31) | _ => 255 end.
Definition nal_tid (n : bytes) : Z :=
  match n with _ :: b1 :: _ => Z.land b1 7 | _ => 255 end.

Fixpoint min_ids (nalus : list bytes) (layer tid : Z) : Z * Z :=
  match nalus with
  | [] => (layer, tid)
  | n :: r => min_ids r (if nal_layer n <? layer then nal_layer n else layer)
                        (if nal_tid n <? tid then nal_tid n else tid)
  end.

Definition agg5_payload (nalus : list bytes) : bytes :=
  let '(layer, tid) := min_ids nalus 255 255 in
  Z.lor 96 (Z.land layer 32) :: Z.lor (Z.shiftl (Z.land layer 31) 3) (Z.land tid 7)
  :: concat (map stap_entry nalus).

(* writeAggregationUnit: "invalid NALU" when one of them is shorter than two bytes *)
Definition write_aggregated5 (e : enc) (nalus : list bytes) (marker : bool) : eres :=
  if existsb (fun n => blen n <? 2) nalus then inr e
  else inl (Ok ([mkpkt e.(e_seq) 0 marker e.(e_ssrc) (agg5_payload nalus)], bump e)).

Definition write_batch5 (e : enc) (nalus : list bytes) (marker : bool) : eres :=
  match nalus with
  | [n] => if blen n <? e.(e_max) then inl (Ok (write_single e n marker)) else inl (write_fragmented5 e n marker)
  | _ => write_aggregated5 e nalus marker
  end.

(* the loop of Encode; batch = [] is the nil batch before the first NAL unit *)
Fixpoint enc5_loop (e : enc) (au : list bytes) (batch : list bytes) : eres :=
  match au with
  | [] => write_batch5 e batch true
  | nalu :: r =>
      if len_agg5 batch (Some nalu) <=? e.(e_max) then enc5_loop e r (batch ++ [nalu])
      else match batch with
           | [] => enc5_loop e r [nalu]
           | _ => match write_batch5 e batch false with
                  | inl (Ok (pkts, e')) =>
                      match enc5_loop e' r [nalu] with
                      | inl (Ok (pkts', e'')) => inl (Ok (pkts ++ pkts', e''))
                      | other => other
                      end
                  | other => other
                  end
           end
  end.

Definition h265_encode (e : enc) (au : list bytes) : eres := enc5_loop e au [].

(* a sequence of access units through one encoder (None: an error or a panic on the way) *)
Fixpoint h265_encode_run (e : enc) (aus : list (list bytes)) : option (list (list packet) * enc) :=
  match aus with
  | [] => Some ([], e)
  | au :: r =>
      match h265_encode e au with
      | inl (Ok (pkts, e')) =>
          match h265_encode_run e' r with
          | Some (rest, e'') => Some (pkts :: rest, e'')
          | None => None
          end
      | _ => None
      end
  end.

(* ------------------------------------------------------------------ decoder *)

Definition max_au_size5 : Z := 8388608.    (* h265.MaxAccessUnitSize = 8 MiB *)
Definition max_nalus5 : Z := 21.           (* h265.MaxNALUsPerAccessUnit *)

Record dec5 := mkdec5 {
  d5_first : bool;             (* firstPacketReceived *)
  d5_frags : bytes;            (* fragments, kept joined (the first one is the rebuilt two-byte header) *)
  d5_fsize : Z;                (* fragmentsSize *)
  d5_next : Z;                 (* fragmentNextSeqNum *)
  d5_fb : list bytes;          (* frameBuffer; nil = [] *)
  d5_fblen : Z; d5_fbsize : Z }.

Definition dec5_init : dec5 := mkdec5 false [] 0 0 [] 0 0.

Definition reset_frags5 (d : dec5) : dec5 :=
  mkdec5 d.(d5_first) [] 0 d.(d5_next) d.(d5_fb) d.(d5_fblen) d.(d5_fbsize).
Definition set_first5 (d : dec5) : dec5 :=
  mkdec5 true d.(d5_frags) d.(d5_fsize) d.(d5_next) d.(d5_fb) d.(d5_fblen) d.(d5_fbsize).
Definition set_frags5 (d : dec5) (fr : bytes) (fs nx : Z) : dec5 :=
  mkdec5 d.(d5_first) fr fs nx d.(d5_fb) d.(d5_fblen) d.(d5_fbsize).
Definition reset_fb5 (d : dec5) : dec5 :=
  mkdec5 d.(d5_first) d.(d5_frags) d.(d5_fsize) d.(d5_next) [] 0 0.

(* the aggregation unit loop; None = "invalid aggregation unit (invalid size)" *)
Fixpoint agg5_loop (fuel : nat) (payload : bytes) (acc : list bytes) : option (list bytes) :=
  match fuel with
  | O => None
  | S f =>
      match payload with
      | hi :: lo :: rest =>
          let size := Z.lor (Z.shiftl hi 8) lo in
          if (size =? 0) || (size >? blen rest) then None
          else let acc' := acc ++ [firstn (Z.to_nat size) rest] in
               match skipn (Z.to_nat size) rest with
               | [] => Some acc'
               | rest' => agg5_loop f rest' acc'
               end
      | _ => None
      end
  end.

Definition decode5_nalus (d : dec5) (pkt : packet) : dec5 * (list bytes + dout) :=
  match pkt.(p_payload) with
  | b0 :: b1 :: rest =>
      let typ := Z.land (Z.shiftr b0 1) 63 in
      if typ =? 48 then
        let d1 := reset_frags5 d in
        match agg5_loop (S (length rest)) rest [] with
        | None => (d1, inr DErr)
        | Some nalus => (set_first5 d1, inl nalus)
        end
      else if typ =? 49 then
        match rest with
        | [] => (reset_frags5 d, inr DErr)
        | b2 :: body =>
            let start := Z.shiftr b2 7 in
            let en := Z.land (Z.shiftr b2 6) 1 in
            if start =? 1 then
              let d1 := reset_frags5 d in
              if negb (en =? 0) then (d1, inr DErr)
              else
                let t := Z.land b2 63 in
                let head := Z.lor (Z.lor (Z.shiftl (Z.land b0 129) 8) (Z.shiftl t 9)) b1 in
                (set_first5 (set_frags5 d1 (Z.land (Z.shiftr head 8) 255 :: Z.land head 255 :: body)
                                        (2 + blen body) (wrapu16 (pkt.(p_seq) + 1))), inr DMore)
            else if d.(d5_fsize) =? 0 then (d, inr (if d.(d5_first) then DErr else DNoPrev))
            else if negb (pkt.(p_seq) =? d.(d5_next)) then (reset_frags5 d, inr DErr)
            else
              let fs := d.(d5_fsize) + blen body in
              if fs >? max_au_size5 then (reset_frags5 d, inr DErr)
              else
                let d2 := set_frags5 d (d.(d5_frags) ++ body) fs (wrapu16 (d.(d5_next) + 1)) in
                if negb (en =? 1) then (d2, inr DMore)
                else (reset_frags5 d2, inl (split_nalus d2.(d5_frags)))
        end
      else if typ =? 50 then (reset_frags5 d, inr DErr)           (* PACI *)
      else (reset_frags5 d, inl [pkt.(p_payload)])
  | _ => (reset_frags5 d, inr DErr)                               (* payload is too short *)
  end.

(* Decode: the frame buffer (no timestamp check in this decoder) *)
Definition decode5 (d : dec5) (pkt : packet) : dec5 * dout :=
  match decode5_nalus d pkt with
  | (d1, inr o) => (d1, o)
  | (d1, inl nalus) =>
      let l := blen nalus in
      if d1.(d5_fblen) + l >? max_nalus5 then (reset_fb5 d1, DErr)
      else if d1.(d5_fbsize) + au_size nalus >? max_au_size5 then (reset_fb5 d1, DErr)
      else
        let fb := d1.(d5_fb) ++ nalus in
        if pkt.(p_marker) then (reset_fb5 d1, DOk fb)
        else (mkdec5 d1.(d5_first) d1.(d5_frags) d1.(d5_fsize) d1.(d5_next) fb (d1.(d5_fblen) + l)
                     (d1.(d5_fbsize) + au_size nalus), DMore)
  end.

Fixpoint decode5_run (d : dec5) (pkts : list packet) : list dout * dec5 :=
  match pkts with
  | [] => ([], d)
  | p :: r => let '(d1, o) := decode5 d p in let '(os, d2) := decode5_run d1 r in (o :: os, d2)
  end.
