(* C28 — directory level: what the /list and /get handlers of internal/playback do with the files FindSegments
   selected from a recording directory, when any of those files may be unparsable (zero-filled, truncated, foreign).

     on_list.go   parseSegments (one goroutine per file, errors collected from a channel in completion order),
                  concatenateSegments (dereferences every slot of the parsed list), parseAndConcatenate, and the
                  tail of onList (entries[0], entries[1:], entries[len(entries)-1]);
     on_get.go    seekAndMux over the selected files (segments[0], header / mux errors of the first and of later
                  files, the `mtxi.DTS` dereference).

   The outcome of the per-file code on one file (parseSegment, segmentFMP4ReadHeader, segmentFMP4MuxParts) is a
   `res` value (Ok v | Err | Panic why) - Model/C28_SegRead.v says which; here it is an argument.
   Outcomes are panic-explicit: a nil dereference and an index out of range are `Panic`.
   Instants and durations are integers (ns); time.Time / time.Duration saturation is not modelled. *)
From Coq Require Import List ZArith Bool Lia.
Require Import MTX.Lib.IntWrap MTX.Model.C28_SegRead.
Import ListNotations.
Local Open Scope Z_scope.

Definition dtrack := (Z * Z * Z)%type.        (* ID, TimeScale, codec type tag *)

(* *parsedSegment / the *fmp4.Init of a file as far as the directory code looks at it *)
Record pseg := PS { p_start : Z; p_dur : Z; p_mtxi : seg_mtxi; p_tracks : list dtrack }.

Definition tolerance : Z := 1000000000.       (* concatenationTolerance *)

Definition dtrack_eqb (a b : dtrack) : bool :=
  (fst (fst a) =? fst (fst b)) && (snd (fst a) =? snd (fst b)) && (snd a =? snd b).
(* segmentFMP4TracksAreEqual *)
Fixpoint dtracks_eqb (a b : list dtrack) : bool :=
  match a, b with
  | [], [] => true
  | x :: a', y :: b' => dtrack_eqb x y && dtracks_eqb a' b'
  | _, _ => false
  end.

(* segmentFMP4CanBeConcatenated(prevInit, prevEnd, curInit, curStart) *)
Definition can_cat (prev : pseg) (prev_end : Z) (cur : pseg) : bool :=
  can_concat (dtracks_eqb prev.(p_tracks) cur.(p_tracks)
              && (prev_end - tolerance <=? cur.(p_start)) && (cur.(p_start) <=? prev_end + tolerance))
             prev.(p_mtxi) cur.(p_mtxi).

(* ---------------- parseSegments ---------------- *)
(* goroutine i runs  parsed[i], err = parseSegment(seg); ch <- err : the slot stays nil unless the call succeeded *)
Definition slot (r : res pseg) : option pseg := match r with Ok p => Some p | _ => None end.
(* the value sent on the channel: true = a non-nil error *)
Definition sent (r : res pseg) : bool := match r with Err => true | _ => false end.
Fixpoint first_panic (rs : list (res pseg)) : option why :=
  match rs with
  | [] => None
  | Panic w :: _ => Some w
  | _ :: r => first_panic r
  end.

(* the collecting loop  `for range segments { err2 := <-ch; if err2 != nil { err = err2 } }`.
   KeepAny is the code; KeepLast is the variant `err = <-ch` (only the last-finishing goroutine's result survives) *)
Inductive collector := KeepAny | KeepLast.
Fixpoint collect (c : collector) (received : list bool) (err : bool) : bool :=
  match received with
  | [] => err
  | e :: r => collect c r (match c with KeepAny => if e then true else err | KeepLast => e end)
  end.

(* sched = the order in which the goroutines' sends are received (goroutine indices; each goroutine sends once and
   the loop receives len(segments) times, so it is a permutation of 0..n-1).
   A panic inside a goroutine is not recoverable by the handler: the process dies. *)
Definition parse_segments (c : collector) (rs : list (res pseg)) (sched : list nat) : res (list (option pseg) * bool) :=
  match first_panic rs with
  | Some w => Panic w
  | None => Ok (map slot rs, collect c (map (fun i => sent (nth i rs Err)) sched) false)
  end.

(* ---------------- concatenateSegments ---------------- *)
Record lentry := LE { le_start : Z; le_dur : Z }.

(* out is kept most recent first; prev = prevInit (the previous parsed segment) *)
Fixpoint concat_loop (l : list (option pseg)) (out : list lentry) (prev : option pseg) : res (list lentry) :=
  match l with
  | [] => Ok (rev out)
  | None :: _ => Panic NilDeref                                  (* parsed.init / parsed.start with parsed == nil *)
  | Some p :: r =>
    match out, prev with
    | e :: out', Some pi =>
        if can_cat pi (e.(le_start) + e.(le_dur)) p
        then concat_loop r (LE e.(le_start) (p.(p_start) + p.(p_dur) - e.(le_start)) :: out') (Some p)
        else concat_loop r (LE p.(p_start) p.(p_dur) :: out) (Some p)
    | _, _ => concat_loop r (LE p.(p_start) p.(p_dur) :: out) (Some p)
    end
  end.
Definition concatenate_segments (l : list (option pseg)) : res (list lentry) := concat_loop l [] None.

(* parseAndConcatenate (fMP4): Err = the error answered with status 500 *)
Definition parse_and_concatenate (c : collector) (rs : list (res pseg)) (sched : list nat) : res (list lentry) :=
  match parse_segments c rs sched with
  | Panic w => Panic w
  | Err => Err
  | Ok (parsed, err) => if err then Err else concatenate_segments parsed
  end.

(* ---------------- onList after FindSegments ---------------- *)
Inductive lstatus := L200 (es : list lentry) | L400 | L404 | L500.

(* `if start != nil { firstEntry := entries[0] ... }` : Ok None = 404 *)
Definition clip_start (st : Z) (es : list lentry) : res (option (list lentry)) :=
  match es with
  | [] => Panic OutOfRange
  | f :: rest =>
      if f.(le_start) + f.(le_dur) <? st then
        match rest with [] => Ok None | _ => Ok (Some rest) end
      else if f.(le_start) <? st then Ok (Some (LE st (f.(le_dur) - (st - f.(le_start))) :: rest))
      else Ok (Some es)
  end.
(* `if end != nil { lastEntry := entries[len(entries)-1] ... }` *)
Definition clip_end (en : Z) (es : list lentry) : res (list lentry) :=
  match rev es with
  | [] => Panic OutOfRange
  | l :: r => if en <? l.(le_start) + l.(le_dur) then Ok (rev (LE l.(le_start) (en - l.(le_start)) :: r)) else Ok es
  end.

(* found = the per-file outcome of parseSegment for the files FindSegments returned, in its order;
   [] = FindSegments returned ErrNoSegmentsFound (it never returns an empty list without an error) *)
Definition on_list_dir (c : collector) (found : list (res pseg)) (sched : list nat) (start end_ : option Z)
  : res lstatus :=
  if match start, end_ with Some s, Some e => e <? s | _, _ => false end then Ok L400 else
  match found with
  | [] => Ok L404
  | _ =>
    match parse_and_concatenate c found sched with
    | Panic w => Panic w
    | Err => Ok L500
    | Ok es =>
      match (match start with None => Ok (Some es) | Some st => clip_start st es end) with
      | Panic w => Panic w
      | Err => Err
      | Ok None => Ok L404
      | Ok (Some es1) =>
        match end_ with
        | None => Ok (L200 es1)
        | Some en =>
          match clip_end en es1 with
          | Panic w => Panic w | Err => Err
          | Ok es2 => Ok (L200 es2)
          end
        end
      end
    end
  end.

(* ---------------- seekAndMux over the selected files ---------------- *)
(* one selected file: g_hdr = outcome of segmentFMP4ReadHeader (as a pseg whose p_start is the start decoded from
   the file name; p_dur is not looked at), g_mux = outcome of segmentFMP4MuxParts on it (the segment duration) *)
Record gfile := GF { g_hdr : res pseg; g_mux : res Z }.

(* the loop over segments[1:]; n = number of files muxed so far *)
Fixpoint get_loop (first : seg_mtxi) (prev : pseg) (prev_end : Z) (segs : list gfile) (n : Z) : res Z :=
  match segs with
  | [] => Ok n
  | s :: rest =>
    match s.(g_hdr) with
    | Panic w => Panic w
    | Err => Err
    | Ok init =>
      if can_cat prev prev_end init then
        match first, init.(p_mtxi) with
        | Some _, None => Panic NilDeref                           (* mtxi.DTS with mtxi == nil *)
        | _, _ =>
          match s.(g_mux) with
          | Panic w => Panic w
          | Err => Err
          | Ok d => get_loop first init (init.(p_start) + d) rest (n + 1)
          end
        end
      else Ok n
    end
  end.

(* GBadFirst = the header of segments[0] could not be read: nothing has been written, the answer is status 400;
   GMuxed n = n files were muxed and flush() was reached; GFailed = an error after the first header (the answer is
   400 / 404 when nothing has been written yet, else the 200 response is cut) *)
Inductive gclass := GNotFound | GBadFirst | GFailed | GMuxed (n : Z).

Definition on_get_dir (found : list gfile) : res gclass :=
  match found with
  | [] => Ok GNotFound                                              (* FindSegments: ErrNoSegmentsFound *)
  | f :: rest =>
    match f.(g_hdr) with
    | Panic w => Panic w
    | Err => Ok GBadFirst
    | Ok init =>
      match f.(g_mux) with
      | Panic w => Panic w
      | Err => Ok GFailed
      | Ok d =>
        match get_loop init.(p_mtxi) init (init.(p_start) + d) rest 1 with
        | Panic w => Panic w
        | Err => Ok GFailed
        | Ok n => Ok (GMuxed n)
        end
      end
    end
  end.

(* ---------------- the per-file outcomes, taken from the byte-level model of Model/C28_SegRead.v ---------------- *)
(* a file of the directory with everything the third-party decoders may answer on it (arbitrary functions) *)
Record dfile := DF {
  f_data : bytes;
  f_start : Z;                                         (* start instant decoded from the file name *)
  f_mvhd : Z -> Z -> mvhd_res;
  f_init : Z -> init_res;
  f_tfhd : Z -> Z -> option Z;
  f_tfdt : Z -> Z -> option Z;
  f_trun : Z -> Z -> option (list Z);
  f_meta : list track -> seg_mtxi * list dtrack;       (* findMtxi(init.UserData) and the codec types of the decoded init *)
  f_events : list ev;                                  (* /get: what the box walk of go-mp4 delivers on this file *)
  f_dts : Z                                            (* /get: the dts seekAndMux computed for this file *)
}.

(* parseSegment on the file (current tree = all guards) *)
Definition file_parse (f : dfile) : res pseg :=
  match fst (parse_segment repaired f.(f_data) f.(f_mvhd) f.(f_init) f.(f_tfhd) f.(f_tfdt) f.(f_trun)) with
  | Ok (tracks, d) => Ok (PS f.(f_start) d (fst (f.(f_meta) tracks)) (snd (f.(f_meta) tracks)))
  | Err => Err
  | Panic w => Panic w
  end.

Definition file_tracks (f : dfile) : list track :=
  match fst (read_header repaired f.(f_data) f.(f_mvhd) f.(f_init)) with
  | Ok (Header tracks _) => tracks
  | _ => []
  end.

(* segmentFMP4ReadHeader and segmentFMP4MuxParts(f, dts, duration, firstInit.Tracks, m) on the file *)
Definition file_get (first_tracks : list track) (duration : Z) (f : dfile) : gfile :=
  GF (match fst (read_header repaired f.(f_data) f.(f_mvhd) f.(f_init)) with
      | Ok (Header tracks d) => Ok (PS f.(f_start) d (fst (f.(f_meta) tracks)) (snd (f.(f_meta) tracks)))
      | Err => Err
      | Panic w => Panic w
      end)
     (match fst (mux_parts repaired (len f.(f_data)) first_tracks f.(f_dts) duration f.(f_events)) with
      | Ok s => Ok s.(m_seg_dur)
      | Err => Err
      | Panic w => Panic w
      end).

(* /list and /get on the files FindSegments selected *)
Definition on_list_files (files : list dfile) (sched : list nat) (start end_ : option Z) : res lstatus :=
  on_list_dir KeepAny (map file_parse files) sched start end_.
Definition on_get_files (files : list dfile) (duration : Z) : res gclass :=
  on_get_dir (map (file_get (match files with f0 :: _ => file_tracks f0 | [] => [] end) duration) files).
