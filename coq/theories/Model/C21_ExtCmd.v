(* Model of internal/externalcmd (cmd.go, cmd_os.go), of github.com/kballard/go-shellquote.Split as that
   code uses it, of os.Expand (Go 1.26 os/env.go) and of os/exec.dedupEnv. Executable; no proofs here.
   Strings are lists of byte values. *)
From Coq Require Import List ZArith Bool.
Import ListNotations.
Local Open Scope Z_scope.

Definition bytes := list Z.

Fixpoint bytes_eqb (a b : bytes) : bool :=
  match a, b with
  | [], [] => true
  | x :: a', y :: b' => (x =? y) && bytes_eqb a' b'
  | _, _ => false
  end.

Definition is_nil {A} (l : list A) : bool := match l with [] => true | _ => false end.

Fixpoint memb (k : bytes) (l : list bytes) : bool :=
  match l with [] => false | x :: r => bytes_eqb k x || memb k r end.

Fixpoint index_of (c : Z) (s : bytes) : option nat :=
  match s with
  | [] => None
  | x :: r => if x =? c then Some O else match index_of c r with Some i => Some (S i) | None => None end
  end.

Fixpoint take_while (p : Z -> bool) (s : bytes) : bytes :=
  match s with [] => [] | x :: r => if p x then x :: take_while p r else [] end.

(* ------------------------------------------------------------------------------------------
   shellquote.Split: the function decodes runes, but every character it tests for is ASCII, every
   byte of a multi-byte sequence is >= 0x80 and an invalid byte is consumed alone, so a byte-level
   automaton is the same function. States: between words (STop), after a backslash between words
   (STopEsc: the look-ahead for an escaped newline), and the four labels of splitWord. *)

Inductive split_err := UntermSingle | UntermDouble | UntermEscape.
Inductive sstate := STop | STopEsc | SRaw | SEscape | SSingle | SDouble | SDoubleEsc.

Definition is_split_char (c : Z) : bool := (c =? 32) || (c =? 10) || (c =? 9).
(* doubleEscapeChars: dollar, backquote, double quote, newline, backslash *)
Definition is_double_escape (c : Z) : bool := (c =? 36) || (c =? 96) || (c =? 34) || (c =? 10) || (c =? 92).

(* buf (the word being built) and words are kept reversed *)
Fixpoint split_run (st : sstate) (buf : bytes) (words : list bytes) (s : bytes) : split_err + list bytes :=
  match s with
  | [] =>
      match st with
      | STop => inr (rev words)
      | STopEsc | SEscape => inl UntermEscape
      | SRaw => inr (rev (rev buf :: words))
      | SSingle => inl UntermSingle
      | SDouble | SDoubleEsc => inl UntermDouble
      end
  | c :: r =>
      match st with
      | STop =>
          if is_split_char c then split_run STop [] words r
          else if c =? 92 then split_run STopEsc [] words r
          else if c =? 39 then split_run SSingle [] words r
          else if c =? 34 then split_run SDouble [] words r
          else split_run SRaw [c] words r
      | STopEsc =>
          (* backslash-newline between words is skipped; otherwise the word starts with the escaped byte *)
          if c =? 10 then split_run STop [] words r else split_run SRaw [c] words r
      | SRaw =>
          if c =? 39 then split_run SSingle buf words r
          else if c =? 34 then split_run SDouble buf words r
          else if c =? 92 then split_run SEscape buf words r
          else if is_split_char c then split_run STop [] (rev buf :: words) r
          else split_run SRaw (c :: buf) words r
      | SEscape =>
          if c =? 10 then split_run SRaw buf words r else split_run SRaw (c :: buf) words r
      | SSingle =>
          if c =? 39 then split_run SRaw buf words r else split_run SSingle (c :: buf) words r
      | SDouble =>
          if c =? 34 then split_run SRaw buf words r
          else if c =? 92 then split_run SDoubleEsc buf words r
          else split_run SDouble (c :: buf) words r
      | SDoubleEsc =>
          if is_double_escape c
          then (if c =? 10 then split_run SDouble buf words r else split_run SDouble (c :: buf) words r)
          else split_run SDouble (c :: 92 :: buf) words r
      end
  end.

Definition shell_split (s : bytes) : split_err + list bytes := split_run STop [] [] s.

(* ------------------------------------------------------------------------------------------
   os.Expand *)

Definition is_digit (c : Z) : bool := (48 <=? c) && (c <=? 57).
(* the bytes * # $ @ ! ? - and 0..9 *)
Definition is_special_var (c : Z) : bool :=
  (c =? 42) || (c =? 35) || (c =? 36) || (c =? 64) || (c =? 33) || (c =? 63) || (c =? 45) || is_digit c.
Definition is_alnum (c : Z) : bool :=
  (c =? 95) || is_digit c || ((97 <=? c) && (c <=? 122)) || ((65 <=? c) && (c <=? 90)).

(* the scan to the closing brace; r1 is the text after the opening brace *)
Definition scan_brace (r1 : bytes) : bytes * nat :=
  match index_of 125 r1 with
  | None => ([], 1%nat)               (* bad syntax: eat dollar-brace *)
  | Some O => ([], 2%nat)             (* bad syntax: eat dollar-brace-brace *)
  | Some i => (firstn i r1, (i + 2)%nat)
  end.

(* getShellName(s) for non-empty s: (name, number of bytes consumed) *)
Definition get_shell_name (s : bytes) : bytes * nat :=
  match s with
  | [] => ([], O)
  | c :: r1 =>
      if c =? 123 then
        match r1 with
        | c1 :: c2 :: _ => if is_special_var c1 && (c2 =? 125) then ([c1], 3%nat) else scan_brace r1
        | _ => scan_brace r1
        end
      else if is_special_var c then ([c], 1%nat)
      else let n := take_while is_alnum s in (n, length n)
  end.

(* what a dollar followed by the non-empty text r stands for, and how many bytes of r it covers *)
Inductive piece := PLit (c : Z) | PVar (name : bytes).

Definition dollar_pieces (r : bytes) : list piece * nat :=
  let '(name, w) := get_shell_name r in
  (match name with
   | [] => if (0 <? w)%nat then [] else [PLit 36]
   | _ => [PVar name]
   end, w).

(* the template of one word, independent of any value *)
Fixpoint parse (skip : nat) (s : bytes) : list piece :=
  match s with
  | [] => []
  | c :: r =>
      match skip with
      | S k => parse k r
      | O => if (c =? 36) && negb (is_nil r)
             then let '(ps, w) := dollar_pieces r in ps ++ parse w r
             else PLit c :: parse 0 r
      end
  end.

Definition render (m : bytes -> bytes) (p : piece) : bytes :=
  match p with PLit c => [c] | PVar n => m n end.

(* os.Expand(s, m), transliterated: the i/j loop, with j += w as a skip counter *)
Fixpoint expand (m : bytes -> bytes) (skip : nat) (s : bytes) : bytes :=
  match s with
  | [] => []
  | c :: r =>
      match skip with
      | S k => expand m k r
      | O => if (c =? 36) && negb (is_nil r)
             then let '(name, w) := get_shell_name r in
                  (match name with
                   | [] => if (0 <? w)%nat then [] else [36]
                   | _ => m name
                   end) ++ expand m w r
             else c :: expand m 0 r
      end
  end.

Definition os_expand (m : bytes -> bytes) (s : bytes) : bytes := expand m 0 s.

(* expandEnv's mapping: the command's Env first, then the process environment *)
Fixpoint assoc (k : bytes) (l : list (bytes * bytes)) : option bytes :=
  match l with
  | [] => None
  | (k', v) :: r => if bytes_eqb k k' then Some v else assoc k r
  end.

Definition lookup (env base : list (bytes * bytes)) (name : bytes) : bytes :=
  match assoc name env with
  | Some v => v
  | None => match assoc name base with Some v => v | None => [] end
  end.

(* runOSSpecific: split first, then expand each word separately *)
Definition argv (t : bytes) (env base : list (bytes * bytes)) : split_err + list bytes :=
  match shell_split t with
  | inl e => inl e
  | inr ws => inr (map (os_expand (lookup env base)) ws)
  end.

(* ------------------------------------------------------------------------------------------
   the child's environment: os.Environ() followed by key=value of Env, through exec's dedupEnv
   (last occurrence of a key wins, order kept) *)

Definition entry (kv : bytes * bytes) : bytes := fst kv ++ 61 :: snd kv.

Definition has_nul (e : bytes) : bool := existsb (fun c => c =? 0) e.

(* key of an entry as dedupEnvCase computes it; None = no equals sign at all *)
Definition env_key (e : bytes) : option bytes :=
  match index_of 61 e with
  | None => None
  | Some O => match index_of 61 (tl e) with
              | None => Some []
              | Some j => Some (firstn (S j) e)
              end
  | Some i => Some (firstn i e)
  end.

(* l is the environment in reverse order *)
Fixpoint dedup_rev (saw : list bytes) (l : list bytes) : list bytes :=
  match l with
  | [] => []
  | e :: r =>
      if has_nul e then dedup_rev saw r
      else match env_key e with
           | None => if is_nil e then dedup_rev saw r else e :: dedup_rev saw r
           | Some k => if memb k saw then dedup_rev saw r else e :: dedup_rev (k :: saw) r
           end
  end.

Definition dedup (l : list bytes) : list bytes := rev (dedup_rev [] (rev l)).

Definition child_environ (base extra : list (bytes * bytes)) : list bytes :=
  dedup (map entry base ++ map entry extra).

(* ------------------------------------------------------------------------------------------
   exit status handling *)

Inductive wait_status := Exited (code : Z) | Signaled.

(* the goroutine around cmd.Wait() in runOSSpecific (after the fix: `return ee.ExitCode()`;
   ExitCode() is -1 for a process killed by a signal) *)
Definition wait_code (w : wait_status) : Z :=
  match w with Exited c => c | Signaled => -1 end.

(* the same goroutine as it was in the pinned snapshot: `ee.ExitCode()` evaluated, result dropped, `return 0` *)
Definition wait_code_snapshot (w : wait_status) : Z := 0.

(* what Cmd.run hands to OnExit for one finished run: None = OnExit not called; Some n = called with
   the error text: command exited with code n *)
Definition report (restart : bool) (code : Z) : option Z :=
  if code =? 0 then (if restart then Some 0 else None) else Some code.

Definition run_report (restart : bool) (w : wait_status) : option Z := report restart (wait_code w).
Definition run_report_snapshot (restart : bool) (w : wait_status) : option Z := report restart (wait_code_snapshot w).

(* one run of a command, up to the launch *)
Inductive launch :=
| LSplitErr (e : split_err)       (* runOSSpecific returns the Split error *)
| LPanic                          (* cmdParts[0] with no words: index out of range *)
| LStartErr                       (* cmd.Start fails: NUL in an argument or in the environment *)
| LExec (args : list bytes) (environ : list bytes).

Definition run_launch (t : bytes) (env base : list (bytes * bytes)) : launch :=
  match argv t env base with
  | inl e => LSplitErr e
  | inr [] => LPanic
  | inr av =>
      let full := map entry base ++ map entry env in
      if existsb has_nul av || existsb has_nul full then LStartErr
      else LExec av (dedup full)
  end.
