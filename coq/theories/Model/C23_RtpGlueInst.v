(* The writeUnitInner glue (Model/C23_RtpGlue.v) instantiated with the modelled packetizers besides H.264. *)
From Coq Require Import List ZArith Bool.
Require Import MTX.Lib.IntWrap MTX.Model.C23_RtpH264 MTX.Model.C23_RtpH265 MTX.Model.C23_RtpAudio MTX.Model.C23_RtpGlue.
Import ListNotations.
Local Open Scope Z_scope.

Definition h265_glue_write := glue_write (list bytes) h265_encode.
Definition opus_glue_write := glue_write (list bytes) opus_encode.
(* G.711: ss = ChannelCount (BitDepth 8); LPCM: ss = BitDepth * ChannelCount / 8 *)
Definition lpcm_glue_write (ss : Z) := glue_write bytes (lpcm_encode ss).
