(* Literal helpers for C09 terms written by the Go driver / translator (no proofs): byte strings as base-256
   numerals (one token per chunk of at most 24 bytes, most significant byte = sentinel 1; Coq parses a numeral
   an order of magnitude faster than a list of byte values or a string literal), field lists / value lists /
   map entries as ordinary lists. *)
From Coq Require Import List ZArith NArith.
Require Import MTX.Model.C09_Env.
Import ListNotations.

Fixpoint bytes_of_N (fuel : nat) (n : N) (acc : str) : str :=
  match fuel with
  | O => acc
  | S f => if (n <? 256)%N then Z.of_N n :: acc else bytes_of_N f (n / 256)%N (Z.of_N (n mod 256) :: acc)
  end.
Definition BN (z : Z) : str :=
  let n := Z.to_N z in match bytes_of_N (S (N.size_nat n)) n [] with _ :: r => r | [] => [] end.
Definition BC (l : list Z) : str := flat_map BN l.

Fixpoint fl (l : list (str * ty)) : fields :=
  match l with [] => FNil | (tag, t) :: r => FCons tag t (fl r) end.
Fixpoint vl (l : list value) : vals :=
  match l with [] => VNil | v :: r => VCons v (vl r) end.
Fixpoint ml (l : list (str * value)) : ments :=
  match l with [] => MNil | (k, v) :: r => MCons k v (ml r) end.

Example BN_example : BN 22561345%Z = [88; 66; 65]%Z /\ BC [22561345; 353]%Z = [88; 66; 65; 97]%Z.
Proof. vm_compute. split; reflexivity. Qed.
