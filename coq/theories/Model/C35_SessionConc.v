(* C35, second part: the MoQ session (internal/servers/moq/session.go) under CONCURRENT client streams.

   Every stream a client opens is served by its own goroutine (runUniStreamAcceptor / runBidiStreamAcceptor ->
   errGroup.Go): runUniStream / runBidiStream run concurrently on one *session, before any authentication, and
   share   s.mutex, s.setupReceived, s.publishReady, s.catalogReceived (cap 1), s.ctx, s.state, s.pathName, s.query,
   s.path, s.stream, s.setupTracks, s.inboundTracks.   A panic in any of these goroutines ("close of closed
   channel", index out of range) or a runtime fatal error ("sync: unlock of unlocked mutex") ends the process:
   errgroup does not recover.

   The model: each handler is a straight-line program of micro-operations (`op`), one per Go statement that touches
   shared state or can block; a pool of threads runs under an arbitrary schedule (`label` list) that also contains
   the environment's moves (bytes arrive, the client closes a stream, the context is cancelled, another goroutine
   holds the mutex).  Go's select with several ready cases is resolved by a number carried by the label.

       processSetupMessage            OLock; OSetupOpts m; OSelectSetup; OCloseSetup; OUnlock        (AsFound)
       runBidiStream, draft-16        pre-check of setupReceived outside the lock (t_alt), then either branch
       onSubscribeCatalog             OLock; OStateIs Idle; OStateSet Read; OUnlock; OLock; OReadName; OUnlock; OCallPM ...
       onPublishCatalog               ... ORecvCatalog; OCatToStream; OCallPM; [OLock; OSetPath; OUnlock; OClosePubReady] ...
       onSubscribeTrack               OLock; OStateIs Read; OStreamReady; OTrackIndex n; OUnlock; OIndexTrack n; ...
       onDataCatalog / onDataTrack    OSendCatalog / OWaitPubReady; OTrackLookup

   `variant` selects the statement order: AsFound is the code; the others are the neighbouring orders that compile
   and pass sequential tests (check hoisted before the lock, lock released before the check, no lock, state test and
   state write in two critical sections, off-by-one index guard).

   Ghost state (`t_abs`) is what the lock/ownership discipline lets a thread know; `exec` never reads it.
   Executable; no proofs here. *)
From Coq Require Import List ZArith Bool Arith.
Require Import MTX.Model.C35_PreAuth.
Import ListNotations.
Local Open Scope nat_scope.

Inductive transport := TWebTransport | TQuic.
Inductive version := V16 | V17 | VLater.
Inductive sstate := SIdle | SRead | SPublish.
(* what the path manager answers (static per session in the model and in the driver) *)
Inductive pmkind := PMAuth | PMNoStream | PMOther | PMAccept (ntracks : nat).
Record cfg := { c_tr : transport; c_ver : version; c_pm : pmkind }.

(* one class per error source of the handlers *)
Inductive err :=
| ENil | EParse | EVersion | EWTPath | EWTAuthority | EMissingPath | EInvalidPath | EEmptyPath | EDupSetup
| EExpectedClientSetup | ETerminated | EUnsupportedStream | EUnsupportedMsg | EUnexpectedSubscribe
| EUnexpectedPublish | EBadTrackName | EStreamNotReady | ETrackRange | EPM | ECatalogJSON | ECatalogMany
| ECatalogDup | EToStream | ESubCatalogClosed | EPubCatalogClosed | EPubTrackClosed | ETrackNotFound
| EBeyondModel.

(* SETUP / CLIENT_SETUP as decoded; sm_parse = url.ParseRequestURI(Path) -> (u.Path, u.RawQuery)  (oracle) *)
Record setupmsg := { sm_path : list Z; sm_auth : bool; sm_parse : option (list Z * list Z) }.
(* a catalog as far as the session looks at it: moq.ToStream succeeds, number of tracks *)
Definition catinfo := (bool * nat)%type.
Inductive catres := CatBadJSON | CatTooMany | CatOk (c : catinfo).
Inductive track := TCatalog | TNum (n : nat) | TBad.

Inductive msg :=
| QSetup (m : setupmsg) | QClientSetup (m : setupmsg)
| QSubscribe (t : track) | QPublish (catalog : bool)
| QOther            (* SERVER_SETUP, SUBSCRIBE_OK, REQUEST_ERROR, PUBLISH_OK, REQUEST_OK *)
| QGarbage.         (* controlmessage.Read fails *)

(* what runs concurrently on one session *)
Inductive stream :=
| UniEmpty                    (* the stream ends before its first byte (Peek fails) *)
| UniMsg (m : msg)
| UniCatalog (c : catres)     (* subgroup stream with track alias 0 *)
| UniTrack (alias : nat)      (* subgroup stream with another alias *)
| UniBadSubgroup              (* subgroup.Read fails *)
| Bidi (m : msg)
| ApiItem                     (* an API goroutine in apiItem() *)
| Closer.                     (* a goroutine in Close(): API kick, server shutdown, runInner after a stream error *)

Inductive op :=
| OLock | OUnlock
| ORead                         (* blocks until the client's bytes have arrived *)
| ODrain                        (* io.Copy(io.Discard, stream): until the client closes the stream *)
| OSetupOpts (m : setupmsg)     (* option checks of processSetupMessage; writes pathName / query on native QUIC *)
| OSelectSetup                  (* select { case <-s.setupReceived: return "already present"; default: } *)
| OCloseSetup                   (* close(s.setupReceived) *)
| OWaitSetup                    (* select { case <-s.setupReceived: case <-s.ctx.Done(): return "terminated" } *)
| OStateIs (st : sstate) (e : err)   (* if s.state != st { return e } *)
| OStateNot (st : sstate) (e : err)  (* if s.state == st { return e } *)
| OStateSet (st : sstate)       (* s.state = st *)
| OReadState                    (* any other read of s.state (error messages) *)
| OReadName                     (* body of getPathNameAndQuery *)
| OCallPM (publish : bool)      (* pathManager.AddReader / AddPublisher *)
| OStreamReady                  (* if s.stream == nil { return "stream not ready" } *)
| OTrackIndex (off : bool) (n : nat) (* if n >= len(s.setupTracks) { return ... }   (off: `>` instead of `>=`) *)
| OIndexTrack (n : nat)         (* s.setupTracks[n] *)
| OSetStream (k : nat)          (* s.path, s.stream, s.setupTracks = ... (k tracks) *)
| OSetPath                      (* s.path = addRes.Path *)
| OSendCatalog (c : catinfo)    (* select { case s.catalogReceived <- cat: default: return "already received" } *)
| ORecvCatalog                  (* select { case cat := <-s.catalogReceived | <-s.publishReady | <-s.ctx.Done() } *)
| OCatToStream                  (* moq.ToStream(cat); s.inboundTracks = ... *)
| OClosePubReady                (* close(s.publishReady) *)
| OWaitPubReady                 (* select { case <-s.publishReady: case <-s.ctx.Done(): return "terminated" } *)
| OTrackLookup (alias : nat)    (* s.inboundTracks[alias] *)
| OWaitEofOrCtx                 (* select { case <-streamClosed: return nil; case <-s.ctx.Done(): return "terminated" } *)
| OWrite (w : Z)                (* wstream.Write(message w) *)
| OApiRead                      (* apiItem's reads of state, pathName, query *)
| OCancel                       (* s.ctxCancel() *)
| ORet (e : err).               (* return e *)

(* ---- shared and per-goroutine state ------------------------------------------------------------------------ *)

Inductive lockst := LFree | LThread (i : nat) | LEnv.

Record sess := {
  g_lock : lockst;
  g_setup : bool;               (* setupReceived is closed *)
  g_ready : bool;               (* publishReady is closed *)
  g_cat : option catinfo;       (* content of catalogReceived (capacity 1) *)
  g_ctx : bool;                 (* ctx is cancelled *)
  g_st : sstate;
  g_name : list Z;
  g_query : list Z;
  g_tracks : option nat;        (* s.stream / s.setupTracks: None = nil *)
  g_ntr : nat;                  (* len(s.inboundTracks) *)
  g_pathset : bool              (* s.path != nil *)
}.

(* ghost: what a goroutine may rely on *)
Record ghost := {
  a_k : bool;                   (* under the lock it has seen setupReceived open *)
  a_ki : bool;                  (* under the lock it has seen state == idle *)
  a_tok : option sstate;        (* it is the goroutine that moved state from idle to this value and still owes the
                                   follow-up (close(publishReady) / s.stream = ...) *)
  a_kt : option nat;            (* it has seen this index below len(setupTracks) *)
  a_rdy : bool;                 (* it has seen publishReady closed *)
  a_kn : bool                   (* under the lock it has seen state != idle (the state never returns to idle) *)
}.
Definition abs0 : ghost :=
  {| a_k := false; a_ki := false; a_tok := None; a_kt := None; a_rdy := false; a_kn := false |}.

Record thread := {
  t_ops : list op;
  t_alt : option (list op);     (* Some alt: the goroutine is at runBidiStream's draft-16 non-blocking test of
                                   setupReceived; alt is the `default:` branch, t_ops the rest of the function *)
  t_on : bool;                  (* the goroutine has been started *)
  t_holds : bool;               (* it has locked s.mutex and not unlocked it *)
  t_fed : bool;                 (* the client's bytes are there *)
  t_eof : bool;                 (* the client has closed its side of the stream *)
  t_pmgo : bool;                (* the path manager answers this goroutine's request (false: it lets it wait) *)
  t_name : list Z;              (* locals of getPathNameAndQuery *)
  t_query : list Z;
  t_cat : option catinfo;       (* local `cat` *)
  t_pm : option (list Z * list Z * bool);     (* the request it handed to the path manager *)
  t_wrote : list Z;             (* messages written to its stream, most recent first *)
  t_snap : option (sstate * list Z * list Z); (* what apiItem read *)
  t_res : option err;           (* Some e: returned e *)
  t_abs : ghost
}.

Inductive outcome := XOk (g : sess) (t : thread) | XBlocked | XPanic | XUnprotected.

(* ---- field updates -------------------------------------------------------------------------------------------- *)

Definition set_lock (g : sess) (l : lockst) : sess :=
  {| g_lock := l; g_setup := g_setup g; g_ready := g_ready g; g_cat := g_cat g; g_ctx := g_ctx g; g_st := g_st g;
     g_name := g_name g; g_query := g_query g; g_tracks := g_tracks g; g_ntr := g_ntr g; g_pathset := g_pathset g |}.
Definition set_setup (g : sess) : sess :=
  {| g_lock := g_lock g; g_setup := true; g_ready := g_ready g; g_cat := g_cat g; g_ctx := g_ctx g; g_st := g_st g;
     g_name := g_name g; g_query := g_query g; g_tracks := g_tracks g; g_ntr := g_ntr g; g_pathset := g_pathset g |}.
Definition set_ready (g : sess) : sess :=
  {| g_lock := g_lock g; g_setup := g_setup g; g_ready := true; g_cat := g_cat g; g_ctx := g_ctx g; g_st := g_st g;
     g_name := g_name g; g_query := g_query g; g_tracks := g_tracks g; g_ntr := g_ntr g; g_pathset := g_pathset g |}.
Definition set_cat (g : sess) (c : option catinfo) : sess :=
  {| g_lock := g_lock g; g_setup := g_setup g; g_ready := g_ready g; g_cat := c; g_ctx := g_ctx g; g_st := g_st g;
     g_name := g_name g; g_query := g_query g; g_tracks := g_tracks g; g_ntr := g_ntr g; g_pathset := g_pathset g |}.
Definition set_ctx (g : sess) : sess :=
  {| g_lock := g_lock g; g_setup := g_setup g; g_ready := g_ready g; g_cat := g_cat g; g_ctx := true; g_st := g_st g;
     g_name := g_name g; g_query := g_query g; g_tracks := g_tracks g; g_ntr := g_ntr g; g_pathset := g_pathset g |}.
Definition set_st (g : sess) (s : sstate) : sess :=
  {| g_lock := g_lock g; g_setup := g_setup g; g_ready := g_ready g; g_cat := g_cat g; g_ctx := g_ctx g; g_st := s;
     g_name := g_name g; g_query := g_query g; g_tracks := g_tracks g; g_ntr := g_ntr g; g_pathset := g_pathset g |}.
Definition set_name (g : sess) (n q : list Z) : sess :=
  {| g_lock := g_lock g; g_setup := g_setup g; g_ready := g_ready g; g_cat := g_cat g; g_ctx := g_ctx g; g_st := g_st g;
     g_name := n; g_query := q; g_tracks := g_tracks g; g_ntr := g_ntr g; g_pathset := g_pathset g |}.
Definition set_tracks (g : sess) (k : nat) : sess :=
  {| g_lock := g_lock g; g_setup := g_setup g; g_ready := g_ready g; g_cat := g_cat g; g_ctx := g_ctx g; g_st := g_st g;
     g_name := g_name g; g_query := g_query g; g_tracks := Some k; g_ntr := g_ntr g; g_pathset := true |}.
Definition set_ntr (g : sess) (n : nat) : sess :=
  {| g_lock := g_lock g; g_setup := g_setup g; g_ready := g_ready g; g_cat := g_cat g; g_ctx := g_ctx g; g_st := g_st g;
     g_name := g_name g; g_query := g_query g; g_tracks := g_tracks g; g_ntr := n; g_pathset := g_pathset g |}.
Definition set_pathset (g : sess) : sess :=
  {| g_lock := g_lock g; g_setup := g_setup g; g_ready := g_ready g; g_cat := g_cat g; g_ctx := g_ctx g; g_st := g_st g;
     g_name := g_name g; g_query := g_query g; g_tracks := g_tracks g; g_ntr := g_ntr g; g_pathset := true |}.

(* the runtime part of a thread after one statement: the rest of the program, and the fields a statement may set *)
Definition t_with (t : thread) (ops : list op) (holds : bool) : thread :=
  {| t_ops := ops; t_alt := None; t_on := t_on t; t_holds := holds; t_fed := t_fed t; t_eof := t_eof t; t_pmgo := t_pmgo t;
     t_name := t_name t; t_query := t_query t; t_cat := t_cat t; t_pm := t_pm t; t_wrote := t_wrote t;
     t_snap := t_snap t; t_res := t_res t; t_abs := t_abs t |}.
Definition t_set_name (t : thread) (n q : list Z) : thread :=
  {| t_ops := t_ops t; t_alt := t_alt t; t_on := t_on t; t_holds := t_holds t; t_fed := t_fed t; t_eof := t_eof t; t_pmgo := t_pmgo t;
     t_name := n; t_query := q; t_cat := t_cat t; t_pm := t_pm t; t_wrote := t_wrote t;
     t_snap := t_snap t; t_res := t_res t; t_abs := t_abs t |}.
Definition t_set_cat (t : thread) (c : option catinfo) : thread :=
  {| t_ops := t_ops t; t_alt := t_alt t; t_on := t_on t; t_holds := t_holds t; t_fed := t_fed t; t_eof := t_eof t; t_pmgo := t_pmgo t;
     t_name := t_name t; t_query := t_query t; t_cat := c; t_pm := t_pm t; t_wrote := t_wrote t;
     t_snap := t_snap t; t_res := t_res t; t_abs := t_abs t |}.
Definition t_set_pm (t : thread) (p : bool) : thread :=
  {| t_ops := t_ops t; t_alt := t_alt t; t_on := t_on t; t_holds := t_holds t; t_fed := t_fed t; t_eof := t_eof t; t_pmgo := t_pmgo t;
     t_name := t_name t; t_query := t_query t; t_cat := t_cat t; t_pm := Some (t_name t, t_query t, p);
     t_wrote := t_wrote t; t_snap := t_snap t; t_res := t_res t; t_abs := t_abs t |}.
Definition t_add_wrote (t : thread) (w : Z) : thread :=
  {| t_ops := t_ops t; t_alt := t_alt t; t_on := t_on t; t_holds := t_holds t; t_fed := t_fed t; t_eof := t_eof t; t_pmgo := t_pmgo t;
     t_name := t_name t; t_query := t_query t; t_cat := t_cat t; t_pm := t_pm t; t_wrote := w :: t_wrote t;
     t_snap := t_snap t; t_res := t_res t; t_abs := t_abs t |}.
Definition t_set_snap (t : thread) (s : sstate * list Z * list Z) : thread :=
  {| t_ops := t_ops t; t_alt := t_alt t; t_on := t_on t; t_holds := t_holds t; t_fed := t_fed t; t_eof := t_eof t; t_pmgo := t_pmgo t;
     t_name := t_name t; t_query := t_query t; t_cat := t_cat t; t_pm := t_pm t; t_wrote := t_wrote t;
     t_snap := Some s; t_res := t_res t; t_abs := t_abs t |}.
Definition t_set_res (t : thread) (e : err) : thread :=
  {| t_ops := []; t_alt := None; t_on := t_on t; t_holds := false; t_fed := t_fed t; t_eof := t_eof t; t_pmgo := t_pmgo t;
     t_name := t_name t; t_query := t_query t; t_cat := t_cat t; t_pm := t_pm t; t_wrote := t_wrote t;
     t_snap := t_snap t; t_res := Some e; t_abs := t_abs t |}.
Definition t_set_abs (t : thread) (a : ghost) : thread :=
  {| t_ops := t_ops t; t_alt := t_alt t; t_on := t_on t; t_holds := t_holds t; t_fed := t_fed t; t_eof := t_eof t; t_pmgo := t_pmgo t;
     t_name := t_name t; t_query := t_query t; t_cat := t_cat t; t_pm := t_pm t; t_wrote := t_wrote t;
     t_snap := t_snap t; t_res := t_res t; t_abs := a |}.
Definition t_env (t : thread) (on fed eof pmgo : bool) : thread :=
  {| t_ops := t_ops t; t_alt := t_alt t; t_on := on; t_holds := t_holds t; t_fed := fed; t_eof := eof; t_pmgo := pmgo;
     t_name := t_name t; t_query := t_query t; t_cat := t_cat t; t_pm := t_pm t; t_wrote := t_wrote t;
     t_snap := t_snap t; t_res := t_res t; t_abs := t_abs t |}.

Definition st_eqb (a b : sstate) : bool :=
  match a, b with SIdle, SIdle | SRead, SRead | SPublish, SPublish => true | _, _ => false end.

(* ---- one statement ----------------------------------------------------------------------------------------------- *)

(* `return e`: a deferred (processSetupMessage) or explicit (onSubscribeCatalog, ...) Unlock runs first when the
   goroutine holds the mutex *)
Definition ret (g : sess) (t : thread) (e : err) : outcome :=
  XOk (if t_holds t then set_lock g LFree else g) (t_set_res t e).

(* a select over up to three cases: ch picks a ready case, else the first ready one; None = none ready *)
Definition pick3 (ch : nat) (a b c : bool) : option nat :=
  match ch, a, b, c with
  | 0, true, _, _ => Some 0
  | 1, _, true, _ => Some 1
  | 2, _, _, true => Some 2
  | _, true, _, _ => Some 0
  | _, _, true, _ => Some 1
  | _, _, _, true => Some 2
  | _, _, _, _ => None
  end.

Definition ntracks (g : sess) : nat := match g_tracks g with Some k => k | None => 0 end.

Definition exec (c : cfg) (g : sess) (i : nat) (t : thread) (ch : nat) : outcome :=
  match t_ops t with
  | [] => XBlocked
  | o :: r =>
    let go g' t' := XOk g' t' in
    let t1 := t_with t r (t_holds t) in
    let guarded (k : outcome) := if t_holds t then k else XUnprotected in
    match o with
    | OLock => if t_holds t then XBlocked
               else match g_lock g with LFree => go (set_lock g (LThread i)) (t_with t r true) | _ => XBlocked end
    | OUnlock => match g_lock g with LFree => XPanic | _ => go (set_lock g LFree) (t_with t r false) end
    | ORead => if t_fed t then go g t1 else XBlocked
    | ODrain => if t_eof t then go g t1 else XBlocked
    | OSetupOpts m =>
        guarded
        match c_tr c with
        | TWebTransport =>
            if negb (emp (sm_path m)) then ret g t EWTPath
            else if sm_auth m then ret g t EWTAuthority else go g t1
        | TQuic =>
            if emp (g_name g) then
              if emp (sm_path m) then ret g t EMissingPath
              else match sm_parse m with
                   | None => ret g t EInvalidPath
                   | Some (up, q) =>
                       match moq_quic_name up with
                       | None => ret g t EEmptyPath
                       | Some n => go (set_name g n q) t1
                       end
                   end
            else go g t1
        end
    | OSelectSetup => if g_setup g then ret g t EDupSetup else go g t1
    | OCloseSetup => if g_setup g then XPanic else go (set_setup g) t1
    | OWaitSetup =>
        match pick3 ch (g_setup g) (g_ctx g) false with
        | Some 0 => go g t1
        | Some _ => ret g t ETerminated
        | None => XBlocked
        end
    | OStateIs st e => guarded (if st_eqb (g_st g) st then go g t1 else ret g t e)
    | OStateNot st e => guarded (if st_eqb (g_st g) st then ret g t e else go g t1)
    | OStateSet st => guarded (go (set_st g st) t1)
      (* without the mutex a read of s.state is safe only when no write can come any more: the state is written
         only while it is idle *)
    | OReadState => if t_holds t || negb (st_eqb (g_st g) SIdle) then go g t1 else XUnprotected
    | OReadName => guarded (go g (t_set_name t1 (g_name g) (g_query g)))
    | OCallPM p => if t_pmgo t then go g (t_set_pm t1 p) else XBlocked
    | OStreamReady => guarded (match g_tracks g with None => ret g t EStreamNotReady | Some _ => go g t1 end)
    | OTrackIndex off n =>
        guarded (if (if off then ntracks g <? n else ntracks g <=? n) then ret g t ETrackRange else go g t1)
    | OIndexTrack n => if n <? ntracks g then go g t1 else XPanic
    | OSetStream k => guarded (go (set_tracks g k) t1)
    | OSetPath => guarded (go (set_pathset g) t1)
    | OSendCatalog ci =>
        match g_cat g with None => go (set_cat g (Some ci)) t1 | Some _ => ret g t ECatalogDup end
    | ORecvCatalog =>
        match pick3 ch (match g_cat g with Some _ => true | None => false end) (g_ready g) (g_ctx g) with
        | Some 0 => go (set_cat g None) (t_set_cat t1 (g_cat g))
        | Some 1 => ret g t ECatalogDup
        | Some _ => ret g t ETerminated
        | None => XBlocked
        end
    | OCatToStream =>
        match t_cat t with
        | Some (true, n) => go (set_ntr g n) t1
        | _ => ret g t EToStream
        end
    | OClosePubReady => if g_ready g then XPanic else go (set_ready g) t1
    | OWaitPubReady =>
        match pick3 ch (g_ready g) (g_ctx g) false with
        | Some 0 => go g t1
        | Some _ => ret g t ETerminated
        | None => XBlocked
        end
    | OTrackLookup a => if (1 <=? a) && (a <=? g_ntr g) then go g t1 else ret g t ETrackNotFound
    | OWaitEofOrCtx =>
        match pick3 ch (t_eof t) (g_ctx g) false with
        | Some 0 => ret g t ENil
        | Some _ => ret g t ETerminated
        | None => XBlocked
        end
    | OWrite w => go g (t_add_wrote t1 w)
    | OApiRead => guarded (go g (t_set_snap t1 (g_st g, g_name g, g_query g)))
    | OCancel => go (set_ctx g) t1
    | ORet e => ret g t e
    end
  end.

(* ---- the discipline: what each statement requires and what it teaches (ghost) -------------------------------------- *)

Definition tok_is (a : ghost) (s : sstate) : bool :=
  match a_tok a with Some s' => st_eqb s' s | None => false end.
Definition kt_is (a : ghost) (n : nat) : bool :=
  match a_kt a with Some m => m =? n | None => false end.

Definition req (h : bool) (a : ghost) (o : op) : bool :=
  match o with
  | OLock => negb h
  | OUnlock => h
  | ORead | ODrain | OWaitSetup | ORecvCatalog | OWaitPubReady | OWaitEofOrCtx | OCallPM _ | OWrite _ | ORet _ => negb h
  | OSetupOpts _ | OReadName | OStreamReady | OSetPath | OApiRead | OStateIs _ _ | OStateNot _ _ => h
  | OReadState => h || a_kn a
  | OSelectSetup | OSendCatalog _ | OCancel => true
  | OCloseSetup => h && a_k a
  | OStateSet st => h && a_ki a && negb (st_eqb st SIdle)
  | OTrackIndex off _ => h && negb off
  | OIndexTrack n => kt_is a n
  | OSetStream _ => h && tok_is a SRead
  | OCatToStream => tok_is a SPublish
  | OClosePubReady => tok_is a SPublish
  | OTrackLookup _ => a_rdy a
  end.

Definition a_set (a : ghost) (k ki : bool) : ghost :=
  {| a_k := k; a_ki := ki; a_tok := a_tok a; a_kt := a_kt a; a_rdy := a_rdy a; a_kn := a_kn a |}.
Definition a_set_tok (a : ghost) (t : option sstate) : ghost :=
  {| a_k := a_k a; a_ki := false; a_tok := t; a_kt := a_kt a; a_rdy := a_rdy a; a_kn := a_kn a |}.
Definition a_set_kt (a : ghost) (n : nat) : ghost :=
  {| a_k := a_k a; a_ki := a_ki a; a_tok := a_tok a; a_kt := Some n; a_rdy := a_rdy a; a_kn := a_kn a |}.
Definition a_set_rdy (a : ghost) : ghost :=
  {| a_k := a_k a; a_ki := a_ki a; a_tok := a_tok a; a_kt := a_kt a; a_rdy := true; a_kn := a_kn a |}.
Definition a_set_kn (a : ghost) : ghost :=
  {| a_k := a_k a; a_ki := a_ki a; a_tok := a_tok a; a_kt := a_kt a; a_rdy := a_rdy a; a_kn := true |}.

(* knowledge after the statement has been executed without returning *)
Definition learn (h : bool) (a : ghost) (o : op) : ghost :=
  match o with
  | OLock | OUnlock => a_set a false false
  | OSelectSetup => a_set a h (a_ki a)
  | OCloseSetup => a_set a false (a_ki a)
  | OStateIs SIdle _ => a_set a (a_k a) h
  | OStateIs _ _ | OStateNot SIdle _ => if h then a_set_kn a else a
  | OStateSet st => a_set_kn (a_set_tok a (Some st))
  | OTrackIndex _ n => a_set_kt a n
  | OSetStream _ | OClosePubReady => a_set_tok a None
  | OWaitPubReady => a_set_rdy a
  | _ => a
  end.

Definition hnext (h : bool) (o : op) : bool :=
  match o with OLock => true | OUnlock => false | _ => h end.

Definition terminal (o : op) : bool := match o with ORet _ | OWaitEofOrCtx => true | _ => false end.

(* a program is well-formed from (holds h, knowledge a) *)
Fixpoint wf (h : bool) (a : ghost) (ops : list op) : bool :=
  match ops with
  | [] => negb h
  | o :: r => req h a o && (terminal o || wf (hnext h o) (learn h a o) r)
  end.

(* ---- the pool ------------------------------------------------------------------------------------------------------ *)

Fixpoint upd {A} (i : nat) (x : A) (l : list A) : list A :=
  match l, i with
  | [], _ => []
  | _ :: r, O => x :: r
  | y :: r, S j => y :: upd j x r
  end.

(* one scheduling decision for thread i, ghost included *)
Definition step (c : cfg) (g : sess) (i : nat) (t : thread) (ch : nat) : outcome :=
  if negb (t_on t) then XBlocked else
  match t_res t with Some _ => XBlocked | None =>
  match t_alt t with
  | Some alt =>      (* select { case <-s.setupReceived: (fall through) default: alt } *)
      XOk g (t_with t (if g_setup g then t_ops t else alt) (t_holds t))
  | None =>
      match exec c g i t ch with
      | XOk g' t' =>
          let a := match t_ops t, t_res t' with
                   | o :: _, None => learn (t_holds t) (t_abs t) o
                   | _, _ => a_set (t_abs t) false false
                   end in
          XOk g' (t_set_abs t' a)
      | x => x
      end
  end end.

Inductive label :=
| LStep (i ch : nat)            (* goroutine i executes its next statement *)
| LStart (i : nat)              (* the stream is accepted / the API call begins *)
| LFeed (i : nat)               (* the client's bytes arrive *)
| LEof (i : nat)                (* the client closes its side of stream i *)
| LCancel                       (* the context is cancelled from elsewhere *)
| LEnvLock | LEnvUnlock         (* some other goroutine takes / releases s.mutex *)
| LPm (i : nat) (answer : bool). (* the path manager holds back / answers goroutine i's request *)

Inductive rstate := RRun (g : sess) (ts : list thread) | RPanic (i : nat) | RUnprotected (i : nat).

Definition apply (c : cfg) (r : rstate) (l : label) : rstate :=
  match r with
  | RRun g ts =>
      match l with
      | LStep i ch =>
          match nth_error ts i with
          | Some t => match step c g i t ch with
                      | XOk g' t' => RRun g' (upd i t' ts)
                      | XBlocked => r
                      | XPanic => RPanic i
                      | XUnprotected => RUnprotected i
                      end
          | None => r
          end
      | LStart i => match nth_error ts i with
                    | Some t => RRun g (upd i (t_env t true (t_fed t) (t_eof t) (t_pmgo t)) ts) | None => r end
      | LFeed i => match nth_error ts i with
                   | Some t => RRun g (upd i (t_env t (t_on t) true (t_eof t) (t_pmgo t)) ts) | None => r end
      | LEof i => match nth_error ts i with
                  | Some t => RRun g (upd i (t_env t (t_on t) (t_fed t) true (t_pmgo t)) ts) | None => r end
      | LPm i b => match nth_error ts i with
                   | Some t => RRun g (upd i (t_env t (t_on t) (t_fed t) (t_eof t) b) ts) | None => r end
      | LCancel => RRun (set_ctx g) ts
      | LEnvLock => match g_lock g with LFree => RRun (set_lock g LEnv) ts | _ => r end
      | LEnvUnlock => match g_lock g with LEnv => RRun (set_lock g LFree) ts | _ => r end
      end
  | _ => r
  end.

Definition run (c : cfg) (r : rstate) (ls : list label) : rstate := fold_left (apply c) ls r.

(* ---- the handlers as programs --------------------------------------------------------------------------------------- *)

Inductive variant := AsFound | CheckThenLock | UnlockThenCheck | NoLock | SplitPublishCAS | IndexOffByOne.

(* processSetupMessage *)
Definition setup_section (v : variant) (m : setupmsg) : list op :=
  match v with
  | CheckThenLock => [OSelectSetup; OLock; OSetupOpts m; OCloseSetup; OUnlock]
  | UnlockThenCheck => [OLock; OSetupOpts m; OUnlock; OSelectSetup; OCloseSetup]
  | NoLock => [OSetupOpts m; OSelectSetup; OCloseSetup]
  | _ => [OLock; OSetupOpts m; OSelectSetup; OCloseSetup; OUnlock]
  end.

(* messages as written to a stream *)
Definition wServerSetup : Z := 1%Z.
Definition wSubscribeOk : Z := 2%Z.
Definition wPublishOk : Z := 3%Z.
Definition wRequestOk : Z := 4%Z.
Definition wRequestError (code : Z) : Z := (100 + code)%Z.

Definition ack (c : cfg) : Z := match c_ver c with V16 | V17 => wPublishOk | VLater => wRequestOk end.

(* REQUEST_ERROR code chosen from the path manager's error *)
Definition refusal_code (k : pmkind) (publish : bool) : Z :=
  match k, publish with
  | PMAuth, _ => 1%Z
  | PMNoStream, false => 16%Z
  | _, false => 3%Z
  | _, true => 32%Z
  end.

Definition state_cas (v : variant) (publish : bool) : list op :=
  let st := if publish then SPublish else SRead in
  let e := if publish then EUnexpectedPublish else EUnexpectedSubscribe in
  match v, publish with
  | SplitPublishCAS, true => [OLock; OStateIs SIdle e; OUnlock; OLock; OStateSet st; OUnlock]
  | _, _ => [OLock; OStateIs SIdle e; OStateSet st; OUnlock]
  end.

Definition read_name : list op := [OLock; OReadName; OUnlock].

Definition subscribe_catalog (c : cfg) (v : variant) : list op :=
  state_cas v false ++ read_name ++ [OCallPM false] ++
  match c_pm c with
  | PMAccept k => [OLock; OSetStream k; OUnlock; OWrite wSubscribeOk; ODrain; ORet ESubCatalogClosed]
  | k => [OWrite (wRequestError (refusal_code k false)); ODrain; ORet EPM]
  end.

Definition subscribe_track (v : variant) (n : nat) : list op :=
  [OLock; OStateIs SRead EUnexpectedSubscribe; OStreamReady;
   OTrackIndex (match v with IndexOffByOne => true | _ => false end) n; OUnlock;
   OIndexTrack n; OWrite wSubscribeOk; OWaitEofOrCtx].

Definition publish_catalog (c : cfg) (v : variant) : list op :=
  state_cas v true ++ read_name ++ [ORecvCatalog; OCatToStream; OCallPM true] ++
  match c_pm c with
  | PMAccept _ => [OLock; OSetPath; OUnlock; OClosePubReady; OWrite (ack c); ODrain; ORet EPubCatalogClosed]
  | k => [OWrite (wRequestError (refusal_code k true)); ODrain; ORet EPM]
  end.

Definition publish_track (c : cfg) : list op :=
  [OLock; OStateIs SPublish EUnexpectedPublish; OUnlock; OWrite (ack c); ODrain; ORet EPubTrackClosed].

Definition bidi_dispatch (c : cfg) (v : variant) (m : msg) : list op :=
  match m with
  | QSubscribe TCatalog => subscribe_catalog c v
  | QSubscribe (TNum n) => subscribe_track v n
  | QSubscribe TBad => [ORet EBadTrackName]
  | QPublish true => publish_catalog c v
  | QPublish false => publish_track c
  | QGarbage => [ORet EParse]
  | _ => [ORet EUnsupportedMsg]
  end.

(* runBidiStream from `select { case <-s.setupReceived: case <-s.ctx.Done(): ... }` on *)
Definition bidi_common (c : cfg) (v : variant) (m : msg) : list op :=
  [OWaitSetup; ORead] ++ bidi_dispatch c v m.

(* runBidiStream, draft-16, the `default:` branch of the first select *)
Definition bidi16_nosetup (v : variant) (m : msg) : list op :=
  ORead :: match m with
           | QGarbage => [ORet EParse]
           | QClientSetup sm => setup_section v sm ++ [OWrite wServerSetup; ODrain; ORet ENil]
           | _ => [ORet EExpectedClientSetup]
           end.

Definition prog (c : cfg) (v : variant) (s : stream) : list op :=
  match s with
  | UniEmpty | UniBadSubgroup | UniMsg QGarbage => [ORead; ORet EParse]
  | UniMsg (QSetup sm) =>
      ORead :: match c_ver c with
               | V16 => [ORet EVersion]
               | _ => setup_section v sm ++ [ODrain; ORet ENil]
               end
  | UniMsg _ => [ORead; ORet EUnsupportedStream]
  | UniCatalog CatBadJSON => [ORead; ORet ECatalogJSON]
  | UniCatalog CatTooMany => [ORead; ORet ECatalogMany]
  | UniCatalog (CatOk ci) => [ORead; OSendCatalog ci; ODrain; ORet ENil]
  | UniTrack a => [ORead; OWaitPubReady; OTrackLookup a; ORet EBeyondModel]
  | Bidi m => bidi_common c v m
  | ApiItem => [OLock; OApiRead; OUnlock; ORet ENil]
  | Closer => [OCancel; ORet ENil]
  end.

Definition alt_of (c : cfg) (v : variant) (s : stream) : option (list op) :=
  match s, c_ver c with
  | Bidi m, V16 => Some (bidi16_nosetup v m)
  | _, _ => None
  end.

Definition thread0 (c : cfg) (v : variant) (s : stream) : thread :=
  {| t_ops := prog c v s; t_alt := alt_of c v s; t_on := false; t_holds := false; t_fed := false; t_eof := false;
     t_pmgo := true; t_name := []; t_query := []; t_cat := None; t_pm := None; t_wrote := []; t_snap := None;
     t_res := None; t_abs := abs0 |}.

(* a session as server.go creates it: WebTransport sessions carry the name of the HTTP/3 request path, native QUIC
   sessions start without a name *)
Definition sess0 (name query : list Z) : sess :=
  {| g_lock := LFree; g_setup := false; g_ready := false; g_cat := None; g_ctx := false; g_st := SIdle;
     g_name := name; g_query := query; g_tracks := None; g_ntr := 0; g_pathset := false |}.

Definition init (c : cfg) (v : variant) (name query : list Z) (ss : list stream) : rstate :=
  RRun (sess0 name query) (map (thread0 c v) ss).
