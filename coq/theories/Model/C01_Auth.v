(* Model of the internal authentication method: internal/auth/manager.go (Authenticate with Method = internal,
   authenticateInternal, authenticateWithUser, matchesPermission), internal/conf/credential.go (Credential.Check),
   internal/conf/ip_networks.go / ip_network.go (Contains = net.IPNet.Contains). Executable; no proofs here.

   Strings and byte slices are lists of byte values. A net.IP is its byte slice (length 4 or 16 in practice, any
   length accepted by the model as by the code). A conf.IPNetwork is the pair (IP bytes, Mask bytes) of the Go struct.

   Oracles (arguments of the functions; the driver ships their values, computed by the real libraries):
     sha   : guess -> base64(sha256(guess))                      (conf.sha256Base64)
     argon : encoded -> guess -> ok && err == nil                (matthewhartstonge/argon2 VerifyEncoded)
     rx    : pattern -> text -> Compile err == nil && MatchString (Go regexp)
   and, per request, the optional CustomVerifyFunc (RTSP digest check) as a function of (expected user, expected pass). *)
From Coq Require Import List ZArith Bool.
Require Import MTX.Lib.Utf8.
Import ListNotations.
Local Open Scope Z_scope.

(* ---- strings ------------------------------------------------------------------------- *)

Fixpoint has_prefix (p s : list Z) : bool :=      (* strings.HasPrefix(s, p) *)
  match p, s with
  | [], _ => true
  | x :: p', y :: s' => (x =? y) && has_prefix p' s'
  | _ :: _, [] => false
  end.

Definition s_sha256 : list Z := [115; 104; 97; 50; 53; 54; 58].        (* "sha256:" *)
Definition s_argon2 : list Z := [97; 114; 103; 111; 110; 50; 58].       (* "argon2:" *)
Definition s_any : list Z := [97; 110; 121].                            (* "any" *)
Definition a_publish : list Z := [112; 117; 98; 108; 105; 115; 104].
Definition a_read : list Z := [114; 101; 97; 100].
Definition a_playback : list Z := [112; 108; 97; 121; 98; 97; 99; 107].
Definition a_api : list Z := [97; 112; 105].
Definition a_metrics : list Z := [109; 101; 116; 114; 105; 99; 115].
Definition a_pprof : list Z := [112; 112; 114; 111; 102].
Definition c_tilde : Z := 126.

(* ---- net.IP / net.IPNet -------------------------------------------------------------- *)

Definition all_zero (b : list Z) : bool := forallb (Z.eqb 0) b.

(* net.IP.To4: a 4-byte slice is itself; a 16-byte slice ::ffff:a.b.c.d is its last four bytes; otherwise nil *)
Definition to4 (ip : list Z) : option (list Z) :=
  if (length ip =? 4)%nat then Some ip
  else if (length ip =? 16)%nat && all_zero (firstn 10 ip) && (nth 10 ip 0 =? 255) && (nth 11 ip 0 =? 255)
       then Some (skipn 12 ip)
       else None.

(* net.networkNumberAndMask *)
Definition network_number_and_mask (nip mask : list Z) : option (list Z * list Z) :=
  let ip := match to4 nip with Some x => Some x | None => if (length nip =? 16)%nat then Some nip else None end in
  match ip with
  | None => None
  | Some ip =>
      if (length mask =? 4)%nat then (if (length ip =? 4)%nat then Some (ip, mask) else None)
      else if (length mask =? 16)%nat then (if (length ip =? 4)%nat then Some (ip, skipn 12 mask) else Some (ip, mask))
      else None
  end.

(* the loop `nn[i]&m[i] != ip[i]&m[i]` over i < len(ip) (len(ip) = len(nn) at this point; a shorter mask would
   panic in Go: the model answers false, and no mask shorter than the address passes network_number_and_mask) *)
Fixpoint masked_eq (nn m ip : list Z) : bool :=
  match nn, m, ip with
  | [], _, [] => true
  | a :: nn', k :: m', b :: ip' => (Z.land a k =? Z.land b k) && masked_eq nn' m' ip'
  | _, _, _ => false
  end.

(* net.IPNet.Contains *)
Definition net_contains (nip mask ip : list Z) : bool :=
  let ip' := match to4 ip with Some x => x | None => ip end in
  match network_number_and_mask nip mask with
  | None => (length ip' =? 0)%nat      (* nn = nil: only an empty ip has len(ip) = len(nn), and then the loop is empty *)
  | Some (nn, m) => if (length ip' =? length nn)%nat then masked_eq nn m ip' else false
  end.

Record ipnet := { n_ip : list Z; n_mask : list Z }.

(* conf.IPNetworks.Contains *)
Definition nets_contain (ns : list ipnet) (ip : list Z) : bool :=
  existsb (fun n => net_contains (n_ip n) (n_mask n) ip) ns.

(* ---- conf.Credential.Check ----------------------------------------------------------- *)

Section Oracles.
Variable sha : list Z -> list Z.
Variable argon : list Z -> list Z -> bool.
Variable rx : list Z -> list Z -> bool.

Definition is_sha256 (d : list Z) : bool := has_prefix s_sha256 d.
Definition is_argon2 (d : list Z) : bool := has_prefix s_argon2 d.

(* subtle.ConstantTimeCompare(x, y) == 1 is equality of the byte strings *)
Definition cred_check (d guess : list Z) : bool :=
  if is_sha256 d then list_eqb (skipn 7 d) (sha guess)
  else if is_argon2 d then argon (skipn 7 d) guess
  else match d with
       | [] => true
       | _ => list_eqb d guess
       end.

(* ---- matchesPermission --------------------------------------------------------------- *)

Record perm := { p_action : list Z; p_path : list Z }.

Definition is_path_action (a : list Z) : bool :=
  list_eqb a a_publish || list_eqb a a_read || list_eqb a a_playback.

Definition perm_grants (p : perm) (action path : list Z) : bool :=
  if list_eqb (p_action p) action then
    if is_path_action (p_action p) then
      match p_path p with
      | [] => true
      | c :: pat => if c =? c_tilde then rx pat path else list_eqb (p_path p) path
      end
    else true
  else false.

Fixpoint matches_permission (ps : list perm) (action path : list Z) : bool :=
  match ps with
  | [] => false
  | p :: r => if perm_grants p action path then true else matches_permission r action path
  end.

(* ---- authenticateWithUser / authenticateInternal / Authenticate ---------------------- *)

Record user := { u_user : list Z; u_pass : list Z; u_ips : list ipnet; u_perms : list perm }.

Record request := {
  r_user : list Z; r_pass : list Z; r_token : list Z;
  r_ip : list Z; r_action : list Z; r_path : list Z;
  r_custom : option (list Z -> list Z -> bool);
  r_ask : bool                                         (* EnableAskCredentials *)
}.

Definition authenticate_with_user (r : request) (u : user) : bool :=
  if match u_ips u with [] => false | _ => negb (nets_contain (u_ips u) (r_ip r)) end then false
  else if negb (matches_permission (u_perms u) (r_action r) (r_path r)) then false
  else if negb (list_eqb (u_user u) s_any) then
    match r_custom r with
    | Some f => f (u_user u) (u_pass u)
    | None => cred_check (u_user u) (r_user r) && cred_check (u_pass u) (r_pass r)
    end
  else true.

(* index of the first configured user that admits the request *)
Fixpoint first_match (us : list user) (r : request) (i : nat) : option nat :=
  match us with
  | [] => None
  | u :: rest => if authenticate_with_user r u then Some i else first_match rest r (S i)
  end.

Definition authenticate_internal (us : list user) (r : request) : option (list Z) :=
  match first_match us r 0 with Some _ => Some (r_user r) | None => None end.

Inductive outcome := Granted (user : list Z) | Denied (ask_credentials : bool).

(* Manager.Authenticate with Method = internal: token stays "" *)
Definition authenticate (us : list user) (r : request) : outcome :=
  match authenticate_internal us r with
  | Some u => Granted u
  | None => Denied (r_ask r && list_eqb (r_user r) [] && list_eqb (r_pass r) [])
  end.

End Oracles.

(* net.CIDRMask(ones, 8*len) *)
Definition mask_byte (k : Z) : Z := 255 - 255 / 2 ^ k.        (* ^byte(0xff >> k) *)
Fixpoint cidr_mask (len : nat) (ones : Z) : list Z :=
  match len with
  | O => []
  | S l => if 8 <=? ones then 255 :: cidr_mask l (ones - 8) else mask_byte ones :: cidr_mask l 0
  end.

(* big-endian value of a byte string *)
Fixpoint be_value (acc : Z) (b : list Z) : Z :=
  match b with [] => acc | x :: r => be_value (acc * 256 + x) r end.
