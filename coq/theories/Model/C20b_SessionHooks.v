(* C20b: per-reader (hooks.OnRead) and per-connection (hooks.OnConnect) hooks of the protocol servers, and runOnInit.

   internal/hooks/on_read.go, on_connect.go, on_init.go:  OnX(params) runs the start part (log line
   "runOnX command started" when the command is configured) and returns a closure that runs the stop part
   ("runOnX command stopped" when the start command is configured, "runOnUnX command launched" when the stop command is
   configured).  An event of this model is one call of the constructor (HStart) or one call of the returned closure
   (HStop); HPanic is a call through a nil func field / nil interface (the Go runtime panics).

   Two shapes of call site (listed and classified by tools/gen/hooksites, table MTXGen.C20_HookSites):
     (a) x := hooks.OnX(..); defer x()   (RTMP, SRT, WebRTC readers and connections)  and
         x := hooks.OnX(..); ...; x()    (runOnInit in path.run)                        -> `bracket`
     (b) the closure stored in a struct field and invoked by other methods:
         RTSP session (onPlay / onPause / onClose, driven by the state of the gortsplib session),
         RTSP conn (initialize / onClose), HLS session (initialize / close2, driven by the muxer).
   No proofs in this file (Proofs/C20b_SessionHooks.v). *)
From Coq Require Import List Bool ZArith String.
Require Import MTX.Lib.Trace MTX.Model.C20b_SiteTypes.
Import ListNotations.

(* ---- events ------------------------------------------------------------------------------------------------------ *)
Inductive hev := HStart | HStop | HPanic.

Definition hcls (e : hev) : option bool :=
  match e with HStart => Some true | HStop => Some false | HPanic => None end.

Definition is_panic (e : hev) : bool := match e with HPanic => true | _ => false end.

(* boolean form of "the trace is a sequence of start/stop pairs opened by a start, without panic;
   closed (no open pair) when must_be_closed" *)
Definition pairs_okb (must_be_closed : bool) (t : list hev) : bool :=
  negb (existsb is_panic t) &&
  match mon_run (alt_mon hcls) false t with
  | Some opened => if must_be_closed then negb opened else true
  | None => false
  end.

(* the log lines of internal/hooks: start_on = the start command is configured (RunOnRead / RunOnConnect / RunOnInit),
   stop_on = the stop command is configured (RunOnUnread / RunOnDisconnect) *)
Inductive lline := LStarted | LStopped | LLaunched.

Definition lcls (l : lline) : option bool :=
  match l with LStarted => Some true | LStopped => Some false | LLaunched => None end.

Definition log_of (start_on stop_on : bool) (e : hev) : list lline :=
  match e with
  | HStart => if start_on then [LStarted] else []
  | HStop => (if start_on then [LStopped] else []) ++ (if stop_on then [LLaunched] else [])
  | HPanic => []
  end.

Definition log_trace (start_on stop_on : bool) (t : list hev) : list lline := flat_map (log_of start_on stop_on) t.

(* ---- shape (a): open; body; close in one function ------------------------------------------------------------------ *)
Section Bracket.
  Variable E : Type.
  Variable cls : E -> option bool.

  Definition bracket (o c : E) (body : list E) : list E := o :: body ++ [c].

  Definition is_cls (k : bool) (e : E) : bool :=
    match cls e with Some b => Bool.eqb b k | None => false end.

  Definition count_cls (k : bool) (l : list E) : nat := List.length (filter (is_cls k) l).

  (* an execution of a function of shape (a): `panics` = the body panics.  With `defer` the closure runs while the
     panic unwinds; with the straight-line form it does not (path.run: the process dies). *)
  Definition exec_shape_a (sh : shape) (o c : E) (body : list E) (panics : bool) : list E :=
    match sh with
    | ShDefer => bracket o c body
    | _ => if panics then o :: body else bracket o c body
    end.
End Bracket.

Arguments bracket {E} o c body.
Arguments is_cls {E} cls k e.
Arguments count_cls {E} cls k l.
Arguments exec_shape_a {E} sh o c body panics.

(* ---- shape (b), RTSP session: internal/servers/rtsp/session.go ------------------------------------------------------ *)
(* gortsplib.ServerSessionState *)
Inductive lstate := LInitial | LPrePlay | LPlay | LPreRecord | LRecord.

Definition lstate_eqb (a b : lstate) : bool :=
  match a, b with
  | LInitial, LInitial | LPrePlay, LPrePlay | LPlay, LPlay | LPreRecord, LPreRecord | LRecord, LRecord => true
  | _, _ => false
  end.

(* the handlers of *session that gortsplib calls *)
Inductive hkind := HkAnnounce | HkSetup | HkPlay | HkRecord | HkPause | HkClose.

Definition hkind_eqb (a b : hkind) : bool :=
  match a, b with
  | HkAnnounce, HkAnnounce | HkSetup, HkSetup | HkPlay, HkPlay | HkRecord, HkRecord | HkPause, HkPause
  | HkClose, HkClose => true
  | _, _ => false
  end.

(* the fields of *session the hook logic reads: onUnreadHook != nil, mpegtsDemuxer != nil, path != nil *)
Record sess := mk_sess { s_hook : bool; s_demux : bool; s_path : bool }.
Definition sess0 : sess := mk_sess false false false.

(* s.onUnreadHook() *)
Definition call_hook (s : sess) : list hev := if s_hook s then [HStop] else [HPanic].

(* one handler call: `st` is what s.rsession.State() returns inside the handler (gortsplib changes the state after the
   handler returned), okin = outcome of the parts that are outside this model (path manager answers of onAnnounce /
   onSetup / onRecord, demuxer initialisation), dmx = onRecord takes the MPEG-TS demux branch.
   Result: fields after the call, hook events, handler answered StatusOK without error. *)
Definition handler (h : hkind) (st : lstate) (okin dmx : bool) (s : sess) : sess * list hev * bool :=
  match h with
  | HkAnnounce => (s, [], okin)
  | HkSetup =>                                       (* s.path = res.Path on success (read side) *)
      (mk_sess (s_hook s) (s_demux s) (s_path s || (okin && lstate_eqb st LInitial)), [], okin)
  | HkPlay =>                                        (* onPlay: if State() == PrePlay { s.path.Name(); hook = OnRead(..) } *)
      if lstate_eqb st LPrePlay
      then if s_path s then (mk_sess true (s_demux s) (s_path s), [HStart], true)
           else (s, [HPanic], false)
      else (s, [], true)
  | HkRecord =>                                      (* the demuxer field is set before its initialize() may fail *)
      (mk_sess (s_hook s) (s_demux s || dmx) (s_path s || (okin && negb dmx)), [], okin)
  | HkPause =>                                       (* onPause *)
      if s_demux s then (s, [], false)
      else if lstate_eqb st LPlay then (s, call_hook s, true)
      else (s, [], true)
  | HkClose =>                                       (* onClose: if State() == Play { hook() } ... s.path = nil *)
      (mk_sess (s_hook s) (s_demux s) false, if lstate_eqb st LPlay then call_hook s else [], true)
  end.

(* machine state: library state, session fields, OnSessionClose has run *)
Record rst := mk_rst { r_l : lstate; r_s : sess; r_closed : bool }.
Definition rst0 : rst := mk_rst LInitial sess0 false.

(* a handler call together with the library's reaction (c_post = state of the gortsplib session after the request:
   an INPUT, constrained by `lib_contract` / the concrete `gortsplib` relation below) *)
Record call := mk_call { c_h : hkind; c_ok : bool; c_dmx : bool; c_post : lstate }.

Definition rt_step (st : rst) (c : call) : rst * list hev :=
  let '(s', ev, _) := handler (c_h c) (r_l st) (c_ok c) (c_dmx c) (r_s st) in
  (mk_rst (c_post c) s' (r_closed st || hkind_eqb (c_h c) HkClose), ev).

Definition rt_status (st : rst) (c : call) : bool :=
  snd (handler (c_h c) (r_l st) (c_ok c) (c_dmx c) (r_s st)).

(* an execution is valid for a library `lib h pre status post`: every call is one the library may make, with a next
   state the library may choose, and nothing is called after OnSessionClose *)
Fixpoint rt_valid (lib : hkind -> lstate -> bool -> lstate -> bool) (st : rst) (cs : list call) : bool :=
  match cs with
  | [] => true
  | c :: r => negb (r_closed st) && lib (c_h c) (r_l st) (rt_status st c) (c_post c) &&
              rt_valid lib (fst (rt_step st c)) r
  end.

Definition rt_trace (st : rst) (cs : list call) : list hev := trace rt_step st cs.
Definition rt_final (st : rst) (cs : list call) : rst := final rt_step st cs.

(* what the hook logic needs from the library (everything else is free):
   1  Play is entered only by a successful PLAY from PrePlay (or kept);
   2  Play is left only by a successful PAUSE;
   3  a successful PLAY from PrePlay does enter Play;   4  a successful PAUSE in Play does leave Play;
   5  the read-side handlers are only called on the read side (PLAY is never accepted in Initial / PreRecord / Record:
      s.path would be nil or a publisher path). *)
Definition lib_contract (h : hkind) (pre : lstate) (ok : bool) (post : lstate) : bool :=
  (negb (lstate_eqb post LPlay) || lstate_eqb pre LPlay || (hkind_eqb h HkPlay && lstate_eqb pre LPrePlay && ok)) &&
  (negb (lstate_eqb pre LPlay) || lstate_eqb post LPlay || (hkind_eqb h HkPause && ok) ) &&
  (negb (hkind_eqb h HkPlay && lstate_eqb pre LPrePlay && ok) || lstate_eqb post LPlay) &&
  (negb (hkind_eqb h HkPause && lstate_eqb pre LPlay && ok) || negb (lstate_eqb post LPlay)) &&
  (negb (lstate_eqb post LPrePlay) || lstate_eqb pre LPrePlay || lstate_eqb pre LPlay ||
     (hkind_eqb h HkSetup && lstate_eqb pre LInitial && ok)).

(* gortsplib v5 server_session.go handleRequestInner, transliterated: checkState before the handler, state change after
   it.  (Requests the library rejects before calling the handler - wrong path, bad Transport header, ... - change
   nothing and call nothing: they are stutter steps and not represented.) *)
Definition gl_accepts (h : hkind) (st : lstate) : bool :=
  match h, st with
  | HkAnnounce, LInitial => true
  | HkSetup, (LInitial | LPrePlay | LPreRecord) => true
  | HkPlay, (LPrePlay | LPlay) => true
  | HkRecord, LPreRecord => true
  | HkPause, (LPrePlay | LPlay | LPreRecord | LRecord) => true
  | HkClose, _ => true
  | _, _ => false
  end.

Definition gl_post (h : hkind) (st : lstate) (ok : bool) : lstate :=
  if negb ok then st else
  match h, st with
  | HkAnnounce, _ => LPreRecord
  | HkSetup, LInitial => LPrePlay
  | HkPlay, _ => LPlay
  | HkRecord, _ => LRecord
  | HkPause, LPlay => LPrePlay
  | HkPause, LRecord => LPreRecord
  | _, _ => st
  end.

(* after a successful onSetup the library can still refuse the request (media not in the stream, transport clash):
   the state is then unchanged *)
Definition gortsplib (h : hkind) (pre : lstate) (ok : bool) (post : lstate) : bool :=
  gl_accepts h pre && (lstate_eqb post (gl_post h pre ok) || (hkind_eqb h HkSetup && lstate_eqb post pre)).

(* requests / events a client (or the network) can cause, in any order *)
Inductive op :=
| OAnnounce (ok : bool) | OSetup (ok : bool) | OPlay | ORecord (ok dmx : bool) | OPause
| OClose.    (* TEARDOWN, connection loss, timeout, server shutdown: the library ends the session -> OnSessionClose *)

Definition op_kind (o : op) : hkind :=
  match o with
  | OAnnounce _ => HkAnnounce | OSetup _ => HkSetup | OPlay => HkPlay | ORecord _ _ => HkRecord
  | OPause => HkPause | OClose => HkClose
  end.
Definition op_ok (o : op) : bool :=
  match o with OAnnounce b | OSetup b | ORecord b _ => b | _ => true end.
Definition op_dmx (o : op) : bool := match o with ORecord _ d => d | _ => false end.

Definition is_close (o : op) : bool := match o with OClose => true | _ => false end.

(* the handler calls gortsplib makes for a request sequence (requests after the end of the session and requests refused
   by checkState reach no handler) *)
Fixpoint gs_calls (st : rst) (ops : list op) : list call :=
  match ops with
  | [] => []
  | o :: r =>
      if r_closed st || negb (gl_accepts (op_kind o) (r_l st)) then gs_calls st r
      else
        let c0 := mk_call (op_kind o) (op_ok o) (op_dmx o) LInitial in
        let c := mk_call (op_kind o) (op_ok o) (op_dmx o) (gl_post (op_kind o) (r_l st) (rt_status st c0)) in
        c :: gs_calls (fst (rt_step st c)) r
  end.

Definition gs_trace (ops : list op) : list hev := rt_trace rst0 (gs_calls rst0 ops).

(* ---- RTSP session with the API kick (Server.APISessionsKick) --------------------------------------------------------
   sx.Close() (cancels the library session's context), delete(s.sessions, key), sx.onClose(..) - on the CALLER's
   goroutine: the library state is not changed, the library session goroutine keeps handling requests until it
   observes the cancelled context, and its later OnSessionClose finds no entry in s.sessions (no second onClose). *)
Inductive kop := KOp (o : op) | KKick.

Record kst := mk_kst { k_r : rst; k_kicked : bool }.
Definition kst0 : kst := mk_kst rst0 false.

Definition ks_step (st : kst) (o : kop) : kst * list hev :=
  let r := k_r st in
  if r_closed r then (st, []) else
  match o with
  | KKick =>
      if k_kicked st then (st, [])                   (* findSessionByUUID: not found *)
      else let '(s', ev, _) := handler HkClose (r_l r) true false (r_s r) in
           (mk_kst (mk_rst (r_l r) s' false) true, ev)
  | KOp OClose =>
      if k_kicked st then (mk_kst (mk_rst (r_l r) (r_s r) true) true, [])   (* OnSessionClose: se == nil *)
      else let '(s', ev, _) := handler HkClose (r_l r) true false (r_s r) in
           (mk_kst (mk_rst (r_l r) s' true) false, ev)
  | KOp o =>
      if negb (gl_accepts (op_kind o) (r_l r)) then (st, [])
      else let '(s', ev, ok) := handler (op_kind o) (r_l r) (op_ok o) (op_dmx o) (r_s r) in
           (mk_kst (mk_rst (gl_post (op_kind o) (r_l r) ok) s' false) (k_kicked st), ev)
  end.

Definition ks_trace (ops : list kop) : list hev := trace ks_step kst0 ops.
Definition ks_final (ops : list kop) : kst := final ks_step kst0 ops.

(* guard of the partial theorem: after a kick the session goroutine handles no further request *)
Definition kop_quiet (o : kop) : bool := match o with KKick | KOp OClose => true | _ => false end.
Fixpoint quiet_after_kick (ops : list kop) : bool :=
  match ops with
  | [] => true
  | KKick :: r => forallb kop_quiet r
  | _ :: r => quiet_after_kick r
  end.

Definition kop_ends (o : kop) : bool := match o with KKick | KOp OClose => true | _ => false end.

(* ---- shape (b), RTSP conn: internal/servers/rtsp/conn.go ------------------------------------------------------------
   initialize() (Server.OnConnOpen) sets the field, onClose() (Server.OnConnClose) calls it.  gortsplib ServerConn.run
   is straight-line: OnConnOpen; requests...; OnConnClose. *)
Inductive cop := COpen | CRequest | CClose.

Definition cn_step (hook : bool) (o : cop) : bool * list hev :=
  match o with
  | COpen => (true, [HStart])
  | CRequest => (hook, [])
  | CClose => (hook, if hook then [HStop] else [HPanic])
  end.

Definition cn_trace (ops : list cop) : list hev := trace cn_step false ops.

Definition is_crequest (o : cop) : bool := match o with CRequest => true | _ => false end.
(* the call sequences ServerConn.run can produce (prefixes included: the process may stop at any point) *)
Definition cn_valid (ops : list cop) : bool :=
  match ops with
  | [] => true
  | COpen :: r =>
      forallb is_crequest r ||
      match rev r with CClose :: r' => forallb is_crequest r' | _ => false end
  | _ => false
  end.
Definition cn_closed (ops : list cop) : bool := existsb (fun o => match o with CClose => true | _ => false end) ops.

(* ---- shape (b), HLS session: internal/servers/hls/session.go, muxer.go ----------------------------------------------
   initialize() (HTTP handler goroutine):  ...; muxer.addSession(s) [HReg: from here on the muxer can reach s];
   ...; s.onUnreadHook = hooks.OnRead(..) [HSetHook].   The muxer / server goroutines call close2() on the sessions they
   can reach: HRemove = session cleanup ticker ("inactive"), "muxer instance crashed", "replaced by new CDN session"
   (close2 and removal from the muxer under one lock); HDestroy = the final loop of muxer.run ("muxer destroyed":
   close2 on every session, the map sessionsBySecret is NOT cleared, cdnSession is); HKick = muxer.apiSessionsKick. *)
Inductive hop := HReg | HSetHook | HRemove | HDestroy | HKick.

Record hst := mk_hst { h_reg : bool; h_hook : bool }.

Definition hl_step (cdn : bool) (st : hst) (o : hop) : hst * list hev :=
  let close2 := if h_hook st then [HStop] else [HPanic] in
  match o with
  | HReg => (mk_hst true (h_hook st), [])
  | HSetHook => (mk_hst (h_reg st) true, [HStart])
  | HRemove | HKick => if h_reg st then (mk_hst false (h_hook st), close2) else (st, [])
  | HDestroy => if h_reg st then (mk_hst (negb cdn) (h_hook st), close2) else (st, [])
  end.

Definition hl_trace (cdn : bool) (ops : list hop) : list hev := trace (hl_step cdn) (mk_hst false false) ops.

Definition hop_is (a b : hop) : bool :=
  match a, b with
  | HReg, HReg | HSetHook, HSetHook | HRemove, HRemove | HDestroy, HDestroy | HKick, HKick => true
  | _, _ => false
  end.

(* program order of initialize(): HReg then HSetHook, each once; the other operations interleave freely *)
Definition hl_program_order (ops : list hop) : bool :=
  let init := filter (fun o => hop_is o HReg || hop_is o HSetHook) ops in
  match init with [] | [HReg] | [HReg; HSetHook] => true | _ => false end.

(* guards of the partial theorem: (1) nothing reaches the session between addSession and the assignment of the hook;
   (2) no kick is served between "muxer destroyed" and the removal of the muxer from the server *)
Definition hop_other (o : hop) : bool := negb (hop_is o HReg || hop_is o HSetHook).
(* the interleavings of the partial theorem:  pre ++ [HReg; HSetHook] ++ post  with pre, post made of muxer operations
   and "muxer destroyed" the last thing that reaches the session *)
Fixpoint hl_destroy_last (ops : list hop) : bool :=
  match ops with
  | [] => true
  | HDestroy :: r => match r with [] => true | _ => false end
  | _ :: r => hl_destroy_last r
  end.
Definition hl_closes (o : hop) : bool := hop_is o HRemove || hop_is o HDestroy || hop_is o HKick.

(* ---- tie to the sources: which field families are modelled -------------------------------------------------------- *)
Fixpoint strs_eqb (a b : list string) : bool :=
  match a, b with
  | [], [] => true
  | x :: a', y :: b' => String.eqb x y && strs_eqb a' b'
  | _, _ => false
  end.

Record family := mk_family {
  f_file : string; f_owner : string; f_setter : string; f_hook : string;
  f_invokers : list string; f_nilled : list string;
  f_callers : option (list string)       (* None: the callers are not pinned (path hooks: covered by the PathSM model) *)
}.

Local Open Scope string_scope.
Definition families : list family := [
  (* rt_step / ks_step *)
  mk_family "internal/servers/rtsp/session.go" "session.onUnreadHook" "session.onPlay" "OnRead"
            ["session.onClose"; "session.onPause"] []
            (Some ["onClose<-Server.APISessionsKick"; "onClose<-Server.OnConnClose"; "onClose<-Server.OnSessionClose";
                   "onPause<-Server.OnPause"; "onPlay<-Server.OnPlay"]);
  (* cn_step *)
  mk_family "internal/servers/rtsp/conn.go" "conn.onDisconnectHook" "conn.initialize" "OnConnect"
            ["conn.onClose"] []
            (Some ["initialize<-Server.OnConnOpen"; "initialize<-Server.OnSessionOpen"; "initialize<-session.onRecord";
                   "onClose<-Server.APISessionsKick"; "onClose<-Server.OnConnClose"; "onClose<-Server.OnSessionClose"]);
  (* hl_step *)
  mk_family "internal/servers/hls/session.go" "session.onUnreadHook" "session.initialize" "OnRead"
            ["session.close2"] []
            (Some ["close2<-muxer.addSession"; "close2<-muxer.apiSessionsKick"; "close2<-muxer.run"; "close2<-muxer.runInner";
                   "initialize<-Server.Initialize"; "initialize<-Server.createMuxer"; "initialize<-httpServer.onRequest";
                   "initialize<-muxer.createInstance"]);
  (* the three path-level pairs: Model/PathSM.v, Props/C20.v *)
  mk_family "internal/core/path.go" "path.onUnDemandHook" "path.onDemandPublisherStart" "OnDemand"
            ["path.onDemandPublisherStop"; "path.run?"] ["path.onDemandPublisherStop"] None;
  mk_family "internal/core/path.go" "path.onOfflineHook" "path.setOnline" "OnOnline"
            ["path.setOffline"] ["path.setOffline"] None;
  mk_family "internal/core/path.go" "path.onUnavailableHook" "path.setAvailable" "OnAvailable"
            ["path.setNotAvailable"] [] None
].

Definition family_matches (s : site) (f : family) : bool :=
  String.eqb (st_file s) (f_file f) && String.eqb (st_owner s) (f_owner f) && String.eqb (st_func s) (f_setter f) &&
  String.eqb (st_hook s) (f_hook f) && strs_eqb (st_invokers s) (f_invokers f) && strs_eqb (st_nilled s) (f_nilled f) &&
  match f_callers f with Some cs => strs_eqb (st_callers s) cs | None => true end.

Definition site_ok (s : site) : bool :=
  match st_shape s with
  | ShDefer | ShStraight => true
  | ShField => existsb (family_matches s) families
  | ShOther => false
  end.

(* every modelled family is still there (a family that disappears makes its theorems vacuous) *)
Definition family_present (sites : list site) (f : family) : bool := existsb (fun s => family_matches s f) sites.

Definition sites_okb (sites : list site) (textual : Z) : bool :=
  forallb site_ok sites && forallb (family_present sites) families && Z.eqb (Z.of_nat (List.length sites)) textual.
