(* C08 — IPv6 side of conf.IPNetwork: net.IP.String / net.IPNet.String for 16-byte addresses
   (netip.Addr.appendTo6: RFC 5952 as Go implements it) and netip.parseIPv6 behind net.ParseCIDR / net.ParseIP,
   glued as IPNetwork.UnmarshalJSON does (ip_network.go).

   An address is its 16 bytes; a network is (bytes, ones) with Mask = CIDRMask(ones, 128).
   Zones ("%eth0") make both ParseCIDR and ParseIP fail, so a text with '%' is an error here. *)
From Coq Require Import List ZArith Bool.
Require Import MTX.Model.C08_Scalars.
Import ListNotations.
Local Open Scope Z_scope.

(* ------------------------------------------------------------------ printing *)

(* Addr.v6u16(i) for i = 0..7 *)
Fixpoint groups_of (ip : list Z) : list Z :=
  match ip with
  | a :: b :: r => (a * 256 + b) :: groups_of r
  | _ => []
  end.

Definition bytes_of (gs : list Z) : list Z := flat_map (fun g => [g / 256; g mod 256]) gs.

(* netip.appendHex: lower case, no leading zeros *)
Definition hexdig (d : Z) : Z := if d <? 10 then 48 + d else 87 + d.
Definition hex16 (x : Z) : list Z :=
  (if x >=? 4096 then [hexdig (x / 4096)] else []) ++
  (if x >=? 256 then [hexdig ((x / 256) mod 16)] else []) ++
  (if x >=? 16 then [hexdig ((x / 16) mod 16)] else []) ++ [hexdig (x mod 16)].

(* length of the run of zero groups at the head: the inner loop `for j < 8 && v6u16(j) == 0` *)
Fixpoint zrun (g : list Z) : nat :=
  match g with
  | x :: r => if x =? 0 then S (zrun r) else O
  | [] => O
  end.

(* the outer loop over i: (zeroStart, zeroEnd), None standing for the initial (255, 255) whose difference is 0;
   a run replaces the current one only when strictly longer: longest run, leftmost on ties, length >= 2 *)
Fixpoint best_run (g : list Z) (i : nat) (best : option (nat * nat)) : option (nat * nat) :=
  match g with
  | [] => best
  | _ :: r =>
      let l := zrun g in
      let cur := match best with Some (s, e) => (e - s)%nat | None => O end in
      best_run r (S i) (if (2 <=? l)%nat && (cur <? l)%nat then Some (i, (i + l)%nat) else best)
  end.

Definition join_colon (l : list (list Z)) : list Z :=
  match l with
  | [] => []
  | x :: r => x ++ flat_map (fun y => 58 :: y) r
  end.

(* the second loop of appendTo6: groups before zeroStart separated by ':', then "::", then the groups from
   zeroEnd on separated by ':' (nothing if zeroEnd = 8) *)
Definition ip6_string (ip : list Z) : list Z :=
  let g := groups_of ip in
  match best_run g 0 None with
  | None => join_colon (map hex16 g)
  | Some (s, e) => join_colon (map hex16 (firstn s g)) ++ [58; 58] ++ join_colon (map hex16 (skipn e g))
  end.

(* IP.To4 on 16 bytes: the IPv4-mapped prefix ::ffff:0:0/96 *)
Definition is4in6 (ip : list Z) : bool :=
  forallb (Z.eqb 0) (firstn 10 ip) && str_eqb (firstn 2 (skipn 10 ip)) [255; 255].

(* net.IP.String for 16 bytes: IPv4-mapped addresses print as dotted quad *)
Definition ip16_string (ip : list Z) : list Z :=
  if is4in6 ip then join_dots (map dec (skipn 12 ip)) else ip6_string ip.

(* net.IPNet.String for a 16-byte IP and Mask = CIDRMask(ones, 128): networkNumberAndMask turns a mapped
   address into its 4 bytes and the mask into its last 4 bytes *)
Definition ipnet6_string (ip : list Z) (ones : Z) : list Z :=
  if is4in6 ip then ipnet4_string (skipn 12 ip) (Z.max 0 (ones - 96))
  else ip6_string ip ++ [47] ++ dec ones.

(* ------------------------------------------------------------------ netip.parseIPv6 *)

Definition hexval (c : Z) : option Z :=
  if (48 <=? c) && (c <=? 57) then Some (c - 48)
  else if (97 <=? c) && (c <=? 102) then Some (c - 87)
  else if (65 <=? c) && (c <=? 70) then Some (c - 55)
  else None.

(* the inner loop over hex digits: (acc, off, rest); None = "more than 4 digits" / "value >= 2^16" *)
Fixpoint hex_scan (s : list Z) (acc off : Z) : option (Z * Z * list Z) :=
  match s with
  | [] => Some (acc, off, [])
  | c :: r =>
      match hexval c with
      | None => Some (acc, off, s)
      | Some d =>
          let acc' := acc * 16 + d in
          if off >? 3 then None else if acc' >? 65535 then None else hex_scan r acc' (off + 1)
      end
  end.

(* the loop `for i < 16`: acc holds ip[0:i]; result = (rest of the text, i, ellipsis, ip[0:i]) *)
Fixpoint v6_loop (fuel : nat) (s : list Z) (i : Z) (ell : option Z) (acc : list Z)
  : option (list Z * Z * option Z * list Z) :=
  match fuel with
  | O => None
  | S f =>
      if i >=? 16 then Some (s, i, ell, acc) else
      match hex_scan s 0 0 with
      | None => None
      | Some (a, off, r) =>
          if off =? 0 then None else
          match r with
          | [] => Some ([], i + 2, ell, acc ++ [a / 256; a mod 256])
          | c :: r1 =>
              if c =? 46 then
                (* embedded IPv4: must replace the final 2 fields *)
                if (match ell with None => negb (i =? 12) | Some _ => false end) then None
                else if i + 4 >? 16 then None
                else match parse_ipv4 s with
                     | Some q => Some ([], i + 4, ell, acc ++ q)
                     | None => None
                     end
              else if negb (c =? 58) then None
              else match r1 with
                   | [] => None                                  (* colon must be followed by more characters *)
                   | c2 :: r2 =>
                       let acc' := acc ++ [a / 256; a mod 256] in
                       if c2 =? 58 then
                         match ell with
                         | Some _ => None                        (* multiple :: *)
                         | None =>
                             match r2 with
                             | [] => Some ([], i + 2, Some (i + 2), acc')
                             | _ => v6_loop f r2 (i + 2) (Some (i + 2)) acc'
                             end
                         end
                       else v6_loop f r1 (i + 2) ell acc'
                   end
          end
      end
  end.

(* netip.ParseAddr on a text dispatched to parseIPv6, zone required empty, As16 *)
Definition parse_ipv6 (s0 : list Z) : option (list Z) :=
  if existsb (Z.eqb 37) s0 then None else
  let lead := match s0 with c1 :: c2 :: _ => (c1 =? 58) && (c2 =? 58) | _ => false end in
  let s := if lead then skipn 2 s0 else s0 in
  match lead, s with
  | true, [] => Some (repeat 0 16)
  | _, _ =>
      match v6_loop (S (length s)) s 0 (if lead then Some 0 else None) [] with
      | None => None
      | Some (rest, i, ell, acc) =>
          match rest with
          | _ :: _ => None                                        (* trailing garbage *)
          | [] =>
              if i <? 16 then
                match ell with
                | None => None                                    (* address string too short *)
                | Some e => Some (firstn (Z.to_nat e) acc ++ repeat 0 (Z.to_nat (16 - i)) ++ skipn (Z.to_nat e) acc)
                end
              else match ell with Some _ => None | None => Some acc end
          end
      end
  end.

(* net.ParseIP: netip.ParseAddr, zone required empty, As16 (an IPv4 address becomes ::ffff:a.b.c.d) *)
Definition parse_ip16 (s : list Z) : option (list Z) :=
  match addr_kind_of s with
  | AKv4 => option_map (fun q => repeat 0 10 ++ [255; 255] ++ q) (parse_ipv4 s)
  | AKv6 => parse_ipv6 s
  | AKbad => None
  end.

(* ------------------------------------------------------------------ IPNetwork.UnmarshalJSON, all texts *)

Inductive net_full := NFErr | NF4 (ip : list Z) (ones : Z) | NF6 (ip : list Z) (ones : Z).

(* what UnmarshalJSON stores for a parsed 16-byte address: To4 and the last 4 mask bytes when it is mapped *)
Definition net_of_ip16 (ip : list Z) (ones : Z) : net_full :=
  if is4in6 ip then NF4 (skipn 12 ip) (Z.max 0 (ones - 96)) else NF6 ip ones.

(* the texts that C08_Scalars.ipnet_unmarshal classifies as IPv6 *)
Definition ipnet6_unmarshal (t : list Z) : net_full :=
  let plain :=
    match addr_kind_of t with
    | AKv6 => match parse_ipv6 t with Some ip => net_of_ip16 ip 128 | None => NFErr end
    | _ => NFErr
    end in
  match cut_slash t with
  | None => plain
  | Some (addr, mask) =>
      match addr_kind_of addr with
      | AKv6 =>
          match parse_ipv6 addr, mask with
          | Some ip, _ :: _ =>
              match dtoi mask 0 with
              | Some n => if n <=? 128 then net_of_ip16 (apply_mask ip n) n else plain
              | None => plain
              end
          | _, _ => plain
          end
      | _ => plain
      end
  end.

Definition ipnet_unmarshal_full (t : list Z) : net_full :=
  match ipnet_unmarshal t with
  | NErr => NFErr
  | NVal ip n => NF4 ip n
  | NV6 => ipnet6_unmarshal t
  end.

(* the values the decoder can hold for an IPv6 network: 16 bytes, not IPv4-mapped, host bits clear *)
Definition net6_wf (ip : list Z) (ones : Z) : bool :=
  Nat.eqb (length ip) 16 && forallb (fun b => (0 <=? b) && (b <=? 255)) ip && (0 <=? ones) && (ones <=? 128)
  && str_eqb (apply_mask ip ones) ip && negb (is4in6 ip).
