(* C16, manager level: the life of one path NAME across the path instances that the path manager creates
   for it (internal/core/path_manager.go: createPath, doClosePath, doReloadConf, doAddPublisher / doAddReader /
   doDescribe, and the tail of path.run()).  Executable; no proofs here.

   Model/PathSM.v describes ONE instance (one `path` object, one goroutine).  A reload that cannot be applied
   to the running instance closes it (doClosePath: delete(pm.paths, name); pa.close(); pa.wait()) and creates
   another instance under the same name.  The tear-down of the closed instance (tail of path.run():
   Publisher.Close(), hooks, Reader.Close() for every reader, Stream.Close()) runs on the instance's own
   goroutine and takes time: every Close() may be slow.  What keeps two instances of a name from being
   occupied at once is that the manager goroutine stays inside doClosePath (pa.wait()) until the tear-down
   is over, and handles nothing in the meantime.

   A schedule is a list of choices of the Go scheduler:
     SHandle m   the manager goroutine handles message m (a client request for the name, or a reload);
                 NOT enabled while the manager is blocked in pa.wait() (the message stays in its channel)
     SDirect i o a client that was handed instance i earlier talks to it directly (second phase of
                 AddPublisher / AddReader / Describe, RemovePublisher, RemoveReader, static source calls,
                 timers); never blocked by the manager; an instance whose context is cancelled answers
                 "terminated" from the wrapper
     STick i     the closing instance i performs the next action of its tear-down (one Close() returns, ...)
   `wp` (wait policy) says for which configurations doClosePath waits: the code waits always. *)
From Coq Require Import List ZArith Bool.
Require Import MTX.Lib.Trace MTX.Model.PathSM.
Import ListNotations.
Local Open Scope Z_scope.

(* one path object. live: i_pend = []. closing: i_st = the state when its context was cancelled (it keeps its
   publisher, stream and readers until the tear-down is over), i_pend = the tear-down actions still to do *)
Record inst := mkInst { i_id : Z; i_st : pstate; i_pend : list pevent }.

(* what doReloadConf decides for the name (a name with its own, non-regexp configuration entry) *)
Inductive rkind :=
| RSame                    (* newPath.Equal(old): nothing happens *)
| RHot                     (* pathConfCanBeUpdated: the instance receives the new conf (ReloadConf) *)
| RRecreate (cf : pconf)   (* cannot be hot reloaded: doClosePath, later createPath with the new conf *)
| RRemove                  (* the name has no configuration any more: doClosePath *)
| RAdd (cf : pconf).       (* the name gets a configuration (again): createPath *)

Inductive mop := MReq (o : pop) | MReload (k : rkind).
Inductive sched := SHandle (m : mop) | SDirect (i : Z) (o : pop) | STick (i : Z).

Inductive nevent :=
| NEv (i : Z) (e : pevent)    (* event e of instance i *)
| NCreated (i : Z)            (* createPath *)
| NNoConf (q : Z)             (* the manager answers request q: path is not configured *)
| NGone (i : Z) (q : Z).      (* wrapper of instance i answers "terminated" (context cancelled) *)

Record nstate := mkN {
  n_conf : option pconf;    (* pm.pathConfs[name] *)
  n_live : option inst;     (* pm.paths[name] *)
  n_dying : list inst;      (* closed by doClosePath, tear-down not finished *)
  n_next : Z;               (* number of instances created so far *)
  n_todo : bool             (* the manager is inside doReloadConf and still has "create new static paths" to do *)
}.

Definition set_conf (v : option pconf) (ns : nstate) := mkN v (n_live ns) (n_dying ns) (n_next ns) (n_todo ns).
Definition set_live (v : option inst) (ns : nstate) := mkN (n_conf ns) v (n_dying ns) (n_next ns) (n_todo ns).
Definition set_dying (v : list inst) (ns : nstate) := mkN (n_conf ns) (n_live ns) v (n_next ns) (n_todo ns).
Definition set_todo (v : bool) (ns : nstate) := mkN (n_conf ns) (n_live ns) (n_dying ns) (n_next ns) v.

Definition tag (i : Z) (l : list pevent) : list nevent := map (NEv i) l.

(* the manager is inside pa.wait() of a closed instance *)
Definition blocked (wp : pconf -> bool) (ns : nstate) : bool :=
  existsb (fun x => wp (s_conf (i_st x))) (n_dying ns).

(* createPath: pa.initialize() starts run(), whose head is init_m *)
Definition create (cf : pconf) (ns : nstate) : nstate * list nevent :=
  let i := n_next ns in
  (mkN (n_conf ns) (Some (mkInst i (init_state cf) [])) (n_dying ns) (i + 1) false,
   NCreated i :: tag i (init_events cf)).

(* the manager goes on with the handler it is in (doReloadConf: "create new static paths") once doClosePath
   has returned *)
Definition mgr_continue (wp : pconf -> bool) (ns : nstate) : nstate * list nevent :=
  if n_todo ns && negb (blocked wp ns) then
    match n_conf ns, n_live ns with
    | Some cf, None => create cf ns
    | _, _ => (set_todo false ns, [])
    end
  else (ns, []).

(* doClosePath up to pa.close(): the instance leaves pm.paths, its context is cancelled; the tail of run()
   (the events of the instance's Close step) is still to be performed *)
Definition close_live (ns : nstate) : nstate :=
  match n_live ns with
  | Some x => set_dying (n_dying ns ++ [mkInst (i_id x) (i_st x) (snd (step (i_st x) Close))]) (set_live None ns)
  | None => ns
  end.

Definition creates (o : pop) : bool :=
  match o with Describe _ | AddPublisher _ _ _ | AddReader _ _ => true | _ => false end.
Definition req_id (o : pop) : option Z :=
  match o with Describe q | AddPublisher q _ _ | AddReader q _ | StaticReady q => Some q | _ => None end.

Definition on_live (o : pop) (ns : nstate) : nstate * list nevent :=
  match n_live ns with
  | Some x => let (s', evs) := step (i_st x) o in
              (set_live (Some (mkInst (i_id x) s' [])) ns, tag (i_id x) evs)
  | None => (ns, [])
  end.

(* doDescribe / doAddReader / doAddPublisher (findPathConf, "create path if it doesn't exist"), then the
   client's call on the instance it was handed *)
Definition handle_req (o : pop) (ns : nstate) : nstate * list nevent :=
  if negb (creates o) then (ns, [])
  else match n_conf ns with
       | None => (ns, match req_id o with Some q => [NNoConf q] | None => [] end)
       | Some cf =>
           let (ns1, ev1) := match n_live ns with Some _ => (ns, []) | None => create cf ns end in
           let (ns2, ev2) := on_live o ns1 in (ns2, ev1 ++ ev2)
       end.

Definition handle_reload (wp : pconf -> bool) (k : rkind) (ns : nstate) : nstate * list nevent :=
  match k with
  | RSame => (ns, [])
  | RHot => on_live ReloadConf ns
  | RRecreate cf' =>
      match n_conf ns with
      | Some _ => mgr_continue wp (set_todo true (set_conf (Some cf') (close_live ns)))
      | None => (ns, [])
      end
  | RRemove =>
      match n_conf ns with
      | Some _ => (set_conf None (close_live ns), [])
      | None => (ns, [])
      end
  | RAdd cf' =>
      match n_conf ns with
      | None => mgr_continue wp (set_todo true (set_conf (Some cf') ns))
      | Some _ => (ns, [])
      end
  end.

(* the wrappers of an instance whose context is cancelled (`case <-pa.ctx.Done()`) *)
Definition gone (i : Z) (o : pop) (ns : nstate) : nstate * list nevent :=
  (ns, if (0 <=? i) && (i <? n_next ns)
       then match req_id o with Some q => [NGone i q] | None => [] end
       else []).

Fixpoint tick_list (i : Z) (l : list inst) : list inst * list nevent :=
  match l with
  | [] => ([], [])
  | x :: r =>
      if i_id x =? i then
        match i_pend x with
        | [] => (r, [])
        | [e] => (r, [NEv i e])                                  (* tear-down over: close(pa.done) *)
        | e :: p => (mkInst (i_id x) (i_st x) p :: r, [NEv i e])
        end
      else let (r', ev) := tick_list i r in (x :: r', ev)
  end.

Definition nstep (wp : pconf -> bool) (ns : nstate) (sc : sched) : nstate * list nevent :=
  match sc with
  | SHandle m =>
      if blocked wp ns then (ns, [])
      else match m with
           | MReq o => handle_req o ns
           | MReload k => handle_reload wp k ns
           end
  | SDirect i o =>
      match o with
      | Close => (ns, [])
      | _ => match n_live ns with
             | Some x => if i_id x =? i then on_live o ns else gone i o ns
             | None => gone i o ns
             end
      end
  | STick i =>
      let (d, ev1) := tick_list i (n_dying ns) in
      let (ns2, ev2) := mgr_continue wp (set_dying d ns) in
      (ns2, ev1 ++ ev2)
  end.

(* pathManager.initialize(): every non-regexp configuration gets its instance *)
Definition ninit (cf : pconf) : nstate :=
  mkN (Some cf) (Some (mkInst 0 (init_state cf) [])) [] 1 false.

(* the code: doClosePath always waits *)
Definition wait_always (_ : pconf) : bool := true.
(* variants that are refuted: wait only for paths with a static source ("avoid conflicts between sources"
   read too literally), never wait *)
Definition wait_static_only (cf : pconf) : bool := c_static cf.
Definition wait_never (_ : pconf) : bool := false.

(* ---- what the property talks about --------------------------------------------------------------- *)
Definition instances (ns : nstate) : list inst :=
  match n_live ns with Some x => [x] | None => [] end ++ n_dying ns.
Definition is_some {A} (o : option A) : bool := match o with Some _ => true | None => false end.
(* the instance has a publisher attached, a stream, or readers *)
Definition occupied (x : inst) : bool :=
  is_some (s_source (i_st x)) || is_some (s_stream (i_st x)) || negb (Nat.eqb (length (s_readers (i_st x))) 0).
(* publishers attached to the NAME: over all its instances, closing ones included *)
Definition attached_pubs (ns : nstate) : list (Z * Z) :=
  flat_map (fun x => match s_source (i_st x) with Some p => [(i_id x, p)] | None => [] end) (instances ns).
Definition streams (ns : nstate) : list (Z * Z) :=
  flat_map (fun x => match s_stream (i_st x) with Some g => [(i_id x, g)] | None => [] end) (instances ns).
