(* Model of the path manager's reconciliation of live paths with the configuration
   (internal/core/path_manager.go: pathConfCanBeUpdated, initialize, doReloadConf, createPath, do{Describe,AddReader,
   AddPublisher}; internal/core/path.go: doReloadConf, shouldClose). Executable; no proofs here.

   A path configuration (conf.Path) is a vector of abstract field values, one per field of the struct in declaration
   order (MTXGen.C15_HotFields.path_fields, regenerated from the source on every run); equal values = reflect.DeepEqual.
   Resolution is C14's `find` with the same regexp oracle m. *)
From Coq Require Import List ZArith Bool String.
Require Import MTX.Model.C14_PathConf.
Require Import MTXGen.C15_HotFields.
Import ListNotations.
Local Open Scope Z_scope.

Definition conf := list Z.

Fixpoint conf_eqb (a b : conf) : bool :=
  match a, b with
  | [], [] => true
  | x :: a', y :: b' => (x =? y) && conf_eqb a' b'
  | _, _ => false
  end.

Fixpoint strs_eqb (a b : list str) : bool :=
  match a, b with
  | [], [] => true
  | x :: a', y :: b' => str_eqb x y && strs_eqb a' b'
  | _, _ => false
  end.

(* pathConfCanBeUpdated(old, new): clone old, overwrite the hot fields with new's, compare everything.
   mask says, field by field, whether the function copies it (fields beyond the mask are not copied). *)
Fixpoint can_update_mask (mask : list bool) (o n : conf) : bool :=
  match o, n with
  | [], [] => true
  | x :: o', y :: n' => (hd false mask || (x =? y)) && can_update_mask (tl mask) o' n'
  | _, _ => false
  end.

Definition mem_str (s : string) (l : list string) : bool := existsb (String.eqb s) l.

(* the instance generated from the source *)
Definition hot_mask : list bool := map (fun f => mem_str f hot_fields) path_fields.
Definition can_update : conf -> conf -> bool := can_update_mask hot_mask.

(* a live path: pm.paths[name] = &path{name, confName, conf, matches}; gen identifies the *path object *)
Record lpath := LP { p_name : str; p_confName : str; p_conf : conf; p_matches : list str; p_gen : Z }.

Record state := ST {
  st_confs : list (str * conf);     (* pm.pathConfs *)
  st_paths : list lpath;            (* pm.paths *)
  st_next : Z;                      (* next fresh object identity *)
  st_crashed : bool                 (* a nil *conf.Path was dereferenced in doReloadConf *)
}.

Inductive op :=
| Reload (nc : list (str * conf))   (* ReloadPathConfs(newPaths), after every go pa.reloadConf() has landed *)
| Create (n : str)                  (* a publisher arrives on n (AddPublisher): the path is created on demand *)
| Leave (n : str).                  (* that publisher leaves: a path served by a regexp configuration closes itself *)

Section PM.
  Variable m : str -> str -> option (list str).   (* regexp oracle, as in C14 *)
  Variable mask : list bool.                       (* which fields pathConfCanBeUpdated copies *)
  Variable fixed : bool.   (* false: the code as found (a moved path keeps its old groups); true: after the fix: commit
                              (reloadConfAndMatches hands the new groups to the path) *)

  Definition upd := can_update_mask mask.

  (* membership in confsToRecreate / confsToReload, as characteristic functions of the two Go sets *)
  Definition in_recreate (old nc : list (str * conf)) (k : str) : bool :=
    match lookup old k, lookup nc k with
    | Some c, Some c' => negb (conf_eqb c' c) && negb (upd c c')
    | _, _ => false
    end.

  Definition in_reload (old nc : list (str * conf)) (k : str) : bool :=
    match lookup old k, lookup nc k with
    | Some c, Some c' => negb (conf_eqb c' c) && upd c c'
    | _, _ => false
    end.

  Inductive pres := PKeep (p : lpath) | PClose | PCrash.

  (* the body of "for pathName, pa := range pm.paths" *)
  Definition reload_path (old nc : list (str * conf)) (p : lpath) : pres :=
    match find m nc (p_name p) with
    | Found k c g =>
        if negb (str_eqb k (p_confName p)) then
          (* path now belongs to a different config *)
          match lookup old (p_confName p) with
          | None => PCrash
          | Some oc =>
              if upd oc c
              then PKeep (LP (p_name p) k c (if fixed then g else p_matches p) (p_gen p))
              else PClose
          end
        else if in_recreate old nc k then PClose
        else if in_reload old nc k then PKeep (LP (p_name p) (p_confName p) c (p_matches p) (p_gen p))
        else PKeep p
    | _ => PClose
    end.

  Definition keep_of (r : pres) : list lpath := match r with PKeep p => [p] | _ => [] end.
  Definition is_crash (r : pres) : bool := match r with PCrash => true | _ => false end.
  Definition has_path (ps : list lpath) (n : str) : bool := existsb (fun p => str_eqb (p_name p) n) ps.

  (* "create new static paths" (also pathManager.initialize) *)
  Fixpoint create_static (nc : list (str * conf)) (live : list lpath) (next : Z) : list lpath * Z :=
    match nc with
    | [] => ([], next)
    | (k, c) :: r =>
        if negb (is_regex_key k) && negb (has_path live k)
        then let '(l, n') := create_static r live (next + 1) in (LP k k c [] next :: l, n')
        else create_static r live next
    end.

  Definition reload (s : state) (nc : list (str * conf)) : state :=
    let rs := map (reload_path (st_confs s) nc) (st_paths s) in
    let kept := flat_map keep_of rs in
    let '(created, next') := create_static nc kept (st_next s) in
    ST nc (kept ++ created) next' (st_crashed s || existsb is_crash rs).

  Definition create (s : state) (n : str) : state :=
    if has_path (st_paths s) n then s
    else if negb (valid_name n) then s   (* pathManager.findPathConf validates the requested name first *)
    else match find m (st_confs s) n with
         | Found k c g => ST (st_confs s) (st_paths s ++ [LP n k c g (st_next s)]) (st_next s + 1) (st_crashed s)
         | _ => s
         end.

  Definition leave (s : state) (n : str) : state :=
    ST (st_confs s)
       (filter (fun p => negb (str_eqb (p_name p) n && is_regex_key (p_confName p))) (st_paths s))
       (st_next s) (st_crashed s).

  Definition step (s : state) (o : op) : state :=
    match o with
    | Reload nc => reload s nc
    | Create n => create s n
    | Leave n => leave s n
    end.

  Definition run (s : state) (h : list op) : state := fold_left step h s.

  (* pathManager.initialize with pm.pathConfs = cs *)
  Definition init (cs : list (str * conf)) : state := reload (ST [] [] 0 false) cs.
End PM.
