(* C20b: the record type of the generated table coq/gen/C20_HookSites.v (one entry per mention of a constructor
   of package internal/hooks in the Go sources; written by tools/gen/hooksites). *)
From Coq Require Import ZArith List String.
Import ListNotations.

Inductive shape :=
| ShDefer      (* x := hooks.OnX(...); defer x()                       - structural pairing *)
| ShStraight   (* x := hooks.OnX(...); ...no return...; x()            - structural pairing on non-panicking runs *)
| ShField      (* recv.f = hooks.OnX(...), closure invoked by other methods - needs an automaton *)
| ShOther.     (* anything else: the tie is broken *)

Record site := mk_site {
  st_file : string;            (* path below the repository root *)
  st_line : Z;
  st_func : string;            (* enclosing function, "Type.method" *)
  st_hook : string;            (* OnRead, OnConnect, ... *)
  st_shape : shape;
  st_owner : string;           (* "local x" or "Struct.field" *)
  st_invokers : list string;   (* ShField: functions invoking the field, sorted; "?" = inside `if f != nil` *)
  st_nilled : list string;     (* ShField: functions assigning nil to the field, sorted *)
  st_callers : list string     (* ShField: "method<-caller" for the setter and the invokers, by method name, sorted *)
}.
