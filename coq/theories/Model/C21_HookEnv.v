(* C21, the CALLERS of the hook launcher: "the environment of a hook is built when the event happens, the
   command reads it later". Executable; no proofs here.

   Go facts transliterated:
   - externalcmd.Environment is a Go map: a REFERENCE. `env := pa.ExternalCmdEnv()` allocates a new map
     (step New), `env[k] = v` writes through the reference (step Set), `&externalcmd.Cmd{Env: env}` +
     `cmd.Start()` stores the reference in the command and spawns its routine (step Start);
   - the command's routine reads c.Env later, at moments the caller does not control: `run` copies it into the
     child's environ when the routine is first scheduled, `runOSSpecific` looks variables up in it on every
     (re)start (step Read: one look at the whole map).
   A call site is a program of SNew/SSet/SStart steps; an execution is that program with SRead steps inserted at
   arbitrary places (every interleaving of the caller's routine with the commands' routines). *)
From Coq Require Import List ZArith Bool.
Require Import MTX.Model.C21_ExtCmd.
Import ListNotations.

Definition henv := list (bytes * bytes).           (* a map: no key twice *)

Fixpoint hremove (k : bytes) (e : henv) : henv :=
  match e with
  | [] => []
  | (k', v) :: r => if bytes_eqb k k' then hremove k r else (k', v) :: hremove k r
  end.

Definition hset (k v : bytes) (e : henv) : henv := (k, v) :: hremove k e.

Definition hset_all (sets : list (bytes * bytes)) (e : henv) : henv :=
  fold_left (fun m kv => hset (fst kv) (snd kv) m) sets e.

Inductive hstep :=
| SNew (base : henv)              (* a fresh map (ExternalCmdEnv()); its address is the number of maps so far *)
| SSet (a : nat) (k v : bytes)    (* env[k] = v on the map at address a *)
| SStart (a : nat)                (* a command holding a reference to map a; its id is the number of commands so far *)
| SRead (c : nat).                (* command c looks at its Env *)

Definition is_read (s : hstep) : bool := match s with SRead _ => true | _ => false end.

(* the caller's program inside an execution: everything that is not a command's read *)
Definition caller_of (tr : list hstep) : list hstep := filter (fun s => negb (is_read s)) tr.

Record hstate := HS { heap : list henv; cmds : list (nat * henv) }.
   (* cmds: per command the address it holds and (ghost) the map's content when the command was started *)

Definition hinit := HS [] [].

Fixpoint upd {A} (n : nat) (f : A -> A) (l : list A) : list A :=
  match l, n with
  | [], _ => []
  | x :: r, O => f x :: r
  | x :: r, S n' => x :: upd n' f r
  end.

Definition hexec (st : hstate) (s : hstep) : hstate :=
  match s with
  | SNew b => HS (heap st ++ [b]) (cmds st)
  | SSet a k v => HS (upd a (hset k v) (heap st)) (cmds st)
  | SStart a => HS (heap st) (cmds st ++ [(a, nth a (heap st) [])])
  | SRead _ => st
  end.

(* what command c sees when it looks now / what it was handed at Start *)
Definition sees (st : hstate) (c : nat) : option henv :=
  match nth_error (cmds st) c with Some (a, _) => Some (nth a (heap st) []) | None => None end.
Definition handed (st : hstate) (c : nat) : option henv :=
  match nth_error (cmds st) c with Some (_, e) => Some e | None => None end.

(* all reads of an execution: (command, map content seen); a read before the command exists is not possible *)
Fixpoint hrun (st : hstate) (tr : list hstep) : list (nat * henv) :=
  match tr with
  | [] => []
  | s :: r =>
      match s with
      | SRead c => match sees st c with Some e => (c, e) :: hrun st r | None => hrun st r end
      | _ => hrun (hexec st s) r
      end
  end.

Fixpoint hrun_handed (st : hstate) (tr : list hstep) : list (nat * henv) :=
  match tr with
  | [] => []
  | s :: r =>
      match s with
      | SRead c => match handed st c with Some e => (c, e) :: hrun_handed st r | None => hrun_handed st r end
      | _ => hrun_handed (hexec st s) r
      end
  end.

Definition hfinal (st : hstate) (tr : list hstep) : hstate := fold_left hexec tr st.

(* the discipline of the code's call sites: a map is never written once a command holds it, and commands are
   only given maps that exist *)
Definition step_ok (st : hstate) (s : hstep) : bool :=
  match s with
  | SSet a _ _ => negb (existsb (fun c => Nat.eqb (fst c) a) (cmds st))
  | SStart a => Nat.ltb a (length (heap st))
  | _ => true
  end.

Fixpoint disciplined (st : hstate) (tr : list hstep) : bool :=
  match tr with
  | [] => true
  | s :: r => step_ok st s && disciplined (hexec st s) r
  end.

(* ---- call sites ---- *)

(* a hook event: what ExternalCmdEnv() returns at that moment, and what the call site adds for the event *)
Record hevent := HEv { ev_kind : bytes; ev_base : henv; ev_sets : list (bytes * bytes) }.

Definition intended (e : hevent) : henv := hset_all (ev_sets e) (ev_base e).

(* path.go's segment hooks, setOnline, onDemand..., the protocol servers: each event builds its own map
   (n = number of maps allocated so far) *)
Fixpoint per_event (n : nat) (evs : list hevent) : list hstep :=
  match evs with
  | [] => []
  | e :: r => SNew (ev_base e) :: map (fun kv => SSet n (fst kv) (snd kv)) (ev_sets e) ++ SStart n :: per_event (S n) r
  end.

(* the hoisted variant: one map built once, every event writes its values into it *)
Definition shared_map (b : henv) (evs : list hevent) : list hstep :=
  SNew b :: flat_map (fun e => map (fun kv => SSet O (fst kv) (snd kv)) (ev_sets e) ++ [SStart O]) evs.

(* the execution the correspondence driver forces: all commands read after the last event *)
Definition reads_last (prog : list hstep) (ncmds : nat) : list hstep := prog ++ map SRead (seq 0 ncmds).

(* ---- what a command does with the map it sees (ties this layer to run_launch's inputs) ---- *)
Definition hook_argv (kind : bytes) (arg_keys : list bytes) (e : henv) : list bytes :=
  kind :: map (fun k => match assoc k e with Some v => v | None => [] end) arg_keys.
