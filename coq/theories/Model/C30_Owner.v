(* C30: the class of record paths in which a file name has one owner: every '%' starts a placeholder,
   %path occurs exactly once and there is no %z - every group beside (.*?) has a fixed width, so the
   position and length of the path name inside a file name are determined by the file name's length.
   All of mediamtx's documented layouts are of this kind (rec/%path/%Y-%m-%d_%H-%M-%S-%f, and the
   flat ones where the name is part of the file name: rec/%path_%Y-%m-%d_%H-%M-%S-%f, rec/%path-%s). *)
From Coq Require Import List ZArith Bool.
Require Import MTX.Model.C26_RecPath MTX.Model.C31_DeleteSeg.
Import ListNotations.

Definition single_owner_format (rp : list Z) : bool :=
  let ts := tokenize rp in
  no_stray ts && (count_tok TPath ts =? 1)%nat && negb (has Tz ts).
