(* Model of internal/protocols/tls/make_config.go: the VerifyConnection callback installed when a fingerprint is set.
   SHA-256 of the leaf certificate is an input (oracle): `digest` is its 32 bytes. Strings are byte lists. *)
From Coq Require Import List ZArith Bool.
Import ListNotations.
Local Open Scope Z_scope.

Definition hex_digit (n : Z) : Z := if n <? 10 then 48 + n else 87 + n.      (* "0123456789abcdef" *)

(* encoding/hex.EncodeToString *)
Fixpoint hex_encode (bs : list Z) : list Z :=
  match bs with
  | [] => []
  | b :: r => hex_digit (b / 16) :: hex_digit (b mod 16) :: hex_encode r
  end.

(* strings.ToLower restricted to what can matter here: ASCII letters are lowered, every other byte is kept
   (non-ASCII code points never lower to an ASCII hex digit; exercised by the driver) *)
Definition lower_byte (c : Z) : Z := if (65 <=? c) && (c <=? 90) then c + 32 else c.
Definition to_lower (s : list Z) : list Z := map lower_byte s.

Fixpoint bytes_eqb (a b : list Z) : bool :=
  match a, b with
  | [], [] => true
  | x :: a', y :: b' => (x =? y) && bytes_eqb a' b'
  | _, _ => false
  end.

(* VerifyConnection returns nil (accept) iff hex(sha256(leaf)) == lower(fingerprint) *)
Definition verify (fingerprint digest : list Z) : bool := bytes_eqb (hex_encode digest) (to_lower fingerprint).

(* MakeConfig: pinning is installed iff the fingerprint is not empty *)
Definition pinned (fingerprint : list Z) : bool := match fingerprint with [] => false | _ => true end.
