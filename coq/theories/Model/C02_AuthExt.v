(* Model of the http and jwt authentication methods of internal/auth/manager.go: getToken, isHTTP, Authenticate's
   token/AskCredentials handling, authenticateHTTP (exclude list, JSON body, status test), authenticateJWT (exclude list,
   JWKS availability, token presence, verification, permission claim) and jwtClaims.UnmarshalJSON's claim decoding.
   Executable; no proofs here. matchesPermission is the model of C01 (Model/C01_Auth.v).

   Oracles (function arguments; the driver ships their values computed by the real libraries on the case's input):
     rx        : pattern -> text -> bool          Go regexp Compile + MatchString (paths "~...")
     post      : body -> option status            the HTTP POST to the auth server (None = transport error)
     jwt_parse : token -> option (subject, raw claim value or None)
                                                  golang-jwt ParseWithClaims with the JWKS keyfunc and the parser options
                                                  authenticateJWT passes: Some iff the token is well formed, its
                                                  alg/kid/signature verify against a JWKS key and exp/nbf/iss/aud validate;
                                                  the raw JSON under the claim key. authenticate_jwt is generic in it;
                                                  authenticate_jwt_cfg (end of file) instantiates it with
                                                  parse_with_claims jwt_verify (parser_opts JWTIssuer JWTAudience), where
     jwt_verify : token -> option jclaims         is ParseWithClaims with the JWKS keyfunc and NO parser option (well formed,
                                                  alg/kid/signature, exp/nbf) returning the registered claims sub, iss, aud
                                                  and the raw JSON under the claim key; the option list and golang-jwt's
                                                  Validator.verifyIssuer / verifyAudience are modelled (parser_opts, opt_ok)
     dec_perms : raw JSON -> option (list perm)   jsonwrapper.Unmarshal into []AuthInternalUserPermission
     dec_str   : raw JSON -> option string        json.Unmarshal into string
   req.IP.String() and req.ID.String() are shipped as strings (x_ipstr, x_id). *)
From Coq Require Import List ZArith Bool.
Require Import MTX.Lib.Utf8 MTX.Lib.Json MTX.Model.C01_Auth.
Import ListNotations.
Local Open Scope Z_scope.

Definition p_rtsp : list Z := [114; 116; 115; 112].
Definition p_rtmp : list Z := [114; 116; 109; 112].
Definition p_hls : list Z := [104; 108; 115].
Definition p_webrtc : list Z := [119; 101; 98; 114; 116; 99].
Definition k_token : list Z := [116; 111; 107; 101; 110].
Definition k_jwt : list Z := [106; 119; 116].

Record xreq := {
  x_user : list Z; x_pass : list Z; x_token : list Z;
  x_ipstr : list Z;                 (* req.IP.String() *)
  x_action : list Z; x_path : list Z; x_proto : list Z;
  x_id : option (list Z);           (* req.ID: nil or uuid.String() *)
  x_query : list Z; x_agent : list Z;
  x_ask : bool                      (* EnableAskCredentials *)
}.

(* ---- isHTTP ---------------------------------------------------------------------------- *)

Definition is_http (r : xreq) : bool :=
  list_eqb (x_proto r) p_hls || list_eqb (x_proto r) p_webrtc ||
  list_eqb (x_action r) a_playback || list_eqb (x_action r) a_api ||
  list_eqb (x_action r) a_metrics || list_eqb (x_action r) a_pprof.

(* ---- net/url: QueryUnescape, ParseQuery ---------------------------------------------------- *)

Definition ishex (c : Z) : bool :=
  ((48 <=? c) && (c <=? 57)) || ((97 <=? c) && (c <=? 102)) || ((65 <=? c) && (c <=? 70)).
Definition unhex (c : Z) : Z := 9 * (c / 64) + c mod 16.          (* 9*(c>>6) + (c&15) *)

(* url.QueryUnescape: %XX -> byte, '+' -> ' '; None on a malformed escape *)
Fixpoint unescape (s : list Z) : option (list Z) :=
  match s with
  | [] => Some []
  | c :: r =>
      if c =? 37 then
        match r with
        | a :: r1 =>
            match r1 with
            | b :: r2 =>
                if ishex a && ishex b then
                  match unescape r2 with Some t => Some ((unhex a * 16 + unhex b) mod 256 :: t) | None => None end
                else None
            | [] => None
            end
        | [] => None
        end
      else match unescape r with
           | Some t => Some ((if c =? 43 then 32 else c) :: t)
           | None => None
           end
  end.

(* strings.Cut(s, sep) for a one-byte separator: (before, after, found) *)
Fixpoint cut (sep : Z) (s : list Z) : list Z * list Z * bool :=
  match s with
  | [] => ([], [], false)
  | c :: r => if c =? sep then ([], r, true)
              else let '(a, b, f) := cut sep r in (c :: a, b, f)
  end.

(* the pieces between '&' *)
Fixpoint split_amp (s cur : list Z) : list (list Z) :=
  match s with
  | [] => [rev cur]
  | c :: r => if c =? 38 then rev cur :: split_amp r [] else split_amp r (c :: cur)
  end.

(* one piece of the query: error flag and the pair it contributes *)
Definition parse_piece (p : list Z) : bool * option (list Z * list Z) :=
  if existsb (Z.eqb 59) p then (true, None)
  else match p with
       | [] => (false, None)
       | _ => let '(k, v, _) := cut 61 p in
              match unescape k with
              | None => (true, None)
              | Some k' => match unescape v with
                           | None => (true, None)
                           | Some v' => (false, Some (k', v'))
                           end
              end
       end.

(* url.ParseQuery: (err != nil, pairs in order of appearance); the parameter-count limit (10000) is not modelled *)
Definition parse_query (q : list Z) : bool * list (list Z * list Z) :=
  match q with
  | [] => (false, [])
  | _ => fold_right (fun p acc => let '(e, kv) := parse_piece p in
                                  (e || fst acc, match kv with Some x => x :: snd acc | None => snd acc end))
                    (false, []) (split_amp q [])
  end.

Definition values (k : list Z) (ps : list (list Z * list Z)) : list (list Z) :=
  map snd (filter (fun p => list_eqb (fst p) k) ps).

(* ---- getToken ----------------------------------------------------------------------------- *)

Definition query_allowed (in_http_query : bool) (r : xreq) : bool :=
  list_eqb (x_proto r) p_rtsp || list_eqb (x_proto r) p_rtmp || (in_http_query && is_http r).

Definition query_token (q : list Z) : list Z :=
  let '(err, ps) := parse_query q in
  if err then []
  else match values k_token ps with
       | [v] => v
       | _ => match values k_jwt ps with [v] => v | _ => [] end
       end.

Definition get_token (in_http_query : bool) (r : xreq) : list Z :=
  match x_token r with
  | _ :: _ => x_token r
  | [] => match x_pass r with
          | _ :: _ => x_pass r
          | [] => if query_allowed in_http_query r then query_token (x_query r) else []
          end
  end.

(* Authenticate: tokenInHTTPQuery = Method == jwt && JWTInHTTPQuery != nil && *JWTInHTTPQuery *)
Definition in_query_flag (is_jwt : bool) (cfg : option bool) : bool :=
  is_jwt && match cfg with Some b => b | None => false end.

Definition ask_flag (r : xreq) (tok : list Z) : bool :=
  x_ask r && list_eqb (x_user r) [] && list_eqb (x_pass r) [] && list_eqb tok [].

(* ---- authenticateHTTP ------------------------------------------------------------------------ *)

Inductive jval := JStr (s : list Z) | JNull.

Definition enc_val (v : jval) : list Z :=
  match v with JStr s => json_string s | JNull => [110; 117; 108; 108] end.

Fixpoint enc_members (ms : list (list Z * jval)) : list Z :=
  match ms with
  | [] => [125]
  | [(k, v)] => json_string k ++ [58] ++ enc_val v ++ [125]
  | (k, v) :: r => json_string k ++ [58] ++ enc_val v ++ [44] ++ enc_members r
  end.

Definition body_fields (r : xreq) (tok : list Z) : list (list Z * jval) :=
  [ ([105; 112], JStr (x_ipstr r));                                           (* ip *)
    ([117; 115; 101; 114], JStr (x_user r));                                  (* user *)
    ([112; 97; 115; 115; 119; 111; 114; 100], JStr (x_pass r));               (* password *)
    ([116; 111; 107; 101; 110], JStr tok);                                    (* token *)
    ([97; 99; 116; 105; 111; 110], JStr (x_action r));                        (* action *)
    ([112; 97; 116; 104], JStr (x_path r));                                   (* path *)
    ([112; 114; 111; 116; 111; 99; 111; 108], JStr (x_proto r));              (* protocol *)
    ([105; 100], match x_id r with Some u => JStr u | None => JNull end);     (* id *)
    ([113; 117; 101; 114; 121], JStr (x_query r));                            (* query *)
    ([117; 115; 101; 114; 65; 103; 101; 110; 116], JStr (x_agent r)) ].       (* userAgent *)

(* json.Marshal of the anonymous struct *)
Definition http_body (r : xreq) (tok : list Z) : list Z := 123 :: enc_members (body_fields r tok).

Section Ext.
Variable rx : list Z -> list Z -> bool.

Definition excluded (ex : list perm) (r : xreq) : bool := matches_permission rx ex (x_action r) (x_path r).

(* what is posted (None: no request is made) *)
Definition http_posted (ex : list perm) (r : xreq) : option (list Z) :=
  if excluded ex r then None else Some (http_body r (get_token false r)).

Definition authenticate_http (post : list Z -> option Z) (ex : list perm) (r : xreq) : outcome :=
  let tok := get_token false r in
  if excluded ex r then Granted []
  else match post (http_body r tok) with
       | Some st => if (200 <=? st) && (st <=? 299) then Granted (x_user r) else Denied (ask_flag r tok)
       | None => Denied (ask_flag r tok)
       end.

(* ---- authenticateJWT ---------------------------------------------------------------------------- *)

Variable jwt_parse : list Z -> option (list Z * option (list Z)).
Variable dec_perms : list Z -> option (list perm).
Variable dec_str : list Z -> option (list Z).

(* jwtClaims.UnmarshalJSON after the claim was found: array form, else string holding the array form *)
Definition claim_perms (raw : list Z) : option (list perm) :=
  match dec_perms raw with
  | Some ps => Some ps
  | None => match dec_str raw with
            | Some s => dec_perms s
            | None => None
            end
  end.

Definition authenticate_jwt (ex : list perm) (jwks_ok : bool) (in_query : option bool) (r : xreq) : outcome :=
  let tok := get_token (in_query_flag true in_query) r in
  if excluded ex r then Granted []
  else if negb jwks_ok then Denied (ask_flag r tok)
  else match tok with
       | [] => Denied (ask_flag r tok)
       | _ => match jwt_parse tok with
              | None => Denied (ask_flag r tok)
              | Some (sub, None) => Denied (ask_flag r tok)
              | Some (sub, Some raw) =>
                  match claim_perms raw with
                  | None => Denied (ask_flag r tok)
                  | Some ps => if matches_permission rx ps (x_action r) (x_path r) then Granted sub
                               else Denied (ask_flag r tok)
                  end
              end
       end.

End Ext.

(* ---- authenticateJWT's parser options: JWTIssuer, JWTAudience ------------------------------------ *)

(* what golang-jwt hands back for a token that verifies without any option: RegisteredClaims.Subject / .Issuer ("" when
   absent) / .Audience (ClaimStrings: a string is a one-element list; nil when absent), and the raw JSON under the claim key *)
Record jclaims := { jc_sub : list Z; jc_iss : list Z; jc_aud : list (list Z); jc_raw : option (list Z) }.

Inductive popt := WithIssuer (s : list Z) | WithAudience (s : list Z).

(* var opts []jwt.ParserOption
   if m.JWTIssuer != "" { opts = append(opts, jwt.WithIssuer(m.JWTIssuer)) }
   if m.JWTAudience != "" { opts = append(opts, jwt.WithAudience(m.JWTAudience)) } *)
Definition parser_opts (issuer audience : list Z) : list popt :=
  (match issuer with [] => [] | _ :: _ => [WithIssuer issuer] end) ++
  (match audience with [] => [] | _ :: _ => [WithAudience audience] end).

(* golang-jwt v5.3.1 Validator.Validate, the two checks the options switch on (each is independent of the other and of
   the exp/nbf checks; a failure of any makes ParseWithClaims fail):
   WithIssuer(s): expectedIss = s; checked when s != ""; verifyIssuer: iss == "" -> required claim missing, else iss == s.
   WithAudience(s): expectedAud = [s], expectAllAud = false; verifyAudience: len(aud) == 0 or aud == [""] -> required claim
   missing; else some element of aud is contained in [s]. *)
Definition opt_ok (c : jclaims) (o : popt) : bool :=
  match o with
  | WithIssuer s => match s with
                    | [] => true
                    | _ :: _ => match jc_iss c with [] => false | _ :: _ => list_eqb (jc_iss c) s end
                    end
  | WithAudience s => match jc_aud c with
                      | [] => false
                      | [[]] => false
                      | auds => existsb (fun a => list_eqb a s) auds
                      end
  end.

(* jwt.ParseWithClaims(token, &cc, keyfunc, opts...) as seen by authenticateJWT *)
Definition parse_with_claims (jwt_verify : list Z -> option jclaims) (opts : list popt) (tok : list Z)
  : option (list Z * option (list Z)) :=
  match jwt_verify tok with
  | None => None
  | Some c => if forallb (opt_ok c) opts then Some (jc_sub c, jc_raw c) else None
  end.

(* authenticateJWT with its configuration *)
Definition authenticate_jwt_cfg (rx : list Z -> list Z -> bool) (jwt_verify : list Z -> option jclaims)
  (dec_perms : list Z -> option (list perm)) (dec_str : list Z -> option (list Z))
  (issuer audience : list Z) (ex : list perm) (jwks_ok : bool) (in_query : option bool) (r : xreq) : outcome :=
  authenticate_jwt rx (parse_with_claims jwt_verify (parser_opts issuer audience)) dec_perms dec_str ex jwks_ok in_query r.
