(* Model of the JWKS cache of internal/auth/manager.go: pullJWTJWKS, RefreshJWTJWKS, and authenticateJWT over a sequence of
   requests on ONE Manager. Executable; no proofs here.

   Go state: m.jwksLastRefresh (time) and m.jwtKeyFunc. The model keeps what the code looks at:
     js_fresh = (now - jwksLastRefresh < jwksRefreshPeriod)      false for the zero time of a new Manager
     js_keys  = the key set m.jwtKeyFunc was built from          None for the nil of a new Manager
   K is the type of key sets (what the JWKS server serves); `served : option K` is the outcome of the GET + JSON decode +
   keyfunc.NewJWKSetJSON of pullJWTJWKS at that moment (None: any of the three failed).
   Oracle: verify k token = golang-jwt ParseWithClaims with the keyfunc built from k and no parser option. *)
From Coq Require Import List ZArith Bool.
Require Import MTX.Lib.Utf8 MTX.Model.C01_Auth MTX.Model.C02_AuthExt.
Import ListNotations.
Local Open Scope Z_scope.

Section Jwks.
Variable K : Type.

Record jstate := { js_fresh : bool; js_keys : option K }.

Definition js_init : jstate := {| js_fresh := false; js_keys := None |}.

(* pullJWTJWKS: if now.Sub(m.jwksLastRefresh) >= jwksRefreshPeriod { fetch; on any error return it WITHOUT touching the
   state; m.jwtKeyFunc = tmp; m.jwksLastRefresh = now }; return m.jwtKeyFunc.Keyfunc
   (a fresh state without key function cannot arise: jstate_inv in Proofs; the model answers None there) *)
Definition pull (st : jstate) (served : option K) : jstate * option K :=
  if js_fresh st then (st, js_keys st)
  else match served with
       | Some k => ({| js_fresh := true; js_keys := Some k |}, Some k)
       | None => (st, None)
       end.

(* RefreshJWTJWKS: m.jwksLastRefresh = time.Time{}; the passing of jwksRefreshPeriod has the same effect on the test *)
Definition invalidate (st : jstate) : jstate := {| js_fresh := false; js_keys := js_keys st |}.

Inductive jev :=
| EAuth (served : option K) (r : xreq)     (* Authenticate(r) while the JWKS server would answer `served` *)
| ERefresh                                 (* RefreshJWTJWKS() *)
| EExpire.                                 (* jwksRefreshPeriod passes *)

Variable rx : list Z -> list Z -> bool.
Variable verify : K -> list Z -> option jclaims.
Variable dec_perms : list Z -> option (list perm).
Variable dec_str : list Z -> option (list Z).
Variables issuer audience : list Z.
Variable ex : list perm.
Variable inq : option bool.

(* authenticateJWT: excluded requests return before pullJWTJWKS (no fetch, state untouched) *)
Definition auth_step (st : jstate) (served : option K) (r : xreq) : jstate * outcome :=
  if excluded rx ex r then (st, Granted [])
  else let '(st', kf) := pull st served in
       (st', match kf with
             | Some k => authenticate_jwt_cfg rx (verify k) dec_perms dec_str issuer audience ex true inq r
             | None => authenticate_jwt_cfg rx (fun _ => None) dec_perms dec_str issuer audience ex false inq r
             end).

Definition step (st : jstate) (e : jev) : jstate * option outcome :=
  match e with
  | EAuth served r => let '(st', o) := auth_step st served r in (st', Some o)
  | ERefresh => (invalidate st, None)
  | EExpire => (invalidate st, None)
  end.

(* the outcomes of the Authenticate calls of a history, in order, and the final state *)
Fixpoint run (st : jstate) (evs : list jev) : jstate * list outcome :=
  match evs with
  | [] => (st, [])
  | e :: rest =>
      let '(st', o) := step st e in
      let '(st'', os) := run st' rest in
      (st'', match o with Some x => x :: os | None => os end)
  end.

(* the key sets the server handed out during a history *)
Definition served_keys (evs : list jev) : list K :=
  flat_map (fun e => match e with EAuth (Some k) _ => [k] | _ => [] end) evs.

End Jwks.
