(* A finer view of ONE step of Model/C17_StreamSM.v: SubStream.WriteUnit (sub_stream.go)

       ss.Stream.mutex.RLock(); defer ss.Stream.mutex.RUnlock()
       if ss.Stream.subStream != ss { return }
       ... ssf.writeUnit(u)                      // the fan-out

   split into the moments at which other goroutines can get in between: the call starts, RLock returns, the
   currency comparison is evaluated, the call finishes (early return or fan-out, then RUnlock).  Every other label of
   the LTS stays whole; AddReader / RemoveBegin / NewSub (SubStream.Initialize) run under Stream.mutex.Lock and are
   therefore enabled only while no WriteUnit call holds the read lock.  (RLock itself is always enabled here because
   the exclusive sections are single labels: a call that "waits for the lock" is a call whose MLock comes later.)

   `worder` selects the order of the two statements: LockThenCheck is the code; CheckThenLock is the variant in which
   the comparison is made before the lock is taken.  Executable; no proofs here. *)
From Coq Require Import List ZArith Bool Arith.
Require Import MTX.Model.C17_StreamSM.
Import ListNotations.

Inductive worder := LockThenCheck | CheckThenLock.

(* one WriteUnit call in progress *)
Record wcall := { w_ss : Z; w_k : fkey; w_u : Z; w_locked : bool; w_pass : option bool }.

Definition calls := list (Z * wcall).

Fixpoint find_call (w : Z) (ws : calls) : option wcall :=
  match ws with [] => None | (w', c) :: t => if Z.eqb w' w then Some c else find_call w t end.
Definition set_call (w : Z) (c : wcall) (ws : calls) : calls :=
  map (fun e => if Z.eqb (fst e) w then (w, c) else e) ws.
Definition del_call (w : Z) (ws : calls) : calls := filter (fun e => negb (Z.eqb (fst e) w)) ws.
Definition any_locked (ws : calls) : bool := existsb (fun e => w_locked (snd e)) ws.

Inductive mlabel :=
| MStart (w ss : Z) (k : fkey) (u : Z)    (* a goroutine enters ss.WriteUnit(k, u) *)
| MLock (w : Z)                           (* its Stream.mutex.RLock() returns *)
| MCheck (w : Z)                          (* it evaluates ss.Stream.subStream != ss *)
| MFinish (w : Z)                         (* early return, or the fan-out; RUnlock *)
| MOther (l : label).                     (* any other label of the LTS, whole *)

Definition needs_lock (l : label) : bool :=
  match l with AddReader _ | RemoveBegin _ | NewSub _ => true | _ => false end.
Definition is_write_label (l : label) : bool := match l with Write _ _ _ => true | _ => false end.

(* result: new state, calls in progress, and the labels of the coarse LTS this step stands for *)
Definition micro_step (o : worder) (s : state) (ws : calls) (l : mlabel) : option (state * calls * list label) :=
  match l with
  | MStart w ss k u =>
      match find_call w ws with
      | Some _ => None
      | None => if memK k (s_formats s)
                then Some (s, (w, {| w_ss := ss; w_k := k; w_u := u; w_locked := false; w_pass := None |}) :: ws, [])
                else None
      end
  | MLock w =>
      match find_call w ws with
      | Some c =>
          if w_locked c then None
          else match o, w_pass c with
               | LockThenCheck, _ | CheckThenLock, Some true =>
                   Some (s, set_call w {| w_ss := w_ss c; w_k := w_k c; w_u := w_u c; w_locked := true;
                                          w_pass := w_pass c |} ws, [])
               | CheckThenLock, _ => None
               end
      | None => None
      end
  | MCheck w =>
      match find_call w ws with
      | Some c =>
          match w_pass c with
          | Some _ => None
          | None =>
              if Bool.eqb (w_locked c) (match o with LockThenCheck => true | CheckThenLock => false end)
              then Some (s, set_call w {| w_ss := w_ss c; w_k := w_k c; w_u := w_u c; w_locked := w_locked c;
                                          w_pass := Some (opt_eqb (s_cur s) (w_ss c)) |} ws, [])
              else None
          end
      | None => None
      end
  | MFinish w =>
      match find_call w ws with
      | Some c =>
          match w_pass c with
          | Some true => if w_locked c then Some (deliver s (w_k c) (w_u c), del_call w ws, [Write (w_ss c) (w_k c) (w_u c)])
                         else None
          | Some false => Some (s, del_call w ws, [Write (w_ss c) (w_k c) (w_u c)])
          | None => None
          end
      | None => None
      end
  | MOther l =>
      if is_write_label l then None
      else if needs_lock l && any_locked ws then None
      else match step s l with Some s' => Some (s', ws, [l]) | None => None end
  end.

Fixpoint micro_run (o : worder) (s : state) (ws : calls) (ls : list mlabel) : option (state * calls * list label) :=
  match ls with
  | [] => Some (s, ws, [])
  | l :: t =>
      match micro_step o s ws l with
      | Some (s1, ws1, tr1) =>
          match micro_run o s1 ws1 t with
          | Some (s2, ws2, tr2) => Some (s2, ws2, tr1 ++ tr2)
          | None => None
          end
      | None => None
      end
  end.
