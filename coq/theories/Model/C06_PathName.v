(* Model for C06: conf.IsValidPathName (internal/conf/path.go), recordstore.CommonPath /
   PathAddExtension (internal/recordstore/path.go), the record path expansion done by the recorder
   (recorder_instance.go + format_*_segment.go), by recordstore.FindSegments (segment.go) and by
   the API's onRecordingDeleteSegment with its absolutePathInside guard (api_recordings.go).
   Executable; no proofs here. Strings are lists of byte values.
   Path.Encode is C26's encode_go (ten sequential strings.ReplaceAll passes); lexical cleaning
   is Lib/PathClean.v. The working directory enters as the argument cwd of filepath.Abs. *)
From Coq Require Import List ZArith Bool.
Require Import MTX.Lib.PathClean MTX.Model.C26_RecPath.
Import ListNotations.
Local Open Scope Z_scope.

(* ------------------------------------------------------------------ IsValidPathName *)

(* the character class of rePathName = ^[0-9a-zA-Z_\-/\.]+$ *)
Definition path_char (c : Z) : bool :=
  ((48 <=? c) && (c <=? 57)) || ((97 <=? c) && (c <=? 122)) || ((65 <=? c) && (c <=? 90))
  || (c =? 95) || (c =? 45) || (c =? 47) || (c =? 46).

(* the five errors, in the order the code tests them *)
Inductive verr := EEmpty | ELead | ETrail | EChars | EDots.

Definition is_valid_path_name (n : list Z) : option verr :=
  match n with
  | [] => Some EEmpty
  | c0 :: _ =>
    if c0 =? 47 then Some ELead
    else if last n 0 =? 47 then Some ETrail
    else if negb (forallb path_char n) then Some EChars
    else if existsb (fun g => is_dot g || is_dd g) (split47 n) then Some EDots
    else None
  end.

Definition valid (n : list Z) : bool := match is_valid_path_name n with None => true | Some _ => false end.

(* ------------------------------------------------------------------ CommonPath, extension *)

Definition is_sep (c : Z) : bool := (c =? 92) || (c =? 47).

(* the parts (each ending with a separator) taken before the first part that contains '%';
   the tail after the last separator is never taken. cur = current part (reversed), pct = it has a '%' *)
Fixpoint cp (s cur : list Z) (pct : bool) : list Z :=
  match s with
  | [] => []
  | c :: r =>
      if is_sep c then (if pct then [] else rev cur ++ c :: cp r [] false)
      else cp r (c :: cur) (pct || (c =? 37))
  end.

Definition common_path (v : list Z) : list Z := removelast (cp v [] false).

(* PathAddExtension: ".ts" for MPEG-TS, ".mp4" otherwise *)
Definition ext (ts : bool) : list Z := if ts then [46; 116; 115] else [46; 109; 112; 52].

Definition src_path : list Z := tok_src TPath.   (* "%path" *)

(* PathAddExtension(strings.ReplaceAll(recordPath, "%path", name), format):
   recorderInstance.pathFormat2, FindSegments' recordPath (before Abs), the API's pathFormat *)
Definition expand_path (f : list Z) (ts : bool) (n : list Z) : list Z := repl src_path n 0 f ++ ext ts.

(* recordstore.Path{Start: t}.Encode(pathFormat2): the file the recorder creates *)
Definition segment_file (f : list Z) (ts : bool) (n : list Z) (t : instant) : list Z :=
  encode_go (expand_path f ts n) [] t.

(* FindSegments: recordPath after filepath.Abs, and the root of its WalkDir *)
Definition find_record_path (cwd f : list Z) (ts : bool) (n : list Z) : list Z := abs cwd (expand_path f ts n).
Definition find_walk_root (cwd f : list Z) (ts : bool) (n : list Z) : list Z := common_path (find_record_path cwd f ts n).

(* FindSegments as a filter: invalid names are refused, a visited file is a candidate iff Decode accepts it *)
Definition find_candidate (loff : Z) (cwd f : list Z) (ts : bool) (n v : list Z) : bool :=
  valid n && match decode loff (find_record_path cwd f ts n) v with Some _ => true | None => false end.

(* cleaner.deleteEmptyDirs walks CommonPath(ReplaceAll(recordPath, "%path", confName)) *)
Definition cleaner_root (f cn : list Z) : list Z := common_path (repl src_path cn 0 f).

(* ------------------------------------------------------------------ the API guard *)

(* absolutePathInside(base, candidate) *)
Definition inside (cwd base cand : list Z) : option (list Z) :=
  let b := abs cwd (clean base) in
  let c := abs cwd (clean cand) in
  if is_prefix b c then Some c else None.

(* onRecordingDeleteSegment after fix 0d7105d: the name is validated first; then the two guarded steps.
   (FindPathConf's own outcome is an input: conf_found.) *)
Inductive del_result := DInvalidName | DNoConf | DEscapes1 | DEscapes2 | DRemove (p : list Z).

Definition delete_segment (cwd f : list Z) (ts : bool) (conf_found : bool) (n : list Z) (t : instant) : del_result :=
  if negb (valid n) then DInvalidName else
  if negb conf_found then DNoConf else
  let c := common_path f in
  match inside cwd c (expand_path f ts n) with
  | None => DEscapes1
  | Some pf =>
      match inside cwd c (encode_go pf [] t) with
      | None => DEscapes2
      | Some p => DRemove p
      end
  end.

(* the path manager entry points after fix 0d7105d (findPathConf): validate, then resolve *)
Definition pm_accepts (n : list Z) (resolves : bool) : bool := valid n && resolves.

(* ------------------------------------------------------------------ record path formats covered *)

(* every '%' of the format starts a placeholder (so that the sequential passes are a token-wise rendering) *)
Definition pct_ok (f : list Z) : bool := forallb (fun k => negb (tok_eqb k (TLit 37))) (tokenize f).
Definition no_backslash (f : list Z) : bool := forallb (fun c => negb (c =? 92)) f.
Definition no_pct (s : list Z) : bool := forallb (fun c => negb (c =? 37)) s.

(* no backslash; the text after the common prefix has no ".." segment; a format without common prefix
   is relative (CommonPath("/%path/x") is "", not "/": such a format is outside this predicate) *)
Definition format_ok (f : list Z) : bool :=
  pct_ok f && no_backslash f &&
  let c := common_path f in
  match c with
  | [] => negb (rooted f) && negb (has_dd f)
  | _ => is_prefix (c ++ [47]) f && no_pct c && negb (has_dd (skipn (length c + 1) f))
  end.

(* the working directory: absolute, no '%', no backslash *)
Definition cwd_ok (cwd : list Z) : bool := rooted cwd && no_pct cwd && no_backslash cwd.

(* "./recordings/%path/%Y-%m-%d_%H-%M-%S-%f" *)
Definition default_format : list Z :=
  [46;47;114;101;99;111;114;100;105;110;103;115;47;37;112;97;116;104;47;37;89;45;37;109;45;37;100;95;
   37;72;45;37;77;45;37;83;45;37;102].
