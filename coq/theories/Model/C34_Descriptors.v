(* C34 — models of the parsers of client-supplied descriptors. Executable; no proofs here.
     internal/servers/srt/streamid.go          streamID.unmarshal
     internal/protocols/whip/link_header.go    quoteCredential, readQuotedCredential, LinkHeaderMarshal/Unmarshal
     internal/protocols/httpp/credentials.go   Credentials (+ net/http Request.BasicAuth / parseBasicAuth)
     internal/protocols/rtsp/credentials.go    Credentials (+ gortsplib headers.Authorization, Basic branch)
   Strings are byte strings: list Z with values 0..255. *)
From Coq Require Import List ZArith Bool String Ascii.
Require Import MTX.Lib.Base64.
Import ListNotations.
Local Open Scope Z_scope.

(* ---- byte-string helpers ------------------------------------------------------------ *)

Definition B (s : string) : list Z := map (fun a => Z.of_N (N_of_ascii a)) (list_ascii_of_string s).

Fixpoint beqb (a b : list Z) : bool :=
  match a, b with
  | [], [] => true
  | x :: a', y :: b' => (x =? y) && beqb a' b'
  | _, _ => false
  end.

(* strings.CutPrefix *)
Fixpoint strip_prefix (p s : list Z) : option (list Z) :=
  match p with
  | [] => Some s
  | x :: p' => match s with
               | y :: s' => if x =? y then strip_prefix p' s' else None
               | [] => None
               end
  end.

Definition has_prefix (p s : list Z) : bool := match strip_prefix p s with Some _ => true | None => false end.

(* strings.Cut: around the first occurrence of the needle *)
Fixpoint cut (n s : list Z) : option (list Z * list Z) :=
  match strip_prefix n s with
  | Some r => Some ([], r)
  | None => match s with
            | [] => None
            | c :: r => match cut n r with
                        | Some (a, b) => Some (c :: a, b)
                        | None => None
                        end
            end
  end.

(* strings.Cut / SplitN(s, sep, 2) with a one-byte separator *)
Fixpoint cut1 (sep : Z) (s : list Z) : option (list Z * list Z) :=
  match s with
  | [] => None
  | c :: r => if c =? sep then Some ([], r)
              else match cut1 sep r with
                   | Some (a, b) => Some (c :: a, b)
                   | None => None
                   end
  end.

(* strings.Split with a one-byte separator: count(sep)+1 parts, never empty *)
Fixpoint split_on (sep : Z) (s : list Z) : list (list Z) :=
  match s with
  | [] => [[]]
  | c :: r => if c =? sep then [] :: split_on sep r
              else match split_on sep r with
                   | h :: t => (c :: h) :: t
                   | [] => [[c]]
                   end
  end.

(* strings.Join with a one-byte separator *)
Fixpoint join (sep : Z) (parts : list (list Z)) : list Z :=
  match parts with
  | [] => []
  | p :: r => match r with [] => p | _ => p ++ sep :: join sep r end
  end.

(* strings.TrimSuffix *)
Definition trim_suffix (suf s : list Z) : list Z :=
  match strip_prefix (rev suf) (rev s) with Some r => rev r | None => s end.

Definition no_byte (c : Z) (s : list Z) : bool := forallb (fun x => negb (x =? c)) s.

(* ---- SRT stream id --------------------------------------------------------------------- *)

Inductive sid_mode := MRead | MPublish.

Record stream_id := mkSid { sid_mode_of : sid_mode; sid_path : list Z; sid_query : list Z;
                            sid_user : list Z; sid_pass : list Z }.

Definition sid_zero : stream_id := mkSid MRead [] [] [] [].

Inductive sid_err :=
| ErrInvalidValue       (* "invalid value": a key=value item without '=' *)
| ErrUnsupportedMode    (* "unsupported mode '…'" *)
| ErrSyntax.            (* "stream ID must be 'action:pathname[:query]' or …" *)

Inductive sid_result := SidOk (s : stream_id) | SidErr (e : sid_err).

Definition s_std_prefix := Eval compute in B "#!::".
Definition s_read := Eval compute in B "read".
Definition s_publish := Eval compute in B "publish".
Definition s_request := Eval compute in B "request".
Definition s_feedbackplay := Eval compute in B "#feedbackplay".
Definition k_u := Eval compute in B "u".
Definition k_r := Eval compute in B "r".
Definition k_s := Eval compute in B "s".
Definition k_m := Eval compute in B "m".
(* keys "h" and "t" are accepted and ignored, exactly like every unknown key *)

Definition c_colon := 58.
Definition c_comma := 44.
Definition c_eq := 61.

(* the loop over strings.SplitSeq(raw[4:], ",") *)
Fixpoint std_items (items : list (list Z)) (s : stream_id) : sid_result :=
  match items with
  | [] => SidOk s
  | kv :: r =>
      match cut1 c_eq kv with
      | None => SidErr ErrInvalidValue
      | Some (k, v) =>
          if beqb k k_u then std_items r (mkSid (sid_mode_of s) (sid_path s) (sid_query s) v (sid_pass s))
          else if beqb k k_r then std_items r (mkSid (sid_mode_of s) v (sid_query s) (sid_user s) (sid_pass s))
          else if beqb k k_s then std_items r (mkSid (sid_mode_of s) (sid_path s) (sid_query s) (sid_user s) v)
          else if beqb k k_m then
            if beqb v s_request then std_items r (mkSid MRead (sid_path s) (sid_query s) (sid_user s) (sid_pass s))
            else if beqb v s_publish then std_items r (mkSid MPublish (sid_path s) (sid_query s) (sid_user s) (sid_pass s))
            else SidErr ErrUnsupportedMode
          else std_items r s
      end
  end.

Fixpoint map_last {A} (f : A -> A) (l : list A) : list A :=
  match l with
  | [] => []
  | x :: r => match r with [] => [f x] | _ => x :: map_last f r end
  end.

Definition legacy_action (a : list Z) : option sid_mode :=
  if beqb a s_read then Some MRead else if beqb a s_publish then Some MPublish else None.

Definition unmarshal_legacy (raw : list Z) : sid_result :=
  let parts := split_on c_colon raw in
  let n := Z.of_nat (List.length parts) in
  if (n <? 2) || (5 <? n) then SidErr ErrSyntax else
  match map_last (trim_suffix s_feedbackplay) parts with
  | a :: p :: rest =>
      match legacy_action a with
      | None => SidErr ErrSyntax
      | Some m =>
          match rest with
          | [] => SidOk (mkSid m p [] [] [])
          | [q] => SidOk (mkSid m p q [] [])
          | [u; s] => SidOk (mkSid m p [] u s)
          | [u; s; q] => SidOk (mkSid m p q u s)
          | _ => SidErr ErrSyntax           (* unreachable: at most five parts *)
          end
      end
  | _ => SidErr ErrSyntax                   (* unreachable: at least two parts *)
  end.

(* streamID.unmarshal on a zero streamID (as in srt/conn.go) *)
Definition stream_id_unmarshal (raw : list Z) : sid_result :=
  match strip_prefix s_std_prefix raw with
  | Some r => std_items (split_on c_comma r) sid_zero
  | None => unmarshal_legacy raw
  end.

(* printers (the client side of the two syntaxes) *)
Definition action_str (m : sid_mode) : list Z := match m with MRead => s_read | MPublish => s_publish end.
Definition mode_str (m : sid_mode) : list Z := match m with MRead => s_request | MPublish => s_publish end.

(* the fields of the legacy form: action:path[:user:pass][:query]; credentials are written when either is non-empty,
   the query when non-empty *)
Definition legacy_fields (m : sid_mode) (p u s q : list Z) : list (list Z) :=
  action_str m :: p ::
    (if is_nil u && is_nil s then [] else [u; s]) ++ (if is_nil q then [] else [q]).

Definition print_legacy (m : sid_mode) (p u s q : list Z) : list Z := join c_colon (legacy_fields m p u s q).

Definition kv (k v : list Z) : list Z := k ++ c_eq :: v.

Definition print_std (m : sid_mode) (r u s : list Z) : list Z :=
  s_std_prefix ++ join c_comma [kv k_m (mode_str m); kv k_r r; kv k_u u; kv k_s s].

(* any sequence of key=value items *)
Definition print_std_items (items : list (list Z * list Z)) : list Z :=
  s_std_prefix ++ join c_comma (map (fun '(k, v) => kv k v) items).

(* ---- WHIP/WHEP Link header -------------------------------------------------------------------- *)

Definition c_bslash := 92.
Definition c_dquote := 34.

(* strings.NewReplacer(`\`, `\\`, `"`, `\"`): byte-wise *)
Definition quote_credential (s : list Z) : list Z :=
  flat_map (fun c => if (c =? c_bslash) || (c =? c_dquote) then [c_bslash; c] else [c]) s.

Fixpoint read_quoted_loop (v : list Z) (escaped : bool) (acc : list Z) : option (list Z * list Z) :=
  match v with
  | [] => None
  | c :: r =>
      if c =? c_bslash then
        if escaped then read_quoted_loop r false (c_bslash :: acc) else read_quoted_loop r true acc
      else if c =? c_dquote then
        if escaped then read_quoted_loop r false (c_dquote :: acc) else Some (rev acc, r)
      else
        if escaped then None else read_quoted_loop r false (c :: acc)
  end.

(* readQuotedCredential: Some (value, rest) or None *)
Definition read_quoted (v : list Z) : option (list Z * list Z) :=
  match v with
  | c :: r => if c =? c_dquote then read_quoted_loop r false [] else None
  | [] => None
  end.

Definition s_lt := Eval compute in B "<".
Definition s_rel := Eval compute in B ">; rel=""ice-server""".
Definition s_username_eq := Eval compute in B "; username=".
Definition s_credential_eq := Eval compute in B "; credential=".
Definition s_credtype := Eval compute in B "; credential-type=""password""".

(* a webrtc.ICEServer as far as the Link header is concerned: URLs[0], Username, Credential (nil or a string) *)
Record ice_server := mkIce { ice_url : list Z; ice_user : list Z; ice_cred : option (list Z) }.

Definition cred_str (o : option (list Z)) : list Z := match o with Some c => c | None => [] end.

(* one element of LinkHeaderMarshal (Credential.(string) on a nil Credential would panic; only reachable with a username) *)
Definition link_marshal1 (s : ice_server) : list Z :=
  s_lt ++ ice_url s ++ s_rel ++
  (if is_nil (ice_user s) then []
   else s_username_eq ++ [c_dquote] ++ quote_credential (ice_user s) ++ [c_dquote] ++
        s_credential_eq ++ [c_dquote] ++ quote_credential (cred_str (ice_cred s)) ++ [c_dquote] ++ s_credtype).

Definition link_marshal (l : list ice_server) : list (list Z) := map link_marshal1 l.

Definition link_unmarshal1 (li : list Z) : option ice_server :=
  match strip_prefix s_lt li with
  | None => None
  | Some li =>
  match cut s_rel li with
  | None => None
  | Some (url, li) =>
      if is_nil li then Some (mkIce url [] None) else
      match strip_prefix s_username_eq li with
      | None => None
      | Some li =>
      match read_quoted li with
      | None => None
      | Some (user, li) =>
          if is_nil user then None else
          match strip_prefix s_credential_eq li with
          | None => None
          | Some li =>
          match read_quoted li with
          | None => None
          | Some (cred, li) =>
              match strip_prefix s_credtype li with
              | Some [] => Some (mkIce url user (Some cred))
              | _ => None
              end
          end
          end
      end
      end
  end
  end.

Fixpoint link_unmarshal (l : list (list Z)) : option (list ice_server) :=
  match l with
  | [] => Some []
  | li :: r => match link_unmarshal1 li with
               | None => None
               | Some s => match link_unmarshal r with
                           | Some t => Some (s :: t)
                           | None => None
                           end
               end
  end.

(* ---- HTTP Authorization ----------------------------------------------------------------------- *)

Record credentials := mkCred { c_user : list Z; c_pass : list Z; c_token : list Z }.
Definition cred_empty := mkCred [] [] [].

Definition s_bearer_sp := Eval compute in B "Bearer ".
Definition s_basic_sp := Eval compute in B "Basic ".
Definition s_basic_sp_lower := Eval compute in B "basic ".

Definition ascii_lower (c : Z) : Z := if (65 <=? c) && (c <=? 90) then c + 32 else c.

(* net/http parseBasicAuth *)
Definition parse_basic_auth (auth : list Z) : option (list Z * list Z) :=
  if (Z.of_nat (List.length auth) <? 6) || negb (beqb (map ascii_lower (firstn 6 auth)) s_basic_sp_lower) then None
  else match b64_decode (skipn 6 auth) with
       | None => None
       | Some cs => cut1 c_colon cs
       end.

(* Request.BasicAuth: Header.Get("Authorization") is the FIRST value *)
Definition basic_auth (vals : list (list Z)) : option (list Z * list Z) :=
  match vals with
  | [] => None
  | a :: _ => if is_nil a then None else parse_basic_auth a
  end.

(* the loop over h.Header["Authorization"]: the first value starting with "Bearer " decides *)
Fixpoint http_bearer (vals : list (list Z)) : option credentials :=
  match vals with
  | [] => None
  | a :: r =>
      match strip_prefix s_bearer_sp a with
      | Some rest =>
          match split_on c_colon rest with
          | [u; p] => Some (mkCred u p [])
          | _ => Some (mkCred [] [] rest)
          end
      | None => http_bearer r
      end
  end.

(* httpp.Credentials on the values of the Authorization header *)
Definition http_credentials (vals : list (list Z)) : credentials :=
  match http_bearer vals with
  | Some c => c
  | None => match basic_auth vals with
            | Some (u, p) => mkCred u p []
            | None => cred_empty
            end
  end.

Definition print_basic (u p : list Z) : list Z := s_basic_sp ++ b64_encode (u ++ c_colon :: p).
Definition print_bearer_pair (u p : list Z) : list Z := s_bearer_sp ++ u ++ c_colon :: p.
Definition print_bearer_token (t : list Z) : list Z := s_bearer_sp ++ t.

(* ---- RTSP Authorization ----------------------------------------------------------------------- *)

Inductive rtsp_method := RBasic | RDigest.

(* result of gortsplib headers.Authorization.Unmarshal as far as rtsp.Credentials reads it *)
Inductive rtsp_auth := RErr | RAuth (m : rtsp_method) (user basic_pass : list Z).

(* rtsp.Credentials, given the parsed header *)
Definition rtsp_credentials (a : rtsp_auth) : credentials :=
  match a with
  | RErr => cred_empty
  | RAuth RBasic u p => mkCred u p []
  | RAuth RDigest u _ => mkCred u [] []
  end.

Definition s_basic := Eval compute in B "Basic".
Definition s_digest := Eval compute in B "Digest".

(* gortsplib headers.Authorization.Unmarshal: the Basic branch is modelled, the Digest branch (keyValParse and the
   required-field check) is the oracle `digest` computed by the real library on the same value *)
Definition rtsp_header_unmarshal (digest : rtsp_auth) (vals : list (list Z)) : rtsp_auth :=
  match vals with
  | [v0] =>
      match cut1 32 v0 with
      | None => RErr
      | Some (method, rest) =>
          if beqb method s_basic then
            match b64_decode rest with
            | None => RErr
            | Some tmp => match split_on c_colon tmp with
                          | [u; p] => RAuth RBasic u p
                          | _ => RErr
                          end
            end
          else if beqb method s_digest then digest
          else RErr
      end
  | _ => RErr
  end.

(* gortsplib headers.Authorization.Marshal, Basic *)
Definition rtsp_print_basic (u p : list Z) : list (list Z) := [s_basic_sp ++ b64_encode (u ++ c_colon :: p)].
