(* Model of the RTP branch of subStreamFormat.writeUnitInner (internal/stream/sub_stream_format.go)
   and of what subStreamFormat.initialize / newRTPEncoder (rtp_encoder.go) set up, generic in the
   packetizer. Executable; no proofs here.

   Oracles (inputs of glue_write, observed by the driver on the real code):
     decode_err : the format's rtpDecoder returned an error for the incoming packet;
     deliv      : the delivered payload, i.e. u.Payload after rtpDecoder, formatUpdater and
                  unitRemuxer (C22 characterises that part), None when it is nil;
     avail      : newRTPEncoder has an encoder for the format. *)
From Coq Require Import List ZArith Bool.
Require Import MTX.Lib.IntWrap MTX.Model.C23_RtpH264.
Import ListNotations.
Local Open Scope Z_scope.

(* streamFormat.rtpEncoder (nil = None) and streamFormat.rtpTimeOffset *)
Record gstate := mkg { g_enc : option enc; g_off : Z }.

Inductive gout :=
| GOk (g : gstate) (out : list packet)     (* u.RTPPackets handed to writeRTSP and the readers *)
| GErr (g : gstate)                        (* writeUnitInner returned an error: nothing is written *)
| GPanic.

Section Glue.
  Variable P : Type.                                            (* payload *)
  Variable encode : enc -> P -> res (list packet * enc) + enc.  (* inr e': the encoder returned an error (its state is then e') *)

  Definition oversized (max : Z) (p : packet) : bool := blen p.(p_payload) >? max.

  (* for _, pkt := range u.RTPPackets { if len(pkt.Payload) > max { ...; break } } *)
  Definition first_oversized (max : Z) (pkts : list packet) : option packet := find (oversized max) pkts.

  Definition stamp_all (off pts : Z) (pkts : list packet) : list packet :=
    map (stamp (wrapu32 (off + wrapu32 pts))) pkts.

  Definition glue_encode (g : gstate) (pts : Z) (in_pkts : list packet) (deliv : option P) : gout :=
    match deliv with
    | None => GOk g in_pkts
    | Some p =>
        match g.(g_enc) with
        | None => GOk g in_pkts
        | Some e =>
            match encode e p with
            | inr e' => GErr (mkg (Some e') g.(g_off))
            | inl Panic => GPanic
            | inl (Ok (pkts, e')) => GOk (mkg (Some e') g.(g_off)) (stamp_all g.(g_off) pts pkts)
            end
        end
    end.

  Definition glue_write (max : Z) (avail : bool) (g : gstate) (pts : Z) (in_pkts : list packet)
      (decode_err : bool) (deliv : option P) : gout :=
    match in_pkts with
    | [] => glue_encode g pts [] deliv
    | _ =>
        if decode_err then GErr g
        else
          match g.(g_enc) with
          | Some _ => glue_encode g pts [] deliv          (* u.RTPPackets = nil *)
          | None =>
              match first_oversized max in_pkts with
              | None => glue_encode g pts in_pkts deliv
              | Some pkt =>
                  if avail then
                    let g' := mkg (Some (enc_init max pkt.(p_ssrc) pkt.(p_seq)))
                                  (wrapu32 (pkt.(p_ts) - wrapu32 pts)) in
                    glue_encode g' pts [] deliv
                  else GErr g
              end
          end
    end.
End Glue.

(* H.264 instance: the rtph264 encoder never returns an error *)
Definition h264_enc_fn (e : enc) (au : list bytes) : res (list packet * enc) + enc := inl (h264_encode e au).
Definition h264_glue_write := glue_write (list bytes) h264_enc_fn.
