(* C42 / static source handler: which configuration a source instance runs with.
   internal/staticsources/handler.go: Handler.Conf is handed to every instance that run() creates
   (StaticSourceRunParams.Conf: first instance of a Start, the one after retryPause, the one after a ReloadMatches
   restart); Handler.ReloadConf(newConf), called by path.doReloadConf at every hot reload, stores newConf
   (chReloadConf case: s.Conf = newConf; handler stopped: stored directly, /repo b9e674a) and passes it to the running
   instance (params.ReloadConf) unless the handler waits for retryPause.
   Configurations are named by their generation: 0 = the configuration the handler was created with, k = the one of the
   k-th reload. The effective configuration of an instance = the one it was created with, replaced by each one it is
   notified of. Executable; no proofs here. *)
From Coq Require Import List ZArith Bool.
Import ListNotations.
Local Open Scope Z_scope.

Inductive cop := CStart | CStop | CFail | CRetry | CReload.

(* c_cnt: reloads so far (what the path holds); c_held: Handler.Conf; c_run: between Start and Stop;
   c_alive: an instance runs; c_eff: its effective configuration *)
Record cst := { c_cnt : Z; c_held : Z; c_run : bool; c_alive : bool; c_eff : option Z }.

Definition cinit : cst := {| c_cnt := 0; c_held := 0; c_run := false; c_alive := false; c_eff := None |}.

(* upd run alive: does a reload that finds the handler in that state store the new configuration? *)
Definition cstep_with (upd : bool -> bool -> bool) (s : cst) (o : cop) : cst :=
  match o with
  | CStart =>
      if c_run s then s
      else {| c_cnt := c_cnt s; c_held := c_held s; c_run := true; c_alive := true; c_eff := Some (c_held s) |}
  | CStop => {| c_cnt := c_cnt s; c_held := c_held s; c_run := false; c_alive := false; c_eff := None |}
  | CFail =>
      if c_run s then {| c_cnt := c_cnt s; c_held := c_held s; c_run := true; c_alive := false; c_eff := None |} else s
  | CRetry =>
      if c_run s && negb (c_alive s)
      then {| c_cnt := c_cnt s; c_held := c_held s; c_run := true; c_alive := true; c_eff := Some (c_held s) |}
      else s
  | CReload =>
      let n := c_cnt s + 1 in
      if upd (c_run s) (c_alive s)
      then {| c_cnt := n; c_held := n; c_run := c_run s; c_alive := c_alive s;
              (* a running instance is notified (or was restarted with the new configuration) *)
              c_eff := if c_run s && c_alive s then Some n else c_eff s |}
      else {| c_cnt := n; c_held := c_held s; c_run := c_run s; c_alive := c_alive s; c_eff := c_eff s |}
  end.

(* the code (after /repo b9e674a): always *)
Definition upd_code (run alive : bool) : bool := true.
(* the pinned code before b9e674a: ReloadConf returned early when the handler was not running *)
Definition upd_pinned (run alive : bool) : bool := run.
(* seed C13-c: the chReloadConf case skipped while the handler waits for retryPause *)
Definition upd_not_recreating (run alive : bool) : bool := negb run || alive.

Definition cstep := cstep_with upd_code.

Fixpoint crun_with (upd : bool -> bool -> bool) (s : cst) (ops : list cop) : cst :=
  match ops with
  | [] => s
  | o :: r => crun_with upd (cstep_with upd s o) r
  end.

Definition crun := crun_with upd_code.

(* read off the history: the number of reloads *)
Fixpoint reloads (ops : list cop) : Z :=
  match ops with
  | [] => 0
  | CReload :: r => 1 + reloads r
  | _ :: r => reloads r
  end.
