(* Model of the Control-API configuration edits:
     internal/core/core.go   doAPIConfigGlobalPatch / PathDefaultsPatch / PathAdd / PathPatch / PathReplace / PathDelete,
                             the request cases of Core.run (answer, then reloadConf), apiConfigSnapshot
     internal/conf/conf.go   Clone (deepClone), copyStructFields, PatchGlobal, PatchPathDefaults, AddPath, PatchPath,
                             ReplacePath, RemovePath, the path loop at the end of Validate (newPath)
     internal/api/api_config_*.go   decode the body, call the parent, map the error.
   Executable; no proofs here.

   Field names, canonical JSON values ("tokens") and path names are integers (interned by the driver; a path
   name is interned as the JSON text of the name, so it is also the token of the "name" field of that path). *)
From Coq Require Import List ZArith Bool.
Import ListNotations.
Local Open Scope Z_scope.

(* ---- a Go struct seen through its JSON tags: field -> token ------------------------------------------- *)
Definition fmap := list (Z * Z).

Fixpoint get (k : Z) (m : fmap) : option Z :=
  match m with
  | [] => None
  | (k', v) :: r => if k' =? k then Some v else get k r
  end.

(* assignment to a field: in place when the field has a value, a new entry otherwise (a nil pointer that becomes
   non-nil) *)
Fixpoint set (k v : Z) (m : fmap) : fmap :=
  match m with
  | [] => [(k, v)]
  | (k', v') :: r => if k' =? k then (k, v) :: r else (k', v') :: set k v r
  end.

(* copyStructFields(dest, source) where source is an "optional" struct (every field a pointer): a nil field is
   skipped, a non-nil one is assigned. The patch lists the non-nil fields. *)
Definition overlay (p m : fmap) : fmap := fold_left (fun acc kv => set (fst kv) (snd kv) acc) p m.

(* ---- map[string]X ---------------------------------------------------------------------------------------- *)
Section PMap.
  Context {A : Type}.
  Fixpoint pget (n : Z) (ps : list (Z * A)) : option A :=
    match ps with
    | [] => None
    | (n', a) :: r => if n' =? n then Some a else pget n r
    end.
  Fixpoint pset (n : Z) (a : A) (ps : list (Z * A)) : list (Z * A) :=
    match ps with
    | [] => [(n, a)]
    | (n', a') :: r => if n' =? n then (n, a) :: r else (n', a') :: pset n a r
    end.
  Definition pdel (n : Z) (ps : list (Z * A)) : list (Z * A) := filter (fun e => negb (fst e =? n)) ps.
  Definition pmem (n : Z) (ps : list (Z * A)) : bool := match pget n ps with Some _ => true | None => false end.
End PMap.

(* ---- the configuration in memory ------------------------------------------------------------------------- *)
(* conf.Conf: the global fields and PathDefaults are held by value; OptionalPaths maps a name to a pointer to an
   OptionalPath whose Values interface holds a pointer to the struct of optional fields: one heap cell per path,
   containing the fields that are set. *)
Record croot := { cg : fmap; cd : fmap; cp : list (Z * nat) }.
Definition heap := list fmap.
Definition cell (h : heap) (a : nat) : fmap := nth a h [].
Fixpoint upd (a : nat) (c : fmap) (h : heap) : heap :=
  match h, a with
  | [], _ => []
  | _ :: r, O => c :: r
  | x :: r, S a' => x :: upd a' c r
  end.

Record world := { mem : heap; live : croot }.

(* what the API can read: global fields, path defaults, and per path the fields that are set *)
Record view := { vg : fmap; vd : fmap; vp : list (Z * fmap) }.
Definition view_of (h : heap) (c : croot) : view :=
  {| vg := cg c; vd := cd c; vp := map (fun e => (fst e, cell h (snd e))) (cp c) |}.
Definition abs (w : world) : view := view_of (mem w) (live w).

(* conf.Paths[name] as built by Validate: newPath(&conf.PathDefaults, optional) = defaults overlaid by the fields
   that are set, then pconf.Name = name. [name_f] is the id of the field "name". *)
Definition effective (name_f : Z) (v : view) (n : Z) : option fmap :=
  match pget n (vp v) with
  | Some c => Some (set name_f n (overlay c (vd v)))
  | None => None
  end.

(* ---- Clone ------------------------------------------------------------------------------------------------ *)
(* Deep: deepClone as it is now (937e5bc): every path gets a fresh cell.
   ShallowIface: deepClone before that commit had no reflect.Interface case, so the new OptionalPath structs
   shared the Values cell of the running configuration. *)
Inductive clone_mode := Deep | ShallowIface.

Fixpoint clone_paths (h0 h : heap) (ps : list (Z * nat)) : heap * list (Z * nat) :=
  match ps with
  | [] => (h, [])
  | (n, a) :: r =>
      let '(h', r') := clone_paths h0 (h ++ [cell h0 a]) r in
      (h', (n, length h) :: r')
  end.

Definition clone (m : clone_mode) (w : world) : heap * croot :=
  match m with
  | Deep => let '(h, ps) := clone_paths (mem w) (mem w) (cp (live w)) in
            (h, {| cg := cg (live w); cd := cd (live w); cp := ps |})
  | ShallowIface => (mem w, live w)
  end.

(* ---- the edits ---------------------------------------------------------------------------------------------- *)
Inductive op :=
| PatchGlobal (p : fmap)
| PatchDefaults (p : fmap)
| Add (n : Z) (p : fmap)
| Patch (n : Z) (p : fmap)
| Replace (n : Z) (p : fmap)
| Delete (n : Z)
| Bad.   (* the handler rejected the request before calling the core: body not decodable (unknown field, wrong
            type, syntax), or no name in the URL *)

Inductive outcome := OOk | OExists | ONotFound | OInvalid.

(* the conf.Conf method on the cloned configuration; the request's own struct becomes a new cell *)
Definition apply (h : heap) (c : croot) (o : op) : heap * croot + outcome :=
  match o with
  | PatchGlobal p => inl (h, {| cg := overlay p (cg c); cd := cd c; cp := cp c |})
  | PatchDefaults p => inl (h, {| cg := cg c; cd := overlay p (cd c); cp := cp c |})
  | Add n p =>
      if pmem n (cp c) then inr OExists
      else inl (h ++ [overlay p []], {| cg := cg c; cd := cd c; cp := pset n (length h) (cp c) |})
  | Patch n p =>
      match pget n (cp c) with
      | None => inr ONotFound
      | Some a => inl (upd a (overlay p (cell h a)) h, c)     (* copyStructFields into the existing cell *)
      end
  | Replace n p =>
      inl (h ++ [overlay p []], {| cg := cg c; cd := cd c; cp := pset n (length h) (cp c) |})
  | Delete n =>
      if pmem n (cp c) then inl (h, {| cg := cg c; cd := cd c; cp := pdel n (cp c) |}) else inr ONotFound
  | Bad => inr OInvalid
  end.

Section Edit.
  (* Conf.Validate on the candidate configuration: an oracle (its verdict on the concrete candidates of a run is
     shipped by the driver) *)
  Variable valid : view -> bool.
  Variable mode : clone_mode.

  (* doAPIConfig*: clone, apply, validate. Returns the memory afterwards, the accepted candidate if any, and what
     the request is answered with. *)
  Definition try_edit (w : world) (o : op) : heap * option croot * outcome :=
    match o with
    | Bad => (mem w, None, OInvalid)
    | _ =>
      let '(h1, c1) := clone mode w in
      match apply h1 c1 o with
      | inr e => (h1, None, e)
      | inl (h2, c2) => if valid (view_of h2 c2) then (h2, Some c2, OOk) else (h2, None, OInvalid)
      end
    end.

  (* an edit seen as one step (answer + reload) *)
  Definition edit (w : world) (o : op) : world * outcome :=
    let '(h, c, out) := try_edit w o in
    ({| mem := h; live := match c with Some c' => c' | None => live w end |}, out).

  Fixpoint run (w : world) (ops : list op) : world * list outcome :=
    match ops with
    | [] => (w, [])
    | o :: r => let '(w1, out) := edit w o in
                let '(w2, outs) := run w1 r in (w2, out :: outs)
    end.

  (* ---- the request loop of Core.run with API reads interleaved ---------------------------------------------
     An edit is answered before reloadConf stores the new configuration in p.conf (reloading may close the API
     server, which waits for the handler). [published] is p.apiConf (bd1ba7f): stored by doAPIConfig* before the
     answer. Reads come from [published]; before bd1ba7f they came from the running configuration. *)
  Inductive read_src := FromRunning | FromPublished.
  Variable src : read_src.

  Record core := { cw : world; published : croot; pending : option croot }.
  Inductive label := LEdit (o : op) | LReload | LRead.
  Inductive event := EReply (out : outcome) | ERead (v : view).

  (* None: the label is not enabled (the loop handles one request at a time: an edit is taken only when no
     reload is outstanding; a reload happens only after an accepted edit) *)
  Definition cstep (s : core) (l : label) : option (core * list event) :=
    match l with
    | LEdit o =>
        match pending s with
        | Some _ => None
        | None =>
          let '(h, c, out) := try_edit (cw s) o in
          Some ({| cw := {| mem := h; live := live (cw s) |};
                   published := match c with Some c' => c' | None => published s end;
                   pending := c |}, [EReply out])
        end
    | LReload =>
        match pending s with
        | Some c => Some ({| cw := {| mem := mem (cw s); live := c |}; published := published s; pending := None |}, [])
        | None => None
        end
    | LRead =>
        Some (s, [ERead (view_of (mem (cw s))
                           match src with FromRunning => live (cw s) | FromPublished => published s end)])
    end.

  Fixpoint crun (s : core) (ls : list label) : option (core * list event) :=
    match ls with
    | [] => Some (s, [])
    | l :: r => match cstep s l with
                | None => None
                | Some (s1, e1) => match crun s1 r with
                                   | None => None
                                   | Some (s2, e2) => Some (s2, e1 ++ e2)
                                   end
                end
    end.
End Edit.

Definition core_init (w : world) : core := {| cw := w; published := live w; pending := None |}.

(* ---- specification: a plain record of finite maps -------------------------------------------------------------- *)
Definition spec_apply (v : view) (o : op) : view + outcome :=
  match o with
  | PatchGlobal p => inl {| vg := overlay p (vg v); vd := vd v; vp := vp v |}
  | PatchDefaults p => inl {| vg := vg v; vd := overlay p (vd v); vp := vp v |}
  | Add n p => if pmem n (vp v) then inr OExists
               else inl {| vg := vg v; vd := vd v; vp := pset n (overlay p []) (vp v) |}
  | Patch n p => match pget n (vp v) with
                 | None => inr ONotFound
                 | Some c => inl {| vg := vg v; vd := vd v; vp := pset n (overlay p c) (vp v) |}
                 end
  | Replace n p => inl {| vg := vg v; vd := vd v; vp := pset n (overlay p []) (vp v) |}
  | Delete n => if pmem n (vp v) then inl {| vg := vg v; vd := vd v; vp := pdel n (vp v) |} else inr ONotFound
  | Bad => inr OInvalid
  end.

Definition spec_step (valid : view -> bool) (v : view) (o : op) : view * outcome :=
  match spec_apply v o with
  | inr e => (v, e)
  | inl v' => if valid v' then (v', OOk) else (v, OInvalid)
  end.

Fixpoint spec_run (valid : view -> bool) (v : view) (ops : list op) : view * list outcome :=
  match ops with
  | [] => (v, [])
  | o :: r => let '(v1, out) := spec_step valid v o in
              let '(v2, outs) := spec_run valid v1 r in (v2, out :: outs)
  end.

(* what a client that issues edits and reads one after the other must see *)
Fixpoint spec_events (valid : view -> bool) (v : view) (ls : list label) : list event :=
  match ls with
  | [] => []
  | LEdit o :: r => let '(v1, out) := spec_step valid v o in EReply out :: spec_events valid v1 r
  | LReload :: r => spec_events valid v r
  | LRead :: r => ERead v :: spec_events valid v r
  end.

(* well-formed memory: path pointers are in bounds and pairwise distinct *)
Definition addrs (c : croot) : list nat := map snd (cp c).
Definition wf_root (h : heap) (c : croot) : Prop := NoDup (addrs c) /\ forall a, In a (addrs c) -> (a < length h)%nat.
Definition wf (w : world) : Prop := wf_root (mem w) (live w).

(* a configuration as loaded from a file: one cell per path *)
Definition load (v : view) : world :=
  {| mem := map snd (vp v);
     live := {| cg := vg v; cd := vd v; cp := combine (map fst (vp v)) (seq 0 (length (vp v))) |} |}.
