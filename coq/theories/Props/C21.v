(* C21 — Hook commands receive values verbatim and report their exit status.
   Only statements here; every proof is `exact <lemma of Proofs/C21_ExtCmd.v>`.
   t: command template; env: the command's Env (values the server passes); base: the process environment;
   strings are lists of byte values and every value ranges over all byte strings. *)
From Coq Require Import List ZArith Bool.
Require Import MTX.Model.C21_ExtCmd MTX.Proofs.C21_ExtCmd MTX.Model.C21_HookEnv MTX.Proofs.C21_HookEnv.
Import ListNotations.
Local Open Scope Z_scope.

(* The command line is split before any value is looked at: the argument vector has one entry per word of
   the template, and entry i is word i rewritten on its own. *)
Theorem C21_split_independent_of_values : forall t env base av ws,
  argv t env base = inr av -> shell_split t = inr ws -> length av = length ws.
Proof. exact argv_length. Qed.
Print Assumptions C21_split_independent_of_values.

Theorem C21_each_word_rewritten_separately : forall t env base av ws i,
  argv t env base = inr av -> shell_split t = inr ws -> (i < length ws)%nat ->
  nth i av [] = os_expand (lookup env base) (nth i ws []).
Proof. exact argv_nth. Qed.
Print Assumptions C21_each_word_rewritten_separately.

(* two different sets of values: same split error, or the same number of arguments *)
Theorem C21_same_shape_for_all_values : forall t env1 base1 env2 base2,
  match argv t env1 base1, argv t env2 base2 with
  | inl e1, inl e2 => e1 = e2
  | inr a1, inr a2 => length a1 = length a2
  | _, _ => False
  end.
Proof. exact argv_same_shape. Qed.
Print Assumptions C21_same_shape_for_all_values.

(* $NAME as a whole word, or between text that cannot extend the name, is replaced by exactly the value:
   m is any mapping, so the value is any byte string (spaces, quotes, dollars, newlines, 8-bit bytes) *)
Theorem C21_whole_var : forall m n, valid_name n -> os_expand m (36 :: n) = m n.
Proof. exact expand_whole_var. Qed.
Print Assumptions C21_whole_var.

Theorem C21_var_in_context : forall m pre n post,
  dollar_free pre -> valid_name n -> not_alnum_start post ->
  os_expand m (pre ++ 36 :: n ++ post) = pre ++ m n ++ os_expand m post.
Proof. exact expand_var_in_context. Qed.
Print Assumptions C21_var_in_context.

Theorem C21_braced_var_in_context : forall m pre n post,
  dollar_free pre -> n <> [] -> Forall (fun x => x <> 125) n ->
  os_expand m (pre ++ 36 :: 123 :: n ++ 125 :: post) = pre ++ m n ++ os_expand m post.
Proof. exact expand_braced_in_context. Qed.
Print Assumptions C21_braced_var_in_context.

Theorem C21_whole_var_argument : forall t env base av ws i n,
  argv t env base = inr av -> shell_split t = inr ws -> (i < length ws)%nat ->
  nth i ws [] = 36 :: n -> valid_name n ->
  nth i av [] = lookup env base n.
Proof. exact argv_whole_var_word. Qed.
Print Assumptions C21_whole_var_argument.

(* No re-expansion: what a word expands to is its pieces (fixed by the word alone: `parse` does not see the
   mapping) with each reference rendered once; a value is copied, never scanned. *)
Theorem C21_no_reexpansion : forall m s, os_expand m s = concat (map (render m) (parse 0 s)).
Proof. exact os_expand_pieces. Qed.
Print Assumptions C21_no_reexpansion.

(* a value of the command's own Env wins over the process environment *)
Theorem C21_env_value_used : forall env base n v, assoc n env = Some v -> lookup env base n = v.
Proof. exact lookup_env. Qed.
Print Assumptions C21_env_value_used.

(* The child's environment holds each key of Env exactly once and with exactly its value
   (keys are those of a Go map: distinct; a value with a NUL byte makes Start fail instead). *)
Theorem C21_env_verbatim : forall base extra k v,
  Forall (fun kv => valid_key (fst kv)) extra -> NoDup (map fst extra) ->
  In (k, v) extra -> has_nul v = false ->
  In (entry (k, v)) (child_environ base extra) /\
  (forall e, In e (child_environ base extra) -> env_key e = Some k -> e = entry (k, v)).
Proof. exact env_verbatim. Qed.
Print Assumptions C21_env_verbatim.

(* Exit status: every non-zero status is reported with that status (Restart or not) *)
Theorem C21_exit_status : forall restart c, c <> 0 -> run_report restart (Exited c) = Some c.
Proof. exact report_nonzero. Qed.
Print Assumptions C21_exit_status.

Theorem C21_exit_zero_and_signal :
  run_report false (Exited 0) = None /\ run_report true (Exited 0) = Some 0 /\
  forall restart, run_report restart Signaled = Some (-1).
Proof. exact (conj (proj1 report_zero) (conj (proj2 report_zero) report_signal)). Qed.
Print Assumptions C21_exit_zero_and_signal.

(* The pinned snapshot (result of ee.ExitCode() dropped): the law is false, no status is ever reported.
   Witness replayed on the real code: /bin/sh -c 'exit 3' -> OnExit not called. Repaired by a fix: commit. *)
Theorem C21_exit_status_snapshot_refuted :
  ~ (forall c, c <> 0 -> run_report_snapshot false (Exited c) = Some c).
Proof. exact snapshot_refuted. Qed.
Print Assumptions C21_exit_status_snapshot_refuted.

(* Split on simple templates (ties the automaton to what an operator writes) *)
Theorem C21_split_plain_words : forall ws,
  ws <> [] -> Forall plain_word ws -> shell_split (join_sp ws) = inr ws.
Proof. exact shell_split_plain. Qed.
Print Assumptions C21_split_plain_words.

Theorem C21_split_single_quoted : forall w,
  Forall (fun c => c <> 39) w -> shell_split (39 :: w ++ [39]) = inr [w].
Proof. exact shell_split_single_quoted. Qed.
Print Assumptions C21_split_single_quoted.

(* ---- the callers of the launcher: the environment is built when the event happens, the command reads it
   later (Model/C21_HookEnv.v). tr ranges over ALL executions: the caller's steps (SNew = ExternalCmdEnv(),
   SSet = env[k] = v, SStart = cmd.Start()) with the commands' reads (SRead) inserted anywhere. ---- *)

(* A call site that never writes a map once a command holds it: every read of every command, however late,
   returns exactly what the map held when the command was started. *)
Theorem C21_hook_env_read_later_is_isolated : forall tr,
  disciplined hinit tr = true -> hrun hinit tr = hrun_handed hinit tr.
Proof. exact reads_see_what_was_handed_init. Qed.
Print Assumptions C21_hook_env_read_later_is_isolated.

(* The code's pattern (path.go segment hooks, setOnline/onDemand/..., the protocol servers: one
   ExternalCmdEnv() per event) keeps that discipline for all events and all interleavings... *)
Theorem C21_hook_env_per_event_disciplined : forall evs tr,
  caller_of tr = per_event 0 evs -> disciplined hinit tr = true.
Proof. exact per_event_disciplined. Qed.
Print Assumptions C21_hook_env_per_event_disciplined.

(* ...so each of its commands reads what it was handed... *)
Theorem C21_hook_env_per_event_isolated : forall evs tr,
  caller_of tr = per_event 0 evs -> hrun hinit tr = hrun_handed hinit tr.
Proof. exact per_event_isolated. Qed.
Print Assumptions C21_hook_env_per_event_isolated.

(* ...and what command c was handed is exactly the values of event c: ExternalCmdEnv() of that moment with the
   call site's additions for that event. *)
Theorem C21_hook_env_per_event_values : forall evs tr c e,
  caller_of tr = per_event 0 evs -> In (c, e) (hrun hinit tr) ->
  exists ev, nth_error evs c = Some ev /\ e = intended ev.
Proof. exact per_event_values. Qed.
Print Assumptions C21_hook_env_per_event_values.

(* One map built once and rewritten by every event (the hoisted variant): in the recorder's rotation the
   completion hook of segment 5 reads segment 6's values when its routine runs after the next callback. *)
Theorem C21_hook_env_shared_map_refuted :
  exists tr, caller_of tr = shared_map [] [ev_complete5; ev_create6] /\
             In (0%nat, intended ev_create6) (hrun hinit tr) /\
             intended ev_create6 <> intended ev_complete5 /\
             disciplined hinit tr = false.
Proof. exact shared_map_refuted. Qed.
Print Assumptions C21_hook_env_shared_map_refuted.

(* non-vacuity: the same two events through the per-event call site, reads as late as possible and in between *)
Example C21_example_hook_env :
  hrun hinit (reads_last (per_event 0 [ev_complete5; ev_create6]) 2)
    = [(0%nat, intended ev_complete5); (1%nat, intended ev_create6)]
  /\ hrun hinit [SNew []; SSet 0 k_seg [53]; SStart 0; SNew []; SRead 0; SSet 1 k_seg [54]; SStart 1; SRead 0; SRead 1]
    = [(0%nat, intended ev_complete5); (0%nat, intended ev_complete5); (1%nat, intended ev_create6)]
  /\ disciplined hinit (reads_last (per_event 0 [ev_complete5; ev_create6]) 2) = true.
Proof. vm_compute. repeat split. Qed.

(* non-vacuity *)
Example C21_example_values :
  (* sh -c 'echo "$MY_VAR"' with MY_VAR = it's : three arguments, the quote does not end the word *)
  argv [115;104;32;45;99;32;39;101;99;104;111;32;34;36;77;89;95;86;65;82;34;39]
       [([77;89;95;86;65;82], [105;116;39;115])] []
  = inr [[115;104]; [45;99]; [101;99;104;111;32;34;105;116;39;115;34]]
  /\ valid_name [77;84;88;95;80;65;84;72] /\ plain_word [97;98] /\ not_alnum_start [47;120]
  /\ run_report false (Exited 3) = Some 3 /\ run_report_snapshot false (Exited 3) = None
  /\ child_environ [([65],[49])] [([65],[50]); ([66],[32;36;65])] = [[65;61;50]; [66;61;32;36;65]].
Proof. vm_compute. repeat split; try reflexivity; try discriminate; repeat constructor; discriminate. Qed.
