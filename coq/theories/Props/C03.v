(* C03 - Every media publish or read is authorized for that path and action.  (PARTIAL: see design_notes/C03.md)
   Only statements here; every proof is `exact <lemma of Proofs/C03_*.v>`.

   Model (Model/C03_Auth.v): the path manager's FindPathConf / Describe / AddReader / AddPublisher over pm.pathConfs,
   reloads replacing pm.pathConfs; `auth publish name creds ip` is the authentication manager (oracle: any function),
   m the regexp oracle of C14, Cr / Ip any types of credentials / addresses. `Attached k n` = the path manager hands
   the request to the path object n as a describer / reader / publisher. All theorems hold for every oracle, every
   configuration history and every request. *)
From Coq Require Import List ZArith Bool String.
Require Import MTX.Model.C14_PathConf MTX.Model.C03_Auth MTX.Model.C03_Origin MTX.Proofs.C03_Auth MTX.Proofs.C03_E2E
               MTX.Proofs.C03_Origin MTX.Proofs.C03_Flows MTXGen.C03_Flows.
Import ListNotations.
Local Open Scope Z_scope.

(* In any trace of path-manager calls (reloads interleaved at will), an attachment comes from a Describe / AddReader /
   AddPublisher call naming exactly that path; if the request did not set SkipAuth, the call's events are exactly
   [Authenticated ...; Attached ...]: the authentication manager admitted the request's OWN credentials and address
   for THAT name, for the action named by the request's Publish flag - which is the action of the call whenever the
   flag matches the call (C03_pm_action_not_checked: the path manager does not check that it does). *)
Theorem C03_pm_attach_authorized :
  forall (Cr Ip : Type) (m : str -> str -> option (list str)) (auth : bool -> str -> Cr -> Ip -> bool)
         cs0 (l : list (call Cr Ip)) c evs k n,
  In (c, evs) (run m auth cs0 l) -> In (Attached k n) evs ->
  exists r ctc,
    c = CAdd k r ctc /\ n = r_name r /\
    (r_skip r = false ->
       evs = [Authenticated (r_publish r) n (r_creds r) (r_ip r); Attached k n]
       /\ auth (r_publish r) n (r_creds r) (r_ip r) = true
       /\ (r_publish r = kind_publish k -> auth (kind_publish k) n (r_creds r) (r_ip r) = true)).
Proof. exact @pm_attach_authorized. Qed.
Print Assumptions C03_pm_attach_authorized.

(* A well-formed flow (single authenticated call; or FindPathConf then an attachment with SkipAuth that repeats the
   name and the action and - for a publisher - passes the first answer as ConfToCompare), with ANY sequence of
   configuration reloads before the attaching call: whatever is attached is the path that was named, the manager
   admitted the flow's credentials and address for that path and the attaching call's action, the path is configured
   at that moment, and for a two-step publisher the configuration in force is the one it was authorized against. *)
Theorem C03_flow_sound :
  forall (Cr Ip : Type) (m : str -> str -> option (list str)) (auth : bool -> str -> Cr -> Ip -> bool)
         (f : flow) (e : env Cr Ip) cs0 rl k n,
  flow_ok f = true ->
  In (Attached k n) (flow_events m auth f e cs0 rl) ->
  n = e_n1 e /\
  auth (kind_publish k) n (e_cr1 e) (e_ip1 e) = true /\
  (exists key c g, resolve m (last rl cs0) n = Found key c g /\
     (two_step f = true -> kind_publish k = true -> exists key0 g0, resolve m cs0 n = Found key0 c g0)).
Proof. exact @flow_sound. Qed.
Print Assumptions C03_flow_sound.

(* flow_events is not a separate semantics: it is the event list of the last call of the trace flow_calls run by the
   path manager (or the first call failed and the server stopped) *)
Theorem C03_flow_is_trace :
  forall (Cr Ip : Type) (m : str -> str -> option (list str)) (auth : bool -> str -> Cr -> Ip -> bool)
         (f : flow) (e : env Cr Ip) cs0 rl,
  flow_events m auth f e cs0 rl = [] \/
  exists pre c, run m auth cs0 (flow_calls m auth f e cs0 rl) = pre ++ [(c, flow_events m auth f e cs0 rl)].
Proof. exact @flow_events_run. Qed.
Print Assumptions C03_flow_is_trace.

(* each requirement of flow_ok is needed: without ConfToCompare a publisher authorized under one configuration is
   attached under another one ... *)
Theorem C03_flow_without_ctc_refuted :
  exists (e : env Z Z) cs0 rl n,
    flow_ok (FTwoStep KPublisher true true true false) = false /\
    In (Attached KPublisher n) (flow_events w_m_none w_auth_creds (FTwoStep KPublisher true true true false) e cs0 rl) /\
    conf_of_result (resolve w_m_none cs0 n) = Some 1 /\
    conf_of_result (resolve w_m_none (last rl cs0) n) = Some 2.
Proof. exact flow_without_ctc_refuted. Qed.
Print Assumptions C03_flow_without_ctc_refuted.

(* ... a second call naming another path attaches where the client was never admitted ... *)
Theorem C03_flow_other_name_refuted :
  exists (e : env Z Z) cs0 rl n,
    flow_ok (FTwoStep KPublisher true true false true) = false /\
    In (Attached KPublisher n) (flow_events w_m_all w_auth_name (FTwoStep KPublisher true true false true) e cs0 rl) /\
    w_auth_name true n (e_cr1 e) (e_ip1 e) = false.
Proof. exact flow_other_name_refuted. Qed.
Print Assumptions C03_flow_other_name_refuted.

(* ... and the path manager alone checks neither that the Publish flag matches the call nor anything under SkipAuth *)
Theorem C03_pm_action_not_checked :
  exists (r : areq Z Z) cs n,
    r_skip r = false /\
    In (Attached KPublisher n) (do_add w_m_none w_auth_read cs KPublisher r None) /\
    w_auth_read (kind_publish KPublisher) n (r_creds r) (r_ip r) = false /\
    flow_ok (FSingle KPublisher false false) = false.
Proof. exact pm_action_not_checked. Qed.
Print Assumptions C03_pm_action_not_checked.

Theorem C03_pm_skip_not_checked :
  exists (r : areq Z Z) cs n,
    In (Attached KReader n) (do_add w_m_none (fun _ _ _ _ => false) cs KReader r None) /\
    flow_ok (FSingle KReader false true) = false.
Proof. exact pm_skip_not_checked. Qed.
Print Assumptions C03_pm_skip_not_checked.

(* The tie to the servers: `sites` is regenerated on every run by go/ast from every call site of the four
   path-manager methods under internal/ (tools/gen/authflows). Every site is a well-formed flow or one of the pinned
   exemptions (server components and the HLS CDN secret: no user credentials by design); nothing was left
   unclassified; every stream-level AddReader in the servers is on a stream returned by a path-manager AddReader. *)
Theorem C03_flows :
  forallb site_ok sites = true /\ unclassified = [] /\ forallb snd stream_sites = true.
Proof. exact flows_ok. Qed.
Print Assumptions C03_flows.

Theorem C03_exemptions_pinned :
  incl_str exempt exempt_expected = true /\ incl_str name_assumptions name_assumptions_expected = true.
Proof. exact exempt_pinned. Qed.
Print Assumptions C03_exemptions_pinned.

(* hence, for every non-exempt call site of the current source: *)
Theorem C03_servers_sound :
  forall (Cr Ip : Type) (m : str -> str -> option (list str)) (auth : bool -> str -> Cr -> Ip -> bool)
         site f (e : env Cr Ip) cs0 rl k n,
  In (site, f) sites -> ~ In site exempt ->
  In (Attached k n) (flow_events m auth f e cs0 rl) ->
  n = e_n1 e /\
  auth (kind_publish k) n (e_cr1 e) (e_ip1 e) = true /\
  (exists key c g, resolve m (last rl cs0) n = Found key c g /\
     (two_step f = true -> kind_publish k = true -> exists key0 g0, resolve m cs0 n = Found key0 c g0)).
Proof. exact servers_sound. Qed.
Print Assumptions C03_servers_sound.

(* the table is not empty or lopsided: a reader flow for each of the six servers, a publisher flow for the five that
   ingest, RTSP DESCRIBE, and the RTMP publisher is the two-step flow with everything in place *)
Theorem C03_table_covers :
  forallb (fun d => has d KReader) ["internal/servers/rtsp/"; "internal/servers/rtmp/"; "internal/servers/srt/";
                                    "internal/servers/webrtc/"; "internal/servers/hls/"; "internal/servers/moq/"]%string = true /\
  forallb (fun d => has d KPublisher) ["internal/servers/rtsp/"; "internal/servers/rtmp/"; "internal/servers/srt/";
                                       "internal/servers/webrtc/"; "internal/servers/moq/"]%string = true /\
  has "internal/servers/rtsp/" KDescribe = true /\
  In ("internal/servers/rtmp/conn.go:runPublish:AddPublisher"%string, FTwoStep KPublisher true true true true) sites.
Proof. exact table_covers. Qed.
Print Assumptions C03_table_covers.

(* ---- whose address the manager is asked about (Model/C03_Origin.v) ----------------------------------------------

   G = MTX.Model.C43_Hls (gin's ClientIP, networks). A wire request w carries the transport peer, the forwarding headers
   of a HTTP request and the source address of a PROXY protocol header. `attributable car tr parse w who`: ground truth -
   who is the host the request comes from: the peer if it is outside the trusted networks tr (whatever it sends); the
   client at the far end of ANY honest chain of trusted proxies each appending its peer to X-Forwarded-For (the client
   itself free to send any forged list first); a trusted proxy's X-Real-Ip / PROXY header; a trusted proxy itself when
   it forwards nothing. `site_ip car src tr parse other w`: the address a call site hands to the path manager when it
   reads it from source src. For every trusted list, parser oracle, request and carrier: a site that uses the source
   its carrier demands (ClientIP on HTTP, the connection's RemoteAddr elsewhere) hands over the ORIGINATOR's address. *)
Theorem C03_site_ip_origin :
  forall car src tr parse other w who,
  ip_ok car src = true -> attributable car tr parse w who -> site_ip car src tr parse other w = who.
Proof. exact site_ip_origin. Qed.
Print Assumptions C03_site_ip_origin.

(* ... so that a well-formed flow at such a site attaches only what the manager admitted for the flow's credentials and
   the ORIGINATOR's address (any oracle, configuration history, reloads, proxies, headers) *)
Theorem C03_origin_flow_sound :
  forall (Cr : Type) (m : str -> str -> option (list str)) (auth : bool -> str -> Cr -> list Z -> bool)
         (f : flow) (e : env Cr (list Z)) cs0 rl k n car src tr parse other w who,
  flow_ok f = true -> ip_ok car src = true ->
  attributable car tr parse w who ->
  e_ip1 e = site_ip car src tr parse other w ->
  In (Attached k n) (flow_events m auth f e cs0 rl) ->
  n = e_n1 e /\ auth (kind_publish k) n (e_cr1 e) who = true.
Proof. exact @origin_flow_sound. Qed.
Print Assumptions C03_origin_flow_sound.

(* the requirement is needed: a HTTP site reading the TCP peer (http.Request.RemoteAddr) asks the manager about the
   reverse proxy; a remote client the manager refuses becomes a reader through it (ClientIP gives the client) ... *)
Theorem C03_origin_peer_source_refuted :
  exists (e : env Z (list Z)) cs0 n,
    ip_ok CHttp SPeer = false /\
    attributable CHttp w_tr w_parse w_via w_R /\
    e_ip1 e = site_ip CHttp SPeer w_tr w_parse [] w_via /\
    flow_ok (FSingle KReader false false) = true /\
    In (Attached KReader n) (flow_events w_m_none w_auth_P (FSingle KReader false false) e cs0 []) /\
    w_auth_P false n (e_cr1 e) w_R = false /\
    site_ip CHttp SClient w_tr w_parse [] w_via = w_R.
Proof. exact origin_peer_source_refuted. Qed.
Print Assumptions C03_origin_peer_source_refuted.

(* ... a gin engine on which SetTrustedProxies was not called believes a forged X-Forwarded-For of any peer (with the
   configured empty list it does not) ... *)
Theorem C03_origin_trust_all_refuted :
  attributable CHttp [] w_parse w_forged w_R /\
  G.client_ip (gin_engine gin_trust_all) w_parse (w_net w_forged) = w_P /\
  G.client_ip (gin_engine []) w_parse (w_net w_forged) = w_R.
Proof. exact origin_trust_all_refuted. Qed.
Print Assumptions C03_origin_trust_all_refuted.

(* ... and so would a PROXY protocol listener that used the header of every peer *)
Theorem C03_origin_pp_use_all_refuted :
  attributable CTcp w_tr w_parse w_forged_pp w_R /\
  pp_remote_use_all (w_net w_forged_pp) (w_pp w_forged_pp) = w_P /\
  site_ip CTcp SPeer w_tr w_parse [] w_forged_pp = w_R.
Proof. exact origin_pp_use_all_refuted. Qed.
Print Assumptions C03_origin_pp_use_all_refuted.

(* The tie to the servers: the generated table `ident_sites` gives, for the authenticating call of every site (the
   FindPathConf of a two-step flow, `first_steps`), the carrier and the expression that supplies AccessRequest.IP
   (tools/gen/authflows). Every non-exempt site uses the source its carrier demands, every row does, and the carriers
   are the expected ones per server (HLS, WebRTC, MoQ pages: HTTP; RTSP, RTMP: TCP with PROXY listener; SRT, MoQ
   sessions: plain connection). `gin_engines`: on every gin.New() under internal/ (also API, metrics, pprof, playback)
   SetTrustedProxies is called unconditionally in the same function - else the engine would believe the forwarding
   headers of every peer (C03_origin_trust_all_refuted) - except the pinned HTTP/3 router of MoQ, which reads none. *)
Theorem C03_identity_sites :
  forallb ident_site_ok sites = true /\
  forallb (fun x => ip_ok (fst (snd x)) (snd (snd x))) ident_sites = true /\
  forallb carrier_as_expected ident_sites = true /\
  forallb engine_ok gin_engines = true /\
  forallb (fun d => existsb (fun e => String.prefix d (fst e) && snd e) gin_engines)
          ["internal/servers/hls/"; "internal/servers/webrtc/"; "internal/servers/moq/"]%string = true.
Proof. exact ident_ok. Qed.
Print Assumptions C03_identity_sites.

(* hence, for every non-exempt call site of the current source and every wire request feeding its authenticating call: *)
Theorem C03_servers_origin_sound :
  forall (Cr : Type) (m : str -> str -> option (list str)) (auth : bool -> str -> Cr -> list Z -> bool)
         site f car src (e : env Cr (list Z)) cs0 rl k n tr parse other w who,
  In (site, f) sites -> ~ In site exempt ->
  ident_of (site, f) = Some (car, src) ->
  attributable car tr parse w who ->
  e_ip1 e = site_ip car src tr parse other w ->
  In (Attached k n) (flow_events m auth f e cs0 rl) ->
  n = e_n1 e /\ auth (kind_publish k) n (e_cr1 e) who = true.
Proof. exact servers_origin_sound. Qed.
Print Assumptions C03_servers_origin_sound.

Example C03_identity_total :
  forallb (fun sf => mem_str (fst sf) exempt || match ident_of sf with Some _ => true | None => false end) sites = true.
Proof. exact ident_total. Qed.

(* non-vacuity of `attributable` / site_ip: forged list + two proxies, proxy on its own, X-Real-Ip, forged header from an
   untrusted peer, PROXY header with and without a trusted list, plain connection *)
Example C03_origin_examples :
  let net p h := {| w_net := {| G.n_peer := Some p; G.n_hdrs := h |}; w_pp := None |} in
  site_ip CHttp SClient w_tr2 w_parse2 [] (net (w_P, w_aP) [(G.h_xff, w_P ++ sep ++ w_R ++ sep ++ w_Q)]) = w_R /\
  site_ip CHttp SClient w_tr2 w_parse2 [] (net (w_P, w_aP) []) = w_P /\
  site_ip CHttp SClient w_tr2 w_parse2 [] (net (w_P, w_aP) [(G.h_xreal, w_R)]) = w_R /\
  site_ip CHttp SClient w_tr2 w_parse2 [] w_forged = w_R /\
  site_ip CTcp SPeer w_tr w_parse [] {| w_net := {| G.n_peer := Some (w_P, w_aP); G.n_hdrs := [] |}; w_pp := Some w_R |} = w_R /\
  site_ip CTcp SPeer [] w_parse [] {| w_net := {| G.n_peer := Some (w_P, w_aP); G.n_hdrs := [] |}; w_pp := Some w_R |} = w_P /\
  site_ip CDirect SPeer w_tr w_parse [] w_forged_pp = w_R.
Proof. exact origin_examples. Qed.

(* End to end (Check/C03.v, E2E cases): the admission the model predicts for an attempt of a real protocol client -
   the servers' flow run on the model with the oracle's verdict for the requested name - is never one the end-to-end
   judgement rejects: the oracle admitted the requested name, the name is valid and configured when the attaching call is
   made, and for a publisher the configuration serving it is the one it was authorized under. (What is left to the
   observation alone: that the path attached is the one named, and the oracle's verdict for it.) *)
Theorem C03_e2e_model_sound :
  forall publish n cr ip conf0 reload oreq,
  e2e_model publish n cr ip conf0 reload oreq = true ->
  oreq = true /\ valid_name n = true /\ (exists c, e2e_in_force conf0 reload = Some c) /\
  (publish = true -> conf0 = e2e_in_force conf0 reload).
Proof. exact e2e_model_sound. Qed.
Print Assumptions C03_e2e_model_sound.

Example C03_e2e_model_examples :
  let n := [112; 49] in
  (e2e_model true n 3 0 (Some 1) None true, e2e_model true n 3 0 (Some 1) (Some (Some 1)) true,
   e2e_model false n 2 1 (Some 1) None true,
   e2e_model true n 3 0 (Some 1) (Some (Some 2)) true, e2e_model true n 3 0 (Some 1) None false,
   e2e_model false [112; 47] 2 1 (Some 1) None true, e2e_model false n 2 1 None None true)
  = (true, true, true, false, false, false, false).
Proof. exact e2e_model_examples. Qed.

(* non-vacuity of C03_flow_sound *)
Example C03_examples :
  flow_ok (FTwoStep KPublisher true true true true) = true /\
  flow_events w_m_none w_auth_creds (FTwoStep KPublisher true true true true) (w_env None)
              [(w_cam, 1)] [[(w_cam, 2)]; [(w_cam, 1); (w_adm, 3)]] = [Attached KPublisher w_cam] /\
  flow_ok (FSingle KReader false false) = true /\
  flow_events w_m_all w_auth_name (FSingle KReader false false) (w_env None) [(s_all, 1)] []
  = [Authenticated false w_cam 1 7; Attached KReader w_cam] /\
  flow_events w_m_all w_auth_read (FSingle KPublisher true false) (w_env None) [(s_all, 1)] [] = [Rejected EAuth].
Proof. exact flow_examples. Qed.

Example C03_example_ctc_rejects :
  flow_events w_m_none w_auth_creds (FTwoStep KPublisher true true true true) (w_env None) [(w_cam, 1)] [[(w_cam, 2)]]
  = [Rejected EConfChanged].
Proof. exact flow_with_ctc_rejects. Qed.
