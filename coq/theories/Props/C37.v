(* C37 - Structured log lines are valid JSON.
   Only statements here; every proof is `exact <lemma>` of Proofs/C37_LogJson.v, Lib/Json.v, Lib/Utf8.v.
   render ts lvl msg models the line written by destinationStdout.log / destinationFile.log (structured
   branch, after the fix: commit) for the formatted timestamp ts (time.Format(RFC3339Nano): an input here),
   the level lvl and the formatted message msg (fmt.Sprintf: an input here). *)
From Coq Require Import List ZArith Bool.
Require Import MTX.Lib.Utf8 MTX.Lib.Json MTX.Model.C37_LogJson MTX.Proofs.C37_LogJson.
Import ListNotations.
Local Open Scope Z_scope.

(* every record is exactly one line: the newline is the last byte and there is no other *)
Theorem C37_one_line : forall ts lvl msg, bytes msg -> plain ts = true ->
  one_line (render ts lvl msg) = true.
Proof. exact render_one_line. Qed.
Print Assumptions C37_one_line.

Theorem C37_one_line_meaning : forall l,
  one_line l = true <-> exists body, l = body ++ [10] /\ ~ In 10 body.
Proof. exact one_line_spec. Qed.
Print Assumptions C37_one_line_meaning.

(* the line is a JSON object with exactly the members timestamp, level, message, whose values decode to the
   record's timestamp text, level name and message with every ill-formed UTF-8 byte replaced by U+FFFD -
   for ALL byte strings msg (control characters, quotes, invalid UTF-8, anything) *)
Theorem C37_valid_json : forall ts lvl msg, bytes msg -> plain ts = true ->
  parse_line (render ts lvl msg) =
  Some [(key_timestamp, ts); (key_level, level_name lvl); (key_message, sanitize msg)].
Proof. exact render_parses. Qed.
Print Assumptions C37_valid_json.

Theorem C37_fields : forall ts lvl msg, bytes msg -> plain ts = true ->
  exists ms, parse_line (render ts lvl msg) = Some ms /\
    lookup key_timestamp ms = Some ts /\ lookup key_level ms = Some (level_name lvl) /\
    lookup key_message ms = Some (sanitize msg).
Proof. exact render_fields. Qed.
Print Assumptions C37_fields.

(* the library fact behind it: encoding/json's string encoder followed by a JSON string parser is the
   UTF-8 sanitiser, whatever follows the string *)
Theorem C37_json_string_roundtrip : forall s tail, bytes s ->
  parse_string (json_string s ++ tail) = Some (sanitize s, tail).
Proof. exact parse_json_string. Qed.
Print Assumptions C37_json_string_roundtrip.

(* what `sanitize` is: the runes partition the message; only bad bytes are rewritten; valid UTF-8 is unchanged *)
Theorem C37_runes_partition : forall s, bytes s ->
  flat_map rune_src (runes s) = s /\ sanitize s = flat_map rune_out (runes s) /\ Forall wf_rune (runes s).
Proof. intros s H. exact (conj (runes_src s H) (conj eq_refl (runes_wf s H))). Qed.
Print Assumptions C37_runes_partition.

Theorem C37_valid_message_unchanged : forall s, bytes s -> valid_utf8 s = true -> sanitize s = s.
Proof. exact sanitize_valid. Qed.
Print Assumptions C37_valid_message_unchanged.

(* The pinned tree (strconv.Quote) violated the property: for each of these messages the line is not JSON.
   Reproduced on the real destinations before the fix: 156 of the 256 single bytes gave
   `invalid character 'x' in string escape code` (design_notes/C37.md). *)
Theorem C37_valid_json_refuted :
  plain ts_example = true /\ Forall bytes v0_witnesses /\
  forall m, In m v0_witnesses -> parse_line (render_v0 (fun _ => true) ts_example 2 m) = None.
Proof. exact render_v0_refuted. Qed.
Print Assumptions C37_valid_json_refuted.

(* non-vacuity: a message with BEL, a quote, a newline, '<', a lone 0xff, U+2028 and an e-acute *)
Example C37_example :
  let msg := [7; 34; 10; 60; 255; 226; 128; 168; 195; 169] in
  parse_line (render ts_example 3 msg) =
    Some [(key_timestamp, ts_example); (key_level, [87; 65; 82]);
          (key_message, [7; 34; 10; 60; 239; 191; 189; 226; 128; 168; 195; 169])]
  /\ one_line (render ts_example 3 msg) = true
  /\ parse_line (render_v0 (fun _ => true) ts_example 3 msg) = None
  /\ valid_utf8 msg = false /\ valid_utf8 [226; 128; 168; 195; 169] = true.
Proof. vm_compute. repeat split. Qed.
