(* C37 - Structured log lines are valid JSON.
   Only statements here; every proof is `exact <lemma>` of Proofs/C37_LogJson.v, Lib/Json.v, Lib/Utf8.v.
   render ts lvl msg models the line written by destinationStdout.log / destinationFile.log (structured
   branch, after the fix: commit) for the formatted timestamp ts (time.Format(RFC3339Nano): an input here),
   the level lvl and the formatted message msg (fmt.Sprintf: an input here). *)
From Coq Require Import List ZArith Bool.
Require Import MTX.Lib.Utf8 MTX.Lib.Json MTX.Model.C37_LogJson MTX.Proofs.C37_LogJson.
Require Import MTX.Model.C37_LogDest MTX.Proofs.C37_LogDest.
Import ListNotations.
Local Open Scope Z_scope.

(* every record is exactly one line: the newline is the last byte and there is no other *)
Theorem C37_one_line : forall ts lvl msg, bytes msg -> plain ts = true ->
  one_line (render ts lvl msg) = true.
Proof. exact render_one_line. Qed.
Print Assumptions C37_one_line.

Theorem C37_one_line_meaning : forall l,
  one_line l = true <-> exists body, l = body ++ [10] /\ ~ In 10 body.
Proof. exact one_line_spec. Qed.
Print Assumptions C37_one_line_meaning.

(* the line is a JSON object with exactly the members timestamp, level, message, whose values decode to the
   record's timestamp text, level name and message with every ill-formed UTF-8 byte replaced by U+FFFD -
   for ALL byte strings msg (control characters, quotes, invalid UTF-8, anything) *)
Theorem C37_valid_json : forall ts lvl msg, bytes msg -> plain ts = true ->
  parse_line (render ts lvl msg) =
  Some [(key_timestamp, ts); (key_level, level_name lvl); (key_message, sanitize msg)].
Proof. exact render_parses. Qed.
Print Assumptions C37_valid_json.

Theorem C37_fields : forall ts lvl msg, bytes msg -> plain ts = true ->
  exists ms, parse_line (render ts lvl msg) = Some ms /\
    lookup key_timestamp ms = Some ts /\ lookup key_level ms = Some (level_name lvl) /\
    lookup key_message ms = Some (sanitize msg).
Proof. exact render_fields. Qed.
Print Assumptions C37_fields.

(* the library fact behind it: encoding/json's string encoder followed by a JSON string parser is the
   UTF-8 sanitiser, whatever follows the string *)
Theorem C37_json_string_roundtrip : forall s tail, bytes s ->
  parse_string (json_string s ++ tail) = Some (sanitize s, tail).
Proof. exact parse_json_string. Qed.
Print Assumptions C37_json_string_roundtrip.

(* what `sanitize` is: the runes partition the message; only bad bytes are rewritten; valid UTF-8 is unchanged *)
Theorem C37_runes_partition : forall s, bytes s ->
  flat_map rune_src (runes s) = s /\ sanitize s = flat_map rune_out (runes s) /\ Forall wf_rune (runes s).
Proof. intros s H. exact (conj (runes_src s H) (conj eq_refl (runes_wf s H))). Qed.
Print Assumptions C37_runes_partition.

Theorem C37_valid_message_unchanged : forall s, bytes s -> valid_utf8 s = true -> sanitize s = s.
Proof. exact sanitize_valid. Qed.
Print Assumptions C37_valid_message_unchanged.

(* ---- every destination configuration -----------------------------------------------------------
   dest_line cf ts ck lvl msg models destinationStdout.log / destinationFile.log as a whole for the configuration
   cf = (destination, Logger.Structured, destinationStdout.useColor i.e. "stdout is a terminal", colour library
   switched on). With structured logging the line is the JSON line above in EVERY configuration: neither the
   terminal nor the colour library may reach it. *)
Theorem C37_structured_line_all_configs : forall cf ts ck lvl msg, cf_structured cf = true ->
  dest_line cf ts ck lvl msg = render ts lvl msg.
Proof. exact dest_line_structured. Qed.
Print Assumptions C37_structured_line_all_configs.

Theorem C37_valid_json_all_configs : forall cf ts ck lvl msg,
  cf_structured cf = true -> bytes msg -> plain ts = true ->
  parse_line (dest_line cf ts ck lvl msg) =
    Some [(key_timestamp, ts); (key_level, level_name lvl); (key_message, sanitize msg)]
  /\ one_line (dest_line cf ts ck lvl msg) = true.
Proof. exact dest_line_parses. Qed.
Print Assumptions C37_valid_json_all_configs.

(* the level member decodes to the record's level: the four tags are pairwise distinct *)
Theorem C37_level_decodes : forall l1 l2, 1 <= l1 <= 4 -> 1 <= l2 <= 4 -> level_name l1 = level_name l2 -> l1 = l2.
Proof. exact level_name_inj. Qed.
Print Assumptions C37_level_decodes.

(* Why the structured branch must call writeLevel(.., false): the variant that passes d.useColor (as the plain
   branch does) writes ESC [ ... m inside the level string; on a colour-capable terminal NO record is JSON ... *)
Theorem C37_coloured_level_refuted : forall cf ts lvl msg,
  cf_use_colour cf = true -> cf_colour_on cf = true -> 1 <= lvl <= 4 -> plain ts = true ->
  parse_line (dest_line_coloured_tag cf ts lvl msg) = None.
Proof. exact coloured_tag_not_json. Qed.
Print Assumptions C37_coloured_level_refuted.

(* ... and it is invisible in every other configuration (stdout piped, colours disabled, level outside Debug..Error) *)
Theorem C37_coloured_level_invisible_elsewhere : forall cf ts ck lvl msg,
  cf_structured cf = true ->
  cf_use_colour cf && cf_colour_on cf = false \/ ~ (1 <= lvl <= 4) ->
  dest_line_coloured_tag cf ts lvl msg = dest_line cf ts ck lvl msg.
Proof. exact coloured_tag_harmless. Qed.
Print Assumptions C37_coloured_level_invisible_elsewhere.

(* All histories: whatever records are logged (Logger.Log serialises them under its mutex), a reader that splits
   the destination's output at the newlines gets exactly one line per record, in order, and each line decodes to
   its record. *)
Theorem C37_stream_lines : forall cf rs, cf_structured cf = true -> Forall good_rec rs ->
  lines (stream cf rs) = map (rec_line cf) rs.
Proof. exact stream_lines. Qed.
Print Assumptions C37_stream_lines.

Theorem C37_stream_decodes : forall cf rs, cf_structured cf = true -> Forall good_rec rs ->
  map parse_line (lines (stream cf rs)) =
  map (fun r => Some [(key_timestamp, lr_ts r); (key_level, level_name (lr_level r));
                      (key_message, sanitize (lr_msg r))]) rs.
Proof. exact stream_decodes. Qed.
Print Assumptions C37_stream_decodes.

(* without structured logging the formatted message is written verbatim before the final newline *)
Theorem C37_plain_line : forall cf ts ck lvl msg, cf_structured cf = false ->
  exists head, dest_line cf ts ck lvl msg = head ++ [32] ++ msg ++ [10].
Proof. exact dest_line_plain. Qed.
Print Assumptions C37_plain_line.

(* syslog (never structured): a record of level Debug..Error is handed over as its text plus at most one newline *)
Theorem C37_syslog_text : forall lvl msg sev txt, syslog_record lvl msg = Some (sev, txt) ->
  1 <= lvl <= 4 /\ (txt = msg \/ txt = msg ++ [10]) /\ ends_with_nl txt = true.
Proof. exact syslog_text. Qed.
Print Assumptions C37_syslog_text.

(* non-vacuity: coloured plain line on a terminal, uncoloured file line, structured line on the same terminal,
   the coloured-tag variant on it, itoa, lines, syslog *)
Example C37_dest_examples :
  let msg := [115; 101; 101; 100; 32; 34; 7] in
  dest_line (Config 0 false true true) ts_example ck_example 1 msg =
    [27; 91; 57; 48; 109] ++ [50; 48; 48; 51; 47; 49; 49; 47; 48; 52; 32; 50; 51; 58; 49; 53; 58; 48; 56; 32] ++ [27; 91; 48; 109]
    ++ [27; 91; 48; 59; 51; 54; 109; 68; 69; 66; 27; 91; 48; 109] ++ [32] ++ msg ++ [10]
  /\ dest_line (Config 1 false true true) ts_example ck_example 4 msg =
    [50; 48; 48; 51; 47; 49; 49; 47; 48; 52; 32; 50; 51; 58; 49; 53; 58; 48; 56; 32; 69; 82; 82; 32] ++ msg ++ [10]
  /\ dest_line (Config 0 true true true) ts_example ck_example 1 msg = render ts_example 1 msg
  /\ parse_line (dest_line_coloured_tag (Config 0 true true true) ts_example 1 msg) = None
  /\ itoa 7 4 = [48; 48; 48; 55] /\ itoa 12345 2 = [49; 50; 51; 52; 53] /\ itoa 0 1 = [48]
  /\ lines [97; 10; 10; 98] = [[97; 10]; [10]; [98]]
  /\ syslog_record 3 [97] = Some (4, [97; 10]) /\ syslog_record 0 [97] = None.
Proof. exact dest_examples. Qed.

(* The pinned tree (strconv.Quote) violated the property: for each of these messages the line is not JSON.
   Reproduced on the real destinations before the fix: 156 of the 256 single bytes gave
   `invalid character 'x' in string escape code` (design_notes/C37.md). *)
Theorem C37_valid_json_refuted :
  plain ts_example = true /\ Forall bytes v0_witnesses /\
  forall m, In m v0_witnesses -> parse_line (render_v0 (fun _ => true) ts_example 2 m) = None.
Proof. exact render_v0_refuted. Qed.
Print Assumptions C37_valid_json_refuted.

(* non-vacuity: a message with BEL, a quote, a newline, '<', a lone 0xff, U+2028 and an e-acute *)
Example C37_example :
  let msg := [7; 34; 10; 60; 255; 226; 128; 168; 195; 169] in
  parse_line (render ts_example 3 msg) =
    Some [(key_timestamp, ts_example); (key_level, [87; 65; 82]);
          (key_message, [7; 34; 10; 60; 239; 191; 189; 226; 128; 168; 195; 169])]
  /\ one_line (render ts_example 3 msg) = true
  /\ parse_line (render_v0 (fun _ => true) ts_example 3 msg) = None
  /\ valid_utf8 msg = false /\ valid_utf8 [226; 128; 168; 195; 169] = true.
Proof. vm_compute. repeat split. Qed.
