(* C36 — Metrics exposition is always valid and faithful. *)
From Coq Require Import String.
From Coq Require Import List ZArith Bool.
Require Import MTX.Lib.IntWrap MTX.Model.C36_Metrics MTX.Proofs.C36_Metrics MTX.Model.C36_Sections MTX.Proofs.C36_Sections.
Require Import MTX.Model.C36_Concurrent MTX.Proofs.C36_Concurrent.
Import ListNotations.
Local Open Scope Z_scope.

(* For ALL label values (any bytes: quotes, backslashes, newlines, invalid UTF-8), all identifier-shaped metric names
   and label keys, and all value tokens: the text the code writes (comment lines, blank lines, sample lines with the
   repaired label escaping) parses back, with a parser of the Prometheus text format, to exactly the samples that
   were rendered — same names, same label values, same values, nothing more. *)
Theorem C36_parse_render : forall items, Forall wf_item items ->
  parse (render escape_label items) = Some (samples_of items).
Proof. exact parse_render. Qed.
Print Assumptions C36_parse_render.

(* the value token of an integer counter (strconv.FormatInt) reads back as the counter *)
Theorem C36_value_faithful : forall z, parse_int (format_int z) = Some z.
Proof. exact parse_format_int. Qed.
Print Assumptions C36_value_faithful.

Theorem C36_label_value_roundtrip : forall v rest, read_value (escape_label v ++ 34 :: rest) = Some (v, rest).
Proof. exact read_value_escape. Qed.
Print Assumptions C36_label_value_roundtrip.

(* the code before the fix (label values written raw) violates the statement: witness path name  a"} 1\nx{y="  *)
Theorem C36_parse_render_raw_refuted : exists items, Forall wf_item items /\
  parse (render raw items) <> Some (samples_of items).
Proof. exact parse_render_raw_refuted. Qed.
Print Assumptions C36_parse_render_raw_refuted.

Example C36_example :
  let s := {| s_name := [112; 97; 116; 104; 115]; s_tags := Some [([110; 97; 109; 101], [97; 34; 10; 92])]; s_value := format_int (-42) |} in
  render escape_label [Comment [80]; Sample s; Blank]
  = [35; 32; 80; 10] ++ [112; 97; 116; 104; 115; 123; 110; 97; 109; 101; 61; 34; 97; 92; 34; 92; 110; 92; 92; 34; 125; 32; 45; 52; 50; 10] ++ [10]
  /\ wf_item (Sample s).
Proof.
  split; [vm_compute; reflexivity|]. repeat split; simpl; try discriminate.
  - constructor; [|constructor]. split; [discriminate|reflexivity].
  - vm_compute. intros [H|[H|[H|[]]]]; discriminate.
Qed.

(* ======================= the whole handler: sections, filters, every entity kind ======================= *)

(* `body_of st q` is the body onMetrics writes (Model/C36_Sections.v: section logic + the table of metric names, label
   keys and entity fields of the thirteen kinds; tied to the real handler byte for byte on every run) when the servers
   hold the entities `st` and the URL query is `q`. `expected_samples st q` is the declarative reading: for each
   selected kind, one sample per entity passing the kind's filters and per metric of the kind, labels = the entity's
   fields, value = the entity's counter; for a selected kind without entities and without filter, its names with 0.
   For ALL entity sets (any strings in any field, any counters, any float tokens), and ALL queries: the body parses
   back to exactly those samples. `wf_state`: the float tokens (strconv.FormatFloat output, an oracle) are non-empty
   and contain no newline. *)
Theorem C36_faithful : forall st q, wf_state st -> parse (body_of st q) = Some (expected_samples st q).
Proof. exact faithful. Qed.
Print Assumptions C36_faithful.

(* the declarative reading as a membership statement: where every expected sample comes from *)
Theorem C36_expected_iff : forall st q s,
  In s (expected_samples st q) <->
  exists k, sec_on q k = true /\
    ((exists l e, entities st k = Ents l /\ In e l /\ passes q k e = true /\ In s (entity_samples k e))
     \/ (entities st k = Ents [] /\ zero_ok q k = true /\ exists n, In n (zero_names k) /\ s = zero_sample n)).
Proof. exact expected_iff. Qed.
Print Assumptions C36_expected_iff.

(* no sample of an entity that does not pass the active filter: every labelled sample a consumer reads from the body
   is a sample of an existing entity, of a kind selected by the query, that passes every filter of its kind *)
Theorem C36_filter_sound : forall st q ss, wf_state st -> parse (body_of st q) = Some ss ->
  forall s, In s ss -> s_tags s <> None ->
  exists k l e, sec_on q k = true /\ entities st k = Ents l /\ In e l /\ passes q k e = true /\ In s (entity_samples k e).
Proof. exact filter_sound. Qed.
Print Assumptions C36_filter_sound.

(* … read on the labels: with ?param=v every labelled sample carries v under the label fed by the filtered field *)
Theorem C36_filter_label : forall st q ss, wf_state st -> parse (body_of st q) = Some ss ->
  forall s ls, In s ss -> s_tags s = Some ls ->
  exists k, sec_on q k = true /\
    forall param field key, In (param, field) (k_filters (spec k)) -> filter_key k field = Some key ->
                            qget q param <> [] -> In (key, qget q param) ls.
Proof. exact filter_label. Qed.
Print Assumptions C36_filter_label.

(* the samples without labels are the zero lines of a selected kind that has no entity and no filter of its own *)
Theorem C36_zero_sound : forall st q ss, wf_state st -> parse (body_of st q) = Some ss ->
  forall s, In s ss -> s_tags s = None ->
  exists k, sec_on q k = true /\ entities st k = Ents [] /\ own_filter q k = false /\ In (s_name s) (zero_names k) /\ s_value s = [48].
Proof. exact zero_sound. Qed.
Print Assumptions C36_zero_sound.

(* labels of a sample = the entity's label fields; a counter below 2^63 reads back from its sample value *)
Theorem C36_entity_labels : forall k e s, In s (entity_samples k e) ->
  exists ls, s_tags s = Some ls /\ forall key src, In (key, src) (k_labels (spec k)) -> In (key, label_value e src) ls.
Proof. exact entity_sample_labels. Qed.
Print Assumptions C36_entity_labels.

Theorem C36_counter_reads_back : forall v, 0 <= v < two63 -> parse_int (format_int (wrap64 v)) = Some v.
Proof. exact counter_value_reads_back. Qed.
Print Assumptions C36_counter_reads_back.

(* ---- non-vacuity: a state with hostile strings, two paths, a forward destination, an RTSP session with float
   fields, an HLS server without muxers; queries with and without filters ---- *)
Definition ex_path (name : bytes) (ready inb : Z) (readers : list bytes) : entity :=
  {| e_str := [(bs "Name", name)]; e_num := [(bs "Ready", ready); (bs "InboundBytes", inb)]; e_flt := []; e_readers := readers |}.
Definition ex_witness : bytes := [97; 34; 125; 32; 49; 10; 120; 123; 121; 61; 34].        (* a"} 1\nx{y=" *)
Definition ex_st : state :=
  mk_state (Some [ex_path ex_witness 1 7 [bs "rtspSession"; bs "hlsSession"; bs "rtspSession"]; ex_path (bs "cam") 0 9 []])
           [(ex_witness, Some [ {| e_str := [(bs "ID", bs "f1"); (bs "Protocol", bs "srt"); (bs "State", bs "idle")];
                                   e_num := [(bs "OutboundBytes", 5)]; e_flt := []; e_readers := [] |} ])]
           [(KHlsMuxers, Listed []);
            (KRtspSessions, Listed [ {| e_str := [(bs "ID", bs "s1"); (bs "State", bs "read"); (bs "Path", bs "cam"); (bs "RemoteAddr", bs "[::1]:5")];
                                        e_num := [(bs "InboundBytes", 3)];
                                        e_flt := [(bs "InboundRTPPacketsJitter", bs "0.25"); (bs "RTPPacketsJitter", bs "0")];
                                        e_readers := [] |} ])].

Example C36_example_wf : wf_state ex_st.
Proof. apply wf_stateb_wf. vm_compute. reflexivity. Qed.

(* ?type=paths&path=<witness>: only the path with the hostile name, its readers counted per type in string order *)
Definition S (n : string) (tags : option (list label)) (v : string) : sample := {| s_name := bs n; s_tags := tags; s_value := bs v |}.
Definition r (ty : string) : option (list label) := Some [(bs "name", ex_witness); (bs "readerType", bs ty); (bs "state", bs "ready")].
Example C36_example_filter :
  let q := [(bs "type", bs "paths"); (bs "path", ex_witness)] in
  let t := Some [(bs "name", ex_witness); (bs "state", bs "ready")] in
  parse (body_of ex_st q)
  = Some [ S "paths" t "1"; S "paths_readers" (r "hlsSession") "1"; S "paths_readers" (r "rtspSession") "2";
           S "paths_inbound_bytes" t "7"; S "paths_outbound_bytes" t "0"; S "paths_inbound_frames_in_error" t "0";
           S "paths_bytes_received" t "0"; S "paths_bytes_sent" t "0" ].
Proof. vm_compute. reflexivity. Qed.

(* no query: every kind that exists; the HLS muxers (none) give zero lines, the absent servers nothing *)
Example C36_example_all :
  map (fun s => (s_name s, s_value s)) (filter (fun s => match s_tags s with None => true | _ => false end) (expected_samples ex_st []))
  = map (fun n => (bs n, bs "0")) ["hls_muxers"; "hls_muxers_outbound_bytes"; "hls_muxers_outbound_frames_discarded"; "hls_muxers_bytes_sent"]%string
  /\ Z.of_nat (length (expected_samples ex_st [])) = 8 + 7 + 2 + 4 + 23
  /\ expected_samples ex_st [(bs "rtsp_session", bs "nope")] = []
  /\ Z.of_nat (length (expected_samples ex_st [(bs "forward_dest", bs "f1")])) = 2
  /\ expected_samples ex_st [(bs "type", bs "forward_dests"); (bs "path", bs "cam")] = [].
Proof. vm_compute. repeat split; reflexivity. Qed.

(* ======================= several scrapes at the same time (Model/C36_Concurrent.v) ======================= *)

(* The property holds for EACH response whatever other scrapes overlap it. The handler as instructions over what is
   shared between the requests of one Metrics instance (the struct's fields, the RWMutex) and what belongs to one request
   (the buffer `out`, the gin context); `responses v cs sched` = what every request has received after the requests
   executed one instruction each in the order `sched` (any number of requests, any order, any cut `cs` of the bodies
   into the pieces written one by one).
   SAFETY, for ALL states, queries, schedules, cuts and at every moment: a response that has been written is the body
   of that request alone, hence parses to exactly its expected samples. *)
Theorem C36_overlap_safe : forall st qs (cs : list (list bytes)) sched i q body, wf_state st ->
  Forall2 (fun q c => concat c = body_of st q) qs cs ->
  nth_error qs i = Some q -> nth_error (CC.responses CC.PerRequest cs sched) i = Some (Some body) ->
  body = body_of st q /\ parse body = Some (expected_samples st q).
Proof. exact overlapped_safe. Qed.
Print Assumptions C36_overlap_safe.

(* ... and no request is held up or starved of its body by another: once it has executed its instructions
   (number of pieces + 4) its response is there, whatever else is in the schedule *)
Theorem C36_overlap_done : forall cs sched i c,
  nth_error cs i = Some c -> (length c + 4 <= count_occ Nat.eq_dec sched i)%nat ->
  nth_error (CC.responses CC.PerRequest cs sched) i = Some (Some (concat c)).
Proof. exact per_request_done. Qed.
Print Assumptions C36_overlap_done.

(* together, for the handler model (one piece per rendered line): any interleaving, then completion, gives every
   request the sequential body *)
Theorem C36_overlap_sequential : forall st qs sched,
  CC.overlapped_bodies CC.PerRequest st qs sched = map (fun q => Some (body_of st q)) qs.
Proof. exact overlapped_sequential. Qed.
Print Assumptions C36_overlap_sequential.

(* the buffer as a field of Metrics reused between scrapes and "protected" by RLock held for the whole handler (a read
   lock does not exclude other readers): a request receives a body that is not its own and whose samples are not the
   expected ones (two scrapes of two paths; the second resets the buffer while the first is writing) *)
Theorem C36_shared_buffer_rlock_refuted :
  exists st qs sched i q body ss, wf_state st /\ nth_error qs i = Some q /\
    nth_error (CC.overlapped_bodies CC.SharedRLock st qs sched) i = Some (Some body) /\
    body <> body_of st q /\ parse body = Some ss /\ length ss <> length (expected_samples st q).
Proof. exact shared_rlock_refuted. Qed.
Print Assumptions C36_shared_buffer_rlock_refuted.

(* non-vacuity: two different non-empty scrapes interleaved line by line; and the shared buffer is invisible as long as
   scrapes come one after the other *)
Example C36_example_overlap :
  CC.overlapped_bodies CC.PerRequest wit_st wit_qs [0; 1; 0; 1; 0; 1; 0; 1; 0; 1; 1; 1; 0]%nat = map (fun q => Some (body_of wit_st q)) wit_qs
  /\ map (fun q => length (expected_samples wit_st q)) wit_qs = [14; 7]%nat
  /\ Forall2 (fun q c => concat c = body_of wit_st q) wit_qs (map (CC.scrape_chunks wit_st) wit_qs).
Proof. exact overlapped_example. Qed.
Example C36_example_shared_sequential :
  CC.overlapped_bodies CC.SharedRLock wit_st wit_qs [] = map (fun q => Some (body_of wit_st q)) wit_qs.
Proof. exact shared_rlock_sequential_example. Qed.
