(* C36 — Metrics exposition is always valid and faithful. *)
From Coq Require Import List ZArith Bool.
Require Import MTX.Model.C36_Metrics MTX.Proofs.C36_Metrics.
Import ListNotations.
Local Open Scope Z_scope.

(* For ALL label values (any bytes: quotes, backslashes, newlines, invalid UTF-8), all identifier-shaped metric names
   and label keys, and all value tokens: the text the code writes (comment lines, blank lines, sample lines with the
   repaired label escaping) parses back, with a parser of the Prometheus text format, to exactly the samples that
   were rendered — same names, same label values, same values, nothing more. *)
Theorem C36_parse_render : forall items, Forall wf_item items ->
  parse (render escape_label items) = Some (samples_of items).
Proof. exact parse_render. Qed.
Print Assumptions C36_parse_render.

(* the value token of an integer counter (strconv.FormatInt) reads back as the counter *)
Theorem C36_value_faithful : forall z, parse_int (format_int z) = Some z.
Proof. exact parse_format_int. Qed.
Print Assumptions C36_value_faithful.

Theorem C36_label_value_roundtrip : forall v rest, read_value (escape_label v ++ 34 :: rest) = Some (v, rest).
Proof. exact read_value_escape. Qed.
Print Assumptions C36_label_value_roundtrip.

(* the code before the fix (label values written raw) violates the statement: witness path name  a"} 1\nx{y="  *)
Theorem C36_parse_render_raw_refuted : exists items, Forall wf_item items /\
  parse (render raw items) <> Some (samples_of items).
Proof. exact parse_render_raw_refuted. Qed.
Print Assumptions C36_parse_render_raw_refuted.

Example C36_example :
  let s := {| s_name := [112; 97; 116; 104; 115]; s_tags := Some [([110; 97; 109; 101], [97; 34; 10; 92])]; s_value := format_int (-42) |} in
  render escape_label [Comment [80]; Sample s; Blank]
  = [35; 32; 80; 10] ++ [112; 97; 116; 104; 115; 123; 110; 97; 109; 101; 61; 34; 97; 92; 34; 92; 110; 92; 92; 34; 125; 32; 45; 52; 50; 10] ++ [10]
  /\ wf_item (Sample s).
Proof.
  split; [vm_compute; reflexivity|]. repeat split; simpl; try discriminate.
  - constructor; [|constructor]. split; [discriminate|reflexivity].
  - vm_compute. intros [H|[H|[H|[]]]]; discriminate.
Qed.
