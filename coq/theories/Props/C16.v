(* C16 — At most one publisher per path; replaced publishers are cut off.
   Model: Model/PathSM.v (the path event loop as a step function), alwaysAvailable paths included.
   Manager level (the life of a path NAME across the instances that reloads create for it): Model/C16_Names.v.
   Only statements here. *)
From Coq Require Import List ZArith.
Require Import MTX.Lib.Trace MTX.Model.PathSM MTX.Proofs.PathSM MTX.Proofs.PathSM_Thms MTX.Proofs.PathSM_Teardown.
Require Import MTX.Model.C16_Names MTX.Proofs.C16_Names.
Import ListNotations.
Local Open Scope Z_scope.

(* after every history: a static-source path never has a publisher; on a publisher path that is not
   alwaysAvailable a stream exists iff a (single: `option`) publisher is attached; an alwaysAvailable path
   has its stream from creation until it closes *)
Theorem C16_one_source : forall cf ops,
  conf_ok cf = true ->
  let s := final step (init_state cf) ops in
  (c_static cf = true -> s_source s = None) /\
  (c_static cf = false -> c_aa cf = false -> (s_source s = None <-> s_stream s = None)) /\
  (c_aa cf = true -> s_closed s = false -> s_stream s <> None).
Proof. exact (c16_one_source true). Qed.
Print Assumptions C16_one_source.

(* after every history, the stream's current sub-stream (the only one whose writes reach readers) is the one
   of the attached publisher; without publisher: the ready static source's, else the offline one of an
   alwaysAvailable stream; none without stream.  So the sub-stream of a replaced or removed publisher is
   never the current one once the step that replaced / removed it is over. *)
Theorem C16_current_substream : forall cf ops,
  conf_ok cf = true ->
  let s := final step (init_state cf) ops in s_sub s = expected_sub s.
Proof. exact (c16_current_substream true). Qed.
Print Assumptions C16_current_substream.

(* overridePublisher = false: a second publisher is answered "already publishing" and nothing changes *)
Theorem C16_reject_when_busy : forall s q p ok old,
  s_closed s = false -> c_static (s_conf s) = false -> c_override (s_conf s) = false ->
  s_source s = Some old ->
  step s (AddPublisher q p ok) = (s, [EAnswer q (AErr E_BUSY)]).
Proof. exact (c16_reject_when_busy true). Qed.
Print Assumptions C16_reject_when_busy.

(* overridePublisher = true, not alwaysAvailable: in the events of the step, the old publisher is closed, the old
   stream is torn down (EPathNotReady) and every attached reader is closed BEFORE the new stream (a fresh
   generation g) is created, and the new publisher is answered with that new stream afterwards; it becomes the
   source and its sub-stream the current one *)
Theorem C16_override_closes_first : forall s q p ok old,
  s_closed s = false -> c_static (s_conf s) = false -> c_aa (s_conf s) = false ->
  c_override (s_conf s) = true -> s_source s = Some old ->
  let evs := snd (step s (AddPublisher q p ok)) in
  let s' := fst (step s (AddPublisher q p ok)) in
  let g := s_nextgen s in
  Before (EPubClosed old) (EPathReady g) evs /\
  Before EPathNotReady (EPathReady g) evs /\
  (forall r, In r (s_readers s) -> Before (EReaderClosed r) (EPathReady g) evs) /\
  Before (EPathReady g) (EAnswer q (AStream g)) evs /\
  s_source s' = Some p /\ s_stream s' = Some g /\ s_sub s' = SPub p.
Proof. exact (c16_override_closes_first true). Qed.
Print Assumptions C16_override_closes_first.

(* overridePublisher = true, alwaysAvailable: the old publisher is closed, the stream and its readers stay, and
   afterwards the current sub-stream is the new publisher's or - when SubStream.Initialize refuses the new
   publisher's tracks (ok = false) - the offline one, no publisher being attached: never the old one's *)
Theorem C16_override_always_available : forall s q p ok old g,
  s_closed s = false -> c_static (s_conf s) = false -> c_aa (s_conf s) = true ->
  c_override (s_conf s) = true -> s_source s = Some old -> s_stream s = Some g ->
  let evs := snd (step s (AddPublisher q p ok)) in
  let s' := fst (step s (AddPublisher q p ok)) in
  In (EPubClosed old) evs /\
  s_stream s' = Some g /\
  (forall r, In r (s_readers s) -> In r (s_readers s')) /\
  if ok then s_source s' = Some p /\ s_sub s' = SPub p /\ In (EAnswer q (AStream g)) evs
  else s_source s' = None /\ s_sub s' = SOffline /\ In (EAnswer q (AErr E_INCOMPAT)) evs.
Proof. exact (c16_override_aa true). Qed.
Print Assumptions C16_override_always_available.

(* non-vacuity: a replaced publisher with two readers *)
Example C16_example :
  let cf := mkConf false false true 0 false false false false false false false in
  snd (run cf [AddPublisher 1 1 true; AddReader 2 1; AddReader 3 2; AddPublisher 4 2 true]) =
  [EOpen HAvail; EOpen HOnline; EPathReady 0; EAnswer 1 (AStream 0); EAnswer 2 (AStream 0); EAnswer 3 (AStream 0);
   EPubClosed 1; EPathNotReady; EClose HOnline; EReaderClosed 1; EReaderClosed 2; EClose HAvail;
   EOpen HAvail; EOpen HOnline; EPathReady 1; EAnswer 4 (AStream 1)].
Proof. vm_compute. reflexivity. Qed.

(* non-vacuity, alwaysAvailable: publisher 1 is replaced by a publisher whose tracks are refused; the reader
   stays, nobody is attached, the offline sub-stream is the current one; then publisher 3 attaches *)
Example C16_example_always_available :
  let cf := mkConf false false true 0 false false false false false false true in
  let r := run cf [AddPublisher 1 1 true; AddReader 2 1; AddPublisher 3 2 false] in
  let r' := run cf [AddPublisher 1 1 true; AddReader 2 1; AddPublisher 3 2 false; AddPublisher 4 3 true] in
  snd r = [EOpen HAvail; EPathReady 0; EOpen HOnline; EAnswer 1 (AStream 0); EAnswer 2 (AStream 0);
           EPubClosed 1; EClose HOnline; EAnswer 3 (AErr E_INCOMPAT)] /\
  s_source (fst r) = None /\ s_sub (fst r) = SOffline /\ s_readers (fst r) = [1] /\
  s_source (fst r') = Some 3 /\ s_sub (fst r') = SPub 3.
Proof. vm_compute. repeat split; reflexivity. Qed.

(* ---- the path NAME: instances created by reloads (Model/C16_Names.v) -------------------------------------
   schedules = every interleaving of: messages handled by the manager goroutine (client requests for the name,
   reloads that keep / hot-reload / recreate / remove / re-add the configuration), clients talking directly to an
   instance they were handed earlier, and single tear-down actions of a closed instance (each Close() of a
   publisher or reader may take arbitrarily long: any number of other choices may come between two STick).
   doClosePath waits (for every configuration): after EVERY schedule, hence at every instant,
   while an instance is tearing down the name has no other instance (the replacement is created only after the
   old instance finished its tear-down); so at most one instance exists, at most one is occupied (publisher,
   stream or readers), at most one publisher is attached to the name and at most one stream exists. *)
Theorem C16_name_one_instance : forall cf scs,
  let ns := nfinal wait_always (ninit cf) scs in
  (n_dying ns <> [] -> n_live ns = None) /\
  (length (n_dying ns) <= 1)%nat /\
  (length (instances ns) <= 1)%nat /\
  (length (filter occupied (instances ns)) <= 1)%nat /\
  (length (attached_pubs ns) <= 1)%nat /\
  (length (streams ns) <= 1)%nat.
Proof. exact (c16_name_one_instance wait_always (fun _ => eq_refl)). Qed.
Print Assumptions C16_name_one_instance.

(* every instance of the name, live or closing, is in a state the path loop reaches from its creation: the
   per-instance theorems above (C16_one_source, C16_current_substream, ...) hold for it *)
Theorem C16_name_instances_reachable : forall wp cf scs x,
  In x (instances (nfinal wp (ninit cf) scs)) ->
  exists cf' ops, i_st x = final step (init_state cf') ops.
Proof. exact c16_name_instances_reachable. Qed.
Print Assumptions C16_name_instances_reachable.

(* refuted: waiting only for paths that have a static source ("avoid conflicts between sources" read literally).
   Publisher 1 and a reader are attached; a reload changes maxReaders; publisher 2 arrives before the old
   instance has done anything of its tear-down: both publishers are attached to the name (overridePublisher
   is off), two streams exist, publisher 2 has been accepted and publisher 1 has not been closed. *)
Theorem C16_name_wait_static_only_refuted :
  let cf := pub_conf false 0 in
  let ns := nfinal wait_static_only (ninit cf) race_sched in
  attached_pubs ns = [(1, 2); (0, 1)] /\ streams ns = [(1, 0); (0, 0)] /\
  In (NEv 1 (EAnswer 3 (AStream 0))) (ntrace wait_static_only (ninit cf) race_sched) /\
  ~ In (NEv 0 (EPubClosed 1)) (ntrace wait_static_only (ninit cf) race_sched).
Proof. exact race_static_only. Qed.
Print Assumptions C16_name_wait_static_only_refuted.

(* non-vacuity: the same schedule with the wait: publisher 2's request is not handled while instance 0 tears down *)
Example C16_name_example :
  let ns := nfinal wait_always (ninit (pub_conf false 0)) race_sched in
  attached_pubs ns = [(0, 1)] /\ n_live ns = None.
Proof. vm_compute. split; reflexivity. Qed.
