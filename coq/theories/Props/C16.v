From Coq Require Import List ZArith.
Require Import MTX.Model.PathSM.
