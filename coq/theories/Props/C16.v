(* C16 — At most one publisher per path; replaced publishers are cut off.
   Model: Model/PathSM.v (the path event loop as a step function). Only statements here. *)
From Coq Require Import List ZArith.
Require Import MTX.Lib.Trace MTX.Model.PathSM MTX.Proofs.PathSM MTX.Proofs.PathSM_Thms.
Import ListNotations.
Local Open Scope Z_scope.

(* after every history: a static-source path never has a publisher; on a publisher path a stream exists
   iff a (single: `option`) publisher is attached *)
Theorem C16_one_source : forall cf ops,
  conf_ok cf = true ->
  let s := final step (init_state cf) ops in
  (c_static cf = true -> s_source s = None) /\
  (c_static cf = false -> (s_source s = None <-> s_stream s = None)).
Proof. exact (c16_one_source true). Qed.
Print Assumptions C16_one_source.

(* overridePublisher = false: a second publisher is answered "already publishing" and nothing changes *)
Theorem C16_reject_when_busy : forall s q p old,
  s_closed s = false -> c_static (s_conf s) = false -> c_override (s_conf s) = false ->
  s_source s = Some old ->
  step s (AddPublisher q p) = (s, [EAnswer q (AErr E_BUSY)]).
Proof. exact (c16_reject_when_busy true). Qed.
Print Assumptions C16_reject_when_busy.
