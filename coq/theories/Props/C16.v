(* C16 — At most one publisher per path; replaced publishers are cut off.
   Model: Model/PathSM.v (the path event loop as a step function). Only statements here. *)
From Coq Require Import List ZArith.
Require Import MTX.Lib.Trace MTX.Model.PathSM MTX.Proofs.PathSM MTX.Proofs.PathSM_Thms MTX.Proofs.PathSM_Teardown.
Import ListNotations.
Local Open Scope Z_scope.

(* after every history: a static-source path never has a publisher; on a publisher path a stream exists
   iff a (single: `option`) publisher is attached *)
Theorem C16_one_source : forall cf ops,
  conf_ok cf = true ->
  let s := final step (init_state cf) ops in
  (c_static cf = true -> s_source s = None) /\
  (c_static cf = false -> (s_source s = None <-> s_stream s = None)).
Proof. exact (c16_one_source true). Qed.
Print Assumptions C16_one_source.

(* overridePublisher = false: a second publisher is answered "already publishing" and nothing changes *)
Theorem C16_reject_when_busy : forall s q p old,
  s_closed s = false -> c_static (s_conf s) = false -> c_override (s_conf s) = false ->
  s_source s = Some old ->
  step s (AddPublisher q p) = (s, [EAnswer q (AErr E_BUSY)]).
Proof. exact (c16_reject_when_busy true). Qed.
Print Assumptions C16_reject_when_busy.

(* overridePublisher = true: in the events of the step, the old publisher is closed, the old stream is torn
   down (EPathNotReady) and every attached reader is closed BEFORE the new stream (a fresh generation g)
   is created, and the new publisher is answered with that new stream afterwards; it becomes the source *)
Theorem C16_override_closes_first : forall s q p old,
  s_closed s = false -> c_static (s_conf s) = false -> c_override (s_conf s) = true -> s_source s = Some old ->
  let evs := snd (step s (AddPublisher q p)) in
  let s' := fst (step s (AddPublisher q p)) in
  let g := s_nextgen s in
  Before (EPubClosed old) (EPathReady g) evs /\
  Before EPathNotReady (EPathReady g) evs /\
  (forall r, In r (s_readers s) -> Before (EReaderClosed r) (EPathReady g) evs) /\
  Before (EPathReady g) (EAnswer q (AStream g)) evs /\
  s_source s' = Some p /\ s_stream s' = Some g.
Proof. exact (c16_override_closes_first true). Qed.
Print Assumptions C16_override_closes_first.

(* non-vacuity: a replaced publisher with two readers *)
Example C16_example :
  let cf := mkConf false false true 0 false false false false false false in
  snd (run cf [AddPublisher 1 1; AddReader 2 1; AddReader 3 2; AddPublisher 4 2]) =
  [EOpen HAvail; EOpen HOnline; EPathReady 0; EAnswer 1 (AStream 0); EAnswer 2 (AStream 0); EAnswer 3 (AStream 0);
   EPubClosed 1; EPathNotReady; EClose HOnline; EReaderClosed 1; EReaderClosed 2; EClose HAvail;
   EOpen HAvail; EOpen HOnline; EPathReady 1; EAnswer 4 (AStream 1)].
Proof. vm_compute. reflexivity. Qed.
